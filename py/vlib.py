"""Shared harness for the Coq-based checks of /verif.

Everything a check needs besides its own generator / runner:
  * Coq literal emitters (Python value -> Gallina term text),
  * building the development and compiling one property file (capturing Print Assumptions),
  * running the executable model inside Coq on generated cases (sharded, parallel, vm_compute)
    and reading the results back as JSON values,
  * running the implementation in a fresh subprocess bound to /repo/src,
  * evidence / replay / known-findings handling and the VIOLATION protocol.
"""
from __future__ import annotations

import concurrent.futures as cf
import hashlib
import json
import os
import random
import re
import shutil
import subprocess
import sys
import time
from fractions import Fraction
from pathlib import Path

VERIF = Path(__file__).resolve().parent.parent
COQ = VERIF / "coq"
BUILD = VERIF / "build"
EVID = VERIF / "evidence"
REPO = Path(os.environ.get("VERIF_REPO", "/repo"))
PY = os.environ.get("VERIF_PYTHON", "/venv/bin/python")
NPROC = int(os.environ.get("VERIF_JOBS", "16"))
GUARD = "DECAYLANGUAGE_VERIF"

FORBIDDEN = re.compile(
    r"\b(Admitted|admit|Axiom|Axioms|Parameter|Parameters|Conjecture|Conjectures|"
    r"Admit Obligations|bypass_check|Unset Guard Checking|Unset Positivity Checking|"
    r"Unset Universe Checking|type-in-type|impredicative-set)\b"
)


# ----------------------------------------------------------------------------- literals
def cstr(s: str) -> str:
    """Coq `string` literal for an arbitrary str (non printable-ASCII via ascii_of_nat)."""
    if all(32 <= ord(c) <= 126 for c in s):
        return '"' + s.replace('"', '""') + '"'
    parts = []
    cur = ""
    for c in s:
        if 32 <= ord(c) <= 126:
            cur += c
        else:
            if cur:
                parts.append('"' + cur.replace('"', '""') + '"')
                cur = ""
            b = c.encode("utf-8")
            for byte in b:
                parts.append(f"(String (ascii_of_nat {byte}) EmptyString)")
    if cur:
        parts.append('"' + cur.replace('"', '""') + '"')
    return "(" + " ++ ".join(parts) + ")%string" if parts else '""'


def cz(n: int) -> str:
    return f"({n})%Z"


def cnat(n: int) -> str:
    assert 0 <= n < 5000, n
    return f"{n}%nat"


def cpos(n: int) -> str:
    assert n > 0
    return f"{n}%positive"


def cq(x) -> str:
    f = Fraction(x)
    return f"(Qmake ({f.numerator})%Z {f.denominator}%positive)"


def cbool(b: bool) -> str:
    return "true" if b else "false"


def clist(items) -> str:
    return "[" + "; ".join(items) + "]"


def copt(x, f=lambda t: t) -> str:
    return "None" if x is None else f"(Some {f(x)})"


def cpair(a: str, b: str) -> str:
    return f"({a}, {b})"


# ----------------------------------------------------------------------------- values
def q(x) -> dict:
    f = Fraction(x)
    return {"q": [f.numerator, f.denominator]}


def qfloat(f: float) -> dict:
    """A float produced by float(<decimal literal with <= 15 significant digits>) names that decimal
    uniquely (DBL_DIG = 15); repr() recovers it, so the exact rational is Fraction(repr(f))."""
    if f != f or f in (float("inf"), float("-inf")):
        return {"err": "nonfinite:" + repr(f)}
    return q(Fraction(repr(f)))


def err(s: str) -> dict:
    return {"err": s}


# ----------------------------------------------------------------------------- coq build
def sh(cmd, timeout=1800, cwd=None, env=None, check=False):
    p = subprocess.run(cmd, shell=isinstance(cmd, str), cwd=cwd, env=env, timeout=timeout,
                       stdout=subprocess.PIPE, stderr=subprocess.STDOUT, text=True)
    if check and p.returncode != 0:
        raise RuntimeError(f"command failed ({p.returncode}): {cmd}\n{p.stdout[-4000:]}")
    return p


def coq_files():
    out = []
    for line in (COQ / "_CoqProject").read_text().split("\n"):
        line = line.strip()
        if line.endswith(".v"):
            out.append(line)
    return out


def ensure_makefile():
    mk = COQ / "Makefile"
    cp = COQ / "_CoqProject"
    if not mk.exists() or mk.stat().st_mtime < cp.stat().st_mtime:
        sh("coq_makefile -f _CoqProject -o Makefile", cwd=COQ, check=True)


def make(targets=(), timeout=3000):
    """Full .vo build of the given targets (all when empty). Returns (ok, log)."""
    ensure_makefile()
    tg = " ".join(targets)
    p = sh(f"timeout {timeout} make -j{NPROC} {tg}", cwd=COQ, timeout=timeout + 60)
    return p.returncode == 0, p.stdout


def write_if_changed(path: Path, text: str) -> bool:
    path.parent.mkdir(parents=True, exist_ok=True)
    if path.exists() and path.read_text() == text:
        return False
    path.write_text(text)
    return True


def hygiene():
    """Reject any axiom-declaring / check-disabling construct in the development."""
    bad = []
    for f in list(COQ.rglob("*.v")):
        txt = f.read_text()
        # strip comments (non nested is enough for our sources; nested handled by loop)
        prev = None
        while prev != txt:
            prev = txt
            txt = re.sub(r"\(\*[^()]*?\*\)", "", txt, flags=re.S)
        for m in FORBIDDEN.finditer(txt):
            bad.append(f"{f.relative_to(VERIF)}: {m.group(0)}")
        # Variable / Hypothesis outside a Section
        depth = 0
        for line in txt.split("\n"):
            s = line.strip()
            if re.match(r"Section\s+\w+\s*\.", s):
                depth += 1
            elif re.match(r"End\s+\w+\s*\.", s) and depth > 0:
                depth -= 1
            elif re.match(r"(Variable|Variables|Hypothesis|Hypotheses|Context)\b", s) and depth == 0:
                bad.append(f"{f.relative_to(VERIF)}: {s[:40]} outside Section")
    return bad


def prove(prop_file: str, timeout=1200):
    """Compile coq/<prop_file> (after its dependencies) and parse its Print Assumptions output.
    Returns dict(ok, theorems=[names], assumptions={name: [axioms]}, log)."""
    vo = prop_file[:-2] + ".vo"
    ok, log = make([vo], timeout=timeout)
    res = {"ok": ok, "theorems": [], "assumptions": {}, "log": log[-6000:], "file": prop_file}
    src = (COQ / prop_file).read_text()
    res["theorems"] = re.findall(r"^\s*(?:Theorem|Corollary)\s+(\w+)", src, flags=re.M)
    if not ok:
        return res
    # re-run coqc on the property file alone to capture what it prints
    p = sh(f"timeout {timeout} coqc -Q . DL {prop_file}", cwd=COQ, timeout=timeout + 30)
    if p.returncode != 0:
        res["ok"] = False
        res["log"] = p.stdout[-6000:]
        return res
    out = p.stdout
    printed = re.findall(r"Print Assumptions\s+(\w+)\s*\.", src)
    chunks = re.split(r"(?m)^(?=Closed under the global context|Axioms:)", out)
    chunks = [c for c in chunks if c.startswith("Closed under") or c.startswith("Axioms:")]
    for name, ch in zip(printed, chunks):
        if ch.startswith("Closed under"):
            res["assumptions"][name] = []
        else:
            axs = re.findall(r"(?m)^([\w.']+)\s*:", ch[len("Axioms:"):])
            res["assumptions"][name] = axs
    if len(chunks) != len(printed):
        res["assumptions_note"] = f"printed={len(printed)} parsed={len(chunks)}"
    return res


# ----------------------------------------------------------------------------- model runs
def _run_shard(args):
    path, timeout = args
    t0 = time.time()
    p = sh(f"ulimit -s unlimited 2>/dev/null || ulimit -s 4000000; timeout {timeout} coqc -Q {COQ} DL {path}", timeout=timeout + 30)
    return path, p.returncode, p.stdout, time.time() - t0


def parse_coq_string_output(out: str):
    """Output of a sequence of `Eval vm_compute in (show ...)`: blocks `     = "....."\n     : string`."""
    vals = []
    for m in re.finditer(r'(?ms)^\s*= "(.*?)"\s*\n\s*: string\s*$', out):
        body = m.group(1).replace('""', '"')
        vals.append(json.loads(body))
    return vals


def run_model(tag: str, imports: list[str], run_fn: str, terms: list[str], shard=1000, timeout=900,
              preamble: str = ""):
    """Evaluate `run_fn term` for every term inside Coq; returns list of JSON values (same order).
    `run_fn` must have type  <input> -> val."""
    d = BUILD / "cases" / tag
    if d.exists():
        shutil.rmtree(d)
    d.mkdir(parents=True)
    jobs = []
    for k in range(0, len(terms), shard):
        part = terms[k:k + shard]
        name = f"cases_{tag}_{k // shard}"
        txt = ["From Coq Require Import String Ascii List ZArith QArith Bool.",
               "From DL Require Import Lib.Val."]
        txt += [f"From DL Require Import {i}." for i in imports]
        txt += ["Import ListNotations.", "Close Scope Q_scope.", "Open Scope string_scope.",
                "Set Printing Width 1000000.", "Set Printing Depth 10000000.", preamble]
        for ti, t in enumerate(part):
            if isinstance(t, (tuple, list)):
                # (definitions, expression): inputs that are evaluated once, in their own commands, before the expression is
                # (a large text read by the model: `Definition x := Eval vm_compute in ...`; "@" in a name is replaced by a
                # suffix unique to the case)
                defs, t = t
                sfx = f"_{k + ti}"
                txt.append(defs.replace("@", sfx))
                t = t.replace("@", sfx)
            txt.append(f"Eval vm_compute in (show (({run_fn}) ({t}))).")
        f = d / f"{name}.v"
        f.write_text("\n".join(txt) + "\n")
        jobs.append((str(f), timeout))
    results = {}
    with cf.ThreadPoolExecutor(max_workers=NPROC) as ex:
        for path, rc, out, dt in ex.map(_run_shard, jobs):
            if rc != 0:
                raise RuntimeError(f"model evaluation failed for {path}:\n{out[-3000:]}")
            results[path] = parse_coq_string_output(out)
    vals = []
    for path, _ in jobs:
        vals.extend(results[path])
    if len(vals) != len(terms):
        raise RuntimeError(f"model returned {len(vals)} results for {len(terms)} cases")
    return vals


# ----------------------------------------------------------------------------- implementation runs
def impl_env(extra=None):
    env = dict(os.environ)
    env["PYTHONPATH"] = str(REPO / "src")
    env["PYTHONHASHSEED"] = env.get("VERIF_HASHSEED", "0")
    env[GUARD] = "1"
    env["PYTHONDONTWRITEBYTECODE"] = "1"
    env["PYTHONWARNINGS"] = "ignore"
    if extra:
        env.update(extra)
    return env


def run_impl(script: str, cases, mode="impl", timeout=3000, extra_env=None, nshards=None):
    """Run `script <mode> in.json out.json` under the implementation's interpreter, sharded."""
    d = BUILD / "impl" / Path(script).stem
    d.mkdir(parents=True, exist_ok=True)
    n = len(cases)
    if nshards is None:
        nshards = max(1, min(NPROC, n // 40))
    shards = [cases[i::nshards] for i in range(nshards)]

    def one(i):
        fin = d / f"in_{mode}_{i}.json"
        fout = d / f"out_{mode}_{i}.json"
        fin.write_text(json.dumps(shards[i]))
        if fout.exists():
            fout.unlink()
        p = subprocess.run([PY, str(VERIF / "py" / script), mode, str(fin), str(fout)],
                           env=impl_env(extra_env), timeout=timeout,
                           stdout=subprocess.PIPE, stderr=subprocess.STDOUT, text=True)
        if p.returncode != 0 or not fout.exists():
            raise RuntimeError(f"implementation runner failed ({script} {mode}):\n{p.stdout[-4000:]}")
        return json.loads(fout.read_text())

    with cf.ThreadPoolExecutor(max_workers=nshards) as ex:
        outs = list(ex.map(one, range(nshards)))
    res = [None] * n
    for i in range(nshards):
        for j, v in enumerate(outs[i]):
            res[i + j * nshards] = v
    return res


# ----------------------------------------------------------------------------- reporting
def load_known():
    p = VERIF / "KNOWN_FINDINGS.json"
    if not p.exists():
        return []
    return json.loads(p.read_text()).get("findings", [])


class Check:
    """Bookkeeping for one property check run."""

    def __init__(self, pid: str, tier: str, seed: int):
        self.pid, self.tier, self.seed = pid, tier, seed
        self.t0 = time.time()
        self.violations = []        # (signature, replay_path, found_input: bool, message)
        self.known_hits = []
        self.cov = {"obligations": 0, "discharged": 0, "checker_cmd": "", "trusted_base": [],
                    "samples": [], "evaluations": 0, "distinct_nontrivial": 0, "rule": "",
                    "traces_validated_against_impl": 0}
        self.assumptions = []
        self.notes = {}
        self.rng = random.Random(seed)
        (EVID / "replay").mkdir(parents=True, exist_ok=True)

    # -- proofs
    def proofs(self, prop_file: str, extra_trusted=()):
        bad = hygiene()
        res = prove(prop_file)
        n = len(res["theorems"])
        self.cov["obligations"] += n
        self.cov["checker_cmd"] = (f"cd /verif/coq && make -j{NPROC} {prop_file[:-2]}.vo "
                                   f"&& coqc -Q . DL {prop_file}  (Coq 8.16.1, full .vo build, Print Assumptions parsed)")
        self.cov["theorems"] = res["theorems"]
        self.cov["print_assumptions"] = res["assumptions"]
        tb = ["Coq 8.16.1 kernel + vm_compute (no native_compute)"]
        axs = sorted({a for l in res["assumptions"].values() for a in l})
        tb.append("axioms reported by Print Assumptions: " + (", ".join(axs) if axs else "none (closed under the global context)"))
        tb += list(extra_trusted)
        self.cov["trusted_base"] = tb
        if bad:
            self.broken_tie("hygiene", "forbidden construct in the Coq development: " + "; ".join(bad[:5]))
            return res
        if not res["ok"]:
            self.cov["discharged"] += 0
            self.notes["proof_log"] = res["log"][-3000:]
            self.proof_failed = res
            return res
        self.cov["discharged"] += n
        return res

    # -- violations
    def replay_path(self, payload: dict) -> Path:
        h = hashlib.sha1(json.dumps(payload, sort_keys=True, default=str).encode()).hexdigest()[:12]
        p = EVID / "replay" / f"{self.pid}-{h}.json"
        p.write_text(json.dumps(payload, indent=1, default=str))
        return p

    def violation(self, signature: str, payload: dict, found_input: bool, message: str):
        payload = dict(payload)
        payload.update({"property": self.pid, "signature": signature, "message": message,
                        "found_failing_input": found_input, "seed": self.seed, "tier": self.tier})
        for k in load_known():
            if k.get("status", "known") == "known" and k["property"] == self.pid and k["signature"] == signature:
                self.known_hits.append((signature, k.get("what", message)))
                return
        self.violations.append((signature, self.replay_path(payload), found_input, message))

    def broken_tie(self, what: str, detail: str, payload=None):
        """A proof obligation / translator / correspondence no longer checks and no failing input was found."""
        pl = {"broken": what, "detail": detail}
        if payload:
            pl.update(payload)
        self.violation("broken:" + what, pl, False, detail)

    # -- finish
    def finish(self, level="proof", assumptions=()):
        wall = time.time() - self.t0
        cov = dict(self.cov)
        cov.update(self.notes)
        ev = {"property_id": self.pid, "tier": self.tier, "seed": self.seed, "level": level,
              "coverage": cov, "assumptions": list(assumptions) + self.assumptions, "wall_s": round(wall, 2),
              "violations": len(self.violations)}
        if self.known_hits:
            ev["coverage"]["known_findings_hit"] = [s for s, _ in self.known_hits]
        EVID.mkdir(exist_ok=True)
        (EVID / f"{self.pid}.json").write_text(json.dumps(ev, indent=1, default=str))
        seen = set()
        for sig, what in self.known_hits:
            if sig not in seen:
                print(f"KNOWN-FINDING: property={self.pid} {what}")
                seen.add(sig)
        for sig, path, found, msg in self.violations:
            tail = "" if found else " no-failing-input-found"
            print(f"VIOLATION property={self.pid} replay={path} [{sig}] {msg[:300]}{tail}")
        print(f"{self.pid} {self.tier}: obligations={cov['obligations']} discharged={cov['discharged']} "
              f"evaluations={cov['evaluations']} violations={len(self.violations)} wall={wall:.1f}s")
        return 1 if self.violations else 0


def std_args(argv=None):
    import argparse
    ap = argparse.ArgumentParser()
    ap.add_argument("--tier", default=os.environ.get("VERIF_TIER", "quick"), choices=["quick", "thorough"])
    ap.add_argument("--seed", type=int, default=int(os.environ.get("VERIF_SEED", "20260929")))
    ap.add_argument("--replay", default=None)
    return ap.parse_args(argv)


def compare(check: Check, cases, impl_vals, model_vals, describe=lambda c: c, max_report=5):
    """Correspondence: list of indices where model and implementation differ."""
    diffs = [i for i, (a, b) in enumerate(zip(impl_vals, model_vals)) if a != b]
    check.cov["evaluations"] += len(cases)
    check.cov["traces_validated_against_impl"] += len(cases) - len(diffs)
    return diffs


# ----------------------------------------------------------------------------- value comparison
def fl(x: float) -> dict:
    """An implementation float, compared with a model rational r by  float(r) == x  (one correctly
    rounded conversion; float(Fraction) is correctly rounded)."""
    if x != x:
        return {"f": "nan"}
    if x in (float("inf"), float("-inf")):
        return {"f": repr(x)}
    return {"f": float(x).hex()}


def veq(a, b) -> bool:
    """impl value a  vs  model value b."""
    if isinstance(a, dict) and "f" in a:
        if isinstance(b, dict) and "q" in b:
            if a["f"] in ("nan", "inf", "-inf"):
                return False
            try:
                return float(Fraction(b["q"][0], b["q"][1])) == float.fromhex(a["f"])
            except OverflowError:
                return False
        return False
    if isinstance(a, list) and isinstance(b, list):
        return len(a) == len(b) and all(veq(x, y) for x, y in zip(a, b))
    if isinstance(a, dict) and isinstance(b, dict):
        return a == b
    return type(a) == type(b) and a == b


def compare_veq(check: "Check", cases, impl_vals, model_vals):
    diffs = [i for i, (a, b) in enumerate(zip(impl_vals, model_vals)) if not veq(a, b)]
    check.cov["evaluations"] += len(cases)
    check.cov["traces_validated_against_impl"] += len(cases) - len(diffs)
    return diffs


def std_failure(ck: "Check", prop_file: str, cases, diffs, impl_vals, model_vals, oracle_hits, script: str,
                sig_of=lambda c, v: "oracle"):
    """Common tail of a check: turn broken proof / correspondence into VIOLATION lines.
    oracle_hits: list of (case, description) found by the implementation-level oracle."""
    pf = getattr(ck, "proof_failed", None)
    if not diffs and not pf and not oracle_hits:
        return
    if oracle_hits:
        oracle_hits = sorted(oracle_hits, key=lambda cv: len(json.dumps(cv[0], default=str)))
        seen = set()
        for c, v in oracle_hits:
            sig = sig_of(c, v)
            if sig in seen:
                continue
            seen.add(sig)
            ck.violation(sig, {"cases": [c], "oracle": v,
                               "replay_cmd": f"cd /verif && ./check {ck.pid} --replay <this file>"}, True,
                         f"{v if isinstance(v, str) else json.dumps(v, default=str)[:160]} on {json.dumps(c, default=str)[:200]}")
        return
    if diffs:
        i = diffs[0]
        ck.broken_tie("correspondence", f"{len(diffs)} of {len(cases)} cases: model and implementation differ",
                      {"cases": [cases[i]], "impl": impl_vals[i], "model": model_vals[i],
                       "theorem_or_correspondence": f"correspondence of {script} (model vs implementation)",
                       "all_diff_indices": diffs[:50]})
    if pf:
        ck.broken_tie("proof", f"{prop_file} no longer compiles: a proof obligation fails",
                      {"theorem_or_correspondence": prop_file, "log": pf["log"][-3000:]})


# ----------------------------------------------------------------------------- JSON-like metadata <-> val
def cval(x) -> str:
    """Python JSON-like object -> Coq `val` term."""
    if x is None:
        return "VNone"
    if isinstance(x, bool):
        return f"(VBool {cbool(x)})"
    if isinstance(x, int):
        return f"(VInt {cz(x)})"
    if isinstance(x, Fraction):
        return f"(VQ ({x.numerator})%Z {x.denominator}%positive)"
    if isinstance(x, str):
        return f"(VStr {cstr(x)})"
    if isinstance(x, (list, tuple)):
        return "(VList " + clist([cval(e) for e in x]) + ")"
    if isinstance(x, dict):
        return "(VList [VStr \"#dict\"; VList " + clist(["(VList [VStr " + cstr(k) + "; " + cval(v) + "])" for k, v in x.items()]) + "])"
    raise TypeError(type(x))


def jval(x):
    """Python object -> the JSON value `show` prints for the corresponding val."""
    if x is None or isinstance(x, (bool, int, str)):
        return x
    if isinstance(x, Fraction):
        return q(x)
    if isinstance(x, float):
        return fl(x)
    if isinstance(x, (list, tuple)):
        return [jval(e) for e in x]
    if isinstance(x, dict):
        return ["#dict", [[k, jval(v)] for k, v in x.items()]]
    return {"err": "unrepresentable:" + type(x).__name__}
