#!/usr/bin/env python3
"""C11 — Class, dictionary and parser forms of a decay convert into each other losslessly.

proof:          coq/Props/C11.v (model coq/Decay/ChainClass.v)
correspondence: modes with metadata (to_dict / from_dict), final-state constructors (string / list / mapping /
                PDG IDs), chains: to_dict, from_dict(to_dict), arbitrary chain dictionaries (multi-mode -> error).
"""
from __future__ import annotations

import itertools
import json
import sys
from fractions import Fraction
from pathlib import Path

sys.path.insert(0, str(Path(__file__).resolve().parent))
from c04 import dec, enc, rand_json, rand_label  # noqa: E402


def mode_obs(m):
    from vlib import jval
    return [jval(m.bf), m.daughters.to_list(), len(m.daughters), [[k, jval(v)] for k, v in m.metadata.items()]]


def dict_val(d):
    """chain dict -> JSON of vcdict (bf exact)"""
    from vlib import jval
    (m, modes), = d.items()
    out = []
    for md in modes:
        fs = [x if isinstance(x, str) else dict_val(x) for x in md["fs"]]
        meta = [[k, jval(v)] for k, v in md.items() if k not in ("bf", "fs")]
        out.append([jval(md["bf"]), fs, meta])
    return [m, out]


def _normdict(d):
    """chain dict with daughters sorted (names before sub-dicts compare by their mother name)"""
    (m, modes), = d.items()
    out = []
    for md in modes:
        fs = sorted([x if isinstance(x, str) else _normdict(x) for x in md["fs"]], key=lambda x: (x if isinstance(x, str) else next(iter(x)), not isinstance(x, str)))
        o = dict(md)
        o["fs"] = fs
        if isinstance(o.get("model_params"), list) and not o["model_params"]:
            o["model_params"] = []
        out.append(o)
    return {m: out}


def dict_val_f(d):
    from vlib import fl
    (m, modes), = d.items()
    out = []
    for md in modes:
        fs = [x if isinstance(x, str) else dict_val_f(x) for x in md["fs"]]
        meta = [[k, [fl(y) if isinstance(y, float) else y for y in v] if isinstance(v, list) else v] for k, v in md.items() if k not in ("bf", "fs")]
        out.append([fl(md["bf"]), fs, meta])
    return [m, out]


def build_dict(t):
    """case encoding of a chain dict: [mother, [[bf, fs, info], ...]] -> python dict"""
    m, modes = t
    return {m: [dict(bf=bf, fs=[x if isinstance(x, str) else build_dict(x) for x in fs], **info) for bf, fs, info in modes]}


def impl_main(mode, fin, fout):
    from vlib import jval
    from decaylanguage import DaughtersDict, DecayChain, DecayMode

    cases = dec(json.loads(Path(fin).read_text()))
    out = []
    for c in cases:
        viol = []
        k = c["kind"]
        try:
            if k == "mode":
                m = DecayMode(c["bf"], list(c["names"]), **c["info"])
                d = m.to_dict()
                m2 = DecayMode.from_dict(d)
                res = [dict_val({"_": [d]})[1][0], mode_obs(m2)]
                if mode == "oracle":
                    exp_meta = {"model": "", "model_params": ""}
                    exp_meta.update(c["info"])
                    if exp_meta.get("model_params") is None:
                        exp_meta["model_params"] = ""
                    if m2.bf != m.bf or m2.daughters != m.daughters or dict(m2.metadata) != exp_meta:
                        viol.append("mode round trip loses information")
            elif k == "dd" and c["ctor"] == "hist":
                # a final state changed in place through the mapping interface it inherits: what it reports after every step
                d = DaughtersDict(list(c["names"]))
                res = [[[[a, b] for a, b in d.items()], d.to_list(), len(d)]]
                for op in c["ops"]:
                    if op[0] == "set":
                        d[op[1]] = op[2]
                    elif op[0] == "del":
                        del d[op[1]]
                    elif op[0] == "pop":
                        d.pop(op[1])
                    elif op[0] == "popitem":
                        d.popitem()
                    elif op[0] == "clear":
                        d.clear()
                    elif op[0] == "setdefault":
                        d.setdefault(op[1], op[2])
                    else:
                        d.update(list(op[1]))
                    res.append([[[a, b] for a, b in d.items()], d.to_list(), len(d)])
                    if mode == "oracle" and (d.to_list() != sorted(x for a, b in d.items() for x in [a] * b) or d.to_string() != " ".join(d.to_list())):
                        viol.append("a final state changed in place does not report its daughters (canonical order, multiplicities)")
                        break
            elif k == "dd":
                if c["ctor"] == "string":
                    d = DaughtersDict(c["text"])
                elif c["ctor"] == "list":
                    d = DaughtersDict(list(c["names"]))
                elif c["ctor"] == "map":
                    d = DaughtersDict(dict(c["pairs"]))
                else:
                    d = DecayMode.from_pdgids(0, list(c["ids"])).daughters
                res = [[[a, b] for a, b in d.items()], d.to_list(), len(d)]
                if mode == "oracle" and c["ctor"] != "pdgids":
                    exp = sorted(c["expect"])
                    if d.to_list() != exp or len(d) != len(exp):
                        viol.append("final-state constructors disagree")
            elif k == "chain":
                decays = {n: DecayMode(bf, list(ds), **info) for n, bf, ds, info in c["decays"]}
                dc = DecayChain(c["mother"], decays)
                d = dc.to_dict()
                try:
                    dc2 = DecayChain.from_dict(d)
                    back = [dc2.mother, [[n, mode_obs(m)] for n, m in dc2.decays.items()]]
                    d2 = dict_val(dc2.to_dict())
                except RuntimeError as e:
                    dc2, back, d2 = None, {"err": "RuntimeError"}, None
                res = [dict_val(d), back]
                if mode == "oracle":
                    if dc2 is None:
                        names = [n for n, *_ in c["decays"]]
                        viol.append("F4: chain with a repeated decaying particle cannot be rebuilt from its own dictionary"
                                    if json.dumps(jval(d)).count('"fs"') > len(names) else "from_dict(to_dict()) raises")
                    else:
                        if dc2.mother != dc.mother or d2 != dict_val(d):
                            viol.append("chain round trip changes the dictionary")
                        for n, m in dc2.decays.items():
                            o = decays[n]
                            meta = dict(o.metadata)
                            if meta.get("model_params") is None:
                                meta["model_params"] = ""
                            if m.bf != o.bf or m.daughters != o.daughters or dict(m.metadata) != meta:
                                viol.append("chain round trip loses information")
                                break
            elif k == "parser":
                import c09
                pp = c09.parse_text(c["text"])
                d = pp.build_decay_chains(c["mother"])
                dn = _normdict(d)
                try:
                    dc = DecayChain.from_dict(d)
                    d2 = _normdict(dc.to_dict())
                    res = [dict_val_f(dn), dict_val_f(d2)]
                except RuntimeError:
                    d2 = None
                    res = [dict_val_f(dn), {"err": "RuntimeError"}]
                if mode == "oracle" and d2 != dn:
                    viol.append("parser-produced single-line chain does not convert to the class form and back to the same dictionary")
            elif k == "dict":
                d = build_dict(c["dict"])
                try:
                    dc = DecayChain.from_dict(d)
                    res = [dc.mother, [[n, mode_obs(m)] for n, m in dc.decays.items()]]
                except RuntimeError:
                    res = {"err": "RuntimeError"}
            else:
                res = {"err": "bad case"}
        except Exception as e:
            res = {"err": type(e).__name__}
            if mode == "oracle":
                viol.append("exception " + type(e).__name__)
        out.append(viol if mode == "oracle" else res)
    Path(fout).write_text(json.dumps(out))


def coq_cdict(t):
    from vlib import cstr, clist, cq, cval
    m, modes = t
    ms = []
    for bf, fs, info in modes:
        fsl = clist([f"FName {cstr(x)}" if isinstance(x, str) else f"FSub {coq_cdict(x)}" for x in fs])
        ms.append(f"CM {cq(bf)} {fsl} " + clist([f"({cstr(k)}, {cval(v)})" for k, v in info.items()]))
    return f"(CD {cstr(m)} {clist(ms)})"


def rand_dict(rng, depth, names):
    m = rng.choice(names)
    nm = rng.choice([0, 1, 1, 1, 1, 2])
    modes = []
    for _ in range(nm):
        fs = []
        for _ in range(rng.randint(0, 3)):
            if depth > 0 and rng.random() < 0.4:
                fs.append(rand_dict(rng, depth - 1, names))
            else:
                fs.append(rng.choice(names))
        info = {"model": rng.choice(["PHSP", ""]), "model_params": ""} if rng.random() < 0.7 else {}
        modes.append([Fraction(rng.randint(1, 9), 10), fs, info])
    return [m, modes]


def main():
    import vlib
    import gen_chains
    import tr_particles
    from c12 import coq_chain
    from vlib import Check, cstr, clist, cq, cval, cz

    args = vlib.std_args()
    ck = Check("C11", args.tier, args.seed)
    rng = ck.rng
    tr_particles.main()
    ck.proofs("Props/C11.v", extra_trusted=[
        "hand-written model coq/Decay/ChainClass.v tied by correspondence; py/gen_chains.py generators",
        "PDG-ID table regenerated by py/tr_particles.py"])
    cases = []
    if args.replay:
        cases = dec(json.loads(Path(args.replay).read_text())["cases"])
    else:
        pool = gen_chains.REAL + [rand_label(rng) for _ in range(20)]
        nm = 400 if args.tier == "quick" else 4000
        for _ in range(nm):
            names = [x for x in [rng.choice(pool) for _ in range(rng.randint(0, 5))] for _ in range(rng.randint(1, 4))]
            info = {}
            for _ in range(rng.randint(0, 4)):
                key = rng.choice(["model", "model_params", "study", "year", "zfit", rand_label(rng)])
                info[key] = rand_json(rng) if key != "model_params" or rng.random() < 0.6 else None
            cases.append({"kind": "mode", "bf": Fraction(rng.randint(0, 1000), rng.randint(1, 1000)), "names": names, "info": info})
        nd = 400 if args.tier == "quick" else 4000
        pd = tr_particles.probe()
        ids = [i for i, _ in pd["id_evt"]]
        for _ in range(nd):
            base = [rng.choice(pool) for _ in range(rng.randint(0, 6))]
            names = [x for x in base for _ in range(rng.randint(1, 4))]
            rng.shuffle(names)
            r = rng.random()
            if r < 0.3:
                ws = [" ", "  ", "\t", "\n", " \t "]
                text = rng.choice(["", " "]) + "".join(n + rng.choice(ws) for n in names)
                cases.append({"kind": "dd", "ctor": "string", "text": text, "expect": names})
            elif r < 0.6:
                cases.append({"kind": "dd", "ctor": "list", "names": names, "expect": names})
            elif r < 0.85:
                cnt = {}
                for n in names:
                    cnt[n] = cnt.get(n, 0) + 1
                pairs = [[k, v] for k, v in cnt.items()]
                if rng.random() < 0.3 and pool:
                    pairs.append([rand_label(rng) + "z", rng.choice([0, -1])])
                rng.shuffle(pairs)
                cases.append({"kind": "dd", "ctor": "map", "pairs": pairs, "expect": names})
            else:
                cases.append({"kind": "dd", "ctor": "pdgids", "ids": [rng.choice(ids) for _ in range(rng.randint(1, 6))]})
        for i in ids if args.tier == "thorough" else ids[::5]:
            cases.append({"kind": "dd", "ctor": "pdgids", "ids": [i, i]})
        # final states changed in place (the mapping interface DaughtersDict inherits), observed after every step
        for _ in range(150 if args.tier == "quick" else 1500):
            names = [rng.choice(gen_chains.REAL[:12]) for _ in range(rng.randint(1, 6))]
            st = {}
            for n in names:
                st[n] = st.get(n, 0) + 1
            ops, states = [], [[[a, b] for a, b in st.items()]]
            for _ in range(rng.randint(1, 6)):
                kind = rng.choice(["set", "del", "pop", "popitem", "clear", "setdefault", "update"])
                if kind in ("del", "pop", "popitem") and not st:
                    kind = "setdefault"
                if kind == "set":
                    op = ["set", rng.choice(gen_chains.REAL[:12]), rng.randint(1, 3)]
                    st[op[1]] = op[2]
                elif kind in ("del", "pop"):
                    op = [kind, rng.choice(list(st))]
                    del st[op[1]]
                elif kind == "popitem":
                    op = ["popitem"]
                    st.popitem()
                elif kind == "clear":
                    op = ["clear"]
                    st.clear()
                elif kind == "setdefault":
                    op = ["setdefault", rng.choice(gen_chains.REAL[:12]), rng.randint(1, 2)]
                    st.setdefault(op[1], op[2])
                else:
                    op = ["update", [rng.choice(gen_chains.REAL[:12]) for _ in range(rng.randint(1, 3))]]
                    for n in op[1]:
                        st[n] = st.get(n, 0) + 1
                ops.append(op)
                states.append([[a, b] for a, b in st.items()])
            cases.append({"kind": "dd", "ctor": "hist", "names": names, "ops": ops, "states": states})
        shapes = gen_chains.small_shapes(3, 2)
        if args.tier == "quick":
            shapes = rng.sample(shapes, min(300, len(shapes)))
        for sh in shapes:
            cases.append({"kind": "chain", "mother": sh["mother"], "decays": sh["decays"]})
        nc = 400 if args.tier == "quick" else 4000
        for _ in range(nc):
            c = gen_chains.rand_chain(rng, nmax=rng.choice([2, 4, 8, 12]), mult_max=4, with_rand_json=rand_json,
                                      names=gen_chains.REAL + [rand_label(rng) for _ in range(6)])
            for d in c["decays"]:
                if rng.random() < 0.1:
                    d[3]["model_params"] = None
            cases.append({"kind": "chain", "mother": c["mother"], "decays": c["decays"]})
        for _ in range(300 if args.tier == "quick" else 3000):
            cases.append({"kind": "dict", "dict": rand_dict(rng, 3, ["A", "B", "C", "D", "e", "f"])})
        import decgen
        for _ in range(150 if args.tier == "quick" else 1500):
            stmts, decn, leaves = decgen.rand_tables(rng, nmax=rng.choice([1, 2, 4, 6]), lines_max=1, empty_prob=0.0)
            cases.append({"kind": "parser", "text": decgen.render(stmts), "stmts": stmts, "mother": decn[0]})

    impl = vlib.run_impl("c11.py", enc(cases))

    def term(c):
        k = c["kind"]
        if k == "mode":
            m = f"(mk_mode {cq(c['bf'])} (dd_of_list {clist([cstr(n) for n in c['names']])}) " + clist([f"({cstr(a)}, {cval(v)})" for a, v in c["info"].items()]) + ")"
            return f"let m := {m} in VList [vcmode (mode_to_cm m); vmode (mode_of_cm (mode_to_cm m))]"
        if k == "dd" and c["ctor"] == "hist":
            return "VList " + clist(["vdd_obs (dd_of_zmap " + clist([f"({cstr(a)}, {cz(b)})" for a, b in stt]) + ")" for stt in c["states"]])
        if k == "dd":
            if c["ctor"] == "string":
                return f"vdd_obs (dd_of_string {cstr(c['text'])})"
            if c["ctor"] == "list":
                return f"vdd_obs (dd_of_list {clist([cstr(n) for n in c['names']])})"
            if c["ctor"] == "map":
                return "vdd_obs (dd_of_zmap " + clist([f"({cstr(a)}, {cz(b)})" for a, b in c["pairs"]]) + ")"
            return "match mapM (fun i => zassoc i id_evt) " + clist([cz(i) for i in c["ids"]]) + " with Some l => vdd_obs (dd_of_list l) | None => VErr \"ParticleNotFound\" end"
        if k == "chain":
            ch = coq_chain(c)
            return (f"let c := {ch} in match chain_to_dict 100 (c_decays c) (c_mother c) with None => VErr \"OutOfFuel\" "
                    f"| Some d => VList [vcdict d; vcres (chain_from_dict d)] end")
        if k == "parser":
            # the parser form: the model reads the same text (coq/Dec/Pipeline.v) and builds the chain from its own tables
            T = f"(match read_dec cc sc_of {cstr(c['text'])} with Some (_, T0) => T0 | None => [] end)"
            return (f"match build 60 {T} [] {cstr(c['mother'])} with Some (Some d) => "
                    f"VList [vcdict (sort_cd d); match chain_from_dict d with COk ch => match chain_to_dict 100 (c_decays ch) (c_mother ch) with "
                    f"Some d2 => vcdict (sort_cd d2) | None => VErr \"OutOfFuel\" end | CErr e => VErr e end] | _ => VErr \"build\" end")
        return f"vcres (chain_from_dict {coq_cdict(c['dict'])})"

    pre = """
Fixpoint ins_f (x : fsp) (l : list fsp) : list fsp :=
  let key f := match f with ChainDict.FName n => (n, false) | FSub c => (cd_mother c, true) end in
  match l with
  | [] => [x]
  | y :: r => let '(a, ta) := key x in let '(b, tb) := key y in
              if (String.ltb a b || (String.eqb a b && (negb ta || tb)))%bool then x :: l else y :: ins_f x r
  end.
Fixpoint sort_cd (c : cdict) : cdict :=
  match c with CD m modes => CD m (map (fun md => match md with CM bf fs meta =>
     CM bf (fold_right ins_f [] (map (fun f => match f with ChainDict.FName n => ChainDict.FName n | FSub c' => FSub (sort_cd c') end) fs)) meta end) modes) end.
Definition vcmode (md : cmode) : val :=
  match md with CM bf fs meta =>
    VList [vq bf; VList (map (fun f => match f with FName n => VStr n | FSub c' => vcdict c' end) fs);
           VList (map (fun kv => VList [VStr (fst kv); snd kv]) meta)] end.
"""
    model = vlib.run_model("C11", ["Lib.PyDict", "Decay.Conj", "Decay.GenTables", "Decay.Flatten", "Decay.ChainDict", "Dec.Tables", "Decay.ChainClass", "Gen.GenParticles", "Dec.Pipeline"],
                           "fun v : val => v", [term(c) for c in cases], shard=200,
                           preamble="Definition sc_of (n : string) : option bool := pd_get n (t_selfconj gen_tables)." + pre)
    diffs = vlib.compare_veq(ck, cases, impl, model)
    ck.cov["distinct_nontrivial"] = len({json.dumps(enc(c), sort_keys=True) for c in cases})
    ck.cov["rule"] = ("modes: random final states (multiplicity 1..4) with nested JSON-like metadata incl. model_params=None; "
                      "final states: string (mixed whitespace) / list / mapping (with non-positive counts) / PDG-ID constructors; "
                      "chains: sampled/all small shapes (<=3 decaying particles, multiplicities <=2, re-occurrence) and random chains "
                      "up to 12 decaying particles, multiplicities <=4; arbitrary chain dictionaries incl. 0 and 2 modes per particle")
    ck.cov["samples"] = [enc(cases[0]), enc(cases[len(cases) // 2]), enc(cases[-1])]
    ck.notes["distribution"] = {k: sum(1 for c in cases if c["kind"] == k) for k in ("mode", "dd", "chain", "dict", "parser")}
    ck.notes["dict_errors"] = sum(1 for c, v in zip(cases, impl) if c["kind"] == "dict" and isinstance(v, dict))
    hits = []
    if diffs or getattr(ck, "proof_failed", None):
        sus = [cases[i] for i in diffs] if diffs else cases
        orc = vlib.run_impl("c11.py", enc(sus), mode="oracle")
        hits = [(enc(c), v[0]) for c, v in zip(sus, orc) if v]
    vlib.std_failure(ck, "Props/C11.v", enc(cases), diffs, impl, model, hits, "py/c11.py",
                     sig_of=lambda c, v: "F4:repeated-decaying-particle-not-rebuilt" if v.startswith("F4") else "oracle:" + v)
    sys.exit(ck.finish(assumptions=["metadata keys exclude the reserved bf / fs / daughters"]))


if __name__ == "__main__":
    if len(sys.argv) > 1 and sys.argv[1] in ("impl", "oracle"):
        impl_main(sys.argv[1], sys.argv[2], sys.argv[3])
    else:
        main()
