"""Generator / renderer of .dec statement ASTs (shared by the dec.py properties).

Statement forms (JSON-friendly lists):
  ["Decay", mother, [line, ...]]   line = {"bf": lit, "fs": [names], "photos": bool, "model": word, "params": None | [[kind, text], ...]}
                                   kind in {"num", "word"}
  ["Define", name, lit] ["Alias", a, b] ["ChargeConj", a, b] ["CDecay", m] ["CopyDecay", new, old]
  ["ModelAlias", name, model, params] ["Particle", n, mass, width|None] ["Pythia", kind, mod, par, value]
  ["JetSet", label, lit] ["LS", kind, p] ["BW", p, lit] ["ChangeMass", kind, p, lit] ["IncFactor", kind, p, yn]
  ["LSPW", m, d1, d2, intlit] ["Photos", bool]
"""
from __future__ import annotations

from fractions import Fraction

ALPHA = "abcdefghijklmnopqrstuvwxyzABCDEFGHIJKLMNOPQRSTUVWXYZ0123456789/-+*_().'~"
LETTERS = "abcdefghijklmnopqrstuvwxyzABCDEFGHIJKLMNOPQRSTUVWXYZ"
NUMFORMS = ["1", "1.", ".5", "-0.8", "+3", "20.e12", "2E-4", "0.25", "1.0", "0", "7e2", "3.25e-3", "-.5", "+1.5E+2", "100", "0.333"]
MODELS_SIMPLE = ["PHSP", "VSS", "SVS", "VLL", "PHOTOS_NOT_A_MODEL"]


def lit_value(lit: str) -> Fraction:
    return Fraction(lit)


def rand_label(rng, first_letter=True, maxlen=8):
    n = rng.randint(1, maxlen)
    s = "".join(rng.choice(ALPHA) for _ in range(n))
    if first_letter:
        s = rng.choice(LETTERS) + s[1:]
    return s


def render_params(params):
    if params is None:
        return ""
    return " " + " ".join(t for _, t in params) if params else ""


def render_line(ln):
    parts = [ln["bf"]] + list(ln["fs"])
    if ln.get("photos"):
        parts.append("PHOTOS")
    parts.append(ln["model"])
    return "  " + " ".join(parts) + render_params(ln.get("params")) + ";"


def render_stmt(st):
    k = st[0]
    if k == "Decay":
        return "\n".join([f"Decay {st[1]}"] + [render_line(l) for l in st[2]] + ["Enddecay"])
    if k == "Define":
        return f"Define {st[1]} {st[2]}"
    if k in ("Alias", "ChargeConj", "CopyDecay"):
        return f"{k} {st[1]} {st[2]}"
    if k == "CDecay":
        return f"CDecay {st[1]}"
    if k == "ModelAlias":
        return f"ModelAlias {st[1]} {st[2]}{render_params(st[3])};"
    if k == "Particle":
        return f"Particle {st[1]} {st[2]}" + (f" {st[3]}" if st[3] is not None else "")
    if k == "Pythia":
        return f"{st[1]} {st[2]}:{st[3]}={st[4]}"
    if k == "JetSet":
        return f"JetSetPar {st[1]}={st[2]}"
    if k == "LS":
        return f"{st[1]} {st[2]}"
    if k == "BW":
        return f"BlattWeisskopf {st[1]} {st[2]}"
    if k == "ChangeMass":
        return f"{st[1]} {st[2]} {st[3]}"
    if k == "IncFactor":
        return f"{st[1]} {st[2]} {st[3]}"
    if k == "LSPW":
        return f"SetLineshapePW {st[1]} {st[2]} {st[3]} {st[4]}"
    if k == "Photos":
        return "yesPhotos" if st[1] else "noPhotos"
    raise ValueError(k)


def render(stmts, end=False):
    return "\n".join(render_stmt(s) for s in stmts) + "\n" + ("End\n" if end else "")


# ------------------------------------------------------------------ acyclic table sets
def rand_tables(rng, nmax=8, lines_max=4, names=None, empty_prob=0.12, models=None):
    """Acyclic set of Decay blocks over particles p[0..n) (p[i] decays only to p[j>i] and leaves)."""
    from gen_chains import REAL
    pool = list(names or REAL)
    rng.shuffle(pool)
    n = rng.randint(1, nmax)
    dec = pool[:n]
    leaves = pool[n:n + rng.randint(1, 5)] or ["x0"]
    models = models or [("PHSP", None), ("VSS", None), ("HELAMP", [["num", "1.0"], ["num", "0.0"]]),
                        ("SVS", None), ("PHSP", []), ("VSS_BMIX", [["word", "dm"]]), ("PYTHIA", [["num", "42"]])]
    stmts = []
    for i in range(n):
        lines = []
        if rng.random() >= empty_prob:
            for _ in range(rng.randint(1, lines_max)):
                fs = []
                for _ in range(rng.randint(0, 4)):
                    r = rng.random()
                    if r < 0.45 and i + 1 < n:
                        fs.append(dec[rng.randint(i + 1, n - 1)])
                    else:
                        fs.append(rng.choice(leaves))
                    if rng.random() < 0.25:
                        fs.append(fs[-1])
                mdl, prm = rng.choice(models)
                if prm == []:
                    prm = None
                lines.append({"bf": rng.choice(NUMFORMS[:4] + ["0.25", "1.0", "0.125", "0.5", "0.0625"]), "fs": fs,
                              "photos": rng.random() < 0.3, "model": mdl, "params": prm})
        stmts.append(["Decay", dec[i], lines])
    order = stmts[:]
    rng.shuffle(order)
    return order, dec, leaves
