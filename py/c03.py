#!/usr/bin/env python3
"""C03 — CDecay yields the exact charge conjugate of the referenced decay table.

proof:          coq/Props/C03.v (model coq/Dec/Post.v add_cc / conj_table incl. the visitor's write-back cache)
correspondence: files combining Decay, Alias, ChargeConj (both orientations), CopyDecay and CDecay in shuffled order,
                daughters from the whole EvtGen table + aliases + self-conjugate + unknown names; both switch values.
"""
from __future__ import annotations

import json
import sys
from pathlib import Path

sys.path.insert(0, str(Path(__file__).resolve().parent))
import decgen  # noqa: E402
import decpost  # noqa: E402


def impl_main(mode, fin, fout):
    cases = json.loads(Path(fin).read_text())
    out = []
    for c in cases:
        try:
            p, warns = decpost.parse(c["text"], include_cc=c["include_cc"])
            res = decpost.observe_tables(p)
        except Exception as e:
            res = {"err": type(e).__name__}
        out.append(res)
    Path(fout).write_text(json.dumps(out))


def oracle(c, res, ccname):
    """direct statement of the property from the statements (wf_cc files)"""
    import vlib
    st = c["stmts"]
    pairs = {}
    for s in st:
        if s[0] == "ChargeConj":
            pairs[s[1]] = s[2]
            pairs[s[2]] = s[1]

    def conj(n):
        return pairs[n] if n in pairs else ccname(n)
    if isinstance(res, dict):
        return "exception " + res["err"]
    tabs = {}
    for t in res:
        tabs.setdefault(t[0], t[1])
    decays = [s[1] for s in st if s[0] == "Decay"]
    copies = [s[1] for s in st if s[0] == "CopyDecay"]
    base = set(decays) | {s[1] for s in st if s[0] == "CopyDecay" and s[2] in decays}
    if any(s[0] == "CopyDecay" and s[1] in decays for s in st):
        return None          # a copy shadowed by a Decay block of the same name: outside this simple oracle
    for s in st:
        if s[0] != "CDecay":
            continue
        x = s[1]
        src = conj(x)
        if not c["include_cc"]:
            if x in tabs and x not in base:
                return "conjugate table created although the switch is off"
            continue
        if x in base:
            continue
        if src in base:
            if x not in tabs:
                return "CDecay with a source table produced no table"
            want = [[l[0], [conj(d) for d in l[1]], l[2], l[3]] for l in tabs[src]]
            if not vlib.veq(tabs[x], want) and tabs[x] != want:
                return "conjugated table is not the line-by-line conjugate of its source"
        elif x in tabs:
            return "CDecay without a source table produced a table"
    return None


def gen_cases(rng, tier, evt, selfconj):
    cases = []
    n = 260 if tier == "quick" else 3000
    plain = [e for e in evt if e[0].isalpha() and not selfconj.get(e, False)]
    for _ in range(n):
        stmts = []
        nb = rng.randint(1, 6)
        mothers = []
        aliases = {}
        for i in range(nb):
            base = rng.choice(plain)
            if rng.random() < 0.5:
                a, abar = f"My{i}P", f"My{i}Pbar"
                stmts.append(["Alias", a, base])
                stmts.append(["Alias", abar, base])
                stmts.append(["ChargeConj", a, abar] if rng.random() < 0.5 else ["ChargeConj", abar, a])
                aliases[a] = abar
                mothers.append((a, abar))
            else:
                mothers.append((base, None))
        used = set()
        for m, mbar in mothers:
            if m in used:
                continue
            used.add(m)
            lines = []
            for _ in range(rng.randint(0, 4)):
                fs = []
                for _ in range(rng.randint(0, 4)):
                    r = rng.random()
                    if r < 0.55:
                        fs.append(rng.choice(evt))
                    elif r < 0.75 and aliases:
                        a = rng.choice(list(aliases))
                        fs.append(rng.choice([a, aliases[a]]))
                    elif r < 0.9:
                        fs.append(rng.choice(["Unknown1", "cs_0x", "MyThing"]))
                    else:
                        fs.append(rng.choice(["pi0", "gamma", "K_S0", "eta"]))
                mdl, prm = rng.choice([("PHSP", None), ("VSS", None), ("HELAMP", [["num", "1.0"], ["num", "-0.5"]]), ("SVS", None)])
                lines.append({"bf": rng.choice(["0.5", "0.25", "1.0", "2E-4"]), "fs": fs, "photos": rng.random() < 0.3, "model": mdl, "params": prm})
            stmts.append(["Decay", m, lines])
            r = rng.random()
            if mbar is not None:
                if r < 0.6:
                    stmts.append(["CDecay", mbar])
                elif r < 0.75:
                    stmts.append(["CDecay", mbar])
                    stmts.append(["Decay", mbar, lines[:1]])
            else:
                if r < 0.5:
                    stmts.append(["CDecay", "ccOf" + str(len(stmts))] if rng.random() < 0.15 else ["CDecay", None])
        # resolve database conjugates for plain mothers
        stmts2 = []
        for s in stmts:
            if s[0] == "CDecay" and s[1] is None:
                continue
            stmts2.append(s)
        stmts = stmts2
        if rng.random() < 0.4 and mothers:
            src = rng.choice(mothers)[0]
            stmts.append(["CopyDecay", "MyCopyOf", src])
            if rng.random() < 0.5:
                stmts.append(["ChargeConj", "MyCopyOf", "MyantiCopyOf"] if rng.random() < 0.5 else ["ChargeConj", "MyantiCopyOf", "MyCopyOf"])
                stmts.append(["CDecay", "MyantiCopyOf"])
        if rng.random() < 0.2:
            stmts.append(["CDecay", "MyNoSource"])
        if rng.random() < 0.2:
            # only one of two conjugate states got an alias: the ChargeConj statement names a standard particle in one slot
            base, basebar = rng.choice([("D0", "anti-D0"), ("B0", "anti-B0"), ("K+", "K-"), ("D*+", "D*-"), ("Lambda_c+", "anti-Lambda_c-"), ("anti-B_s0", "B_s0")])
            h = f"MyHalf{len(stmts)}"
            stmts.append(["Alias", h, base])
            stmts.append(["ChargeConj", h, basebar] if rng.random() < 0.5 else ["ChargeConj", basebar, h])
            stmts.append(["Decay", h, [{"bf": "0.5", "fs": [rng.choice([basebar, base, h]), rng.choice(["pi0", "K+", basebar, h])], "photos": False, "model": "PHSP", "params": None}]])
            if rng.random() < 0.7:
                stmts.append(["CDecay", basebar])
        if rng.random() < 0.15:
            # the same CDecay statement twice (two files carrying it handed to one parser, or a copy-and-paste duplicate)
            cds = [st for st in stmts if st[0] == "CDecay"]
            if cds:
                stmts.append(list(rng.choice(cds)))
        rng.shuffle(stmts)
        cases.append({"stmts": stmts, "text": decgen.render(stmts), "include_cc": rng.random() < 0.75})
    return cases


def main():
    import vlib
    import tr_particles
    from vlib import Check
    args = vlib.std_args()
    ck = Check("C03", args.tier, args.seed)
    tr_particles.main()
    ck.proofs("Props/C03.v", extra_trusted=[
        "PARTIAL front end: text -> statement list (Lark) is not modelled; py/decgen.py renders the statements in one canonical layout",
        "hand-written model coq/Dec/Post.v tied by correspondence; particle tables regenerated by py/tr_particles.py"])
    d = tr_particles.probe()
    evt = [n for n, _ in d["evt_id"]]
    selfconj = dict((a, b) for a, b in d["sc"])
    inv = dict((a, b) for a, b in d["inv"])
    id_of = dict((a, b) for a, b in d["evt_id"])
    name_of = dict((a, b) for a, b in d["id_evt"])

    def ccname(n):
        if n in inv:
            return inv[n]
        if n in id_of and -id_of[n] in name_of:
            return name_of[-id_of[n]]
        return f"ChargeConj({n})"
    if args.replay:
        cases = json.loads(Path(args.replay).read_text())["cases"]
    else:
        cases = gen_cases(ck.rng, args.tier, evt, selfconj)
        # database-conjugate CDecay for plain mothers
        for c in cases:
            decs = [s[1] for s in c["stmts"] if s[0] == "Decay"]
            for m in decs:
                cm = ccname(m)
                if not cm.startswith("ChargeConj(") and cm != m and cm not in decs and ck.rng.random() < 0.4 \
                        and not any(s[0] == "ChargeConj" and m in s for s in c["stmts"]):
                    c["stmts"].insert(ck.rng.randrange(len(c["stmts"]) + 1), ["CDecay", cm])
            c["text"] = decgen.render(c["stmts"])
    impl = vlib.run_impl("c03.py", cases)
    decpost.front_end_check(ck, "C03fe", cases)
    pre = "Definition sc_of (n : string) : option bool := pd_get n (t_selfconj gen_tables)."
    terms = [f"vpost (parse_post cc sc_of {'true' if c['include_cc'] else 'false'} {decpost.coq_stmts(c['stmts'])})" for c in cases]
    model = vlib.run_model("C03", ["Lib.PyDict", "Decay.Conj", "Decay.GenTables", "Dec.Tables", "Dec.Syntax", "Dec.Post"],
                           "fun v : val => v", terms, shard=60, preamble=pre)
    diffs = vlib.compare_veq(ck, cases, impl, model)
    ck.cov["distinct_nontrivial"] = len({c["text"] for c in cases if "CDecay" in c["text"]})
    ck.cov["rule"] = ("1..6 Decay blocks on plain EvtGen names or on aliased pairs (Alias+ChargeConj in either orientation), 0..4 lines, "
                      "daughters from the whole EvtGen table / aliases / unknown / self-conjugate names, CDecay with and without source, "
                      "Decay+CDecay for the same name, CopyDecay, statement order shuffled, switch on (75%) / off; non-trivial = has CDecay")
    ck.cov["samples"] = [{"text": cases[1]["text"], "include_cc": cases[1]["include_cc"]}]
    ck.notes["distribution"] = {"files": len(cases), "switch_off": sum(1 for c in cases if not c["include_cc"]),
                                "tables_max": max(len(v) for v in impl if isinstance(v, list))}
    hits = []
    if diffs or getattr(ck, "proof_failed", None):
        for i in (diffs or range(len(cases))):
            msg = oracle(cases[i], impl[i], ccname)
            if msg:
                hits.append((cases[i], msg))
    vlib.std_failure(ck, "Props/C03.v", cases, diffs, impl, model, hits, "py/c03.py", sig_of=lambda c, v: "oracle:" + v)
    sys.exit(ck.finish(assumptions=["files satisfy the module docstring's assumptions (ChargeConj pairs on aliases, no CDecay of a self-conjugate particle)"]))


if __name__ == "__main__":
    if len(sys.argv) > 1 and sys.argv[1] in ("impl", "oracle"):
        impl_main(sys.argv[1], sys.argv[2], sys.argv[3])
    else:
        main()
