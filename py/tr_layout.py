#!/usr/bin/env python3
"""Translator for the lexical layer of the .dec grammar -> coq/Gen/GenLayout.v.

From the grammar Lark compiles for DecFileParser (published models only):
  * the character classes of LABEL and WS_INLINE, by probing the compiled regular expressions on every code point 0..255
    (and a sample beyond: both classes must be ASCII-only), after checking the terminals have the shape  class+ ;
  * the literal patterns of _NEWLINE, COMMENT, _SEMICOLON, _COMMA, COLON, EQUAL, the %ignore list and the set of rules
    (compared with the snapshot the hand-written scanner/automaton were written against — fail closed);
  * the MODEL_NAME alternation (through tr_lexer.analyse);
and from dec.py (ast): the encoding the constructor opens files with."""
import ast
import json
import re
import subprocess
import sys
from pathlib import Path

sys.path.insert(0, str(Path(__file__).resolve().parent))
import vlib  # noqa: E402
import tr_lexer  # noqa: E402

PROBE = r'''
import json, sys
from decaylanguage import DecFileParser
from lark import Lark
p = DecFileParser()
opts = p.grammar_info()
extra = {k: v for k, v in opts.items() if k not in ("lark_file", "parser", "lexer", "edit_terminals")}
L = Lark(p.grammar(), parser=opts["parser"], lexer=opts["lexer"], edit_terminals=opts["edit_terminals"], **extra)
terms = {t.name: {"re": t.pattern.to_regexp(), "kind": type(t.pattern).__name__, "prio": t.priority, "flags": sorted(t.pattern.flags)} for t in L.terminals}
json.dump({"terminals": terms, "ignore": sorted(L.ignore_tokens), "rules": sorted(str(r) for r in L.rules), "opts": {k: str(v) for k, v in opts.items() if k != "edit_terminals"}}, sys.stdout)
'''

EXPECT = {"_NEWLINE": "(?:\r?\n[\t ]*|[#][^\n]*)", "COMMENT": "[#][^\n]*", "_SEMICOLON": ";", "_COMMA": ",", "COLON": ":", "EQUAL": "="}
RULES_SNAPSHOT = Path(__file__).resolve().parent / "grammar_rules.snapshot"


def probe():
    p = subprocess.run([vlib.PY, "-c", PROBE], env=vlib.impl_env(), stdout=subprocess.PIPE, stderr=subprocess.PIPE, text=True, timeout=900)
    if p.returncode != 0:
        raise RuntimeError("tr_layout probe failed:\n" + p.stderr[-3000:])
    return json.loads(p.stdout)


def char_class(regexp, name):
    """the terminal must be  <one character class>+ ; returns the set of code points of the class"""
    rx = re.compile(regexp)
    inside = {c for c in range(0, 0x250) if rx.fullmatch(chr(c))}
    for extra in (0xfeff, 0x2028, 0x3000, 0x1f600, 0xa0, 0x85):
        if rx.fullmatch(chr(extra)):
            raise RuntimeError(f"tr_layout: {name} matches the non-ASCII character U+{extra:04X} (fail closed)")
    if any(c > 127 for c in inside):
        raise RuntimeError(f"tr_layout: {name} matches non-ASCII characters (fail closed)")
    # shape check: every non-empty string over the class matches, nothing else of length <= 2 does (sampled exhaustively on pairs)
    probe_chars = sorted(inside)[:6] + [c for c in (32, 9, 10, 13, 35, 59, 44, 58, 61, 64) if c not in inside][:6]
    for a in probe_chars:
        for b in probe_chars:
            s = chr(a) + chr(b)
            if bool(rx.fullmatch(s)) != (a in inside and b in inside):
                raise RuntimeError(f"tr_layout: {name} is not of the form class+ (fail closed) on {s!r}")
    if rx.fullmatch(""):
        raise RuntimeError(f"tr_layout: {name} matches the empty string (fail closed)")
    return inside


def open_encoding():
    src = (vlib.REPO / "src/decaylanguage/dec/dec.py").read_text()
    tree = ast.parse(src)
    encs = []
    for cls in [n for n in tree.body if isinstance(n, ast.ClassDef) and n.name == "DecFileParser"]:
        for fn in [n for n in cls.body if isinstance(n, ast.FunctionDef) and n.name == "__init__"]:
            for call in [n for n in ast.walk(fn) if isinstance(n, ast.Call) and isinstance(n.func, ast.Attribute) and n.func.attr == "open"]:
                for kw in call.keywords:
                    if kw.arg == "encoding" and isinstance(kw.value, ast.Constant):
                        encs.append(kw.value.value)
    if len(encs) != 1:
        raise RuntimeError("tr_layout: expected exactly one open(encoding=<constant>) in DecFileParser.__init__ (fail closed): " + repr(encs))
    import codecs
    name = codecs.lookup(encs[0]).name
    if name not in ("utf-8", "utf-8-sig"):
        raise RuntimeError("tr_layout: unexpected file encoding " + name)
    return name == "utf-8-sig", encs[0]


def main():
    d = probe()
    T = d["terminals"]
    for n, want in EXPECT.items():
        if n not in T or T[n]["re"] != want or T[n]["flags"]:
            raise RuntimeError(f"tr_layout: terminal {n} is {T.get(n)} , expected pattern {want!r} (fail closed)")
    if d["ignore"] != ["COMMENT", "WS_INLINE"]:
        raise RuntimeError("tr_layout: %ignore list is " + repr(d["ignore"]) + " (fail closed)")
    if any(T[n]["prio"] != 0 for n in T if n != "MODEL_NAME"):
        raise RuntimeError("tr_layout: a terminal other than MODEL_NAME has a priority (fail closed)")
    label = char_class(T["LABEL"]["re"], "LABEL")
    ws = char_class(T["WS_INLINE"]["re"], "WS_INLINE")
    rules = "\n".join(d["rules"]) + "\n"
    if not RULES_SNAPSHOT.exists():
        raise RuntimeError("tr_layout: py/grammar_rules.snapshot is missing")
    if RULES_SNAPSHOT.read_text() != rules:
        import difflib
        diff = "\n".join(list(difflib.unified_diff(RULES_SNAPSHOT.read_text().split("\n"), rules.split("\n"), lineterm="", n=0))[:12])
        raise RuntimeError("tr_layout: the compiled rule set differs from the snapshot the automaton was written against (fail closed):\n" + diff)
    strs = sorted(T[n]["re"] for n in T if T[n]["kind"] == "PatternStr")
    alts, kind = tr_lexer.analyse(T["MODEL_NAME"]["re"])
    sig, enc = open_encoding()
    cs = vlib.cstr
    out = ["(* GENERATED by py/tr_layout.py from the compiled .dec grammar and dec.py — do not edit *)",
           "From Coq Require Import String Ascii List.", "From DL Require Import Dec.ModelName Dec.FrontEnd.", "Import ListNotations.", "Open Scope string_scope.", "",
           "Definition gen_label_chars : string := " + cs("".join(chr(c) for c in sorted(label))) + ".",
           "Definition gen_ws_chars : string := " + cs("".join(chr(c) for c in sorted(ws))) + ".",
           "Definition gen_keywords : list string := " + vlib.clist([cs(s) for s in strs]) + ".",
           f"Definition gen_open_sig : bool := {'true' if sig else 'false'}.   (* open(encoding={enc!r}) *)",
           "Definition gen_cfg : lexcfg := {| lc_label := gen_label_chars; lc_ws := gen_ws_chars; lc_kind := " + kind + ";",
           "   lc_alts := " + vlib.clist([cs(a) for a in alts]) + "; lc_sig := gen_open_sig |}."]
    ch = vlib.write_if_changed(vlib.COQ / "Gen" / "GenLayout.v", "\n".join(out) + "\n")
    return {"changed": ch, "label_chars": "".join(chr(c) for c in sorted(label)), "ws": sorted(ws), "keywords": strs, "open_sig": sig, "n_rules": len(d["rules"]), "kind": kind}


if __name__ == "__main__":
    if len(sys.argv) > 1 and sys.argv[1] == "--snapshot":
        RULES_SNAPSHOT.write_text("\n".join(probe()["rules"]) + "\n")
    print({k: v for k, v in main().items()})
