#!/usr/bin/env python3
"""Confirm a candidate seeded change myself, in a scratch worktree of /repo (outside /repo and /verif).
usage: seedconfirm.py <candidate dir with patch.diff, demo.py> <scratch worktree>
Writes <candidate dir>/confirm.txt:  demo_clean_exit, demo_mutated_exit, suite summary line with the change."""
import subprocess
import sys
from pathlib import Path

cand, wt = Path(sys.argv[1]), Path(sys.argv[2])
env = {"PYTHONPATH": str(wt / "src"), "PATH": "/usr/bin:/bin:/venv/bin", "PYTHONDONTWRITEBYTECODE": "1", "PYTHONHASHSEED": "0", "HOME": "/root"}


def run(cmd, **kw):
    return subprocess.run(cmd, cwd=wt, env=env, capture_output=True, text=True, **kw)


assert run(["git", "status", "--short"]).stdout.strip() == "", "worktree not clean"
clean = run(["/venv/bin/python", str(cand / "demo.py")], timeout=900).returncode
a = run(["git", "apply", str(cand / "patch.diff")])
assert a.returncode == 0, a.stderr
try:
    mut = run(["/venv/bin/python", str(cand / "demo.py")], timeout=900).returncode
    t = run(["/venv/bin/python", "-m", "pytest", "-q", "-p", "no:cacheprovider", "--timeout=900", "-x", "--deselect",
             "tests/dec/test_dec.py::test_particle_property_definitions", "--deselect", "tests/test_convert.py::test_full_convert"], timeout=3000)
    tail = [l for l in t.stdout.strip().split("\n") if "passed" in l or "failed" in l or "error" in l.lower()][-1:]
finally:
    run(["git", "checkout", "--", "."])
msg = f"{cand.parent.name}/{cand.name}: demo_clean_exit={clean} demo_mutated_exit={mut} suite_with_change(minus the 2 known failures, -x)={tail!r}"
(cand / "confirm.txt").write_text(msg + "\n")
print(msg)
