#!/usr/bin/env python3
"""C02 — Layout, comments, line ends and file packaging never change what is parsed.

proof:          coq/Props/C02.v over the front-end model (Dec/Layout.v scanner + constructor, Dec/ItemParser.v automaton);
                (T) py/tr_layout.py regenerates coq/Gen/GenLayout.v (character classes, MODEL_NAME alternation, file encoding)
                and checks the layout terminals, %ignore list and rule set of the compiled grammar against the snapshot the
                model was written for.
correspondence: for generated statement lists and for every .dec file under tests/data: random layouts (spacing, comments, blank
                lines, CRLF, wrapped / comma-separated parameter lists, repeated semicolons, final End, BOM, splitting into files
                with own End lines) -> statement list of the model (parse_files / parse_text, evaluated in Coq on the bytes) vs
                the statement list read off the tree Lark builds, vs the statement list the text was rendered from.
oracle:         implementation only — the snapshot of every public query is identical for all layouts of one content.
"""
from __future__ import annotations

import json
import sys
from pathlib import Path

sys.path.insert(0, str(Path(__file__).resolve().parent))

WORDCH = set("abcdefghijklmnopqrstuvwxyzABCDEFGHIJKLMNOPQRSTUVWXYZ0123456789_")


# ------------------------------------------------------------------ implementation side
def snapshot(p, light=False):
    import decpost
    from vlib import fl
    from decaylanguage.dec.enums import PhotosEnum

    def tag(v):
        if isinstance(v, bool):
            return v
        if isinstance(v, float):
            return fl(v)
        if isinstance(v, (int, str)) or v is None:
            return v
        if isinstance(v, dict):
            return [[str(k), tag(x)] for k, x in v.items()]
        if isinstance(v, (list, tuple)):
            return [tag(x) for x in v]
        return str(v)

    def guarded(fn):
        try:
            return tag(fn())
        except Exception as e:
            return {"err": type(e).__name__}
    snap = [guarded(p.dict_aliases), guarded(p.dict_charge_conjugates), guarded(p.dict_definitions), guarded(p.dict_decays2copy),
            guarded(p.list_charge_conjugate_decays), guarded(p.get_particle_property_definitions), guarded(p.dict_pythia_definitions),
            guarded(p.dict_jetset_definitions), guarded(p.dict_lineshape_settings), guarded(p.list_lineshapePW_definitions),
            guarded(lambda: p.global_photos_flag() == PhotosEnum.yes), guarded(p.dict_model_aliases),
            guarded(p.list_decay_mother_names), guarded(lambda: p.number_of_decays), guarded(lambda: decpost.observe_tables(p))]
    # (the complete chains of the first mothers of a master file have millions of nodes: not built for those)
    for m in ([] if light else (p.list_decay_mother_names() if p._parsed_decays is not None else [])[:6]):
        snap.append(guarded(lambda: p.list_decay_modes(m)))
        snap.append(guarded(lambda: p.build_decay_chains(m)))
    return snap


def impl_main(mode, fin, fout):
    import hashlib
    import tempfile
    import warnings
    import dectree
    from decaylanguage import DecFileParser
    cases = json.loads(Path(fin).read_text())
    lark = dectree.make_parser(DecFileParser())
    out = []
    with tempfile.TemporaryDirectory(prefix="c02_", dir=str(Path(fin).parent)) as td:
        for ci, c in enumerate(cases):
            try:
                if c["mode"] == "string":
                    p = DecFileParser.from_string(c["files"][0])
                else:
                    paths = []
                    for k, f in enumerate(c["files"]):
                        pth = Path(td) / f"f{ci}_{k}.dec"
                        pth.write_bytes(f.encode("utf-8"))
                        paths.append(pth)
                    p = DecFileParser(*paths)
            except Exception as e:
                out.append({"stmts": {"err": "rejected"}, "snap": {"err": "constructor:" + type(e).__name__}, "h": "constructor-error"})
                continue
            try:
                stmts = dectree.stmts_of_tree(lark.parse(p._dec_file))
            except AssertionError:
                raise
            except Exception as e:
                stmts = {"err": "rejected", "type": type(e).__name__, "msg": str(e)[:160]}
            try:
                with warnings.catch_warnings():
                    warnings.simplefilter("ignore")
                    p.parse()
                snap = snapshot(p, light=sum(len(f) for f in c["files"]) > 200000)
            except Exception as e:
                snap = {"err": "parse:" + type(e).__name__}
            s = json.dumps(snap, sort_keys=True, default=str)
            out.append({"stmts": stmts, "h": hashlib.sha1(s.encode()).hexdigest(), "snap": snap if c.get("keep_snap") else None})
    Path(fout).write_text(json.dumps(out))


# ------------------------------------------------------------------ generator of contents
def in_domain(w, models, numpos=False):
    """a whole word the lexer does not cut: no registered model name followed by a non-word character (or the end) at its start"""
    for m in models:
        if w.startswith(m) and (len(w) == len(m) or w[len(m)] not in WORDCH):
            return False
    if w in ("PHOTOS", "Enddecay"):
        return False
    if numpos:
        t = w[1:] if w[:1] in "+-" else w
        if t[:1].isdigit() or (t[:1] == "." and t[1:2].isdigit()):
            return False
    return True


def gen_content(rng, models):
    import decgen
    from gen_chains import REAL

    def lab(numpos=False):
        for _ in range(50):
            r = rng.random()
            if r < 0.45:
                w = rng.choice(REAL)
            elif r < 0.5:
                w = rng.choice(["EndPoint", "Endcap_2", "End", "Ending", "Enddecays", "EndX"])
            elif r < 0.55:
                w = rng.choice(models) + rng.choice(["x", "_1", "0", "PHSP"])
            else:
                w = decgen.rand_label(rng, first_letter=rng.random() < 0.8)
            if in_domain(w, models, numpos):
                return w
        return "x"
    pool = [lab() for _ in range(7)]
    pick = lambda: rng.choice(pool)
    num = lambda: rng.choice(decgen.NUMFORMS)
    stmts = []
    many = lambda: range(rng.choice([0, 0, 1, 1, 2, 3]))
    for _ in many():
        stmts.append(["Alias", pick(), rng.choice(REAL + pool)])
    for _ in many():
        stmts.append(["ChargeConj", pick(), pick()])
    defs = []
    for _ in many():
        defs.append(rng.choice(["dm", "dG", "x.1", "q_p"]))
        stmts.append(["Define", defs[-1], num()])
    for _ in range(rng.choice([0, 0, 1])):
        stmts.append(["CopyDecay", pick(), pick()])
    for _ in range(rng.choice([0, 0, 1, 2])):
        stmts.append(["CDecay", pick()])
    for _ in range(rng.choice([0, 0, 1])):
        stmts.append(["Particle", pick(), num(), rng.choice([None, num()])])
    for _ in range(rng.choice([0, 0, 1])):
        stmts.append(["Pythia", rng.choice(["PythiaAliasParam", "PythiaBothParam", "PythiaGenericParam"]), rng.choice(["ParticleDecays", "SLHA"]),
                      rng.choice(["mixB", "limitTau0", "x_1"]), rng.choice(["on", "off", "3", "1.5", "-2", "2E-4", "x~y"])])
    for _ in range(rng.choice([0, 0, 1])):
        stmts.append(["JetSet", rng.choice(["MSTJ(26)", "PARJ(21)", "MSTU(4)"]), rng.choice(["0", "3", "-1", "0.4", "2E-4"])])
    for _ in range(rng.choice([0, 0, 1])):
        stmts.append(["LS", rng.choice(["LSFLAT", "LSNONRELBW", "LSMANYDELTAFUNC"]), pick()])
    for _ in range(rng.choice([0, 0, 1])):
        stmts.append(["BW", pick(), num()])
    for _ in range(rng.choice([0, 0, 1])):
        stmts.append(["ChangeMass", rng.choice(["ChangeMassMin", "ChangeMassMax"]), pick(), num()])
    for _ in range(rng.choice([0, 0, 1])):
        stmts.append(["IncFactor", rng.choice(["IncludeBirthFactor", "IncludeDecayFactor"]), pick(), rng.choice(["yes", "no"])])
    for _ in range(rng.choice([0, 0, 1])):
        stmts.append(["LSPW", pick(), pick(), pick(), rng.choice(["0", "1", "2", "10"])])
    for _ in range(rng.choice([0, 0, 1])):
        stmts.append(["Photos", rng.random() < 0.5])
    aliases = []

    def params():
        r = rng.random()
        if r < 0.35:
            return None
        n = rng.choice([1, 1, 2, 3, 5, 8])
        return [(["num", num()] if rng.random() < 0.6 else ["word", rng.choice(defs) if defs and rng.random() < 0.5 else lab(numpos=True)]) for _ in range(n)]

    def model():
        if aliases and rng.random() < 0.2:
            return ["L", rng.choice(aliases)]
        if rng.random() < 0.04:
            return ["L", lab()]
        return ["N", rng.choice(models) if rng.random() < 0.5 else rng.choice(["PHSP", "VSS", "SVS", "HELAMP", "VSS_BMIX", "PYTHIA", "SLN", "ISGW2"]), params()]
    for _ in range(rng.choice([0, 0, 1, 2])):
        aliases.append("MyAlias" + str(len(aliases)))
        stmts.append(["ModelAlias", aliases[-1], model() if rng.random() < 0.9 else ["L", rng.choice(aliases)]])
    rng.shuffle(stmts)
    tabs, dec, leaves = decgen.rand_tables(rng, nmax=rng.choice([1, 2, 4]), lines_max=3)
    for t in tabs:
        lines = []
        for l in t[2]:
            fs = [x if rng.random() < 0.8 else pick() for x in l["fs"]]
            lines.append([rng.choice(decgen.NUMFORMS[:4] + ["0.25", "1.0", "0.5"]), fs, bool(l["photos"]), model()])
        stmts.insert(rng.randint(0, len(stmts)), ["Decay", t[1] if rng.random() < 0.8 else pick(), lines])
    return stmts


# ------------------------------------------------------------------ layouts
COMMENTS = ["", " a comment", "# ## ;", " End", "Decay x ; Enddecay", " café π →", "\tEnd of file", " 1.0 a b PHSP;", ",;:=",
            # characters at which str.splitlines() — but not the file iterator, and not the grammar's COMMENT — ends a line,
            # followed by text that would be live input if the comment were cut there
            " page\x0cDefine zz 1.0", " x\x0bAlias MyA MyB", " \x1cEnd", " y\x85 1.0 a b PHSP;", " z\u2028Decay q", " \u2029Enddecay",
            "\x1d;", "\x1e, 2.0"]


def atoms(stmts):
    """statements -> atoms: ("w", text) words, ("nl",) end of a logical line, (";",) (":",) ("=",), ("opts", [texts]) a parameter list"""
    out = []

    def mdl(m):
        if m[0] == "L":
            out.append(("w", m[1]))
        else:
            out.append(("w", m[1]))
            if m[2]:
                out.append(("opts", [t for _, t in m[2]]))
        out.append((";",))
    for s in stmts:
        k = s[0]
        if k == "Decay":
            out += [("w", "Decay"), ("w", s[1]), ("nl",)]
            for bf, fs, ph, m in s[2]:
                out.append(("w", bf))
                out += [("w", x) for x in fs]
                if ph:
                    out.append(("w", "PHOTOS"))
                mdl(m)
                out.append(("nl",))
            out += [("w", "Enddecay"), ("nl",)]
            continue
        if k == "ModelAlias":
            out += [("w", "ModelAlias"), ("w", s[1])]
            mdl(s[2])
        elif k == "Pythia":
            out += [("w", s[1]), ("w", s[2]), (":",), ("w", s[3]), ("=",), ("w", s[4])]
        elif k == "JetSet":
            out += [("w", "JetSetPar"), ("w", s[1]), ("=",), ("w", s[2])]
        elif k == "Photos":
            out.append(("w", "yesPhotos" if s[1] else "noPhotos"))
        else:
            kw = {"Define": "Define", "Alias": "Alias", "ChargeConj": "ChargeConj", "CDecay": "CDecay", "CopyDecay": "CopyDecay", "Particle": "Particle",
                  "BW": "BlattWeisskopf", "LSPW": "SetLineshapePW"}.get(k)
            words = ([kw] if kw else []) + [x for x in s[1:] if x is not None]
            out += [("w", x) for x in words]
        out.append(("nl",))
    return out


def render(stmts, rng, feat, end=False, final_newline=True):
    """feat: set of enabled layout features among spacing, comments, blank, crlf, wrap, commas, semis, indent"""
    crlf = "crlf" in feat and rng.random() < 0.7
    EOL = "\r\n" if crlf else "\n"

    def gap(mandatory):
        if "spacing" in feat and rng.random() < 0.5:
            return rng.choice([" ", "  ", "\t", " \t ", "    "])
        return " " if mandatory else ""

    def comment():
        return "#" + rng.choice(COMMENTS)

    def eol():
        s = ""
        if "comments" in feat and rng.random() < 0.3:
            s += gap(False) + comment()
        elif "spacing" in feat and rng.random() < 0.2:
            s += rng.choice([" ", "\t "])
        s += EOL
        while "blank" in feat and rng.random() < 0.25:
            s += rng.choice(["", " ", "\t"]) + (comment() if "comments" in feat and rng.random() < 0.5 else "") + EOL
        return s

    def indent():
        return rng.choice(["", " ", "  ", "\t", "    "]) if "indent" in feat and rng.random() < 0.5 else ""
    txt = ""
    if "blank" in feat and rng.random() < 0.4:
        txt += eol()
    at = atoms(stmts) + ([("w", "End"), ("nl",)] if end else [])
    prev_word = False
    line_start = True
    for a in at:
        if line_start and a[0] != "nl":
            txt += indent()
        if a[0] == "w":
            txt += (gap(True) if prev_word else ("" if line_start else gap(False))) + a[1]
            prev_word, line_start = True, False
        elif a[0] in (";", ":", "="):
            n = rng.choice([1, 1, 2, 3]) if a[0] == ";" and "semis" in feat else 1
            for _ in range(n):
                txt += gap(False) + a[0]
            prev_word, line_start = False, False
        elif a[0] == "opts":
            items = a[1]
            for k, it in enumerate(items):
                sep = ""
                if k == 0:
                    sep = (gap(False) + eol() + indent()) if "wrap" in feat and rng.random() < 0.2 else gap(True)
                else:
                    r = rng.random()
                    if "commas" in feat and r < 0.35:
                        sep = gap(False) + "," + gap(False)
                        if "wrap" in feat and rng.random() < 0.3:
                            # the line break after the comma, or before it (the comma then leads the continuation line)
                            sep = (sep + eol() + indent()) if rng.random() < 0.5 else (gap(False) + eol() + indent() + "," + gap(False))
                    elif "wrap" in feat and r < 0.6:
                        sep = gap(False) + eol() + indent()
                    else:
                        sep = gap(True)
                txt += sep + it
            if "wrap" in feat and rng.random() < 0.15:
                txt += gap(False) + eol() + indent()
            prev_word, line_start = False, False
        else:
            txt += eol()
            prev_word, line_start = False, True
    if not final_newline and txt.endswith(EOL):
        txt = txt[:-len(EOL)]
    return txt


ALL_FEATS = ["spacing", "comments", "blank", "crlf", "wrap", "commas", "semis", "indent"]


def variants(stmts, rng, nvar):
    """list of (mode, files, description)"""
    import decgen  # noqa: F401
    out = [("string", [render(stmts, rng, set())], "canonical", 0)]
    for _ in range(nvar):
        feat = {f for f in ALL_FEATS if rng.random() < 0.5}
        r = rng.random()
        if r < 0.3:
            e = rng.random() < 0.4
            out.append(("string", [render(stmts, rng, feat, end=e)], "string:" + ",".join(sorted(feat)), int(e)))
        else:
            k = rng.choice([1, 1, 2, 3, 4])
            cuts = sorted(rng.randint(0, len(stmts)) for _ in range(k - 1))
            parts = [stmts[a:b] for a, b in zip([0] + cuts, cuts + [len(stmts)])]
            files, desc, nend = [], [], 0
            for part in parts:
                f2 = {f for f in sorted(feat) if rng.random() < 0.8}
                e = rng.random() < 0.5
                nend += int(e)
                t = render(part, rng, f2, end=e, final_newline=rng.random() < 0.8)
                if rng.random() < 0.3:
                    t = "﻿" + t
                    desc.append("bom")
                files.append(t)
            out.append(("files", files, f"files[{k}]:" + ",".join(sorted(feat) + desc), nend))
    return out


def main():
    import glob
    import vlib
    import tr_layout
    import tr_models
    from vlib import Check, cstr, clist
    args = vlib.std_args()
    ck = Check("C02", args.tier, args.seed)
    rng = ck.rng
    models = tr_models.main()["models"]
    try:
        tr = tr_layout.main()
        ck.notes["translator"] = {k: v for k, v in tr.items() if k != "keywords"}
    except RuntimeError as e:
        tr = None
        ck.notes["translator_error"] = str(e)[:600]
    if tr is not None:
        ck.proofs("Props/C02.v", extra_trusted=[
            "py/tr_layout.py (probes the compiled LABEL / WS_INLINE classes on every code point, compares the layout terminals, %ignore list "
            "and the 77 compiled rules with the snapshot py/grammar_rules.snapshot, reads open(encoding=...) from dec.py by ast; fail-closed)",
            "the hand-written scanner and statement automaton are tied to Lark's contextual lexer + LALR driver by the correspondence only; "
            "words the lexer would cut in two are outside the modelled domain (counted as model gaps on fixture files, never generated)",
            "Python's text-mode decoding and universal newlines are modelled by strip_bom / univ_nl; str.lstrip() on ASCII only"])
    # ---- contents
    groups = []
    ngen = 40 if args.tier == "quick" else 400
    for _ in range(ngen):
        groups.append({"src": "generated", "stmts": gen_content(rng, models)})
    nvar = 4 if args.tier == "quick" else 8
    cases = []
    for gi, g in enumerate(groups):
        for mode, files, desc, nend in variants(g["stmts"], rng, nvar):
            cases.append({"group": gi, "mode": mode, "files": files, "desc": desc, "stmts": g["stmts"], "generated": True, "nend": nend})
    # targeted: the residue of F16 — a parameter that IS the word End, alone on a wrapped line of a file
    gi = len(groups)
    groups.append({"src": "targeted", "stmts": [["Decay", "B0", [["1.0", ["K+", "pi-"], False, ["N", "HELAMP", [["word", "a"], ["word", "End"], ["num", "2.0"]]]]]]]})
    cases.append({"group": gi, "mode": "string", "files": ["Decay B0\n1.0 K+ pi- HELAMP a End 2.0;\nEnddecay\n"], "desc": "canonical", "stmts": groups[gi]["stmts"], "generated": True, "nend": 0})
    cases.append({"group": gi, "mode": "files", "files": ["Decay B0\n1.0 K+ pi- HELAMP a\nEnd\n2.0;\nEnddecay\n"], "desc": "files[1]:wrap", "stmts": groups[gi]["stmts"], "generated": True, "nend": 0})
    # fixture files: original layout (file mode) + re-renderings of the statements the implementation reads from them
    fixtures = sorted(glob.glob(str(vlib.REPO / "tests/data/*.dec")))
    if args.tier == "thorough":
        fixtures += sorted(glob.glob(str(vlib.REPO / "src/decaylanguage/data/*.dec"))) + sorted(glob.glob(str(vlib.REPO / "src/decaylanguage/data/*.DEC")))
    fx_cases = []
    for f in fixtures:
        try:
            txt = Path(f).read_bytes().decode("utf-8")
        except UnicodeDecodeError:
            continue
        fx_cases.append({"group": None, "mode": "files", "files": [txt], "desc": "fixture:" + Path(f).name, "fixture": Path(f).name})
    fx_out = vlib.run_impl("c02.py", fx_cases, nshards=min(16, len(fx_cases)))
    ck.notes["fixtures"] = {}
    for c, o in zip(fx_cases, fx_out):
        ok = isinstance(o["stmts"], list)
        ck.notes["fixtures"][c["fixture"]] = len(o["stmts"]) if ok else "rejected by the grammar"
        if not ok:
            continue
        gi = len(groups)
        groups.append({"src": c["fixture"], "stmts": o["stmts"]})
        c["group"] = gi
        c["stmts"] = o["stmts"]
        big = len(c["files"][0]) > 60000
        c["model_skip"] = big
        cases.append(c)
        for mode, files, desc, nend in variants(o["stmts"], rng, 2 if big else 3):
            cases.append({"group": gi, "mode": mode, "files": files, "desc": desc + " of " + c["fixture"], "stmts": o["stmts"], "model_skip": big, "nend": nend})
    impl = vlib.run_impl("c02.py", cases, nshards=16)
    # ---- model
    midx = [i for i, c in enumerate(cases) if not c.get("model_skip")]
    terms = []
    for i in midx:
        c = cases[i]
        if c["mode"] == "string":
            terms.append(f"enc_result (parse_text gen_cfg {cstr(c['files'][0])})")
        else:
            terms.append("enc_result (parse_files gen_cfg " + clist([cstr(f) for f in c["files"]]) + ")")
    model = [None] * len(cases)
    if tr is not None:
        mv = vlib.run_model("C02", ["Dec.ModelName", "Dec.Syntax", "Dec.Layout", "Dec.ItemParser", "Dec.FrontEnd", "Gen.GenLayout"], "fun v : val => v", terms, shard=40)
        for i, v in zip(midx, mv):
            model[i] = v
    # ---- compare
    diffs, hits, gaps = [], [], 0
    base = {}
    for i, (c, o) in enumerate(zip(cases, impl)):
        want = c["stmts"]
        iv = o["stmts"] if isinstance(o["stmts"], list) else {"err": "rejected"}
        if tr is not None and not c.get("model_skip"):
            mvv = model[i]
            if mvv != iv:
                if not c.get("generated") and isinstance(mvv, dict) and isinstance(iv, list) and "fixture" in c:
                    gaps += 1          # the fixture's own layout uses a word the lexer cuts: outside the modelled domain
                else:
                    diffs.append(i)
        # the property, on the implementation: all layouts of one content give the same answers (and the same statements)
        g = c["group"]
        if g not in base:
            base[g] = (i, o["h"], iv)
            continue
        b_i, b_h, b_iv = base[g]
        if o["h"] != b_h or iv != b_iv:
            what = "two layouts of the same content give different answers"
            fl = c["files"]
            if isinstance(iv, dict):
                what = "a layout of accepted content is rejected"
            endish = [ln for f in fl for ln in f.replace("\r\n", "\n").split("\n")
                      if ln.lstrip("\ufeff").lstrip().startswith("End") and not ln.lstrip("\ufeff").lstrip().startswith("Enddecay")
                      and ln.split("#")[0].strip().strip("\ufeff") != "End"]
            lone = [ln for f in fl for ln in f.replace("\r\n", "\n").split("\n") if ln.split("#")[0].strip().strip("\ufeff").strip() == "End"]
            if c["mode"] == "files" and "nend" in c and len(lone) > c["nend"]:
                what = "F16b: a model parameter that is the word End, alone on a wrapped line of an input file, is dropped with the End lines"
            elif c["mode"] == "files" and endish:
                what = "F16: file-based construction drops a wrapped parameter line that starts with a word beginning with End: " + repr(endish[0][:40])
            elif c["mode"] == "files" and any(f.startswith("\ufeff") for f in fl):
                what += " (a file starts with a UTF-8 byte-order mark)"
            hits.append(({"mode": c["mode"], "files": fl, "desc": c["desc"], "base_mode": cases[b_i]["mode"], "base_files": cases[b_i]["files"]}, what))
    ck.cov["evaluations"] += len(cases)
    ck.cov["traces_validated_against_impl"] += len(midx) - len(diffs)
    ck.cov["distinct_nontrivial"] = len({json.dumps(c["files"]) for c in cases})
    ck.cov["rule"] = (f"{ngen} generated contents (all statement kinds; labels incl. ones starting with End or extending a model name) x (canonical + {nvar} "
                      "random compositions of: spacing, indentation, comments (after lines, comment-only lines, inside wrapped parameter lists, non-ASCII), "
                      "blank lines, CRLF, wrapped / comma-separated parameter lists, repeated semicolons, final End, BOM, splitting into 1-4 files with own "
                      "End lines and missing final newline; string- and file-based construction); every .dec under tests/data in its own layout + 3 re-renderings"
                      + ("; the shipped master files + 2 re-renderings (implementation only)" if args.tier == "thorough" else ""))
    ck.cov["samples"] = [{"desc": cases[1]["desc"], "files": cases[1]["files"]}]
    from collections import Counter
    ck.notes["distribution"] = {"cases": len(cases), "modes": dict(Counter(c["mode"] for c in cases)), "model_gaps_on_fixtures": gaps,
                                "rejected": sum(1 for o in impl if isinstance(o["stmts"], dict)),
                                "features": dict(Counter(f for c in cases for f in c["desc"].split(":")[-1].split(" of ")[0].split(",") if f)),
                                "statement_kinds": dict(Counter(s[0] for g in groups for s in g["stmts"]))}
    # generated content must come back as the statements it was rendered from
    for i, (c, o) in enumerate(zip(cases, impl)):
        if c.get("generated") and c["desc"] == "canonical" and o["stmts"] != c["stmts"] and not hits:
            hits.append(({"mode": c["mode"], "files": c["files"], "want": c["stmts"], "got": o["stmts"]}, "the canonical rendering of a content is not read back as that content"))
            break
    if tr is None and not hits:
        ck.broken_tie("translator", "py/tr_layout.py refused the compiled grammar: " + ck.notes["translator_error"][:300],
                      {"theorem_or_correspondence": "translator py/tr_layout.py / theorems of Props/C02.v", "detail": ck.notes["translator_error"]})
    slim = [{k: v for k, v in c.items() if k != "stmts"} for c in cases]
    vlib.std_failure(ck, "Props/C02.v", slim, diffs, [o["stmts"] for o in impl], model, hits, "py/c02.py",
                     sig_of=lambda c, v: "F16b:lone End parameter line" if v.startswith("F16b") else "F16:End-prefixed wrapped line" if v.startswith("F16") else "oracle:" + v)
    sys.exit(ck.finish())


if __name__ == "__main__":
    if len(sys.argv) > 1 and sys.argv[1] in ("impl", "oracle"):
        impl_main(sys.argv[1], sys.argv[2], sys.argv[3])
    else:
        main()
