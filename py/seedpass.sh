#!/bin/sh
./setup.sh > setup.log 2>&1 || { echo SETUP FAILED; tail -5 setup.log; exit 1; }
for s in 2 3 4; do
  for i in 01 02 03 04 05 06 07 08 09 10 11 12 13 14 15 16 17 18 19 20; do
    t0=$(date +%s)
    VERIF_SEED=$s ./check C$i --tier quick > out_${s}_C$i.log 2>&1; e=$?
    echo "seed=$s C$i exit=$e $(( $(date +%s)-t0 ))s viol=$(grep -c '^VIOLATION' out_${s}_C$i.log)"
  done
done
