#!/bin/sh
# all thorough checks once, with wall time; each bounded by a shell timeout so that one runaway check cannot hide the others
./setup.sh > setup.log 2>&1 || { echo SETUP FAILED; tail -5 setup.log; exit 1; }
for i in ${CHECKS:-01 02 03 04 05 06 07 08 09 10 11 12 13 14 15 16 18 20 17 19}; do
  t0=$(date +%s)
  timeout ${THOROUGH_TIMEOUT:-5400} ./check C$i --tier thorough > thorough_C$i.log 2>&1; e=$?
  echo "C$i exit=$e $(( $(date +%s)-t0 ))s viol=$(grep -c '^VIOLATION' thorough_C$i.log) $(grep ' thorough: ' thorough_C$i.log | tail -1)"
done
