#!/usr/bin/env python3
"""C09 — Decay chains are the faithful recursive unfolding of the decay tables.

proof:          coq/Props/C09.v (model coq/Dec/Tables.v `build`)
correspondence: generated acyclic table sets rendered to .dec text, parsed by DecFileParser;
                build_decay_chains(M, S) for every mother and stable subsets vs the model on the tables.
"""
from __future__ import annotations

import itertools
import json
import sys
from fractions import Fraction
from pathlib import Path

sys.path.insert(0, str(Path(__file__).resolve().parent))


def chain_val(d):
    """chain dict -> the JSON of vcdict"""
    from vlib import fl
    (m, modes), = d.items()
    out = []
    for md in modes:
        fs = [x if isinstance(x, str) else chain_val(x) for x in md["fs"]]
        meta = []
        for k, v in md.items():
            if k in ("bf", "fs"):
                continue
            meta.append([k, pv(v)])
        out.append([fl(md["bf"]) if isinstance(md["bf"], float) else {"err": "bf type"}, fs, meta])
    return [m, out]


def pv(v):
    from vlib import fl
    if isinstance(v, float):
        return fl(v)
    if isinstance(v, list):
        return [pv(x) for x in v]
    return v


def parse_text(text):
    import warnings
    from decaylanguage import DecFileParser
    p = DecFileParser.from_string(text)
    with warnings.catch_warnings():
        warnings.simplefilter("ignore")
        p.parse()
    return p


def impl_main(mode, fin, fout):
    cases = json.loads(Path(fin).read_text())
    out = []
    for c in cases:
        try:
            p = parse_text(c["text"])
        except Exception as e:
            out.append([{"err": "parse:" + type(e).__name__}] * len(c["queries"]))
            continue
        res = []
        for m, S, kind in c["queries"]:
            try:
                st = {"tuple": tuple(S), "list": list(S), "set": set(S)}[kind]
                r = chain_val(p.build_decay_chains(m, stable_particles=st))
            except Exception as e:
                r = {"err": type(e).__name__}
            res.append(r)
        out.append(res)
    Path(fout).write_text(json.dumps(out))


def coq_tables(stmts):
    from vlib import cstr, clist, cq, cbool
    import decgen
    rows = []
    for st in stmts:
        if st[0] != "Decay":
            continue
        ls = []
        for l in st[2]:
            if l["params"] is None:
                prm = "None"
            else:
                prm = "(Some " + clist([("PNum " + cq(decgen.lit_value(t))) if k == "num" else ("PWord " + cstr(t)) for k, t in l["params"]]) + ")"
            ls.append("{| l_bf := " + cq(decgen.lit_value(l["bf"])) + "; l_fs := " + clist([cstr(x) for x in l["fs"]])
                      + "; l_photos := " + cbool(l["photos"]) + "; l_model := " + cstr(l["model"]) + "; l_params := " + prm + " |}")
        rows.append(f"({cstr(st[1])}, {clist(ls)})")
    return clist(rows)


def gen_cases(rng, tier):
    import decgen
    cases = []
    n = 150 if tier == "quick" else 1500
    for _ in range(n):
        stmts, dec, leaves = decgen.rand_tables(rng, nmax=rng.choice([2, 4, 7, 10]))
        # duplicates of a mother (first kept) now and then: put a second block later
        if rng.random() < 0.15 and stmts:
            dup = json.loads(json.dumps(rng.choice(stmts)))
            dup[2] = dup[2][:1]
            stmts.append(dup)
        # tables made by CopyDecay: for a fresh name used as a daughter above the source, and for a name that ALSO has its own
        # Decay block (then two tables carry that name and the first one, the Decay block, is the table of that name)
        if rng.random() < 0.35 and len(dec) >= 2:
            for _ in range(rng.randint(1, 2)):
                j = rng.randint(1, len(dec) - 1)
                i = rng.randint(0, j - 1)
                if rng.random() < 0.5:
                    new = dec[i]
                else:
                    new = "Cp" + str(len(stmts))
                    host = [st for st in stmts if st[0] == "Decay" and st[1] == dec[i] and st[2]]
                    if not host:
                        continue
                    rng.choice(host[0][2])["fs"].append(new)
                if any(st[0] == "CopyDecay" and st[1] == new for st in stmts):
                    continue
                stmts.insert(rng.randint(0, len(stmts)), ["CopyDecay", new, dec[j]])
        # an alias of a decaying particle that has no Decay block of its own: it has no table (asking for it is an error) and, as a
        # daughter, it stays a bare name
        alias_q = None
        if rng.random() < 0.3:
            al = "MyAl" + str(len(stmts))
            stmts.insert(rng.randint(0, len(stmts)), ["Alias", al, rng.choice(dec)])
            host = [st for st in stmts if st[0] == "Decay" and st[2]]
            if host:
                rng.choice(rng.choice(host)[2])["fs"].append(al)
            alias_q = al
        names = dec + leaves
        if unfold_size(stmts, dec[0]) > 1500 or max(unfold_size(stmts, d) for d in dec) > 4000:
            continue
        queries = []
        inv = list(dict.fromkeys(names))
        if len(inv) <= 5:
            subs = [list(s) for r in range(len(inv) + 1) for s in itertools.combinations(inv, r)]
            subs = rng.sample(subs, min(len(subs), 12))
        else:
            subs = [[x for x in inv if rng.random() < 0.3] for _ in range(6)] + [[]]
        for S in subs:
            m = rng.choice(dec + [rng.choice(leaves)] if rng.random() < 0.1 else dec)
            queries.append([m, S, rng.choice(["tuple", "list", "set"])])
        queries.append([dec[0], [], "tuple"])
        if alias_q:
            queries.append([alias_q, [], "tuple"])
        cases.append({"stmts": stmts, "text": decgen.render(stmts), "queries": queries})
    return cases


def unfold_size(stmts, m):
    tabs = {}
    for st in first_tables(stmts):
        if st[0] == "Decay" and st[1] not in tabs:
            tabs[st[1]] = st[2]
    memo = {}

    def sz(p):
        if p not in tabs:
            return 1
        if p in memo:
            return memo[p]
        memo[p] = 1 + sum(1 + sum(sz(d) for d in l["fs"]) for l in tabs[p])
        return memo[p]
    return sz(m)


def first_tables(stmts):
    """the tables parse() holds: the first block of a repeated mother, then one table per CopyDecay whose source exists
    (a copy of the source's lines under the new name)"""
    seen, out = set(), []
    for st in stmts:
        if st[0] == "Decay":
            if st[1] in seen:
                continue
            seen.add(st[1])
            out.append(st)
    copies = {}
    for st in stmts:
        if st[0] == "CopyDecay":
            copies[st[1]] = st[2]
    base = list(out)
    for new, old in copies.items():
        src = [t for t in base if t[1] == old]
        if src:
            out.append(["Decay", new, json.loads(json.dumps(src[-1][2]))])
    return out


def main():
    import vlib
    from vlib import Check, cstr, clist
    args = vlib.std_args()
    ck = Check("C09", args.tier, args.seed)
    ck.proofs("Props/C09.v", extra_trusted=[
        "py/decgen.py renders the generated tables to .dec text; the model is handed that same text (coq/Dec/Pipeline.v: front-end model "
        "of C02, model of parse(), build) — no table is computed in Python for it",
        "hand-written model coq/Dec/Tables.v `build` tied by correspondence"])
    if args.replay:
        cases = json.loads(Path(args.replay).read_text())["cases"]
    else:
        cases = gen_cases(ck.rng, args.tier)
    impl = vlib.run_impl("c09.py", cases)
    flat_cases, terms, flat_impl = [], [], []
    for c, res in zip(cases, impl):
        for (m, S, kind), r in zip(c["queries"], res):
            flat_cases.append({"text": c["text"], "stmts": c["stmts"], "queries": [[m, S, kind]]})
            # the model reads the same TEXT the implementation reads (coq/Dec/Pipeline.v: front end, parse(), build)
            terms.append(f"text_chain cc sc_of 60 {cstr(c['text'])} {clist([cstr(s) for s in S])} {cstr(m)}")
            flat_impl.append(r)
    model = vlib.run_model("C09", ["Lib.PyDict", "Decay.Conj", "Decay.GenTables", "Decay.ChainDict", "Dec.Tables", "Dec.Pipeline"], "fun v : val => v", terms, shard=100,
                           preamble="Definition sc_of (n : string) : option bool := pd_get n (t_selfconj gen_tables).")
    diffs = vlib.compare_veq(ck, flat_cases, flat_impl, model)
    ck.cov["distinct_nontrivial"] = len({json.dumps(c, sort_keys=True) for c, r in zip(flat_cases, flat_impl) if isinstance(r, list) and "{" not in json.dumps(r)[:0] and json.dumps(r).count("[") > 8})
    ck.cov["rule"] = ("random acyclic table sets (1..10 decaying particles, 0..4 lines, 0..4(+repeats) daughters, empty blocks, "
                      "repeated mothers, CopyDecay tables incl. copies under a name that has its own Decay block), rendered to .dec text; queries (mother, stable set as tuple/list/set): all subsets "
                      "of the particles involved when <=5 particles (sampled 12), random subsets otherwise, plus a not-found "
                      "mother now and then; non-trivial = chain with nested structure")
    ck.cov["samples"] = [{"text": flat_cases[0]["text"], "query": flat_cases[0]["queries"][0]}]
    ck.notes["distribution"] = {"files": len(cases), "queries": len(flat_cases),
                                "not_found": sum(1 for r in flat_impl if isinstance(r, dict) and r.get("err") == "DecayNotFound"),
                                "with_stable": sum(1 for c in flat_cases if c["queries"][0][1])}
    hits = []
    if diffs:
        # implementation-level oracle: independent recursive unfolding in Python from the statements
        for i in diffs:
            c = flat_cases[i]
            m, S, _ = c["queries"][0]
            exp = oracle_unfold(first_tables(c["stmts"]), S, m)
            if not vlib.veq(flat_impl[i], exp):
                hits.append((c, "chain is not the recursive unfolding of the tables"))
    vlib.std_failure(ck, "Props/C09.v", flat_cases, diffs, flat_impl, model, hits, "py/c09.py", sig_of=lambda c, v: "oracle:" + v)
    sys.exit(ck.finish(assumptions=["tables are acyclic (generated so)"]))


def oracle_unfold(stmts, S, m):
    import decgen
    from vlib import q
    tabs = {}
    for st in stmts:
        if st[0] == "Decay" and st[1] not in tabs:
            tabs[st[1]] = st[2]
    if m not in tabs:
        return {"err": "DecayNotFound"}

    def rec(p):
        modes = []
        for l in tabs[p]:
            fs = [d if (d in S or d not in tabs) else rec(d) for d in l["fs"]]
            prm = "" if l["params"] is None else [q(decgen.lit_value(t)) if k == "num" else t for k, t in l["params"]]
            modes.append([q(decgen.lit_value(l["bf"])), fs, [["model", l["model"]], ["model_params", prm]]])
        return [p, modes]
    return rec(m)


if __name__ == "__main__":
    if len(sys.argv) > 1 and sys.argv[1] in ("impl", "oracle"):
        impl_main(sys.argv[1], sys.argv[2], sys.argv[3])
    else:
        main()
