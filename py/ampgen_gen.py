"""Generator / renderer of AmpGen option files (shared by C17-C20).

optfile = list of lines:
  ["event", [names]]  ["cplx", tree, [fix, val, err], [fix, val, err]]  ["const", name, lit]  ["var", name, fix, val, err]
  ["fcs", "0"|"1"]  ["comment", text]  ["blank"]
tree = [name, spin|None, lineshape|None, [] | [tree, tree]]
"""
from __future__ import annotations

FINAL = ["K-", "pi+", "pi+", "pi-"]
# resonances by what they decay to (indices into a 4-body final state are irrelevant here; names only)
V_KPI = ["K*(892)bar0", "K*(892)bar0", "NonResV0", "D*(2007)bar0"]   # (a charm anti-quark state: the radius of its lineshape is the charm one)          # NonRes*: placeholder states of the Mint table, resonances like any other
V_PIPI = ["rho(770)0", "rho(1450)0", "omega(782)0"]
S_KPI = ["KPi00", "KPi10", "KPi20", "NonResS0"]
S_PIPI = ["PiPi00", "PiPi10", "PiPi20", "PiPi30"]
A_K = ["K(1)(1270)bar-", "K(1)(1400)bar-"]
P_K = ["K(1460)bar-"]
T_K = ["K(2)*(1430)bar-"]
A_PI = ["a(1)(1260)+"]
NUMS = ["0.5", "1", "0.196037", "-0.390311", "2.01551", "0", "3.01374", "-2.96395", "1.0", "0.25", "2", "-1.5"]


def leaf(n):
    return [n, None, None, []]


def kpi(rng, bare=False):
    n = rng.choice(V_KPI + S_KPI)
    if bare and rng.random() < 0.5:
        return leaf(n)
    ls = None
    if (n in S_KPI and rng.random() < 0.7) or rng.random() < 0.15:
        ls = rng.choice(["FOCUS.Kpi", "FOCUS.I32", "FOCUS.KEta"])
    return [n, None, ls, [leaf("K-"), leaf("pi+")]]


def pipi(rng, bare=False):
    n = rng.choice(V_PIPI + S_PIPI)
    if bare and rng.random() < 0.5:
        return leaf(n)
    ls = None
    if (n in S_PIPI and rng.random() < 0.8) or rng.random() < 0.2:      # also on vectors: L of the lineshape is then not 0
        ls = rng.choice(["kMatrix.pole.0", "kMatrix.pole.1", "kMatrix.prod.0", "kMatrix.prod.1"])
    return [n, None, ls, [leaf("pi+"), leaf("pi-")]]


def cascade(rng, bare_ok=True):
    kind = rng.choice(["AK", "PK", "TK", "Api"])
    if kind == "Api":
        n = rng.choice(A_PI)
        if bare_ok and rng.random() < 0.4:
            return [leaf(n), leaf("K-")]
        sub = [n, rng.choice([None, None, "D"]), rng.choice([None, "GSpline.EFF"]), [pipi(rng, bare=True), leaf("pi+")]]
        return [sub, leaf("K-")]
    n = rng.choice({"AK": A_K, "PK": P_K, "TK": T_K}[kind])
    if bare_ok and rng.random() < 0.4:
        return [leaf(n), leaf("pi+")]
    if rng.random() < 0.6:
        inner = [kpi(rng, bare=True), leaf("pi-")]
    else:
        inner = [pipi(rng, bare=True), leaf("K-")]
    sub = [n, rng.choice([None, None, "D"]), rng.choice([None, "GSpline.EFF"]), inner]
    return [sub, leaf("pi+")]


def top_line(rng):
    if rng.random() < 0.5:
        ds = [kpi(rng, bare=True), pipi(rng, bare=True)]
        if rng.random() < 0.5:
            ds.reverse()
        return ["D0", rng.choice([None, None, "S", "P", "D"]), None, ds]
    return ["D0", None, None, cascade(rng)]


def bare_names(tree, acc):
    n, sp, ls, sub = tree
    if not sub:
        if n not in FINAL:
            acc.append(n)
    for s in sub:
        bare_names(s, acc)
    return acc


def sub_line(rng, name):
    """a separate line for a resonance written bare elsewhere"""
    if name in V_KPI + S_KPI:
        ls = rng.choice(["FOCUS.Kpi", "FOCUS.I32"]) if name in S_KPI else None
        return [name, None, ls, [leaf("K-"), leaf("pi+")]]
    if name in V_PIPI + S_PIPI:
        ls = rng.choice(["kMatrix.pole.1", "kMatrix.prod.0"]) if name in S_PIPI else None
        return [name, None, ls, [leaf("pi+"), leaf("pi-")]]
    if name in A_PI:
        return [name, rng.choice([None, "D"]), rng.choice([None, "GSpline.EFF"]), [pipi(rng, bare=True), leaf("pi+")]]
    inner = [kpi(rng, bare=True), leaf("pi-")] if rng.random() < 0.6 else [pipi(rng, bare=True), leaf("K-")]
    return [name, rng.choice([None, "D"]), rng.choice([None, "GSpline.EFF"]), inner]


def fixflag(rng):
    """the 'fix' column: AmpGen writes 0 / 1 / 2 / 3, the grammar takes any SIGNED_NUMBER"""
    return rng.choice(["0", "0", "2", "1"]) if rng.random() < 0.9 else rng.choice(["2.0", "0.0", "1e0", "+1", "-1", "3", "0.5", "-0"])


def cplx(rng):
    return [fixflag(rng), rng.choice(NUMS), rng.choice(["0", "0.0205762", "0.1"])]


def rand_optfile(rng, with_pars=True, fcs=None, extra_families=False):
    lines = [["event", ["D0"] + FINAL]]
    tops = [top_line(rng) for _ in range(rng.randint(1, 6))]
    if rng.random() < 0.3:
        # the same resonance written bare twice in one line of the mother (each occurrence is replaced by every separate line for it)
        n = rng.choice(V_PIPI + S_PIPI + V_KPI)
        tops.insert(rng.randint(0, len(tops)), ["D0", None, None, [leaf(n), leaf(n)]])
    if rng.random() < 0.3:
        # a cascade resonance written bare whose separate lines all leave the same inner resonance bare
        n, inner = rng.choice(A_K + P_K), rng.choice(V_PIPI)
        tops.append(["D0", None, None, [leaf(n), leaf("pi+")]])
        forced = [[n, rng.choice([None, "D"]), None, [leaf(inner), leaf("K-")]] for _ in range(rng.randint(2, 3))]
    else:
        forced = []
    body = [["cplx", t, cplx(rng), cplx(rng)] for t in tops] + [["cplx", t, cplx(rng), cplx(rng)] for t in forced]
    # separate lines for bare resonances, to depth 3
    todo = []
    for t in tops:
        bare_names(t, todo)
    done = set()
    depth = 0
    while todo and depth < 3:
        nxt = []
        for name in dict.fromkeys(todo):
            if name in done:
                continue
            done.add(name)
            k = rng.choice([0, 1, 1, 2, 3])
            for _ in range(k):
                sl = sub_line(rng, name)
                body.append(["cplx", sl, cplx(rng), cplx(rng)])
                bare_names(sl, nxt)
        todo = [n for n in nxt if n not in done]
        depth += 1
    rng.shuffle(body)
    lines += body
    if with_pars:
        for _ in range(rng.randint(0, 6)):
            lines.append(["var", rng.choice(["D0_radius", "sA", "s0_prod", "s0_scatt", "sA_0", "IS_p1_pipi", "f_scatt0", "myPar::x"]),
                          fixflag(rng), rng.choice(NUMS + ["1019.461", "0.12345678"]), rng.choice(["0", "0.01", "0.001234567"])])
        for _ in range(rng.randint(0, 4)):
            lines.append(["const", rng.choice(["a(1)(1260)+::Spline::Min", "a(1)(1260)+::Spline::Max", "a(1)(1260)+::Spline::N", "someConst"]),
                          rng.choice(["0.18412", "1.9", "40", "3"])])
    if fcs is None:
        fcs = rng.choice([None, None, "0", "1"])
    if fcs is not None:
        lines.insert(rng.randint(1, len(lines)), ["fcs", fcs])
    # comments / blank lines
    out = []
    for ln in lines:
        if rng.random() < 0.15:
            out.append(["comment", "# a comment { , } 1 2"])
        if rng.random() < 0.1:
            out.append(["blank"])
        out.append(ln)
    return out


def supported_top(rng, bare):
    """a line of the mother with one of the spin structures of goofit.known_spinfactors; bare: list collecting resonances written bare"""
    K, PIP, PIM = leaf("K-"), leaf("pi+"), leaf("pi-")

    def two(names, lss, d):
        n = rng.choice(names)
        if rng.random() < 0.25:
            bare.append(n)
            return leaf(n)
        return [n, None, rng.choice(lss), list(d)]
    vk = lambda: two(V_KPI, [None, "FOCUS.Kpi", "FOCUS.Kpi"], [K, PIP])
    vp = lambda: two(V_PIPI, [None, None, "kMatrix.pole.1", "kMatrix.prod.0"], [PIP, PIM])
    sk = lambda: two(S_KPI, [None, "FOCUS.Kpi", "FOCUS.I32", "FOCUS.KEta"], [K, PIP])
    sp = lambda: two(S_PIPI, [None, "kMatrix.pole.0", "kMatrix.pole.1", "kMatrix.prod.0", "kMatrix.prod.1"], [PIP, PIM])
    r = rng.random()
    if r < 0.3:
        ds = [vk(), vp()]
        if rng.random() < 0.5:
            ds.reverse()
        return ["D0", rng.choice([None, "S", "P", "D"]), None, ds]
    if r < 0.4:
        return ["D0", None, None, rng.choice([[vk(), sp()], [vp(), sk()]])]
    if r < 0.5:
        ds = [sk(), sp()]
        if rng.random() < 0.5:
            ds.reverse()
        return ["D0", None, None, ds]
    kind = rng.choice(["A", "A", "T", "P", "Api"])
    gsp = rng.choice([None, "GSpline.EFF"])
    if kind == "Api":
        inner_v = rng.random() < 0.6
        sub = [rng.choice(A_PI), rng.choice([None, "D"]) if inner_v else None, gsp, [vp() if inner_v else sp(), PIP]]
        return ["D0", None, None, [sub, K]]
    if kind == "T":
        inner, tag = (rng.choice([[vk(), PIM], [vp(), K]])), None
    else:
        inner_v = rng.random() < 0.6
        inner = rng.choice([[vk(), PIM], [vp(), K]]) if inner_v else rng.choice([[sk(), PIM], [sp(), K]])
        tag = rng.choice([None, "D"]) if (inner_v and kind == "A") else None
    sub = [rng.choice({"A": A_K, "T": T_K, "P": P_K}[kind]), tag, gsp, inner]
    return ["D0", None, None, [sub, PIP]]


def rand_convertible(rng):
    """an option file whose amplitudes use supported spin structures, with every parameter / constant its lineshapes need (GSpline:
    Min/Max/N + the Gamma family, in shuffled order, often with 10 or more points; kMatrix: IS_p*, f_scatt*, sA_0, sA, s0_prod,
    s0_scatt), couplings fixed or free, resonances written bare with one to three separate lines"""
    bare = []
    body = [["cplx", supported_top(rng, bare), cplx(rng), cplx(rng)] for _ in range(rng.randint(1, 5))]
    for n in dict.fromkeys(bare):
        for _ in range(rng.randint(1, 3)):
            body.append(["cplx", sub_line(rng, n), cplx(rng), cplx(rng)])
    rng.shuffle(body)
    opt = [["event", ["D0"] + FINAL]] + body
    if rng.random() < 0.3:
        opt.insert(rng.randint(1, len(opt)), ["fcs", "1"])
    gs, km = [], False

    def walk(t):
        nonlocal km
        n, sp, ls, sub = t
        if ls == "GSpline.EFF" and n not in gs:
            gs.append(n)
        if ls and ls.startswith("kMatrix"):
            km = True
        for x in sub:
            walk(x)
    for l in opt:
        if l[0] == "cplx":
            walk(l[1])
    extra = []
    for n in gs:
        npts = rng.choice([3, 7, 11, 12, 23])
        extra += [["const", f"{n}::Spline::Min", "0.18412"], ["const", f"{n}::Spline::Max", "1.9"], ["const", f"{n}::Spline::N", str(npts)]]
        extra += [["var", f"{n}::Spline::Gamma::{i}", rng.choice(["0", "2"]), rng.choice(NUMS), rng.choice(["0", "0.01"])] for i in range(npts)]
    if km:
        for i in range(1, 6):
            for ch in ("pipi", "KK", "4pi", "EtaEta", "EtapEta", "mass"):
                extra.append(["var", f"IS_p{i}_{ch}", "2", rng.choice(NUMS), "0"])
        extra += [["var", f"f_scatt{i}", "2", rng.choice(NUMS), "0"] for i in range(5)]
        extra += [["var", k, rng.choice(["0", "2"]), rng.choice(NUMS), rng.choice(["0", "0.01"])] for k in ("sA_0", "sA", "s0_prod", "s0_scatt")]
    for _ in range(rng.randint(0, 3)):
        extra.append(["var", rng.choice(["D0_radius", "myPar::x", "other_par"]), rng.choice(["0", "2"]), rng.choice(NUMS), rng.choice(["0", "0.01"])])
    rng.shuffle(extra)
    return opt + extra


def render_tree(t):
    n, sp, ls, sub = t
    s = n
    if sp and ls:
        s += f"[{sp};{ls}]"
    elif sp:
        s += f"[{sp}]"
    elif ls:
        s += f"[{ls}]"
    if sub:
        s += "{" + ",".join(render_tree(x) for x in sub) + "}"
    return s


def render(optfile):
    out = []
    for ln in optfile:
        k = ln[0]
        if k == "event":
            out.append("EventType " + " ".join(ln[1]))
        elif k == "cplx":
            out.append(f"{render_tree(ln[1])}   {' '.join(ln[2])}   {' '.join(ln[3])}")
        elif k == "const":
            out.append(f"{ln[1]} {ln[2]}")
        elif k == "var":
            out.append(f"{ln[1]}   {ln[2]}   {ln[3]}   {ln[4]}")
        elif k == "fcs":
            out.append(f"FastCoherentSum::UseCartesian {ln[1]}")
        elif k == "comment":
            out.append(ln[1])
        elif k == "blank":
            out.append("")
    return "\n".join(out) + "\n"


# ------------------------------------------------------------------ Coq emitters
def coq_tree(t):
    from vlib import cstr, clist
    n, sp, ls, sub = t
    o = lambda x: "None" if x is None else f"(Some {cstr(x)})"
    return f"(DNode {cstr(n)} {o(sp)} {o(ls)} {clist([coq_tree(x) for x in sub])})"


def coq_optfile(optfile):
    from vlib import cstr, clist
    rows = []
    for ln in optfile:
        k = ln[0]
        if k == "event":
            rows.append(f"OEvent {clist([cstr(n) for n in ln[1]])}")
        elif k == "cplx":
            fc = lambda c: "{| fc_fix := " + cstr(c[0]) + "; fc_val := " + cstr(c[1]) + "; fc_err := " + cstr(c[2]) + " |}"
            rows.append(f"OCplx {coq_tree(ln[1])} {fc(ln[2])} {fc(ln[3])}")
        elif k == "const":
            rows.append(f"OConst {cstr(ln[1])} {cstr(ln[2])}")
        elif k == "var":
            rows.append(f"OVar {cstr(ln[1])} {cstr(ln[2])} {cstr(ln[3])} {cstr(ln[4])}")
        elif k == "fcs":
            rows.append(f"OFCS {cstr(ln[1])}")
    return clist(["(" + r + ")" for r in rows])
