"""Generator / renderer of AmpGen option files (shared by C17-C20).

optfile = list of lines:
  ["event", [names]]  ["cplx", tree, [fix, val, err], [fix, val, err]]  ["const", name, lit]  ["var", name, fix, val, err]
  ["fcs", "0"|"1"]  ["comment", text]  ["blank"]
tree = [name, spin|None, lineshape|None, [] | [tree, tree]]
"""
from __future__ import annotations

FINAL = ["K-", "pi+", "pi+", "pi-"]
# resonances by what they decay to (indices into a 4-body final state are irrelevant here; names only)
V_KPI = ["K*(892)bar0"]
V_PIPI = ["rho(770)0", "rho(1450)0", "omega(782)0"]
S_KPI = ["KPi00", "KPi10", "KPi20"]
S_PIPI = ["PiPi00", "PiPi10", "PiPi20", "PiPi30"]
A_K = ["K(1)(1270)bar-", "K(1)(1400)bar-"]
P_K = ["K(1460)bar-"]
T_K = ["K(2)*(1430)bar-"]
A_PI = ["a(1)(1260)+"]
NUMS = ["0.5", "1", "0.196037", "-0.390311", "2.01551", "0", "3.01374", "-2.96395", "1.0", "0.25", "2", "-1.5"]


def leaf(n):
    return [n, None, None, []]


def kpi(rng, bare=False):
    n = rng.choice(V_KPI + S_KPI)
    if bare and rng.random() < 0.5:
        return leaf(n)
    ls = None
    if n in S_KPI and rng.random() < 0.7:
        ls = rng.choice(["FOCUS.Kpi", "FOCUS.I32", "FOCUS.KEta"])
    return [n, None, ls, [leaf("K-"), leaf("pi+")]]


def pipi(rng, bare=False):
    n = rng.choice(V_PIPI + S_PIPI)
    if bare and rng.random() < 0.5:
        return leaf(n)
    ls = None
    if n in S_PIPI and rng.random() < 0.8:
        ls = rng.choice(["kMatrix.pole.0", "kMatrix.pole.1", "kMatrix.prod.0", "kMatrix.prod.1"])
    return [n, None, ls, [leaf("pi+"), leaf("pi-")]]


def cascade(rng, bare_ok=True):
    kind = rng.choice(["AK", "PK", "TK", "Api"])
    if kind == "Api":
        n = rng.choice(A_PI)
        if bare_ok and rng.random() < 0.4:
            return [leaf(n), leaf("K-")]
        sub = [n, rng.choice([None, None, "D"]), rng.choice([None, "GSpline.EFF"]), [pipi(rng, bare=True), leaf("pi+")]]
        return [sub, leaf("K-")]
    n = rng.choice({"AK": A_K, "PK": P_K, "TK": T_K}[kind])
    if bare_ok and rng.random() < 0.4:
        return [leaf(n), leaf("pi+")]
    if rng.random() < 0.6:
        inner = [kpi(rng, bare=True), leaf("pi-")]
    else:
        inner = [pipi(rng, bare=True), leaf("K-")]
    sub = [n, rng.choice([None, None, "D"]), rng.choice([None, "GSpline.EFF"]), inner]
    return [sub, leaf("pi+")]


def top_line(rng):
    if rng.random() < 0.5:
        ds = [kpi(rng, bare=True), pipi(rng, bare=True)]
        if rng.random() < 0.5:
            ds.reverse()
        return ["D0", rng.choice([None, None, "S", "P", "D"]), None, ds]
    return ["D0", None, None, cascade(rng)]


def bare_names(tree, acc):
    n, sp, ls, sub = tree
    if not sub:
        if n not in FINAL:
            acc.append(n)
    for s in sub:
        bare_names(s, acc)
    return acc


def sub_line(rng, name):
    """a separate line for a resonance written bare elsewhere"""
    if name in V_KPI + S_KPI:
        ls = rng.choice(["FOCUS.Kpi", "FOCUS.I32"]) if name in S_KPI else None
        return [name, None, ls, [leaf("K-"), leaf("pi+")]]
    if name in V_PIPI + S_PIPI:
        ls = rng.choice(["kMatrix.pole.1", "kMatrix.prod.0"]) if name in S_PIPI else None
        return [name, None, ls, [leaf("pi+"), leaf("pi-")]]
    if name in A_PI:
        return [name, rng.choice([None, "D"]), rng.choice([None, "GSpline.EFF"]), [pipi(rng, bare=True), leaf("pi+")]]
    inner = [kpi(rng, bare=True), leaf("pi-")] if rng.random() < 0.6 else [pipi(rng, bare=True), leaf("K-")]
    return [name, rng.choice([None, "D"]), rng.choice([None, "GSpline.EFF"]), inner]


def cplx(rng):
    return [rng.choice(["0", "0", "2", "1"]), rng.choice(NUMS), rng.choice(["0", "0.0205762", "0.1"])]


def rand_optfile(rng, with_pars=True, fcs=None, extra_families=False):
    lines = [["event", ["D0"] + FINAL]]
    tops = [top_line(rng) for _ in range(rng.randint(1, 6))]
    body = [["cplx", t, cplx(rng), cplx(rng)] for t in tops]
    # separate lines for bare resonances, to depth 3
    todo = []
    for t in tops:
        bare_names(t, todo)
    done = set()
    depth = 0
    while todo and depth < 3:
        nxt = []
        for name in dict.fromkeys(todo):
            if name in done:
                continue
            done.add(name)
            k = rng.choice([0, 1, 1, 2, 3])
            for _ in range(k):
                sl = sub_line(rng, name)
                body.append(["cplx", sl, cplx(rng), cplx(rng)])
                bare_names(sl, nxt)
        todo = [n for n in nxt if n not in done]
        depth += 1
    rng.shuffle(body)
    lines += body
    if with_pars:
        for _ in range(rng.randint(0, 6)):
            lines.append(["var", rng.choice(["D0_radius", "sA", "s0_prod", "s0_scatt", "sA_0", "IS_p1_pipi", "f_scatt0", "myPar::x"]),
                          rng.choice(["0", "2", "1"]), rng.choice(NUMS), rng.choice(["0", "0.01"])])
        for _ in range(rng.randint(0, 4)):
            lines.append(["const", rng.choice(["a(1)(1260)+::Spline::Min", "a(1)(1260)+::Spline::Max", "a(1)(1260)+::Spline::N", "someConst"]),
                          rng.choice(["0.18412", "1.9", "40", "3"])])
    if fcs is None:
        fcs = rng.choice([None, None, "0", "1"])
    if fcs is not None:
        lines.insert(rng.randint(1, len(lines)), ["fcs", fcs])
    # comments / blank lines
    out = []
    for ln in lines:
        if rng.random() < 0.15:
            out.append(["comment", "# a comment { , } 1 2"])
        if rng.random() < 0.1:
            out.append(["blank"])
        out.append(ln)
    return out


def render_tree(t):
    n, sp, ls, sub = t
    s = n
    if sp and ls:
        s += f"[{sp};{ls}]"
    elif sp:
        s += f"[{sp}]"
    elif ls:
        s += f"[{ls}]"
    if sub:
        s += "{" + ",".join(render_tree(x) for x in sub) + "}"
    return s


def render(optfile):
    out = []
    for ln in optfile:
        k = ln[0]
        if k == "event":
            out.append("EventType " + " ".join(ln[1]))
        elif k == "cplx":
            out.append(f"{render_tree(ln[1])}   {' '.join(ln[2])}   {' '.join(ln[3])}")
        elif k == "const":
            out.append(f"{ln[1]} {ln[2]}")
        elif k == "var":
            out.append(f"{ln[1]}   {ln[2]}   {ln[3]}   {ln[4]}")
        elif k == "fcs":
            out.append(f"FastCoherentSum::UseCartesian {ln[1]}")
        elif k == "comment":
            out.append(ln[1])
        elif k == "blank":
            out.append("")
    return "\n".join(out) + "\n"


# ------------------------------------------------------------------ Coq emitters
def coq_tree(t):
    from vlib import cstr, clist
    n, sp, ls, sub = t
    o = lambda x: "None" if x is None else f"(Some {cstr(x)})"
    return f"(DNode {cstr(n)} {o(sp)} {o(ls)} {clist([coq_tree(x) for x in sub])})"


def coq_optfile(optfile):
    from vlib import cstr, clist
    rows = []
    for ln in optfile:
        k = ln[0]
        if k == "event":
            rows.append(f"OEvent {clist([cstr(n) for n in ln[1]])}")
        elif k == "cplx":
            fc = lambda c: "{| fc_fix := " + cstr(c[0]) + "; fc_val := " + cstr(c[1]) + "; fc_err := " + cstr(c[2]) + " |}"
            rows.append(f"OCplx {coq_tree(ln[1])} {fc(ln[2])} {fc(ln[3])}")
        elif k == "const":
            rows.append(f"OConst {cstr(ln[1])} {cstr(ln[2])}")
        elif k == "var":
            rows.append(f"OVar {cstr(ln[1])} {cstr(ln[2])} {cstr(ln[3])} {cstr(ln[4])}")
        elif k == "fcs":
            rows.append(f"OFCS {cstr(ln[1])}")
    return clist(["(" + r + ")" for r in rows])
