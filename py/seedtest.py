#!/usr/bin/env python3
"""Apply a seeded change to /repo, run the property's check, undo.  usage: seedtest.py <dir> [<dir> ...]
<dir> contains patch.diff (and demo.py, notes.txt); its basename starts with the property id."""
import json
import subprocess
import sys
from pathlib import Path

for d in sys.argv[1:]:
    d = Path(d)
    pid = d.name.split("_")[0]
    st = subprocess.run(["git", "-C", "/repo", "status", "--short"], capture_output=True, text=True).stdout.strip()
    if st:
        print("REPO NOT CLEAN, abort:", st)
        sys.exit(2)
    a = subprocess.run(["git", "-C", "/repo", "apply", str(d / "patch.diff")], capture_output=True, text=True)
    if a.returncode != 0:
        print(d.name, "patch does not apply:", a.stderr[:200])
        continue
    try:
        p = subprocess.run(["./check", pid, "--tier", "quick"], cwd="/verif", capture_output=True, text=True, timeout=1800)
        viol = [l for l in p.stdout.split("\n") if l.startswith("VIOLATION")]
        print(f"{d.name}: exit={p.returncode} violations={len(viol)}")
        for v in viol[:3]:
            print("   ", v[:260])
        (d / "detection.txt").write_text(f"check {pid} quick: exit={p.returncode}\n" + "\n".join(viol) + "\n")
    finally:
        subprocess.run(["git", "-C", "/repo", "checkout", "--", "."])
