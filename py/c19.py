#!/usr/bin/env python3
"""C19 — C++ and Python GooFit outputs describe the same, self-contained model.

proof:          coq/Props/C19.v (model coq/Amp/Convert.v: structured content shared by the two languages)
correspondence: models/DtoKpipipi_v2.txt, sub-models of it and generated four-body files with parameters, converted by
                ampgen2goofit / ampgen2goofitpy; both texts parsed into content (event type, mass constants, resonance
                variables, parameter declarations, amplitudes) and compared with the model and with each other.
proved + tied:  symbols declared before use (Amp/Symbols.v vs symstruct() of both texts);
executed only:  the Python text executed against a recording stand-in for the
                goofit module; string-returning mode vs captured stdout; command-line entry point.
"""
from __future__ import annotations

import contextlib
import io
import json
import re
import subprocess
import sys
import types
from fractions import Fraction
from pathlib import Path

sys.path.insert(0, str(Path(__file__).resolve().parent))
import ampgen_gen  # noqa: E402
import c18  # noqa: E402
import c20  # noqa: E402

KM_PARS = ["sA_0", "sA", "s0_prod", "s0_scatt"]          # parameters a kMatrix lineshape needs (besides the f_scatt / IS_p families)


def split_blocks(txt, cpp):
    lines = txt.split("\n")
    mark = (lambda l, w: w in l and l.strip().startswith("//")) if cpp else (lambda l, w: w in l and l.strip().startswith("#"))
    i_intro = next(i for i, l in enumerate(lines) if mark(l, "Intro"))
    i_pars = next(i for i, l in enumerate(lines) if mark(l, "Parameters"))
    i_lines = next(i for i, l in enumerate(lines) if mark(l, "Lines"))
    return lines[:i_intro], lines[i_intro:i_pars], lines[i_pars:i_lines], lines[i_lines:]


def parse_text(txt, cpp):
    hdr, intro, pars, body = split_blocks(txt, cpp)
    ev = re.search(r"Event type: (.*?) ->\s+(.*)", intro[1] if not cpp else intro[1])
    event = None
    for l in intro:
        m = re.search(r"Event type: (\S+) ->\s+(.*)", l)
        if m:
            event = [m.group(1)] + [x.split(" (")[0].strip() for x in re.split(r"\s{3}", m.group(2)) if x.strip()]
    massconsts, resvars, masses_line = [], {}, None
    for l in intro:
        m = re.match(r"\s*constexpr fptype (\w+)\s*\{ (\S+)\s*\};", l) if cpp else re.match(r"(\w+)\s+= ([\d.e+-]+)\s*$", l)
        if m:
            massconsts.append([m.group(1), float(m.group(2))])
            continue
        m = re.match(r'\s*Variable (\w+)\s*\{ "(\w+)"\s*, (\S+)\s*\};', l) if cpp else re.match(r'(\w+)\s+= Variable\("(\w+)"\s*, (\S+)\s*\)', l)
        if m:
            name, val = m.group(1), m.group(3)
            base, kind = name[:-2], name[-1]
            resvars.setdefault(base, {})[kind] = None if val == "None" else float(val)
            continue
        m = re.search(r"particle_masses = [{(](.*)[})]", l)
        if m:
            masses_line = [x.strip() for x in m.group(1).split(",")]
    decls = []
    for l in pars:
        m = re.match(r'\s*Variable (\w+) \{"([^"]*)", ([^,}]+?)(?:, ([^}]+?))? \};', l) if cpp else re.match(r'(\w+) = Variable\("([^"]*)", ([^,)]+?)(?:, ([^)]+?) )?\)', l)
        if m:
            decls.append([m.group(1), m.group(2), float(m.group(3)), None if m.group(4) is None else float(m.group(4))])
    # amplitude blocks
    blocks, cur = [], None
    for l in body:
        if re.match(r"\s*(//|#) Line \d+", l):
            if cur is not None:
                blocks.append("\n".join(cur))
            cur = []
        elif cur is not None:
            cur.append(l)
    if cur is not None:
        blocks.append("\n".join(cur))
    amps, coefs = [], []
    for b in blocks:
        amps.append(c18.parse_goofit(b))
        coefs.append(re.findall(r'(?:mkvar|Variable)\("([^"]*_[ri])"', b))
    arrays = []
    rx = r"std::vector<Variable>\s+(\w+)\s*\{\{(.*?)\}\};" if cpp else r"^(\w+) =\s+\[\s*\n(.*?)\]"
    for m in re.finditer(rx, txt, re.S | re.M):
        arrays.append([m.group(1), [x.strip() for x in m.group(2).split(",") if x.strip()]])
    return {"arrays": arrays, "event": event, "massconsts": sorted(massconsts), "resvars": sorted([k, v.get("M"), v.get("W")] for k, v in resvars.items()),
            "masses_line": masses_line, "pars": decls, "amps": amps, "coefs": coefs}


def def_before_use(txt, cpp):
    """model symbols used in the amplitude code must be declared earlier in the same text"""
    declared, missing = set(), []
    lines = txt.split("\n")
    i = 0
    while i < len(lines):
        l = lines[i]
        for m in (re.finditer(r"(?:Variable|std::vector<Variable>|constexpr fptype)\s+(\w+)\s*\{", l) if cpp else re.finditer(r"^(\w+)\s+=", l)):
            declared.add(m.group(1))
        if re.search(r"Lineshapes(?:::|\.)(RBW|GSpline|kMatrix|FOCUS)\(", l):
            blk = l
            while i + 1 < len(lines) and not re.search(r"Lineshapes(?:::|\.)(RBW|GSpline|kMatrix|FOCUS)\(|^\s*\}\);|amplitudes_list", lines[i + 1]):
                i += 1
                blk += " " + lines[i]
            blk = re.sub(r'"[^"]*"', "", blk)
            blk = re.sub(r"\b\w+(?:::\w+)+(?:\([^)]*\))?", "", blk)          # FF::BL2, Lineshapes::FOCUS::Mod::x, spline_t(...)
            blk = re.sub(r"\b\w+(?:\.\w+)+", "", blk)                        # FF.BL2, Lineshapes.FocusMod.x
            for sym in re.findall(r"\b[A-Za-z_]\w*\b", blk):
                if sym in ("new", "true", "false", "True", "False") or re.fullmatch(r"M_\d+(_\d+)?", sym):
                    continue
                if sym not in declared:
                    missing.append(sym)
        i += 1
    return sorted(set(missing))


def symstruct(txt, cpp):
    """the model symbols each section of a generated text declares and uses (the structure of coq/Amp/Symbols.v):
    [consts (sorted), resvars (sorted), particle_masses uses, parameter declarations (in order), arrays sorted [[name, sorted elements]],
     per amplitude per lineshape the symbols used (in order), sections-in-order flag]; the members of an array in text order"""
    hdr, intro, pars, body = split_blocks(txt, cpp)
    consts, resvars, masses = [], [], []
    for l in intro:
        m = re.match(r"\s*constexpr fptype (\w+)\s*\{", l) if cpp else re.match(r"(\w+)\s+= (?![A-Za-z(\[])", l)
        if m:
            consts.append(m.group(1))
            continue
        m = re.match(r"\s*Variable (\w+)\s*\{", l) if cpp else re.match(r"(\w+)\s+= Variable\(", l)
        if m:
            resvars.append(m.group(1))
            continue
        m = re.search(r"particle_masses = [{(](.*)[})]", l)
        if m:
            masses = [x.strip() for x in m.group(1).split(",") if x.strip()]
    ptxt = "\n".join(pars)
    decl_rx = r"^\s*Variable (\w+) \{" if cpp else r"^(\w+) = Variable\("
    arr_rx = r"std::vector<Variable>\s+(\w+)\s*\{\{(.*?)\}\};" if cpp else r"^(\w+) =\s+\[\s*\n(.*?)\]"
    decls = [(m.start(), m.group(1)) for m in re.finditer(decl_rx, ptxt, re.M)]
    arrs = [(m.start(), m.group(1), [x.strip() for x in m.group(2).split(",") if x.strip()]) for m in re.finditer(arr_rx, ptxt, re.S | re.M)]
    in_order = all(d[0] < a[0] for d in decls for a in arrs)
    # nothing is declared outside the two declaration sections
    btxt = "\n".join(body)
    if re.search(decl_rx, btxt, re.M) or re.search(arr_rx, btxt, re.S | re.M) or re.search(r"constexpr fptype", btxt):
        in_order = False
    blocks, cur = [], None
    for l in body:
        if re.match(r"\s*(//|#) Line \d+", l):
            if cur is not None:
                blocks.append("\n".join(cur))
            cur = []
        elif cur is not None:
            cur.append(l)
    if cur is not None:
        blocks.append("\n".join(cur))
    amps = []
    for b in blocks:
        starts = list(c18.LSTART.finditer(b))
        end_all = b.index("amplitudes_list") if "amplitudes_list" in b else len(b)
        uses = []
        for si, m in enumerate(starts):
            args = b[m.end():(starts[si + 1].start() if si + 1 < len(starts) else end_all)]
            if m.group(1) == "kMatrix":
                args = args.split(",", 2)[2]                                   # pterm and the pole flag are literals
            args = re.sub(r'"[^"]*"', "", args)
            args = re.sub(r"\b\w+(?:::\w+)+(?:\([^)]*\))?", "", args)          # FF::BL2, Lineshapes::FOCUS::Mod::x, Lineshapes::spline_t(...)
            args = re.sub(r"\b\w+(?:\.\w+)+", "", args)                        # FF.BL2, Lineshapes.FocusMod.x, 1.5
            syms = [x for x in re.findall(r"\b[A-Za-z_]\w*\b", args)
                    if x not in ("new", "true", "false", "True", "False") and not re.fullmatch(r"M_\d+(_\d+)?", x)]
            uses.append(syms)
        amps.append(uses)
    return [sorted(consts), sorted(resvars), masses, [d[1] for d in decls], sorted([a[1], a[2]] for a in arrs), amps, in_order]


def prog_name(n):
    from particle.particle.utilities import programmatic_name
    try:
        return programmatic_name(n, False)
    except TypeError:
        return programmatic_name(n)


def exec_python(txt):
    """run the generated Python against a recording stand-in for goofit; returns (ok, message)"""
    class Rec:
        def __init__(self, name="x"):
            self._n = name

        def __call__(self, *a, **k):
            return Rec(self._n + "()")

        def __getattr__(self, k):
            if k.startswith("__"):
                raise AttributeError(k)
            return Rec(self._n + "." + k)

        def __setattr__(self, k, v):
            object.__setattr__(self, k, v)
    mod = types.ModuleType("goofit")
    names = ["DecayInfo4", "Variable", "Lineshapes", "FF", "SF_4Body", "SpinFactor", "Amplitude"]
    names += [f"M_{a}{b}" for a in "1234" for b in "1234"] + [f"M_{a}{b}_{c}" for a in "1234" for b in "1234" for c in "1234"]
    for n in names:
        setattr(mod, n, Rec(n))
    mod.__all__ = names
    old = sys.modules.get("goofit")
    sys.modules["goofit"] = mod
    try:
        g = {}
        exec(compile(txt, "<generated>", "exec"), g)
        ok = "amplitudes_list" in g
        return ok, "" if ok else "amplitudes_list not defined"
    except NameError as e:
        return False, "NameError: " + str(e)
    except Exception as e:
        return False, type(e).__name__ + ": " + str(e)[:100]
    finally:
        if old is not None:
            sys.modules["goofit"] = old
        else:
            del sys.modules["goofit"]


def strip_ts(t):
    return "\n".join(l for l in t.split("\n") if "Generated on" not in l)


def impl_main(mode, fin, fout):
    from decaylanguage.modeling.ampgen2goofit import ampgen2goofit, ampgen2goofitpy
    cases = json.loads(Path(fin).read_text())
    out = []
    for c in cases:
        res = {}
        try:
            cpp = ampgen2goofit(c["path"], ret_output=True)
            py = ampgen2goofitpy(c["path"], ret_output=True)
        except Exception as e:
            out.append({"err": type(e).__name__})
            continue
        viol = []
        for lang, txt, iscpp in (("cpp", cpp, True), ("py", py, False)):
            try:
                res[lang] = parse_text(txt, iscpp)
            except StopIteration:
                res[lang] = None
                viol.append("text returned as a string lacks a section of the printed text (" + lang + ")")
        # returned text == printed text
        for fn, ret in ((ampgen2goofit, cpp), (ampgen2goofitpy, py)):
            buf = io.StringIO()
            with contextlib.redirect_stdout(buf):
                r = fn(c["path"])
            if r is not None or c20.canon_text(buf.getvalue()) != c20.canon_text(ret):
                viol.append("text returned as a string differs from the text printed (" + fn.__name__ + ")")
        if c.get("cli"):
            for gen, ret in (("goofit", cpp), ("goofitpy", py)):
                p = subprocess.run([sys.executable, "-m", "decaylanguage", "-G", gen, c["path"]], capture_output=True, text=True)
                if p.returncode != 0 or c20.canon_text(p.stdout) != c20.canon_text(ret):
                    viol.append("command-line entry point output differs (" + gen + ")")
        for lang, txt, iscpp in (("cpp", cpp, True), ("py", py, False)):
            try:
                res[lang + "_sym"] = symstruct(txt, iscpp)
            except Exception as e:  # noqa: BLE001
                res[lang + "_sym"] = {"err": type(e).__name__}
        res["missing_cpp"] = def_before_use(cpp, True)
        res["missing_py"] = def_before_use(py, False)
        ok, msg = exec_python(py)
        res["py_exec"] = [ok, msg]
        res["viol"] = viol
        res["_texts"] = [cpp, py]
        out.append(res)
    # the outputs of a file are a function of the file: converting the first file again, after all the others of this process,
    # must give the same two texts (apart from the timestamp), which still describe the same model
    first = next((i for i, r in enumerate(out) if "_texts" in r), None)
    if first is not None and sum(1 for r in out if "_texts" in r) >= 2:
        c = cases[first]
        try:
            cpp2 = ampgen2goofit(c["path"], ret_output=True)
            py2 = ampgen2goofitpy(c["path"], ret_output=True)
            if c20.canon_text(cpp2) != c20.canon_text(out[first]["_texts"][0]) or c20.canon_text(py2) != c20.canon_text(out[first]["_texts"][1]):
                out[first]["viol"].append("converting the same file again after other files gives a different text")
        except Exception as e:  # noqa: BLE001
            out[first]["viol"].append("converting the same file again after other files raises " + type(e).__name__)
    for r in out:
        r.pop("_texts", None)
    Path(fout).write_text(json.dumps(out))


def main():
    import random
    import vlib
    import tr_amp
    from vlib import Check
    args = vlib.std_args()
    ck = Check("C19", args.tier, args.seed)
    rng = ck.rng
    tr_amp.main()
    ck.proofs("Props/C19.v", extra_trusted=[
        "text <-> structure: py/c19.py parses both generated texts into content; the 8-significant-digit number formatting is CPython's "
        "(values compared to 1e-7 relative)",
        "declaration before use: coq/Amp/Symbols.v (hand-written) is compared with the symbol structure py/c19.py symstruct() extracts from both "
        "texts (regular expressions over the generated code); def_before_use() additionally scans each text directly",
        "executed, not proved: execution of the Python output against a "
        "recording stand-in for the goofit module, returned-string vs printed text, command-line entry point",
        "hand-written model coq/Amp/Convert.v (+ Amp/GooFit.v, Amp/Read.v) tied by correspondence; front end / particle lookup as C17"])
    d = vlib.BUILD / "c19"
    d.mkdir(parents=True, exist_ok=True)
    shipped = (vlib.REPO / "models" / "DtoKpipipi_v2.txt").read_text()
    texts = [shipped]
    prng = random.Random(args.seed)
    src = shipped.split("\n")
    ev = [l for l in src if l.startswith("EventType")]
    cplx = [l for l in src if len(l.split()) == 7 and "{" in l.split()[0]]
    rest = [l for l in src if l.strip() and not l.startswith("EventType") and l not in cplx and not l.startswith("#")]
    tops = [l for l in cplx if l.startswith("D0")]
    subs = [l for l in cplx if not l.startswith("D0")]

    def head(l):
        return re.split(r"[\[{]", l.split()[0])[0]

    def closure(sel):
        out, changed = list(sel), True
        while changed:
            changed = False
            text = " ".join(x.split()[0] for x in out)
            for sl in subs:
                if sl not in out and re.search(r"[{,]" + re.escape(head(sl)) + r"[,}]", text):
                    out.append(sl)
                    changed = True
        return out
    nsub = 3 if args.tier == "quick" else 40
    for i in range(nsub):
        body = closure(prng.sample(tops, prng.randint(1, 4)))
        prng.shuffle(body)
        # flip fixedness of some couplings, drop some parameters' fixedness
        body2 = []
        for l in body:
            t = l.split()
            if prng.random() < 0.5:
                t[1], t[4] = prng.choice(["0", "2"]), prng.choice(["0", "2"])
            body2.append("   ".join(t))
        rest2 = []
        for l in rest:
            t = l.split()
            if len(t) == 4 and prng.random() < 0.3:
                t[1] = prng.choice(["0", "2"])
                t[3] = prng.choice(["0", "0.01", "0.001234567"])
            if len(t) == 4 and "::" not in t[0] and prng.random() < 0.25:
                t[2] = prng.choice(["1019.461", "0.12345678", "-2.9639512", "493.67701"])      # more than six significant digits
            rest2.append("   ".join(t))
        if i % 2 == 0:
            rest2.append("sA_0   2   -0.15   0")          # the K-matrix parameter the shipped file lacks (O9)
        if i % 3 == 2:
            # lines an option file may carry and the converter skips: a single-component decay line, a particle alias line
            body2.append(body2[0].split()[0].replace("D0{", "D0[P]{", 1) + "   0   0.362058   0.00237314")
            body2.append("Kbar(1)(1400)- = K(1)(1400)bar-")
        # (every third text ends in a commented last line without a final line break)
        texts.append("\n".join(ev + (["FastCoherentSum::UseCartesian 1"] if i % 3 == 1 else []) + body2 + rest2) + ("   # the last line" if i % 3 == 0 else "\n"))
    cases = []
    for i, t in enumerate(texts):
        f = d / f"model_{i}.txt"
        f.write_text(t)
        cases.append({"path": str(f), "cli": i in (0, 1), "opt": c20.parse_opt(t)})
    # generated four-body option files (the generator of C18) with all the parameter families their lineshapes need
    ngen = 16 if args.tier == "quick" else 200
    for i in range(ngen):
        opt = ampgen_gen.rand_convertible(rng)
        f = d / f"gen_{i}.txt"
        f.write_text(ampgen_gen.render(opt))
        cases.append({"path": str(f), "cli": False, "opt": opt, "generated": True})
    impl = vlib.run_impl("c19.py", cases, nshards=min(16, len(cases)))
    pre = """
Definition pid_of (n : string) : option Z := pd_get n amp_names.
Definition info (p : Z) : option pinfo := zlookup p amp_particles.
"""
    # the model reads the same text as the implementation (coq/Amp/Text.v), not a structure prepared in Python
    def of_text(c, body):
        return (f"Definition f@ := Eval vm_compute in parse_text {vlib.cstr(Path(c['path']).read_text())}.",
                f"match f@ with Some f => {body} | None => VErr \"syntax\" end")
    terms = [of_text(c, "vcontent (convert pid_of info known_spinfactors 40 false f)") for c in cases]
    model = vlib.run_model("C19", ["Lib.PyDict", "Gen.GenAmp", "Amp.Syntax", "Amp.Text", "Amp.Read", "Amp.Perm", "Amp.GooFit", "Amp.Session", "Amp.Convert"],
                           "fun v : val => v", terms, shard=4, preamble=pre)

    sterms = [of_text(c, "vsymout (symbols pid_of info known_spinfactors 40 false f)") for c in cases]
    smodel = vlib.run_model("C19s", ["Lib.PyDict", "Gen.GenAmp", "Amp.Syntax", "Amp.Text", "Amp.Read", "Amp.Perm", "Amp.GooFit", "Amp.Session", "Amp.Convert",
                                     "Amp.Symbols"], "fun v : val => v", sterms, shard=4, preamble=pre)

    def sym_canon(mv):
        consts, resvars, masses, parsd, arrs, amps = mv
        return [sorted(consts), sorted(resvars), masses, parsd, sorted([a[0], a[1]] for a in arrs), amps]

    def qf(v):
        return None if v is None else float(Fraction(v["q"][0], v["q"][1]))

    def close(a, b):
        if a is None or b is None:
            return a is None and b is None
        return abs(a - b) <= 1e-7 * max(abs(a), abs(b), 1e-300)

    def content_ok(parsed, mv, names_of_pids):
        mev, mmc, mrv, mml, mpars, mamps = mv
        if parsed["masses_line"] != mml:
            return "particle_masses line"
        pm = sorted([n, v] for n, v in parsed["massconsts"])
        mm = sorted([n, qf(v)] for n, v in mmc)
        if [a[0] for a in pm] != [b[0] for b in mm] or not all(close(a[1], b[1]) for a, b in zip(pm, mm)):
            return "mass constants"
        pr = sorted(parsed["resvars"])
        mr = sorted([n, qf(m), qf(w)] for n, m, w in mrv)
        if [a[0] for a in pr] != [b[0] for b in mr] or not all(close(a[1], b[1]) and close(a[2], b[2]) for a, b in zip(pr, mr)):
            return "resonance mass/width variables"
        if len(parsed["pars"]) != len(mpars):
            return "number of parameter declarations"
        for a, b in zip(parsed["pars"], mpars):
            if a[0] != b[0] or a[1] != b[1] or not close(a[2], qf(b[2])) or (a[3] is None) != (b[3] is None) or (a[3] is not None and not close(a[3], qf(b[3]))):
                return "parameter declaration " + a[1]
        if len(parsed["amps"]) != len(mamps):
            return "number of amplitudes"
        for a, b in zip(parsed["amps"], mamps):
            if isinstance(b, dict):
                return "model cannot emit an amplitude the implementation emitted"
            name, spins, lines, fx, n = a
            if name != b[0] or spins != b[1] or fx != b[3] or n != b[4] or [l[:5] for l in lines] != [l[:5] for l in b[2]]:
                return "amplitude " + str(name)
            # the radius of a lineshape (5.0 for a resonance with a charm quark or anti-quark, else 1.5; RBW carries none)
            if any(la[5] is not None and la[5] != lb[5] for la, lb in zip(lines, b[2])):
                return "lineshape radius of amplitude " + str(name)
        return None
    diffs, hits = [], []
    for i, (c, iv, mv) in enumerate(zip(cases, impl, model)):
        if isinstance(iv, dict) and "err" in iv and iv["err"] == "LineFailure" and c.get("generated") and (isinstance(mv, dict) or any(isinstance(a, dict) for a in mv[5])):
            # an amplitude with an unsupported spin structure: the premise of the property is not met (model and implementation agree)
            ck.notes.setdefault("premise_not_met", []).append([c["path"], "both", "unsupported spin structure: conversion refused by model and implementation"])
            continue
        if isinstance(iv, dict) and "err" in iv:
            diffs.append(i)
            hits.append((c["path"], "conversion raises " + iv["err"] + (" (F10: programmatic_name signature)" if iv["err"] == "TypeError" else "")))
            continue
        if isinstance(mv, dict):
            diffs.append(i)
            continue
        if iv["cpp"] is None or iv["py"] is None:
            diffs.append(i)
            for v in iv["viol"]:
                hits.append((c["path"], ("F6: " if "returned as a string" in v else "") + v))
            continue
        for lang in ("cpp", "py"):
            why = content_ok(iv[lang], mv, None)
            if why:
                diffs.append(i)
                ck.notes.setdefault("content_mismatch", []).append([c["path"], lang, why])
                break
        # the symbol structure of each text (what is declared where, what every lineshape uses) against coq/Amp/Symbols.v
        sm = smodel[i]
        for lang in ("cpp", "py"):
            isym = iv.get(lang + "_sym")
            if isinstance(sm, dict) or isinstance(isym, dict) or isym is None or isym[:6] != sym_canon(sm):
                if i not in diffs:
                    diffs.append(i)
                ck.notes.setdefault("content_mismatch", []).append([c["path"], lang, "symbol structure (declarations / uses per section)"])
                break
            if not isym[6]:
                hits.append((c["path"], "a declaration section of the " + lang + " output is out of order (parameters after arrays, or a declaration among the amplitudes)"))
        # direct statements of the property on the implementation's texts
        a, b = iv["cpp"], iv["py"]
        same = (a["event"] == b["event"] and [x[0] for x in a["massconsts"]] == [x[0] for x in b["massconsts"]]
                and [x[0] for x in a["resvars"]] == [x[0] for x in b["resvars"]] and a["pars"] == b["pars"]
                and [[x[0], x[1], [l[:6] for l in x[2]], x[3], x[4]] for x in a["amps"]] == [[x[0], x[1], [l[:6] for l in x[2]], x[3], x[4]] for x in b["amps"]])
        if not same:
            hits.append((c["path"], "the two outputs do not describe the same model"))
        if a["arrays"] != b["arrays"]:
            bad = [x[0] for x, y in zip(a["arrays"], b["arrays"]) if x != y] or ["<different array sets>"]
            hits.append((c["path"], "the parameter arrays of the two outputs differ (members or order): " + bad[0]))
        for lang in ("cpp", "py"):
            orig = {d[0]: d[1] for d in iv[lang]["pars"]}
            for an, els in iv[lang]["arrays"]:
                if an == "IS_poles":
                    continue
                idx = [re.search(r"(\d+)$", orig.get(e, e)) for e in els]
                if any(m is None for m in idx) or [int(m.group(1)) for m in idx] != list(range(len(els))):
                    hits.append((c["path"], "a spline / f_scatt array is not in index order in the " + lang + " output: " + an))
                    break
        for lang in ("cpp", "py"):
            for co in iv[lang]["coefs"]:
                if len(co) == 2 and co[0] == co[1]:
                    hits.append((c["path"], "F5: real and imaginary coefficients share one name in the " + lang + " output"))
                    break
        defined = {l[1] for l in c["opt"] if l[0] == "var"}
        undefined_km = [k for k in KM_PARS if k not in defined]
        excused = set(undefined_km) | {prog_name(k) for k in undefined_km}
        for lang, miss in (("cpp", iv["missing_cpp"]), ("py", iv["missing_py"])):
            real_missing = [m for m in miss if m not in excused]
            prem = [m for m in miss if m not in real_missing]
            if prem:
                ck.notes.setdefault("premise_not_met", []).append([c["path"], lang, prem])
            if real_missing:
                hits.append((c["path"], "symbol used before / without declaration in the " + lang + " output: " + ",".join(real_missing)))
        ok, msg = iv["py_exec"]
        if not ok and not (msg.startswith("NameError") and any(("'" + k + "'") in msg for k in excused)):
            hits.append((c["path"], "the Python output does not run against the goofit stand-in: " + msg))
        elif not ok:
            ck.notes.setdefault("premise_not_met", []).append([c["path"], "py-exec", msg])
        for v in iv["viol"]:
            hits.append((c["path"], ("F6: " if "returned as a string" in v else "") + v))
    ck.cov["evaluations"] += len(cases)
    ck.cov["traces_validated_against_impl"] += len(cases) - len(set(diffs))
    ck.cov["distinct_nontrivial"] = len(cases)
    ck.cov["rule"] = ("the shipped models/DtoKpipipi_v2.txt and sub-models of it (1..4 lines of the mother with the separate lines their bare "
                      "resonances need, all parameter / constant lines, fixedness of couplings and parameters varied, coherent-sum option on "
                      "every third); function call, string-returning call, captured stdout, command-line entry point for two of them")
    okv = [v for v in impl if isinstance(v, dict) and v.get("cpp")]
    ck.cov["samples"] = [{"path": cases[1]["path"], "amps": len(okv[0]["cpp"]["amps"]) if okv else None}]
    ck.notes["distribution"] = {"files": len(cases), "amplitudes": sum(len(v["cpp"]["amps"]) for v in okv),
                                "parameter_declarations": sum(len(v["cpp"]["pars"]) for v in okv)}
    diffs = sorted(set(diffs))
    vlib.std_failure(ck, "Props/C19.v", [c["path"] for c in cases], diffs, [None] * len(cases), [None] * len(cases), hits, "py/c19.py",
                     sig_of=lambda c, v: ("F10:programmatic_name-signature" if "F10" in v else "F5:coefficient-names" if v.startswith("F5")
                                          else "F6:returned-string-incomplete" if v.startswith("F6") else "oracle:" + v[:70]))
    sys.exit(ck.finish())


if __name__ == "__main__":
    if len(sys.argv) > 1 and sys.argv[1] in ("impl", "oracle"):
        impl_main(sys.argv[1], sys.argv[2], sys.argv[3])
    else:
        main()
