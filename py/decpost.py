"""Shared pieces for the properties about DecFileParser.parse(): Coq emitters for statement lists,
implementation-side observation of the decay tables, and generators."""
from __future__ import annotations

import json
from pathlib import Path
from fractions import Fraction

import decgen


# ------------------------------------------------------------------ Coq emitters
def coq_params(params):
    from vlib import cstr, clist
    if params is None:
        return "None"
    return "(Some " + clist([("PLit " if k == "num" else "PLabel ") + cstr(t) for k, t in params]) + ")"


def coq_model(model, params, is_label):
    from vlib import cstr
    if is_label:
        return f"(MLabel {cstr(model)})"
    return f"(MName {cstr(model)} {coq_params(params)})"


def coq_stmt(st):
    from vlib import cstr, clist, cbool
    k = st[0]
    if k == "Decay":
        ls = []
        for l in st[2]:
            ls.append("{| d_bf := " + cstr(l["bf"]) + "; d_fs := " + clist([cstr(x) for x in l["fs"]]) + "; d_photos := "
                      + cbool(bool(l.get("photos"))) + "; d_model := " + coq_model(l["model"], l.get("params"), l.get("label", False)) + " |}")
        return f"SDecay {cstr(st[1])} {clist(ls)}"
    if k == "Define":
        return f"SDefine {cstr(st[1])} {cstr(st[2])}"
    if k == "Alias":
        return f"SAlias {cstr(st[1])} {cstr(st[2])}"
    if k == "ChargeConj":
        return f"SChargeConj {cstr(st[1])} {cstr(st[2])}"
    if k == "CDecay":
        return f"SCDecay {cstr(st[1])}"
    if k == "CopyDecay":
        return f"SCopyDecay {cstr(st[1])} {cstr(st[2])}"
    if k == "ModelAlias":
        return f"SModelAlias {cstr(st[1])} {coq_model(st[2], st[3], len(st) > 4 and st[4])}"
    if k == "Particle":
        return f"SParticle {cstr(st[1])} {cstr(st[2])} " + ("None" if st[3] is None else f"(Some {cstr(st[3])})")
    if k == "Pythia":
        return f"SPythia {cstr(st[1])} {cstr(st[2])} {cstr(st[3])} {cstr(st[4])}"
    if k == "JetSet":
        return f"SJetSet {cstr(st[1])} {cstr(st[2])}"
    if k == "LS":
        return f"SLS {cstr(st[1])} {cstr(st[2])}"
    if k == "BW":
        return f"SBW {cstr(st[1])} {cstr(st[2])}"
    if k == "ChangeMass":
        return f"SChangeMass {cstr(st[1])} {cstr(st[2])} {cstr(st[3])}"
    if k == "IncFactor":
        return f"SIncFactor {cstr(st[1])} {cstr(st[2])} {cstr(st[3])}"
    if k == "LSPW":
        return f"SLSPW {cstr(st[1])} {cstr(st[2])} {cstr(st[3])} {cstr(st[4])}"
    if k == "Photos":
        return f"SPhotos {cbool(st[1])}"
    raise ValueError(k)


def coq_stmts(stmts):
    from vlib import clist
    return clist(["(" + coq_stmt(s) + ")" for s in stmts])


# ------------------------------------------------------------------ implementation side
def observe_tables(p, only=None):
    """every table held after parse(), in order: [mother, [[bf, fs, model(+PHOTOS), params], ...]]"""
    from vlib import fl
    out = []
    for ti, tree in enumerate(p._parsed_decays):
        if only is not None and ti not in only:
            out.append(None)
            continue
        m = tree.children[0].children[0].value
        lines = []
        for dm in tree.find_data("decayline"):
            d = p._decay_mode_details(dm, True)
            prm = d["model_params"]
            if isinstance(prm, list):
                prm = [fl(x) if isinstance(x, float) else x for x in prm]
            lines.append([fl(d["bf"]), list(d["fs"]), d["model"], prm])
        out.append([m, lines])
    return out


def parse(text, include_cc=True, extra_models=(), via_file=False):
    import warnings
    from decaylanguage import DecFileParser
    if via_file:
        # the same text handed over as a file
        import tempfile
        with tempfile.TemporaryDirectory(prefix="decpost_") as td:
            f = Path(td) / "in.dec"
            f.write_bytes(text.encode("utf-8"))
            p = DecFileParser(f)
    else:
        p = DecFileParser.from_string(text)
    if extra_models:
        p.load_additional_decay_models(*extra_models)
    with warnings.catch_warnings(record=True) as w:
        warnings.simplefilter("always")
        p.parse(include_ccdecays=include_cc)
    return p, [str(x.message)[:60] for x in w]


# ------------------------------------------------------------------ front-end cross-check (the model of C02 on this property's texts)
def to_tree_form(stmts):
    """decgen statement forms -> the forms py/dectree.py reads off Lark's tree (and coq/Dec/FrontEnd.enc_stmt prints)"""
    def mdl(model, params, is_label):
        if is_label:
            return ["L", model]
        return ["N", model, [list(p) for p in params] if params else None]
    out = []
    for st in stmts:
        k = st[0]
        if k == "Decay":
            out.append(["Decay", st[1], [[l["bf"], list(l["fs"]), bool(l.get("photos")), mdl(l["model"], l.get("params"), l.get("label", False))] for l in st[2]]])
        elif k == "ModelAlias":
            out.append(["ModelAlias", st[1], mdl(st[2], st[3], len(st) > 4 and st[4])])
        else:
            out.append(list(st))
    return out


def front_end_check(ck, tag, cases, impl_rejected=()):
    """Dec/FrontEnd.parse_text (scanner + statement automaton on the regenerated lexical configuration) applied to every case's text
    must give the statement list the case's model term is built from.  A text the front-end model rejects is a model gap (a word the
    lexer would cut in two), counted, unless the implementation rejects it too."""
    import vlib
    import tr_layout
    from vlib import cstr
    try:
        tr_layout.main()
    except RuntimeError as e:
        ck.notes["front_end_cross_check"] = {"translator_error": str(e)[:300]}
        ck.broken_tie("translator", "py/tr_layout.py refused the compiled grammar: " + str(e)[:200],
                      {"theorem_or_correspondence": "translator py/tr_layout.py (front-end cross-check)"})
        return
    terms = [f"enc_result (parse_text gen_cfg {cstr(c['text'])})" for c in cases]
    mv = vlib.run_model(tag, ["Dec.ModelName", "Dec.Syntax", "Dec.Layout", "Dec.ItemParser", "Dec.FrontEnd", "Gen.GenLayout"], "fun v : val => v", terms, shard=60)
    diffs, gaps = [], 0
    for i, (c, v) in enumerate(zip(cases, mv)):
        if v == to_tree_form(c["stmts"]):
            continue
        if isinstance(v, dict):
            gaps += 1
        else:
            diffs.append(i)
    ck.notes["front_end_cross_check"] = {"texts": len(cases), "agree": len(cases) - len(diffs) - gaps, "model_gaps": gaps, "differ": len(diffs)}
    if diffs:
        i = diffs[0]
        ck.broken_tie("correspondence", f"front end: parse_text of the rendered text is not the statement list the model was given, in {len(diffs)} of {len(cases)} cases",
                      {"cases": [cases[i]], "model_front_end": mv[i], "expected": to_tree_form(cases[i]["stmts"]),
                       "theorem_or_correspondence": "front-end cross-check of py/decpost.py (Dec/FrontEnd.parse_text vs the generator's statement list)"})
