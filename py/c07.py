#!/usr/bin/env python3
"""C07 — Global declarations are reported completely, later declarations winning.

proof:          coq/Props/C07.v (model coq/Dec/Queries.v)
correspondence: files with 0..5 statements of each kind in random order and position relative to Decay blocks, repeated
                names, integer/float/word values, signed numbers, names over the whole alphabet; every declaration query
                canonicalised to ordered items with type tags.
"""
from __future__ import annotations

import json
import sys
from pathlib import Path

sys.path.insert(0, str(Path(__file__).resolve().parent))
import decgen  # noqa: E402
import decpost  # noqa: E402


def impl_main(mode, fin, fout):
    from vlib import fl

    def tag(v):
        if isinstance(v, bool):
            return v
        if isinstance(v, float):
            return fl(v)
        if isinstance(v, int):
            return int(v)
        return v

    def items(d, f=tag):
        return [[k, f(v)] for k, v in d.items()]

    def guarded(fn):
        try:
            return fn()
        except RuntimeError:
            return {"err": "RuntimeError"}
        except Exception as e:
            return {"err": type(e).__name__}

    cases = json.loads(Path(fin).read_text())
    out = []
    for c in cases:
        try:
            p, _ = decpost.parse(c["text"])
        except Exception as e:
            out.append({"err": "parse:" + type(e).__name__})
            continue
        from decaylanguage.dec.enums import PhotosEnum
        res = [items(p.dict_aliases()), items(p.dict_charge_conjugates()), items(p.dict_definitions()), items(p.dict_decays2copy()),
               list(p.list_charge_conjugate_decays()),
               guarded(lambda: items(p.get_particle_property_definitions(), lambda d: [fl(d["mass"]), fl(d["width"])])),
               items(p.dict_pythia_definitions(), lambda d: items(d)),
               guarded(lambda: items(p.dict_jetset_definitions(), lambda d: [[int(k), tag(v)] for k, v in d.items()])),
               guarded(lambda: items(p.dict_lineshape_settings(), lambda d: items(d))),
               [[list(a), int(b)] for a, b in p.list_lineshapePW_definitions()],
               bool(p.global_photos_flag() == PhotosEnum.yes)]
        out.append(res)
    Path(fout).write_text(json.dumps(out))


def gen_cases(rng, tier, evt_with_width):
    from gen_chains import REAL
    TAIL = "abcxyzABCXYZ0123456789/-+*_().'~"
    cases = []
    n = 260 if tier == "quick" else 3000
    for _ in range(n):
        def lab():
            if rng.random() < 0.5:
                return rng.choice(REAL)
            return rng.choice(["My", "x", "q"]) + "".join(rng.choice(TAIL) for _ in range(rng.randint(0, 6)))
        pool = [lab() for _ in range(6)]
        stmts = []
        def many(k):
            return range(rng.choice([0, 0, 1, 1, 2, 3, 5]) if k else 0)
        for _ in many(1):
            stmts.append(["Alias", rng.choice(pool), rng.choice(REAL + pool)])
        for _ in many(1):
            stmts.append(["ChargeConj", rng.choice(pool), rng.choice(pool)])
        for _ in many(1):
            stmts.append(["Define", rng.choice(["dm", "dG", "x.1", "q_p"] + pool[:2]), rng.choice(decgen.NUMFORMS)])
        for _ in many(1):
            stmts.append(["CopyDecay", rng.choice(pool), rng.choice(pool)])
        for _ in many(1):
            stmts.append(["CDecay", rng.choice(pool)])
        for _ in many(1):
            r = rng.random()
            if r < 0.45:
                stmts.append(["Particle", rng.choice(pool), rng.choice(decgen.NUMFORMS), rng.choice(decgen.NUMFORMS)])
            elif r < 0.8:
                stmts.append(["Particle", rng.choice(evt_with_width), rng.choice(decgen.NUMFORMS), None])
            elif r < 0.93:
                a = "MyAl" + str(rng.randint(0, 3))
                stmts.append(["Alias", a, rng.choice(evt_with_width)])
                stmts.append(["Particle", a, rng.choice(decgen.NUMFORMS), None])
            else:
                stmts.append(["Particle", "MyUnknownP", "1.0", None])
        for _ in many(1):
            kind = rng.choice(["PythiaAliasParam", "PythiaBothParam", "PythiaGenericParam"])
            val = rng.choice(["on", "off", "3", "1.5", "-2", "2E-4", "Tune:pp", "x~y", "+7", "0.0", "MyVal"])
            if ":" in val:
                val = "on"
            stmts.append(["Pythia", kind, rng.choice(["ParticleDecays", "SLHA", "Next"]), rng.choice(["mixB", "limitTau0", "readFrom", "x_1"]), val])
        for _ in many(1):
            lbl = rng.choice(["MSTJ(26)", "PARJ(21)", "MSTJ(26)", "MSTU(4)", "PARJ(1)", "P(2)x"] + (["PARJ", "12(3)", "A(x)"] if rng.random() < 0.1 else []))
            stmts.append(["JetSet", lbl, rng.choice(["0", "3", "-1", "+2", "0.4", "1.", "2E-4", "007"])])
        for _ in many(1):
            stmts.append(["LS", rng.choice(["LSFLAT", "LSNONRELBW", "LSMANYDELTAFUNC"]), rng.choice(pool)])
        for _ in many(1):
            stmts.append(["BW", rng.choice(pool), rng.choice(decgen.NUMFORMS)])
        for _ in many(1):
            stmts.append(["ChangeMass", rng.choice(["ChangeMassMin", "ChangeMassMax"]), rng.choice(pool), rng.choice(decgen.NUMFORMS)])
        for _ in many(1):
            stmts.append(["IncFactor", rng.choice(["IncludeBirthFactor", "IncludeDecayFactor"]), rng.choice(pool), rng.choice(["yes", "no"])])
        for _ in many(1):
            stmts.append(["LSPW", rng.choice(pool), rng.choice(pool), rng.choice(pool), rng.choice(["0", "1", "2", "10"])])
        for _ in many(1):
            stmts.append(["Photos", rng.random() < 0.5])
        for _ in range(rng.randint(0, 2)):
            stmts.append(["Decay", rng.choice(pool), [{"bf": "1.0", "fs": [rng.choice(pool)], "photos": False, "model": "PHSP", "params": None}]])
        rng.shuffle(stmts)
        # lineshape duplicates are errors: thin them out so that about half the files are error-free
        if rng.random() < 0.6:
            seen, keep = set(), []
            for s in stmts:
                key = None
                if s[0] == "LS":
                    key = (s[2], "lineshape")
                elif s[0] == "BW":
                    key = (s[1], "BlattWeisskopf")
                elif s[0] in ("ChangeMass", "IncFactor"):
                    key = (s[2], s[1])
                if key is not None:
                    if key in seen:
                        continue
                    seen.add(key)
                keep.append(s)
            stmts = keep
        cases.append({"stmts": stmts, "text": decgen.render(stmts)})
    return cases


def main():
    import vlib
    import tr_particles
    from vlib import Check
    args = vlib.std_args()
    ck = Check("C07", args.tier, args.seed)
    tr_particles.main()
    ck.proofs("Props/C07.v", extra_trusted=[
        "PARTIAL front end: text -> statement list (Lark) is not modelled; py/decgen.py renders the statements in one canonical layout",
        "reference widths and GeV regenerated by py/tr_particles.py; Python float() on words like nan/inf is outside the model (O6)",
        "hand-written model coq/Dec/Queries.v tied by correspondence"])
    d = tr_particles.probe()
    evt_with_width = [a for a, _, _ in d["width"] if a[0].isalpha() and a not in ("Decay", "End")]
    cases = json.loads(Path(args.replay).read_text())["cases"] if args.replay else gen_cases(ck.rng, args.tier, evt_with_width)
    impl = vlib.run_impl("c07.py", cases)
    decpost.front_end_check(ck, "C07fe", cases)
    terms = [f"vqueries (fun n => pd_get n db_width) gev {decpost.coq_stmts(c['stmts'])}" for c in cases]
    model = vlib.run_model("C07", ["Lib.PyDict", "Gen.GenParticles", "Dec.Syntax", "Dec.Post", "Dec.Queries"], "fun v : val => v", terms, shard=60)
    diffs = vlib.compare_veq(ck, cases, impl, model)
    ck.cov["distinct_nontrivial"] = len({c["text"] for c in cases if len(c["stmts"]) > 5})
    ck.cov["rule"] = ("0..5 statements of each of the 16 kinds (Alias, ChargeConj, Define, CopyDecay, CDecay, Particle with/without width "
                      "incl. aliased and unknown names, Pythia*Param, JetSetPar incl. malformed labels, LS*, BlattWeisskopf, ChangeMassMin/Max, "
                      "IncludeBirth/DecayFactor, SetLineshapePW, yes/noPhotos) shuffled among Decay blocks, repeated names, all literal forms, "
                      "labels over the whole alphabet; lineshape duplicates removed in ~60% of files; non-trivial = more than five statements")
    ck.cov["samples"] = [{"text": cases[0]["text"]}]
    ck.notes["distribution"] = {"files": len(cases),
                                "lineshape_errors": sum(1 for v in impl if isinstance(v, list) and isinstance(v[8], dict)),
                                "jetset_errors": sum(1 for v in impl if isinstance(v, list) and isinstance(v[7], dict)),
                                "particle_errors": sum(1 for v in impl if isinstance(v, list) and isinstance(v[5], dict)),
                                "parse_errors": sum(1 for v in impl if isinstance(v, dict))}
    hits = []
    if diffs:
        names = ["dict_aliases", "dict_charge_conjugates", "dict_definitions", "dict_decays2copy", "list_charge_conjugate_decays",
                 "get_particle_property_definitions", "dict_pythia_definitions", "dict_jetset_definitions", "dict_lineshape_settings",
                 "list_lineshapePW_definitions", "global_photos_flag"]
        for i in diffs[:40]:
            if isinstance(impl[i], list) and isinstance(model[i], list):
                bad = [names[k] for k in range(len(names)) if not vlib.veq(impl[i][k], model[i][k])]
                msg = oracle(cases[i], impl[i], bad)
                if msg:
                    hits.append((cases[i], msg))
    vlib.std_failure(ck, "Props/C07.v", cases, diffs, impl, model, hits, "py/c07.py", sig_of=lambda c, v: "oracle:" + v.split(":")[0])
    sys.exit(ck.finish())


def oracle(c, res, bad):
    """independent statement of the property for the simple queries (last declaration wins, every statement accounted for)"""
    from fractions import Fraction
    import vlib
    st = c["stmts"]
    exp = {}
    for s in st:
        if s[0] == "Alias":
            exp.setdefault("dict_aliases", {})[s[1]] = s[2]
        elif s[0] == "ChargeConj":
            exp.setdefault("dict_charge_conjugates", {})[s[1]] = s[2]
        elif s[0] == "CopyDecay":
            exp.setdefault("dict_decays2copy", {})[s[1]] = s[2]
    for k, idx in (("dict_aliases", 0), ("dict_charge_conjugates", 1), ("dict_decays2copy", 3)):
        if dict(map(tuple, res[idx])) != exp.get(k, {}):
            return k + ": not the last declaration per name"
    defs = {}
    for s in st:
        if s[0] == "Define":
            defs[s[1]] = vlib.q(Fraction(s[2]))
    if not vlib.veq([list(x) for x in res[2]], [[k, v] for k, v in defs.items()]):
        return "dict_definitions: not the last declared value as a number"
    if res[4] != sorted(s[1] for s in st if s[0] == "CDecay"):
        return "list_charge_conjugate_decays: not the sorted list of all CDecay names"
    flags = [s[1] for s in st if s[0] == "Photos"]
    if res[10] != (flags[-1] if flags else False):
        return "global_photos_flag: not the last flag given (off when absent)"
    if res[9] != [[[s[1], s[2], s[3]], int(s[4])] for s in st if s[0] == "LSPW"]:
        return "list_lineshapePW_definitions: not every statement in order"
    return "declaration query differs from the statements (" + ", ".join(bad) + ")"


if __name__ == "__main__":
    if len(sys.argv) > 1 and sys.argv[1] in ("impl", "oracle"):
        impl_main(sys.argv[1], sys.argv[2], sys.argv[3])
    else:
        main()
