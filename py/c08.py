#!/usr/bin/env python3
"""C08 — Copied and derived tables are independent; queries never change the parser.

proof:          coq/Props/C08.v: CopyDecay semantics in the value model of parse() (Dec/Post.v); separation of the object graph
                and independence of tables under in-place writes in the identity-carrying model (Dec/Heap.v, Dec/HeapProofs.v)
correspondence: (a) histories of 1..12 public queries on one parser instance with recursive in-place mutation of every
                returned structure, re-parse included; after every step the full snapshot (tables + declaration queries) is
                compared with the model's and with a freshly parsed instance; (b) the object graph held after parse():
                no Token / Tree object reachable from two tables or twice within one (separation), and writing to every
                token of a copied / conjugated table leaves its source unchanged.
"""
from __future__ import annotations

import contextlib
import copy
import io
import json
import sys
from pathlib import Path

sys.path.insert(0, str(Path(__file__).resolve().parent))
import decgen  # noqa: E402
import decpost  # noqa: E402

OPS = ["mothers", "number", "modes", "chains", "expand", "print", "aliases", "ccs", "defs", "copies", "cdecays",
       "pythia", "jetset", "lineshape", "lspw", "photos", "model_aliases", "reparse", "reparse_nocc"]


def mutate(x, depth=0):
    """recursive in-place modification of a returned structure"""
    if isinstance(x, list):
        for y in x:
            mutate(y, depth + 1)
        x.append("MUTATED")
        if len(x) > 2:
            x[0] = "CHANGED"
    elif isinstance(x, dict):
        for k in list(x.keys()):
            mutate(x[k], depth + 1)
            x[k] = "CHANGED" if not isinstance(x[k], (list, dict)) else x[k]
        x["MUTATED"] = 1


def snapshot(p, extra=None):
    from vlib import fl

    def tag(v):
        if isinstance(v, bool):
            return v
        if isinstance(v, float):
            return fl(v)
        if isinstance(v, dict):
            return [[k, tag(w)] for k, w in v.items()]
        if isinstance(v, (list, tuple)):
            return [tag(w) for w in v]
        if isinstance(v, int):
            return int(v)
        return v
    snap = [decpost.observe_tables(p), tag(p.dict_aliases()), tag(p.dict_charge_conjugates()), tag(p.dict_definitions()),
            tag(p.dict_decays2copy()), tag(p.list_charge_conjugate_decays()), tag(p.dict_pythia_definitions()),
            tag(p.list_lineshapePW_definitions()), int(p.global_photos_flag())]
    # the answers of the table queries themselves, for the mothers given
    def guarded(fn):
        try:
            return fn()
        except Exception as e:
            return {"err": type(e).__name__}
    for m in (extra or {}).get("modes", []):
        snap.append(["modes", m, guarded(lambda: tag(p.list_decay_modes(m)))])
    for m in (extra or {}).get("chains", []):
        snap.append(["chains", m, guarded(lambda: json.loads(json.dumps(p.build_decay_chains(m), default=str)))])
    for m in (extra or {}).get("expand", []):
        snap.append(["expand", m, guarded(lambda: p.expand_decay_modes(m))])
    return snap


def canon_skeleton(sk):
    """renumber object identities by first occurrence (Tree and Token objects separately named)"""
    num = {}
    out = []
    for e in sk:
        key = (e[0], e[1])
        if key not in num:
            num[key] = len(num)
        out.append([e[0], num[key]] + list(e[2:]))
    return out


def skeleton_of(text):
    """the object graph held after parse(): decay / model_alias trees of the file tree, then _parsed_decays, in preorder;
    ("T", id, data, number of children) for a Tree, ("K", id, type) for a Token"""
    from lark import Tree
    try:
        p, _ = decpost.parse(text)
    except Exception as e:
        return {"err": type(e).__name__}
    roots = [t for t in p._parsed_dec_file.children if isinstance(t, Tree) and t.data in ("decay", "model_alias")]
    roots += list(p._parsed_decays)
    sk = []

    def walk(n):
        if isinstance(n, Tree):
            sk.append(["T", id(n), str(n.data), len(n.children)])
            for ch in n.children:
                walk(ch)
        else:
            sk.append(["K", id(n), n.type])
    for r in roots:
        walk(r)
    return canon_skeleton(sk)


def impl_main(mode, fin, fout):
    from lark import Token, Tree
    cases = json.loads(Path(fin).read_text())
    out = []
    for c in cases:
        viol = []
        try:
            p, _ = decpost.parse(c["text"])
        except Exception as e:
            out.append({"err": "parse:" + type(e).__name__} if mode != "oracle" else [])
            continue
        extra = c.get("snap_extra")
        fresh = snapshot(decpost.parse(c["text"])[0], extra)
        first = snapshot(p, extra)
        if first != fresh:
            viol.append("two parses of the same text differ")
        # (b) separation of the object graph
        seen = {}
        shared = False
        for ti, tree in enumerate(p._parsed_decays):
            stack = [tree]
            while stack:
                n = stack.pop()
                if id(n) in seen:
                    shared = True
                seen[id(n)] = ti
                if isinstance(n, Tree):
                    stack.extend(n.children)
        if shared:
            viol.append("a Token/Tree object is reachable from two tables (or twice)")
        # a copied table is usable as the source of a later CDecay
        st = c["stmts"]
        names_now = [t.children[0].children[0].value for t in p._parsed_decays]
        for s1 in st:
            if s1[0] == "CopyDecay" and s1[1] in names_now:
                for s2 in st:
                    if s2[0] == "ChargeConj" and s1[1] in (s2[1], s2[2]):
                        x = s2[2] if s2[1] == s1[1] else s2[1]
                        if any(s3[0] == "CDecay" and s3[1] == x for s3 in st) and x not in names_now:
                            viol.append("a copied table was not usable as the source of a CDecay")
        # the copy law on what the parser reports: NEW's table is OLD's, line by line
        try:
            obs = decpost.observe_tables(p)
            first_tab = {}
            for mname, lines in obs:
                first_tab.setdefault(mname, lines)
            decay_names = {s0[1] for s0 in st if s0[0] == "Decay"}
            for s1 in st:
                if s1[0] == "CopyDecay" and s1[1] not in decay_names and s1[2] in decay_names and s1[1] in first_tab \
                        and sum(1 for s0 in st if s0[0] == "CopyDecay" and s0[1] == s1[1]) == 1:
                    if first_tab[s1[1]] != first_tab[s1[2]]:
                        viol.append("a copied table differs from its source")
                        break
        except Exception:  # noqa: BLE001
            pass
        # (a) history
        steps = []
        for op, arg in c["ops"]:
            try:
                if op == "mothers":
                    r = p.list_decay_mother_names()
                elif op == "number":
                    r = p.number_of_decays
                elif op == "modes":
                    r = p.list_decay_modes(arg)
                elif op == "chains":
                    r = p.build_decay_chains(arg[0], stable_particles=arg[1])
                elif op == "expand":
                    r = p.expand_decay_modes(arg) if c["expand_ok"].get(arg) else None
                elif op == "print":
                    with contextlib.redirect_stdout(io.StringIO()):
                        p.print_decay_modes(arg, normalize=False)
                    r = None
                elif op == "aliases":
                    r = p.dict_aliases()
                elif op == "ccs":
                    r = p.dict_charge_conjugates()
                elif op == "defs":
                    r = p.dict_definitions()
                elif op == "copies":
                    r = p.dict_decays2copy()
                elif op == "cdecays":
                    r = p.list_charge_conjugate_decays()
                elif op == "pythia":
                    r = p.dict_pythia_definitions()
                elif op == "jetset":
                    r = p.dict_jetset_definitions()
                elif op == "lineshape":
                    r = p.dict_lineshape_settings()
                elif op == "lspw":
                    r = p.list_lineshapePW_definitions()
                elif op == "photos":
                    r = p.global_photos_flag()
                elif op == "model_aliases":
                    r = p.dict_model_aliases()
                elif op == "reparse_nocc":
                    # parse without the charge-conjugate decays, ask for every mother and derived name, parse again as before
                    import warnings
                    with warnings.catch_warnings():
                        warnings.simplefilter("ignore")
                        p.parse(include_ccdecays=False)
                        for nm in list(arg or []):
                            try:
                                p.list_decay_modes(nm)
                                p.build_decay_chains(nm, stable_particles=list(arg))
                            except Exception:  # noqa: BLE001
                                pass
                        p.parse()
                    r = None
                elif op == "reparse":
                    import warnings
                    with warnings.catch_warnings():
                        warnings.simplefilter("ignore")
                        p.parse()
                    r = None
                else:
                    r = None
                if isinstance(r, (list, dict)):
                    mutate(r)
            except Exception as e:
                steps.append({"err": type(e).__name__})
                continue
            s = snapshot(p, extra)
            steps.append(s == first)
            if s != fresh:
                viol.append("answers changed after a query (" + op + ")")
                break
        # writing to every token of derived tables leaves the sources unchanged
        try:
            p2, _ = decpost.parse(c["text"])
            names = [t.children[0].children[0].value for t in p2._parsed_decays]
            derived = set(c["derived"])
            keep = {i for i, n in enumerate(names) if n not in derived}
            before = {i: json.dumps(decpost.observe_tables(p2, keep)[i]) for i in keep}
            for i, tree in enumerate(p2._parsed_decays):
                if names[i] in derived:
                    for tok in tree.scan_values(lambda v: isinstance(v, Token)):
                        tok.value = "WRITTEN"
            after = decpost.observe_tables(p2, keep)
            for i, b in before.items():
                if json.dumps(after[i]) != b:
                    viol.append("writing to a copied/conjugated table changed another table")
                    break
        except Exception as e:
            viol.append("exception " + type(e).__name__)
        if mode == "oracle" and not viol and len(out) < 12:
            # the same text in a fresh interpreter: the answers must not depend on what this process parsed before
            try:
                import os
                import subprocess
                code = ("import sys, json; sys.path.insert(0, %r); import decpost; p, _ = decpost.parse(sys.stdin.read()); "
                        "print(json.dumps(decpost.observe_tables(p)))" % str(Path(__file__).resolve().parent))
                r = subprocess.run([sys.executable, "-c", code], input=c["text"], capture_output=True, text=True, env=dict(os.environ), timeout=300)
                fresh_tabs = json.loads(r.stdout.strip().split("\n")[-1])
                here = json.loads(json.dumps(decpost.observe_tables(decpost.parse(c["text"])[0])))
                if fresh_tabs != here:
                    viol.append("the tables read from a text depend on what was parsed earlier in the same process")
            except Exception:  # noqa: BLE001
                pass
        out.append(viol if mode == "oracle" else [first, steps, skeleton_of(c["text"])])
    Path(fout).write_text(json.dumps(out))


def gen_cases(rng, tier):
    import c05
    import c10
    cases = []
    n = 150 if tier == "quick" else 1500
    base = c05.gen_cases(rng, "quick")
    for b in base[:n] if tier == "quick" else (base * 8)[:n]:
        stmts = b["stmts"]
        mothers = [s[1] for s in stmts if s[0] == "Decay"]
        derived = [s[1] for s in stmts if s[0] in ("CopyDecay", "CDecay")]
        if not mothers:
            continue
        ops = []
        for _ in range(rng.randint(1, 12)):
            op = rng.choice(OPS)
            arg = None
            if op in ("modes", "expand", "print"):
                arg = rng.choice(mothers)
            elif op == "chains":
                arg = [rng.choice(mothers), [rng.choice(mothers)] if rng.random() < 0.3 else []]
            elif op == "reparse_nocc":
                arg = (mothers + derived)[:8]
            ops.append([op, arg])
        # cyclic tables would recurse forever in chain building
        if not acyclic(stmts):
            ops = [o for o in ops if o[0] not in ("chains", "expand")]
            expand_ok = {}
        else:
            expand_ok = {m: (c10.count_paths(stmts, m) or 0) <= 300 for m in mothers}
        ok_m = [m for m in mothers if expand_ok.get(m)]
        snap_extra = {"modes": mothers[:3] + derived[:3], "chains": ok_m[:2], "expand": ok_m[:2]}
        cases.append({"stmts": stmts, "text": b["text"], "ops": ops, "derived": derived, "expand_ok": expand_ok, "snap_extra": snap_extra})
    return cases


def acyclic(stmts):
    tabs = {}
    for s in stmts:
        if s[0] == "Decay" and s[1] not in tabs:
            tabs[s[1]] = {d for l in s[2] for d in l["fs"]}
    state = {}

    def visit(n):
        if state.get(n) == 1:
            return False
        if state.get(n) == 2 or n not in tabs:
            return True
        state[n] = 1
        ok = all(visit(d) for d in tabs[n])
        state[n] = 2
        return ok
    return all(visit(n) for n in tabs)


def main():
    import vlib
    import tr_particles
    from vlib import Check
    args = vlib.std_args()
    ck = Check("C08", args.tier, args.seed)
    tr_particles.main()
    ck.proofs("Props/C08.v", extra_trusted=[
        "Dec/Heap.v (hand-written): parse()'s post-processing on identity-carrying Tree/Token objects with a mutable token store; tied to "
        "CPython/Lark by comparing, on every generated file, the object graph the model builds (file tree + tables, identities renumbered by "
        "first occurrence) with the id()-graph of the real objects, and its tables with the value model's and the implementation's",
        "PARTIAL: queries are pure readers in the model; that queries (and mutation of their results) leave the parser unchanged is "
        "established by execution (query histories compared with a fresh parse)",
        "front end as C01"])
    cases = json.loads(Path(args.replay).read_text())["cases"] if args.replay else gen_cases(ck.rng, args.tier)
    impl = vlib.run_impl("c08.py", cases)
    pre = "Definition sc_of (n : string) : option bool := pd_get n (t_selfconj gen_tables)."
    terms = [f"vpost (parse_post cc sc_of true {decpost.coq_stmts(c['stmts'])})" for c in cases]
    model = vlib.run_model("C08", ["Lib.PyDict", "Decay.Conj", "Decay.GenTables", "Dec.Tables", "Dec.Syntax", "Dec.Post"],
                           "fun v : val => v", terms, shard=60, preamble=pre)
    impl_tables = [v[0][0] if isinstance(v, list) else v for v in impl]
    diffs = vlib.compare_veq(ck, cases, impl_tables, model)
    # the identity-carrying model (Dec/Heap.v): same tables as the value model, and the same object graph as the implementation
    hterms = [f"vheap (parse_heap cc sc_of true {decpost.coq_stmts(c['stmts'])})" for c in cases]
    hmodel = vlib.run_model("C08h", ["Lib.PyDict", "Decay.Conj", "Decay.GenTables", "Dec.Tables", "Dec.Syntax", "Dec.Post", "Dec.Heap"],
                            "fun v : val => v", hterms, shard=30, preamble=pre)
    heap_vs_value, heap_vs_impl, shared_tokens = [], [], 0
    for i, (hv, mv, iv) in enumerate(zip(hmodel, model, impl)):
        if isinstance(hv, dict) or isinstance(mv, dict):
            # an error on either side: both models must report the same kind (ValueError for an undefined model word)
            if hv != mv:
                heap_vs_value.append(i)
            continue
        if hv[0] != mv:
            heap_vs_value.append(i)
        isk = iv[2] if isinstance(iv, list) and len(iv) > 2 else None
        msk = canon_skeleton(hv[1])
        if isk != msk:
            heap_vs_impl.append(i)
        ids = [tuple(e[:2]) for e in msk]
        shared_tokens += len(ids) - len(set(ids))
    ck.cov["evaluations"] += len(cases)
    ck.cov["traces_validated_against_impl"] += len(cases) - len(heap_vs_impl)
    ck.notes["heap_model"] = {"cases": len(cases), "tables_differ_from_value_model": len(heap_vs_value),
                              "object_graph_differs_from_implementation": len(heap_vs_impl),
                              "objects_occurring_twice_in_the_compared_graphs (file tree + tables; tokens the tables share with the file tree)": shared_tokens}
    for i in heap_vs_value + heap_vs_impl:
        if i not in diffs:
            diffs.append(i)
    # histories: every step must leave the snapshot unchanged
    hist_bad = [i for i, v in enumerate(impl) if isinstance(v, list) and any(s is False for s in v[1])]
    orc = vlib.run_impl("c08.py", cases, mode="oracle")
    hits = [(c, v[0]) for c, v in zip(cases, orc) if v]
    ck.cov["distinct_nontrivial"] = len({json.dumps(c["ops"]) + c["text"] for c in cases if len(c["ops"]) > 2})
    ck.cov["rule"] = ("files from the C05 generator (Decay, CopyDecay, CDecay+ChargeConj, ModelAlias, Define); histories of 1..12 operations over "
                      "18 public queries (incl. build_decay_chains, expand_decay_modes, print_decay_modes, re-parse) with recursive in-place "
                      "mutation of every returned list/dict; snapshot = all tables + declaration queries; non-trivial = more than two operations")
    ck.cov["samples"] = [{"text": cases[0]["text"], "ops": cases[0]["ops"]}]
    ck.notes["distribution"] = {"files": len(cases), "operations": sum(len(c["ops"]) for c in cases),
                                "histories_changing_snapshot": len(hist_bad),
                                "files_with_derived_tables": sum(1 for c in cases if c["derived"])}
    vlib.std_failure(ck, "Props/C08.v", cases, diffs + [i for i in hist_bad if i not in diffs], impl_tables, model, hits, "py/c08.py",
                     sig_of=lambda c, v: "oracle:" + v.split(" (")[0])
    sys.exit(ck.finish(level="proof"))


if __name__ == "__main__":
    if len(sys.argv) > 1 and sys.argv[1] in ("impl", "oracle"):
        impl_main(sys.argv[1], sys.argv[2], sys.argv[3])
    else:
        main()
