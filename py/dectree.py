"""Implementation side of the front end: the tree Lark builds for a .dec text -> the statement list of coq/Dec/Syntax.v (JSON form).

statement forms:  ["Decay", m, [[bf, [fs...], photos, model]...]]   model = ["L", label] | ["N", name, None | [["num"|"word", text]...]]
                  ["Define", n, lit] ["Alias", a, b] ["ChargeConj", a, b] ["CDecay", m] ["CopyDecay", new, old] ["ModelAlias", n, model]
                  ["Particle", n, mass, width|None] ["Pythia", kind, mod, par, value] ["JetSet", label, lit] ["LS", kind, p] ["BW", p, lit]
                  ["ChangeMass", kind, p, lit] ["IncFactor", kind, p, yn] ["LSPW", m, d1, d2, int] ["Photos", bool]"""
from __future__ import annotations


def make_parser(p):
    """the Lark parser exactly as DecFileParser.parse() instantiates it"""
    from lark import Lark
    opts = p.grammar_info()
    extra = {k: v for k, v in opts.items() if k not in ("lark_file", "parser", "lexer", "edit_terminals")}
    return Lark(p.grammar(), parser=opts["parser"], lexer=opts["lexer"], edit_terminals=opts["edit_terminals"], **extra)


def tok(x):
    from lark import Tree
    while isinstance(x, Tree):
        assert len(x.children) == 1, x
        x = x.children[0]
    return str(x)


def model_of(t):
    from lark import Tree
    ch = t.children
    first = ch[0]
    if isinstance(first, Tree) and first.data == "model_label":
        assert len(ch) == 1
        return ["L", tok(first)]
    assert first.type == "MODEL_NAME", first
    if len(ch) == 1:
        return ["N", str(first), None]
    assert len(ch) == 2 and ch[1].data == "model_options"
    ps = []
    for o in ch[1].children:
        if isinstance(o, Tree):
            assert o.data == "value"
            ps.append(["num", tok(o)])
        else:
            assert o.type == "LABEL", o
            ps.append(["word", str(o)])
    return ["N", str(first), ps]


def stmts_of_tree(tree):
    from lark import Tree
    assert tree.data == "start"
    out = []
    for t in tree.children:
        assert isinstance(t, Tree), t
        d, ch = t.data, t.children
        if d == "decay":
            lines = []
            for dl in ch[1:]:
                assert dl.data == "decayline"
                c = dl.children
                assert c[0].data == "value" and c[-1].data == "model"
                mid = c[1:-1]
                photos = bool(mid) and mid[-1].data == "photos"
                if photos:
                    mid = mid[:-1]
                assert all(x.data == "particle" for x in mid)
                lines.append([tok(c[0]), [tok(x) for x in mid], photos, model_of(c[-1])])
            out.append(["Decay", tok(ch[0]), lines])
        elif d == "define":
            out.append(["Define", str(ch[0]), str(ch[1])])
        elif d == "alias":
            out.append(["Alias", str(ch[0]), str(ch[1])])
        elif d == "chargeconj":
            out.append(["ChargeConj", str(ch[0]), str(ch[1])])
        elif d == "cdecay":
            out.append(["CDecay", str(ch[0])])
        elif d == "copydecay":
            out.append(["CopyDecay", tok(ch[0]), tok(ch[1])])
        elif d == "model_alias":
            out.append(["ModelAlias", tok(ch[0]), model_of(ch[1])])
        elif d == "particle_def":
            out.append(["Particle", str(ch[0]), str(ch[1]), str(ch[2]) if len(ch) > 2 else None])
        elif d == "pythia_def":
            out.append(["Pythia"] + [str(x) for x in ch])
        elif d == "jetset_def":
            out.append(["JetSet", str(ch[0]), str(ch[1])])
        elif d == "ls_def":
            out.append(["LS", str(ch[0]), str(ch[1])])
        elif d == "setlsbw":
            out.append(["BW", str(ch[0]), str(ch[1])])
        elif d == "changemasslimit":
            out.append(["ChangeMass", str(ch[0]), str(ch[1]), str(ch[2])])
        elif d == "inc_factor":
            out.append(["IncFactor", str(ch[0]), str(ch[1]), str(ch[2])])
        elif d == "setlspw":
            out.append(["LSPW"] + [str(x) for x in ch])
        elif d == "global_photos":
            out.append(["Photos", ch[0].data == "yes"])
        else:
            raise AssertionError("unknown statement node " + d)
    return out
