#!/usr/bin/env python3
"""C15 — The chain graph has one node and one labelled edge per decay line.

proof:          coq/Props/C15.v (model coq/Viewer/Graph.v)
correspondence: chain dictionaries (several lines per particle, repeated decaying daughters, empty tables, lines
                without daughters) -> DecayChainViewer(...).to_string() parsed into node / edge calls, 1..4 viewers per
                process; ids, cells (in order), ports, edge sources/targets/labels compared with the model.
executed only:  every DOT source is fed to `dot -Tcanon` (Graphviz acceptance).
"""
from __future__ import annotations

import json
import re
import subprocess
import sys
from fractions import Fraction
from pathlib import Path

sys.path.insert(0, str(Path(__file__).resolve().parent))
from c04 import dec, enc  # noqa: E402
from c11 import build_dict, coq_cdict  # noqa: E402

NODE = re.compile(r"^\t(\w+) \[label=<(.*)> (.*)\]$")
EDGE = re.compile(r"^\t(\w+)(?::p(\d+))? -> (\w+) \[label=(.*)\]$")
PORTCELL = re.compile(r'<TR><TD BORDER="1" CELLPADDING="5" PORT="p(\d+)">(.*?)</TD></TR>')
CELL = re.compile(r'<TD BORDER="0" CELLPADDING="2">(.*?)</TD>')


def parse_dot(src):
    items = []
    for ln in src.split("\n"):
        m = EDGE.match(ln)
        if m:
            lab = m.group(4).strip('"')
            items.append(["edge", m.group(1), None if m.group(2) is None else int(m.group(2)), m.group(3), lab])
            continue
        m = NODE.match(ln)
        if m and m.group(1) not in ("graph", "node", "edge"):
            lab = m.group(2)
            if "PORT=" in lab:
                cells = PORTCELL.findall(lab)
                ok = [int(i) for i, _ in cells] == list(range(len(cells)))
                items.append(["node", m.group(1), [c for _, c in cells] if ok else ["<bad ports>"], True])
            else:
                cells = CELL.findall(lab)
                if cells == [""]:
                    cells = []
                items.append(["node", m.group(1), cells, False])
    return items


def impl_main(mode, fin, fout):
    from decaylanguage.decay import viewer
    from decaylanguage import DecayChainViewer
    from particle import latex_to_html_name
    from particle.converters.bimap import DirectionalMaps
    e2l, _ = DirectionalMaps("EvtGenName", "LaTexName")

    def safe(n):
        try:
            return latex_to_html_name(e2l[n])
        except Exception:
            return n

    def names_in(t, acc):
        m, modes = t
        acc.add(m)
        for bf, fs, info in modes:
            for x in fs:
                if isinstance(x, str):
                    acc.add(x)
                else:
                    names_in(x, acc)

    cases = dec(json.loads(Path(fin).read_text()))
    out = []
    for c in cases:
        k0 = next(viewer.counter) + 1
        res = {"k0": k0, "graphs": [], "html": {}}
        for t in c["dicts"]:
            acc = set()
            names_in(t, acc)
            for n in acc:
                res["html"][n] = safe(n)
            d = build_dict([t[0], _floatify(t[1])])
            if len(res["graphs"]) % 3 == 2 or c.get("share"):
                # the same sub-chain OBJECT in every slot that holds an equal sub-chain (a dictionary assembled from shared parts
                # is the same chain dictionary)
                d = share_equal_parts(d, {})
            try:
                if len(res["graphs"]) % 2 == 1:
                    # every second graph of a session is made in another thread of the same process (started and joined at once):
                    # identifiers must stay unique across all graphs of the session
                    import threading
                    box = {}

                    def work():
                        try:
                            box["src"] = DecayChainViewer(d).to_string()
                        except Exception as e:  # noqa: BLE001
                            box["exc"] = e
                    th = threading.Thread(target=work)
                    th.start()
                    th.join()
                    if "exc" in box:
                        raise box["exc"]
                    src = box["src"]
                else:
                    src = DecayChainViewer(d).to_string()
                p = subprocess.run(["dot", "-Tcanon"], input=src, capture_output=True, text=True)
                res["graphs"].append({"items": parse_dot(src), "dot_ok": p.returncode == 0, "dot_err": p.stderr[:200]})
            except Exception as e:
                res["graphs"].append({"err": type(e).__name__})
        res["k_end"] = next(viewer.counter)
        out.append(res)
    Path(fout).write_text(json.dumps(out))


def share_equal_parts(d, memo):
    if isinstance(d, dict):
        out = {k: share_equal_parts(v, memo) for k, v in d.items()}
        if len(out) == 1 and isinstance(next(iter(out.values())), list):          # a sub-chain {mother: [modes]}
            key = json.dumps(out, sort_keys=True, default=str)
            return memo.setdefault(key, out)
        return out
    if isinstance(d, list):
        return [share_equal_parts(x, memo) for x in d]
    return d


def _floatify(modes):
    return [[float(bf), [x if isinstance(x, str) else [x[0], _floatify(x[1])] for x in fs], info] for bf, fs, info in modes]


def rand_dict(rng, depth, names, top=True):
    m = rng.choice(names)
    nm = rng.choice([0, 1, 1, 1, 2, 2, 3, 4, 5]) if top else rng.choice([0, 1, 1, 2, 3])
    modes = []
    for _ in range(nm):
        fs = []
        for _ in range(rng.choice([0, 1, 2, 2, 3, 4, 6, 12])):
            if depth > 0 and rng.random() < 0.35:
                sub = rand_dict(rng, depth - 1, names, top=False)
                fs.append(sub)
                if rng.random() < 0.3:
                    fs.append(sub)                      # the same decaying daughter a second time
            else:
                fs.append(rng.choice(names))
        info = {"model": rng.choice(["PHSP", "VSS", ""]), "model_params": ""}
        # also values whose decimal expansion does not end (2/3, 1/7 ...) and very small ones: the label is the number, all of it
        modes.append([Fraction(rng.choice([1, 2, 5, 25, 125, 3, 7]), rng.choice([10, 100, 1000, 8, 4, 3, 7, 9, 11, 10**12, 3 * 10**11])), fs, info])
    return [m, modes]


def main():
    import vlib
    from vlib import Check
    args = vlib.std_args()
    ck = Check("C15", args.tier, args.seed)
    rng = ck.rng
    ck.proofs("Props/C15.v", extra_trusted=[
        "the graphviz Python package (DOT text assembly) and py/c15.py's DOT parser; particle's EvtGen->HTML name table",
        "Graphviz acceptance (`dot -Tcanon`) is executed on every generated source, not proved",
        "hand-written model coq/Viewer/Graph.v tied by correspondence"])
    NAMES = ["D*+", "D0", "K_S0", "pi0", "pi+", "pi-", "gamma", "K-", "K+", "anti-B0", "B0", "Upsilon(4S)", "J/psi", "cs_0",
             "K_1(1270)+", "anti-K*0", "MyAlias", "B_c+sig", "nu_tau", "anti-nu_tau", "e+", "mu-", "Xi_cc+", "Lambda_b0", "f'_0"]
    if args.replay:
        cases = dec(json.loads(Path(args.replay).read_text())["cases"])
    else:
        cases = []
        n = 220 if args.tier == "quick" else 2500
        for _ in range(n):
            cases.append({"dicts": [rand_dict(rng, rng.choice([0, 1, 2, 3]), NAMES) for _ in range(rng.randint(1, 4))]})
    impl = vlib.run_impl("c15.py", enc(cases), nshards=8)
    terms = []
    for c, r in zip(cases, impl):
        k = r["k0"]
        parts = []
        # thread the counter through the viewers of the process
        terms.append("vsession " + str(k) + "%nat [" + "; ".join(coq_cdict(t) for t in c["dicts"]) + "]")
    pre = """
Fixpoint session (k : nat) (l : list cdict) : list val * nat :=
  match l with
  | [] => ([], k)
  | c :: r => let '(items, k1) := graph_of k c in let '(vs, k2) := session k1 r in (VList (map vitem items) :: vs, k2)
  end.
Definition vsession (k : nat) (l : list cdict) : val := let '(vs, k') := session k l in VList [VList vs; VInt (Z.of_nat k')].
"""
    model = vlib.run_model("C15", ["Lib.PyDict", "Decay.ChainDict", "Viewer.Graph"], "fun v : val => v", terms, shard=120, preamble=pre)

    def to_model_form(r):
        gs = []
        for g in r["graphs"]:
            if "err" in g:
                return {"err": g["err"]}
            items = []
            for it in g["items"]:
                if it[0] == "node":
                    nid = "mother" if it[1] == "mother" else int(it[1][3:]) if it[1].startswith("dec") else it[1]
                    items.append(["node", nid, it[2], it[3]])
                else:
                    s = "mother" if it[1] == "mother" else int(it[1][3:])
                    d = "mother" if it[3] == "mother" else int(it[3][3:])
                    items.append(["edge", s, it[2], d, vlib.fl(float(it[4]))])
            gs.append(items)
        return [gs, r["k_end"]]

    def htmlize(mv, html):
        gs, kend = mv
        out = []
        for items in gs:
            o = []
            for it in items:
                if it[0] == "node":
                    o.append(["node", it[1], [html.get(n, n) for n in it[2]], it[3]])
                else:
                    o.append(it)
            out.append(o)
        return [out, kend]

    impl_n = [to_model_form(r) for r in impl]
    model_n = [htmlize(m, r["html"]) for m, r in zip(model, impl)]
    diffs = vlib.compare_veq(ck, cases, impl_n, model_n)
    ck.cov["distinct_nontrivial"] = len({json.dumps(enc(c), sort_keys=True) for c in cases if json.dumps(enc(c)).count("[[") > 3})
    ck.cov["rule"] = ("random chain dictionaries: 1..5 lines at the top, 0..3 below, 0..4 daughters, nested to depth <= 3, lines without "
                      "daughters, empty tables, EvtGen-specific names; 1..4 viewers per process with the counter threaded, every second one created in another thread of the process; "
                      "non-trivial = nested structure")
    ck.cov["samples"] = [{"dicts": enc(cases[0]["dicts"]), "parsed": impl[0]["graphs"][0]}]
    ndot = sum(len(r["graphs"]) for r in impl)
    bad_dot = [(c, g) for c, r in zip(cases, impl) for g in r["graphs"] if "err" not in g and not g["dot_ok"]]
    ck.notes["dot_sources_checked"] = ndot
    ck.notes["dot_rejected"] = len(bad_dot)
    hits = []
    def has_empty_line(t):
        return any((not fs) or any(not isinstance(x, str) and has_empty_line(x) for x in fs) for bf, fs, info in t[1])
    for c, g in bad_dot[:3]:
        tag = "F14: " if any(has_empty_line(t) for t in c["dicts"]) else ""
        hits.append((enc(c), tag + "Graphviz rejects the output (" + g["dot_err"].replace("\n", " ")[:80] + ")"))
    if diffs and not hits:
        # direct structural oracle on the implementation output
        for i in diffs[:20]:
            msg = oracle(cases[i], impl[i])
            if msg:
                hits.append((enc(cases[i]), msg))
    vlib.std_failure(ck, "Props/C15.v", enc(cases), diffs, impl_n, model_n, hits, "py/c15.py",
                     sig_of=lambda c, v: "F14:dot-rejects-daughterless-line" if v.startswith("F14") else "oracle:" + v)
    sys.exit(ck.finish(assumptions=["Graphviz acceptance is executed (dot -Tcanon), not proved"]))


def oracle(c, r):
    """one node and one labelled edge per decay line, ids unique across the session"""
    ids = []
    for t, g in zip(c["dicts"], r["graphs"]):
        if "err" in g:
            return "exception " + g["err"]

        def nlines(t):
            return sum(1 + sum(nlines(x) for x in fs if not isinstance(x, str)) for bf, fs, info in t[1])
        nodes = [it for it in g["items"] if it[0] == "node"]
        edges = [it for it in g["items"] if it[0] == "edge"]
        if len(nodes) != 1 + nlines(t) or len(edges) != nlines(t):
            return "number of nodes/edges differs from number of decay lines"
        ids += [n[1] for n in nodes if n[1] != "mother"]
        if sorted(e[3] for e in edges) != sorted(n[1] for n in nodes if n[1] != "mother"):
            return "not exactly one edge per node"
    if len(set(ids)) != len(ids):
        return "node identifiers not unique across graphs of the session"
    return "graph differs from the decay lines (labels, daughter order or ports)"


if __name__ == "__main__":
    if len(sys.argv) > 1 and sys.argv[1] in ("impl", "oracle"):
        impl_main(sys.argv[1], sys.argv[2], sys.argv[3])
    else:
        main()
