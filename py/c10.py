#!/usr/bin/env python3
"""C10 — Expanding decay modes enumerates every complete decay path exactly once.

proof:          coq/Props/C10.v (expand = map render paths; In paths <-> vpath; NoDup; length = count)
correspondence: generated acyclic table sets with aliases and empty blocks -> DecFileParser.expand_decay_modes(M)
                vs  expand default_cfg aliases true (build T [] M)  in the model.
"""
from __future__ import annotations

import json
import sys
from pathlib import Path

sys.path.insert(0, str(Path(__file__).resolve().parent))
import c09  # noqa: E402


def impl_main(mode, fin, fout):
    cases = json.loads(Path(fin).read_text())
    out = []
    for c in cases:
        try:
            p = c09.parse_text(c["text"])
            if c.get("reparse"):
                # the same parser object first used without the charge-conjugate decays (every name asked for), then parsed again as usual
                import warnings
                with warnings.catch_warnings():
                    warnings.simplefilter("ignore")
                    p.parse(include_ccdecays=False)
                    for nm in c["reparse"]:
                        try:
                            p.expand_decay_modes(nm)
                        except Exception:  # noqa: BLE001
                            pass
                    p.parse()
        except Exception as e:
            out.append([{"err": "parse:" + type(e).__name__}] * len(c["mothers"]))
            continue
        res = []
        for m in c["mothers"]:
            try:
                r = p.expand_decay_modes(m)
                if not all(isinstance(x, str) for x in r):
                    r = {"err": "non-string descriptor"}
            except Exception as e:
                r = {"err": type(e).__name__}
            res.append(r)
        out.append(res)
    Path(fout).write_text(json.dumps(out))


def count_paths(stmts, m):
    tabs = {}
    for st in stmts:
        if st[0] == "Decay" and st[1] not in tabs:
            tabs[st[1]] = st[2]
    memo = {}

    def cnt(p):
        if p in memo:
            return memo[p]
        tot = 0
        for l in tabs[p]:
            prod = 1
            for d in l["fs"]:
                if d in tabs and tabs[d]:
                    prod *= cnt(d)
            tot += prod
        memo[p] = tot
        return tot
    return cnt(m) if m in tabs else None


def count_paths_cc(stmts, m):
    """count_paths with the table CDecay MyCAbar derives from MyCA's (same number of lines and daughters)"""
    st2 = [list(st) for st in stmts]
    src = next((st for st in st2 if st[0] == "Decay" and st[1] == "MyCA"), None)
    if src is not None:
        st2.append(["Decay", "MyCAbar", src[2]])
    return count_paths(st2, m)


def oracle_expand(stmts, aliases, m):
    """independent enumeration: list of descriptors, in line / product order"""
    import itertools
    tabs = {}
    for st in stmts:
        if st[0] == "Decay" and st[1] not in tabs:
            tabs[st[1]] = st[2]

    def rec(p, top):
        outs = []
        for l in tabs[p]:
            opts = []
            for d in l["fs"]:
                if d in tabs and tabs[d]:
                    opts.append(rec(d, False))
                else:
                    opts.append([d])
            for combo in itertools.product(*opts):
                body = " ".join(sorted(combo))
                mm = aliases.get(p, p)
                outs.append(f"{mm} -> {body}" if top else f"({mm} -> {body})")
        return outs
    return rec(m, True)


def gen_cases(rng, tier):
    import decgen
    cases = []
    n = 200 if tier == "quick" else 2000
    while len(cases) < n:
        stmts, dec, leaves = decgen.rand_tables(rng, nmax=rng.choice([2, 3, 5, 7]), lines_max=4, empty_prob=0.2)
        aliases = {}
        pre = []
        # aliases: rename some decaying particles / leaves to My<name>, keep the original as alias target
        ren = {}
        for nme in dec + leaves:
            if rng.random() < 0.3:
                ren[nme] = "My" + nme.replace("/", "").replace("'", "p")
                aliases[ren[nme]] = nme
                pre.append(["Alias", ren[nme], nme])
        if rng.random() < 0.2 and dec:
            pre.append(["Alias", "Unused" + str(rng.randint(0, 9)), rng.choice(dec)])
        # a second alias of an already aliased decaying particle, with its own (different) Decay block, used side by side
        twins = [nme for nme in dec[1:] if nme in ren]
        if twins and rng.random() < 0.5:
            t = rng.choice(twins)
            twin = ren[t] + "B"
            pre.append(["Alias", twin, t])
            aliases[twin] = t
            stmts.append(["Decay", twin, [{"bf": "1.0", "fs": [rng.choice(leaves), rng.choice(leaves)], "photos": False, "model": "PHSP", "params": None}]])
            for st in stmts:
                if st[1] != twin and st[2] and any(t in l["fs"] for l in st[2]):
                    for l in st[2]:
                        if t in l["fs"]:
                            l["fs"].append("__TWIN__" + twin)
                    break
        for st in stmts:
            st[1] = ren.get(st[1], st[1])
            for l in st[2]:
                l["fs"] = [d[8:] if d.startswith("__TWIN__") else ren.get(d, d) for d in l["fs"]]
        dec2 = [ren.get(d, d) for d in dec]
        rng.shuffle(pre)
        allst = pre + stmts if rng.random() < 0.7 else stmts + pre
        mothers = [m for m in dec2 if (count_paths(allst, m) or 0) <= 400 and c09.unfold_size(allst, m) <= 1500]
        if not mothers:
            continue
        mothers = mothers[:4] + ([rng.choice(leaves)] if rng.random() < 0.1 else [])
        case = {"stmts": allst, "text": decgen.render(allst), "mothers": mothers, "aliases": aliases}
        if rng.random() < 0.2:
            # a daughter whose table exists only through CDecay (aliased conjugate pair), on a parser object that was first used
            # without the charge-conjugate decays and then parsed again
            first = next((st for st in allst if st[0] == "Decay" and st[1] == mothers[0] and st[2]), None)
            if first is not None:
                first[2][0]["fs"].append("MyCAbar")
                extra = [["Alias", "MyCA", "D0"], ["Alias", "MyCAbar", "anti-D0"], ["ChargeConj", "MyCA", "MyCAbar"],
                         ["Decay", "MyCA", [{"bf": "1.0", "fs": ["p+", "anti-Lambda_b0"], "photos": False, "model": "PHSP", "params": None},
                                            {"bf": "0.5", "fs": ["p+", "anti-Lambda_b0", "Sigma_b+"], "photos": False, "model": "PHSP", "params": None}]],
                         ["CDecay", "MyCAbar"]]
                allst2 = allst + extra
                if (count_paths_cc(allst2, mothers[0]) or 0) <= 800:
                    case = {"stmts": allst2, "text": decgen.render(allst2), "mothers": mothers, "aliases": dict(aliases, MyCA="D0", MyCAbar="anti-D0"),
                            "reparse": mothers + ["MyCAbar", "MyCA"], "post": True}
        cases.append(case)
    return cases


def main():
    import vlib
    from vlib import Check, cstr, clist
    args = vlib.std_args()
    ck = Check("C10", args.tier, args.seed)
    ck.proofs("Props/C10.v", extra_trusted=[
        "py/decgen.py renders the generated tables to .dec text; the model is handed that same text (coq/Dec/Pipeline.v: front-end model of C02, "
        "model of parse(), `build` of C09, `expand`) — nothing is computed in Python for it",
        "hand-written model coq/Decay/ChainDict.v `expand` tied by correspondence; descriptor patterns: default"])
    cases = json.loads(Path(args.replay).read_text())["cases"] if args.replay else gen_cases(ck.rng, args.tier)
    impl = vlib.run_impl("c10.py", cases)
    flat, terms, fimpl = [], [], []
    import decpost
    for c, res in zip(cases, impl):
        for m, r in zip(c["mothers"], res):
            flat.append({"stmts": c["stmts"], "text": c["text"], "mothers": [m], "aliases": c["aliases"], "reparse": c.get("reparse"), "post": c.get("post")})
            # the model reads the same TEXT the implementation reads (coq/Dec/Pipeline.v: front end, parse() incl. CDecay, build, expand)
            terms.append(f"text_descriptors cc sc_of 60 {cstr(c['text'])} {cstr(m)}")
            fimpl.append(r)
    model = vlib.run_model("C10", ["Lib.PyDict", "Fmt.DescFormat", "Decay.Conj", "Decay.GenTables", "Decay.ChainDict", "Dec.Tables", "Dec.Syntax", "Dec.Post", "Dec.Pipeline"],
                           "fun v : val => v", terms, shard=100,
                           preamble="Definition sc_of (n : string) : option bool := pd_get n (t_selfconj gen_tables).")
    diffs = vlib.compare_veq(ck, flat, fimpl, model)
    sizes = [len(r) for r in fimpl if isinstance(r, list)]
    ck.cov["distinct_nontrivial"] = len({c["text"] + c["mothers"][0] for c, r in zip(flat, fimpl) if isinstance(r, list) and len(r) > 1})
    ck.cov["rule"] = ("random acyclic table sets (1..7 decaying particles, 0..4 lines, repeated daughters, empty blocks p=0.2, "
                      "aliases on decaying particles and leaves), every mother whose independently computed path count <= 400; "
                      "non-trivial = more than one descriptor")
    ck.cov["samples"] = [{"text": flat[0]["text"], "mother": flat[0]["mothers"][0], "descriptors": fimpl[0]}]
    ck.notes["distribution"] = {"files": len(cases), "queries": len(flat), "max_descriptors": max(sizes or [0]),
                                "with_empty_block_daughter": sum(1 for c in flat if any(st[0] == "Decay" and not st[2] for st in c["stmts"]))}
    hits = []
    if diffs:
        for i in diffs:
            c = flat[i]
            m = c["mothers"][0]
            al = {st[1]: st[2] for st in c["stmts"] if st[0] == "Alias"}
            if c.get("post"):
                # fresh parser objects as the reference
                one = vlib.run_impl("c10.py", [dict(c, reparse=None)], nshards=1)[0][0]
                if fimpl[i] != one:
                    hits.append((c, "descriptors differ on a parser object that was parsed without the charge-conjugate decays, queried, and parsed again"))
                elif fimpl[i] != model[i]:
                    hits.append((c, "descriptor list is not the enumeration of complete paths"))
                continue
            if count_paths(c["stmts"], m) is None:
                continue
            exp = oracle_expand(c09.first_tables(c["stmts"]), al, m)
            got = fimpl[i]
            if got != exp:
                empty = any(st[0] == "Decay" and not st[2] for st in c["stmts"])
                if isinstance(got, list) and len(got) < len(exp) and empty:
                    hits.append((c, "F12: paths through a daughter with an empty Decay block vanish"))
                else:
                    hits.append((c, "descriptor list is not the enumeration of complete paths"))
    vlib.std_failure(ck, "Props/C10.v", flat, diffs, fimpl, model, hits, "py/c10.py",
                     sig_of=lambda c, v: "F12:empty-block-daughter-paths-vanish" if v.startswith("F12") else "oracle:" + v)
    sys.exit(ck.finish(assumptions=["tables are acyclic (generated so)", "default descriptor patterns"]))


if __name__ == "__main__":
    if len(sys.argv) > 1 and sys.argv[1] in ("impl", "oracle"):
        impl_main(sys.argv[1], sys.argv[2], sys.argv[3])
    else:
        main()
