#!/usr/bin/env python3
"""Write /verif/MANIFEST.json from the table below (kept valid at all times)."""
import json
from pathlib import Path

VERIF = Path(__file__).resolve().parent.parent

TB_COMMON = ("Trusted: Coq 8.16.1 kernel + vm_compute; the hand-written Gallina model is tied to /repo by the "
             "correspondence run of this check (same inputs through model and implementation) and, where data is "
             "involved, by translators regenerating coq/Gen/*.v from /repo on every run; py/ harness; CPython. "
             "Axioms: none (Print Assumptions output recorded in the evidence file).")

CHECKS = {
    "C14": dict(
        text=("Theorems over the statement-language model of DescriptorFormat: leaving a with-block (normally or by "
              "exception, any body, any nesting, re-used objects) restores the format in force at entry and every "
              "object's saved stack; invalid patterns are rejected without change; valid <-> placeholders are exactly "
              "{mother, daughters} for structurally described patterns. Unbounded in program size/depth. Tie: "
              "exhaustive small programs + random nested programs + random patterns executed by CPython with real "
              "with-statements and compared event by event with the model."),
        design="DESIGN.md §5 C14",
        technique="Coq proof (mutual induction over a statement language, frame invariant) + differential correspondence vs CPython execution"),
}

CHECKS["C04"] = dict(
    text=("Theorems over the regenerated particle tables (every name of the EvtGen and PDG tables, by kernel computation "
          "lifted with forallb_forall): self-conjugate -> itself, else the name with the negated PDG ID and involution, "
          "else wrapped; unbounded: unknown labels are wrapped, conjugation is injective on all strings, final-state "
          "conjugation preserves each multiplicity / the particle count / well-formedness for any final state, mode "
          "conjugation preserves bf and all metadata. Tie: translator + exhaustive correspondence over both tables, "
          "random final states / modes with metadata."),
    design="DESIGN.md §5 C04",
    technique="Coq proof (computation over regenerated finite tables + structural induction) + exhaustive differential correspondence")

CHECKS["C12"] = dict(
    text=("Loop-invariant proof for the model of DecayChain.flatten (Counter += / item assignment / membership as CPython "
          "implements them): for every returning run, the branching fraction equals top.bf times the product over the tree "
          "and every particle's multiplicity equals its number of leaves, for ANY solution of the one-step unfolding "
          "equations (unique for acyclic chains), any stable set, any order of the sub-decay mapping; top-level model "
          "information kept; TERMINATION: for every acyclic chain the loop returns within (rank of the mother)+1 passes "
          "(each pass lowers the maximal rank of the substituted particles still present) — total correctness. Unbounded in "
          "chain size, multiplicities and depth. Tie: exhaustive small shapes x stable subsets x mapping orders + random "
          "chains, exact Fraction arithmetic; visible_bf of every chain; chain objects that were flattened / rendered in another state and "
          "then edited in place (the answers must be those of the chain as it is)."),
    design="DESIGN.md §5 C12",
    technique="Coq proof (loop invariant over a commutative-monoid valuation, Qc and nat instances; rank-based termination argument) + differential correspondence")

CHECKS["C09"] = dict(
    text=("Theorems over the model of build_decay_chains on decay tables: for acyclic tables (rank function) the build "
          "returns with fuel rank+2, its result satisfies the inductive specification `unfolds` (one entry per line in order "
          "with bf/model/parameters; daughter bare iff in S or without table, else the chain for that daughter with the same S), "
          "the specification determines the chain uniquely; not-found error iff no table. Unbounded in tables, depth, S. From the text: C09_text_level. "
          "Tie: generated acyclic table sets rendered to .dec text, read by the implementation AND by the model (Dec/Pipeline.v: front end, "
          "parse(), build — the same text, nothing pre-computed in Python), all/random stable subsets."),
    design="DESIGN.md §5 C09",
    technique="Coq proof (fuel induction: soundness, determinism, termination under a rank) + differential correspondence")
CHECKS["C10"] = dict(
    text=("Theorems over the model of _expand_decay_modes on chain dictionaries: the descriptor list is, in order, the rendering "
          "of the enumeration `paths`; a tree is enumerated iff it is a complete decay path (`vpath`: one line per decaying "
          "particle, daughters without lines stable); no path twice; length = sum over lines of products of daughters' counts. "
          "Unbounded in shape. WHOLE PIPELINE (C10_text_level over Dec/Pipeline.v): for any spelling of any layout of a file whose tables are acyclic, "
          "the list returned for a mother is the rendering of the complete decay paths through the unfolding of the file's tables. "
          "Tie: generated acyclic tables with aliases and empty blocks through "
          "DecFileParser.expand_decay_modes vs the model reading the SAME TEXT (Dec/Pipeline.v: front end, parse() incl. CDecay, build, expand); "
          "also on a parser object that was first parsed without the charge-conjugate decays, queried, and parsed again."),
    design="DESIGN.md §5 C10",
    technique="Coq proof (nested induction over chain dictionaries, cartesian-product lemmas) + differential correspondence")

CHECKS["C11"] = dict(
    text=("Theorems: decay-mode dict round trip returns bf, daughter multiset (and canonical list) and all metadata "
          "(model_params None -> '' by design); final states: one canonical (sorted) order, insensitive to the order given "
          "(any permutation), multiplicities counted, length = number of names, string constructor (names joined by blanks) "
          "and mapping constructor agree with the list constructor; chain level: whatever to_dict writes, from_dict reads back as "
          "the chain with the same mother whose decays are exactly the part of the original reachable from the mother, each mode "
          "the DecayMode round trip of the original's, also when a decaying particle occurs several times (finding F4). Unbounded. "
          "Parser clause (Dec/ParserForm.v, C11_parser_chain_roundtrip): for any tables, any stable set not containing the mother and any "
          "single-line chain the parser model builds, from_dict succeeds and to_dict returns — with fuel bounded by the size of the chain — "
          "the same dictionary up to a permutation of the daughters at every level (mother, bf, model information equal). "
          "Consequently the class form's to_string() of such a chain is the descriptor of the parser's dictionary, the single entry of its expansion "
          "(C11_parser_class_descriptor, any pattern pair). "
          "Termination of to_dict on class-form chains that do not come from the parser (cyclic decays dicts) is not claimed."),
    design="DESIGN.md §5 C11",
    technique="Coq proof (permutation/count_occ, sorting canonical form, str.split model, accumulator invariants for _build_decay_modes on to_dict output and on parser chains, determinism of the unfolding relation) + differential correspondence")
CHECKS["C13"] = dict(
    text=("Theorems: to_string of a chain is the function `descr` of its single-mode dictionary — first pattern at the top, "
          "second at every nested level, daughters sorted at each level; identical string for any order of daughters and "
          "sub-decays (dictionary-level equivalence and chain-level); plain patterns render by substitution. Unbounded in "
          "shape. INJECTIVITY (character level, default patterns): equal descriptor strings come only from chain dictionaries equal "
          "up to the order of daughters at every level (names may contain balanced parentheses, no blanks, not starting with a "
          "parenthesis; every decay has a daughter) — by a reader that recovers the top-level pieces; descriptor equality <=> tree "
          "equivalence. PARTIAL: user-defined patterns are executed only (independent bracket-matching reader on every "
          "implementation string of the run)."),
    design="DESIGN.md §5 C13",
    technique="Coq proof (nested induction, sorted-permutation canonicity, parenthesis-depth reader for injectivity) + differential correspondence + read-back reader")

CHECKS["C16"] = dict(
    text=("Theorems over the model of print_decay_modes: rows are a permutation of the decay lines (each once), ordered by "
          "branching fraction in the requested direction with file order kept among equal values (stability as a filter law), "
          "one common factor; plain: values unchanged; normalize: shown values sum to 1; scale: the factor is scale/max so the "
          "largest shows the scale; contradictory/out-of-range options refused. Exact rationals, unbounded tables. "
          "The number as shown (Dec/Fmt7.v, a model of '{:.7g}'): the seven digits n and exponent e chosen for a positive value satisfy "
          "10^6 <= n < 10^7 and n is the value scaled to seven integer digits rounded to the nearest integer (ties to even, carry into "
          "an eighth digit handled), i.e. within half a unit of the seventh significant digit; the text printed for (n, e) — fixed or "
          "exponent notation, trailing zeros removed — is a numeric literal of the .dec grammar whose value is exactly n*10^(e-6). "
          "The floats before the formatting (Dec/Fl64.v): float(literal), '+', '-', '/' as binary64 round-to-nearest-even on exact rationals and "
          "sum() as CPython >= 3.12 computes it (compensated); rnd64 returns a 53-bit significand with an exponent in the normal range, the scaled "
          "value rounded to the nearest integer, ties to even (C16_floats_correctly_rounded). "
          "The correspondence requires the printed text of every number to be exactly the one text the model computes (and within 2^-46 of the "
          "ideal rational value). Executed only: str(float) of parameters; subnormal / overflowing values are outside the float model."),
    design="DESIGN.md §0 (C16 format as built), §5 C16",
    technique=("Coq proof (stable insertion sort: permutation/sortedness/stability; field arithmetic over Q; correctly rounded decimal "
               "conversion: div/mod rounding lemma, digit-string / literal-reader round trip; correctly rounded binary64 conversion) + differential correspondence on parsed stdout, "
               "printed numbers compared as text"))
CHECKS["C15"] = dict(
    text=("Theorem over the model of DecayChainViewer's node/edge calls with the process-wide counter: the graph is the root "
          "node plus, for the i-th decay line in depth-first order, exactly one node dec(k+i) with that line's daughters in "
          "order and exactly one edge into it labelled with its branching fraction, from the root or from a port of an earlier "
          "node of the same graph; nothing else; ids distinct within a graph and across consecutive graphs of a session; "
          "counter advanced by the number of lines. Unbounded in shape. Executed only: Graphviz acceptance (dot -Tcanon) of "
          "every DOT source; text<->structure parsing of the DOT output."),
    design="DESIGN.md §5 C15",
    technique="Coq proof (nested induction over chain dictionaries with a counter-threading invariant) + differential correspondence on parsed DOT + dot execution")

CHECKS["C01"] = dict(
    text=("Theorems over the model of parse() on the parsed statement list: one table per distinct mother in file order of first "
          "occurrence, the first block of a repeated mother kept (empty blocks are tables), tables = those blocks with every line "
          "once in order; per line bf = value of the literal, daughters verbatim, PHOTOS flag, model name, parameters in order "
          "(numeric literal -> number, undefined word verbatim, absent list absent); exact values of every literal form. "
          "TEXT LEVEL (Dec/Whole.v = front-end model of C02 followed by the model of parse(); C01_text_level, C01_files_level): every "
          "spelling (white space, comments, LF / CR LF) of every layout (blank lines, wrapped parameter lists, repeated semicolons, final End; "
          "several files with BOM) of a statement list is read to exactly the tables the list states. "
          "PARTIAL: the front-end model (Dec/FrontEnd.parse_text, with its round-trip theorems) is "
          "cross-checked on every case against the statement list the model term is built from, and tied to Lark by the "
          "correspondence through the real parser (all alphabet characters, every published model name, all literal forms); "
          "there is no theorem about Lark itself."),
    design="DESIGN.md §5 C01",
    technique="Coq proof (list induction: de-duplication keeps first occurrences; line resolution) + differential correspondence through the real parser")
CHECKS["C05"] = dict(
    text=("Theorem over the model of parse(): a file and its textual expansion (every Define'd name in a parameter list replaced "
          "by its literal, textually negated after a leading minus; every ModelAlias use replaced by model + parameters) have "
          "identical decay tables incl. copied/conjugated ones and errors, wherever definitions are placed and however often "
          "used; last definition wins; undefined words verbatim; negating a literal's text negates its value. Unbounded. "
          "TEXT LEVEL (C05_text_level over Dec/Whole.v): any spelling of any layout of the file and any spelling of any layout of its "
          "expansion are read to the same result. "
          "PARTIAL front end as C01 (front-end model of C02 cross-checked on every case; Lark itself tied by correspondence)."),
    design="DESIGN.md §5 C05",
    technique="Coq proof (statement-list induction, dictionary last-wins lemma, literal negation lemma) + differential correspondence + expanded-file oracle")

CHECKS["C02"] = dict(
    text=("Theorems over the front-end model (constructor's text assembly; scanner; statement automaton with the positions of decfile.lark), "
          "on the character classes / MODEL_NAME alternation / file encoding REGENERATED from the compiled grammar and dec.py: every spelling "
          "(any white space, LF or CR LF, comments) of every item-level layout (any number of line ends around statements and decay lines, "
          "line ends and commas inside a started parameter list, repeated semicolons, optional final End) of a statement list is read back "
          "as exactly that list, hence equal statements and equal answers to every query for two layouts; the constructor hands the parser "
          "exactly the non-End lines of each file, LF-closed, plus one LF, whatever BOMs / CR LF / missing final newlines; item lists of "
          "files concatenate; layouts concatenate at statement boundaries. Unbounded in files, statements, layouts. The End-dropping is "
          "REFUTED for a parameter that is the word End alone on a wrapped line (known finding F16b). PARTIAL: scanner and automaton are a "
          "hand-written model of Lark's contextual lexer + LALR driver, tied by the correspondence (model statements vs the tree Lark builds "
          "on every generated / fixture text), and words the lexer would cut in two are outside the modelled domain."),
    design="DESIGN.md §5 C02",
    technique="Coq proof (automaton round trip by induction over layout derivations, scanner spelling theorem, constructor line lemmas) over a regenerated lexical configuration + differential correspondence (model vs Lark tree) + metamorphic layout oracle on the implementation")

CHECKS["C06"] = dict(
    text=("Theorems over the model of the MODEL_NAME terminal (ordered alternation of literal names followed by a zero-width boundary, as "
          "Python's re tries it; the alternatives are REGENERATED each run from what Lark compiles for the published list and for this "
          "run's user-registered lists, and shown equal to the names sorted by decreasing length with priority 2): every registered name, "
          "followed by anything that does not continue a word, is matched as itself in full (never as a shorter registered name, never "
          "extended); a word that is not a registered name and does not start with one followed by a non-word character is not matched "
          "(so it is lexed as a label and rejected as an undefined model by the model step). Unbounded in names, lists and following text. "
          "PARTIAL: which terminal the contextual lexer tries where is Lark's, tied by the parse() correspondence."),
    design="DESIGN.md §5 C06",
    technique="Coq proof (sorted-by-length alternation lemma, prefix/boundary case analysis) over a regenerated lexer table + differential correspondence with parse()")

CHECKS["C03"] = dict(
    text=("Theorems over the model of the CDecay pass (Lark visitor with write-back cache into the shared ChargeConj dictionary, "
          "daughters line by line then the mother): under well-formed ChargeConj pairs the pass appends, for every CDecay X without "
          "its own Decay table whose conjugate (ChargeConj read both ways, else the regenerated database conjugation) has a table, "
          "exactly the line-by-line conjugate (same order, bf, PHOTOS, model, parameters; every daughter and the mother conjugated "
          "by the same rule), leaves all existing tables untouched, adds nothing without a source; Decay takes precedence; switch "
          "off adds nothing; conjugation is involutive unless marked unknown. Cache invariant proved for any number of tables / "
          "lines / daughters. TEXT LEVEL (C03_text_level over Dec/Whole.v): for any spelling of any layout of a file with well-formed "
          "ChargeConj statements, what is read with conjugate decays enabled = what is read with them disabled, followed by the conjugated tables. "
          "PARTIAL front end as C01."),
    design="DESIGN.md §5 C03",
    technique="Coq proof (invariant over the growing conjugation cache, instantiated with the regenerated particle tables) + differential correspondence through the real parser")

CHECKS["C07"] = dict(
    text=("Theorems over the query models: flat dictionaries (Alias, ChargeConj, Define, CopyDecay, Particle) report for each name its "
          "LAST declaration and have exactly the declared names as keys; CDecay list = sorted permutation of all statements; global "
          "PHOTOS flag = last one, off when absent; Pythia (per kind, per module:param) and JetSet (per module, per index) report the last "
          "statement, JetSet integers stay integers; lineshape settings: error iff some (particle, setting) is repeated, otherwise every "
          "statement accounted for; Particle width = explicit or reference width of the aliased particle divided by GeV. Unbounded. "
          "PARTIAL front end as C01 (front-end model of C02 cross-checked on every case; Lark itself tied by correspondence)."),
    design="DESIGN.md §5 C07",
    technique="Coq proof (fold invariants over insertion-ordered dictionaries) + differential correspondence through the real parser")

CHECKS["C08"] = dict(
    text=("Three layers of theorems. (1) Value model of parse() (Dec/Post.v): CopyDecay NEW OLD appends a table for NEW with exactly OLD's "
          "lines, leaves every other table as it was, and is available as a CDecay source. (2) Identity-carrying model (Dec/Heap.v: Tree / "
          "Token objects with identities, a mutable token store, the Transformer building new Trees over the same Tokens, copy.deepcopy with "
          "its memo, both Visitors and the CopyDecay renaming as in-place writes), for EVERY statement list: in the state parse() leaves "
          "behind no Token and no Tree object occurs twice in the decay tables (within one table or in two), what a table denotes is a "
          "function of its own tokens only, hence a write to any token of one table (source, copy or conjugate) changes no other table; "
          "the value visitor meets every token at most once and only tokens still holding strings, so the TypeError of finding F1 "
          "cannot occur; the CopyDecay pass creates tables denoting the last table named OLD under the name NEW and writes to nothing "
          "that existed. (3) REFINEMENT: whenever the value model yields tables, the object-level algorithm ends without error in a state "
          "whose decay trees read back as exactly those tables (so the theorems of C01/C03/C05 about Dec/Post.v hold of what the "
          "object-level algorithm leaves in the Token objects). Tie of Dec/Heap.v to CPython/Lark: on every generated file the object "
          "graph the model builds (file tree + tables, identities renumbered by first occurrence) equals the id()-graph of the real "
          "objects, and its tables equal the value model's and the implementation's. PARTIAL: queries are pure readers in the model, so "
          "'queries (and in-place modification of their results) never change the parser' is established by execution: histories of "
          "1..12 public queries with recursive mutation of the returned values, compared step by step with a fresh parse."),
    design="DESIGN.md §0 (C08 as built), §5 C08",
    technique=("Coq proof (object-graph semantics with identities: allocation-window invariants for separation, frame lemmas, shape and "
               "string-valued-token invariants, simulation of the in-place algorithm by pure value trees, naturality of the table "
               "operations in the line type) + differential correspondence on object identity graphs (CPython id()) and on tables; "
               "query histories executed"),
    note=("Trusted/assumed: as the other checks; Dec/Heap.v is hand-written and tied by the id()-graph correspondence; that queries do not "
          "write to the parser rests on the executed histories of py/c08.py, not on a theorem."))

CHECKS["C17"] = dict(
    text=("Theorems. Text front end (Amp/Text.v, the option file as text: line feeds / CR LF, comments, scanner, line parser following "
          "ampgen.lark as Lark's contextual lexer + LALR driver + AmpGenTransformer read it): every well-formed option file (event type, "
          "complex decay lines with nested and tagged decays, constants, variables, the coherent-sum option), written with any gap width, is "
          "read back as exactly that file; LABEL words never contain a separator. From the file on (Amp/Read.v): the expansion of a line is "
          "exactly the set of its complete decay lines (sound and complete w.r.t. an inductive specification), their number is the "
          "product/sum formula, every amplitude keeps the root of its line (name, particle, tags, coupling, fixedness); coupling is "
          "(magnitude, phase) or (re, im) under the cartesian option; tables have one row per parameter/constant line; the "
          "coherent-sum option is read and selects the coupling mode. Unbounded. PARTIAL: Amp/Text.v is a hand-written model of Lark on "
          "this grammar (words the lexer would cut in two are outside its domain), tied on every run by comparing its reading of every "
          "text — generated files, re-spellings, some twenty kinds of malformation, the shipped model file — with the tree Lark builds "
          "without transformer (accept / reject and tree), and the whole pipeline text -> amplitudes with read_ampgen; fuzzy "
          "particle-name lookup is regenerated data; exp/cos/sin compared numerically."),
    design="DESIGN.md §0 (C17 front end as built), §5 C17",
    technique=("Coq proof (scanner / line-parser round trip by induction over decay trees and lines; fuel induction, cartesian-product lemmas for "
               "the expansion) + differential correspondence through Lark (raw tree) and AmplitudeChain.read_ampgen on texts"))
CHECKS["C18"] = dict(
    text=("Theorems: list_structure returns exactly the injective assignments sigma with fs[sigma i] = st[i], each once (any number of "
          "particles, any multiplicities), and raises iff a particle is missing from the event type; the structured output of "
          "to_goofit contains per permutation the spin factor(s) with that permutation and one lineshape per vertex with mass "
          "names from the same permutation, and declares the number of permutations. Tie: sampled/exhaustive permutation space; "
          "generated four-body files through both GooFitChain and GooFitPyChain with the emitted text parsed back."),
    design="DESIGN.md §5 C18",
    technique="Coq proof (product/filter characterisation; structural unfolding of the emitter model) + differential correspondence on parsed generated code")

CHECKS["C19"] = dict(
    text=("Theorems over the model of the converted content (shared by both languages): every mass/width variable an emitted lineshape "
          "uses belongs to a particle seen while reading and is declared in the intro unless it is an event-type particle; the two "
          "coefficient names of an amplitude differ; one declaration per parameter line with the error exactly for free parameters. "
          "DECLARATION BEFORE USE (Amp/Symbols.v, Amp/SymbolsProofs.v): the output's model symbols in text order — constants, resonance "
          "variables, the particle_masses line, one variable per parameter line, the spline / f_scatt / IS_poles arrays with their members, "
          "then what each kind of lineshape names — and the theorem that, for every file that defines what its lineshapes need (spline "
          "constants; sA_0, sA, s0_prod, s0_scatt and a member of each array family for a K-matrix; no resonance named like an event-type "
          "particle), every use has an earlier declaration, in whatever order the groups Python leaves unordered come out. "
          "The correspondence parses BOTH generated texts into content (event type, constants, variables, parameter declarations, "
          "amplitudes with spin factors / lineshapes / counts) and into this symbol structure (what each section declares, what each "
          "lineshape uses, sections in order, members of every array in order) and compares each with the model. "
          "The members of an array are exactly the parameters whose name contains the family prefix, ordered by the integer after the prefix "
          "(strictly when distinct: C19_array_members_ordered; a non-integer index makes the conversion fail, in the model as in pandas). "
          "Executed only: execution of the Python text against a stand-in goofit module, returned string = printed text, command-line entry point."),
    design="DESIGN.md §5 C19",
    technique="Coq proof (closedness of the generated model over expanded amplitudes; scoping of the symbol sequence by a defs-carrying predicate, invariant under permutation of unordered groups) + differential correspondence on both parsed outputs + executed output checks")
CHECKS["C20"] = dict(
    text=("Theorems over the session state machine (per-class particle sets with attribute lookup through the class hierarchy, coupling "
          "configuration, tables of the last read): after ANY history of read / convert calls by any of the three classes, a call returns "
          "what it returns from the initial state and leaves the same particle sets in its class; calls never touch other classes' sets "
          "nor the configuration; observation of sets is order-insensitive. Executed: every call of every history vs the same call in a "
          "fresh interpreter (canonical text), exact replay per hash seed and equivalence across seeds; class-level state after every "
          "call vs the model."),
    design="DESIGN.md §5 C20",
    technique="Coq proof (state-machine frame/independence lemmas) + differential correspondence on class state + fresh-interpreter and hash-seed runs")

NOT_YET = {
}


def main():
    props = [json.loads(l) for l in (VERIF / "properties.jsonl").read_text().splitlines() if l.strip()]
    checks = []
    na = []
    for p in props:
        pid = p["id"]
        if pid in CHECKS:
            c = CHECKS[pid]
            checks.append({
                "property_id": pid,
                "quick_cmd": f"./check {pid} --tier quick",
                "thorough_cmd": f"./check {pid} --tier thorough",
                "evidence_file": f"/verif/evidence/{pid}.json",
                "replay_cmd_template": f"./check {pid} --replay {{path}}",
                "engine": "coq-model+correspondence",
                "level_claimed": {"category": "proof", "text": c["text"], "design_ref": c["design"]},
                "level_note": c.get("note", TB_COMMON),
                "technique": c["technique"],
            })
        else:
            na.append({"property_id": pid, "reason": NOT_YET.get(pid, "check not built yet in this session (planned in DESIGN.md §5; model + theorem + tie pending) — not a statement that the technique cannot apply")})
    man = {
        "version": 1,
        "setup_cmd": "./setup.sh",
        "hooks": {
            "guard": "DECAYLANGUAGE_VERIF",
            "enable": "no source hooks are needed: checks import /repo/src through PYTHONPATH and observe public calls; the variable is set by the harness for uniformity only",
            "baseline_off_cmd": "cd /repo && env -u DECAYLANGUAGE_VERIF /venv/bin/python -m pytest -ra -q -p no:cacheprovider --timeout=900 --continue-on-collection-errors",
            "source_commits": [],
            "add_only": True,
        },
        "engines": [{"name": "coq-model+correspondence", "path": "/verif/coq + /verif/py",
                     "serves_properties": sorted(CHECKS),
                     "kind_free_text": "Gallina models + theorems (Coq 8.16.1, full .vo build, Print Assumptions), tied to /repo by generated data (coq/Gen) and by differential runs of model (vm_compute inside Coq) and implementation"}],
        "checks": checks,
        "not_applicable": na,
        "notes": "See DESIGN.md (approach, per-property theorems, findings) and TRUSTED_BASE.md. Genuine defects repaired in /repo by fix: commits are listed in KNOWN_FINDINGS.json as fixed entries.",
    }
    (VERIF / "MANIFEST.json").write_text(json.dumps(man, indent=1) + "\n")


if __name__ == "__main__":
    main()
