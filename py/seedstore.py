#!/usr/bin/env python3
"""Copy confirmed seeded changes into /verif/seeded/<id>/ with meta.json.  usage: seedstore.py <dir> ..."""
import json
import shutil
import sys
from pathlib import Path

for d in sys.argv[1:]:
    d = Path(d)
    pid = d.name.split("_")[0]
    dst = Path("/verif/seeded") / d.name
    dst.mkdir(parents=True, exist_ok=True)
    for f in ("patch.diff", "demo.py"):
        shutil.copy(d / f, dst / f)
    notes = (d / "notes.txt").read_text() if (d / "notes.txt").exists() else ""
    meta = {"property": pid, "breaks": notes.strip().split("\n")[0][:300], "notes": notes.strip(), "needs_to_manifest": "see notes",
            "confirmed_by_me": (d / "confirm.txt").read_text().strip() if (d / "confirm.txt").exists() else "",
            "what_i_ran": [f"git apply patch.diff in a scratch worktree of /repo under /tmp; full pytest suite (baseline: 2 failed, 282 passed, 1 skipped); demo.py with and without the change",
                           f"git -C /repo apply patch.diff; ./check {pid} --tier quick; git -C /repo checkout -- ."],
            "detected_by_check": (d / "detection.txt").read_text().strip()[:1500] if (d / "detection.txt").exists() else ""}
    (dst / "meta.json").write_text(json.dumps(meta, indent=1))
    print("stored", dst)
