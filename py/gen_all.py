#!/usr/bin/env python3
"""Regenerate every coq/Gen/*.v from /repo's current working tree (write-if-changed)."""
import sys
from pathlib import Path
sys.path.insert(0, str(Path(__file__).resolve().parent))

def main():
    import importlib
    for name in ("tr_particles", "tr_models", "tr_amp", "tr_lexer", "tr_layout"):
        try:
            m = importlib.import_module(name)
        except ModuleNotFoundError:
            continue
        m.main()

if __name__ == "__main__":
    main()
