#!/usr/bin/env python3
"""C12 — Flattening multiplies branching fractions and keeps exactly the leaves.

proof:          coq/Props/C12.v (model coq/Decay/Flatten.v: the loop of DecayChain.flatten as written)
correspondence: exhaustive small chain shapes x every stable subset x every order of the sub-decay mapping,
                random larger chains; Fraction branching fractions so the comparison is exact.
"""
from __future__ import annotations

import itertools
import json
import sys
from fractions import Fraction
from pathlib import Path

sys.path.insert(0, str(Path(__file__).resolve().parent))
from c04 import dec, enc, rand_json  # noqa: E402


def impl_main(mode, fin, fout):
    from vlib import jval
    from decaylanguage import DecayChain, DecayMode

    cases = dec(json.loads(Path(fin).read_text()))
    out = []
    for c in cases:
        viol = []
        try:
            decays = {n: DecayMode(bf, list(ds), **info) for n, bf, ds, info in c["decays"]}
            if c.get("pre"):
                # the chain object is first used in another state (one mode with another bf / other daughters), then that mode is
                # edited IN PLACE to the state of this case: every answer must be that of the chain as it now is
                from decaylanguage import DaughtersDict
                nm, pbf, pds = c["pre"]
                post = decays[nm]
                decays[nm] = DecayMode(pbf, list(pds), **dict(post.metadata))
                dc = DecayChain(c["mother"], decays)
                dc.flatten()
                _ = dc.visible_bf
                dc.to_string()
                dc.decays[nm].bf = post.bf
                dc.decays[nm].daughters = DaughtersDict(post.daughters.to_list())
            else:
                dc = DecayChain(c["mother"], decays)
            if mode == "visible":
                # DecayChain.visible_bf: the branching fraction of the fully flattened chain (no particle kept stable),
                # whatever stable set this case uses for its flatten() call
                out.append(jval(dc.visible_bf))
                continue
            before = json.dumps(jval(dc.to_dict()), sort_keys=True)
            keys_before = list(dc.decays.keys())
            st = c["stable"]
            st_arg = tuple(st) if c.get("stable_kind", "tuple") == "tuple" else (list(st) if c["stable_kind"] == "list" else set(st))
            r = dc.flatten(stable_particles=st_arg)
            top = r.decays[r.mother]
            res = [jval(top.bf), top.daughters.to_list(), len(top.daughters), [[k, jval(v)] for k, v in top.metadata.items()]]
            if list(r.decays.keys()) != [c["mother"]]:
                res = {"err": "result still has sub-decays"}
            if mode == "oracle":
                if json.dumps(jval(dc.to_dict()), sort_keys=True) != before or list(dc.decays.keys()) != keys_before:
                    viol.append("original chain modified by flatten")
                if list(r.decays.keys()) != [c["mother"]]:
                    viol.append("result still has sub-decays")
                # independent recursive computation of leaves and product
                dmap = {n: (bf, ds) for n, bf, ds, info in c["decays"]}

                def rec(p):
                    if p in st or p not in dmap:
                        return Fraction(1), [p]
                    bf, ds = dmap[p]
                    leaves = []
                    for d in ds:
                        b, l = rec(d)
                        bf *= b
                        leaves += l
                    return bf, leaves
                tb, tds = dmap[c["mother"]]
                ebf, el = tb, []
                for d in tds:
                    b, l = rec(d)
                    ebf *= b
                    el += l
                if top.bf != ebf:
                    viol.append("branching fraction is not the product over the tree")
                if top.daughters.to_list() != sorted(el):
                    viol.append("final state is not the multiset of leaves")
                minfo = [i for n, _, _, i in c["decays"] if n == c["mother"]][0]
                exp_meta = {"model": "", "model_params": ""}
                exp_meta.update(minfo)
                if dict(top.metadata) != exp_meta:
                    viol.append("top-level model information not kept")
                if not st and dc.visible_bf != ebf:
                    viol.append("visible_bf differs from the product")
        except Exception as e:
            res = {"err": type(e).__name__}
            if mode == "oracle" and c["mother"] not in c["stable"]:
                viol.append("exception " + type(e).__name__)
        out.append(viol if mode == "oracle" else res)
    Path(fout).write_text(json.dumps(out))


def coq_chain(c):
    from vlib import cstr, clist, cq, cval
    rows = []
    for n, bf, ds, info in c["decays"]:
        inf = clist([f"({cstr(k)}, {cval(v)})" for k, v in info.items()])
        rows.append(f"({cstr(n)}, mk_mode {cq(bf)} (dd_of_list {clist([cstr(d) for d in ds])}) {inf})")
    return "{| c_mother := " + cstr(c["mother"]) + "; c_decays := " + clist(rows) + " |}"


def main():
    import vlib
    import gen_chains
    from vlib import Check, cstr, clist

    args = vlib.std_args()
    ck = Check("C12", args.tier, args.seed)
    rng = ck.rng
    ck.proofs("Props/C12.v", extra_trusted=[
        "hand-written model coq/Decay/Flatten.v (Counter.__iadd__/_keep_positive, item assignment, dict membership "
        "modelled from CPython's collections.Counter) tied by correspondence",
        "py/c12.py + py/gen_chains.py generators"])
    cases = []
    if args.replay:
        cases = dec(json.loads(Path(args.replay).read_text())["cases"])
    else:
        shapes = gen_chains.small_shapes(3, 2)
        nex = 0
        for sh in shapes:
            names = [d[0] for d in sh["decays"]]
            subs = [s for r in range(len(names)) for s in itertools.combinations(names[1:], r)]
            perms = list(itertools.permutations(sh["decays"]))
            if args.tier == "quick":
                subs = rng.sample(subs, min(2, len(subs)))
                perms = rng.sample(perms, min(2, len(perms)))
            for s in subs:
                for p in perms:
                    cases.append({"mother": sh["mother"], "decays": [list(x) for x in p], "stable": list(s) + (["x"] if rng.random() < 0.2 else [])})
                    nex += 1
        ck.notes["exhaustive_shapes"] = len(shapes)
        nr = 500 if args.tier == "quick" else 6000
        for _ in range(nr):
            c = gen_chains.rand_chain(rng, nmax=rng.choice([2, 4, 8, 12]), mult_max=3, with_rand_json=rand_json)
            names = [d[0] for d in c["decays"] if d[0] != c["mother"]]
            st = [n for n in names if rng.random() < 0.3]
            if rng.random() < 0.2:
                st.append(rng.choice(["pi0", "x", "gamma"]))
            if rng.random() < 0.03:
                st.append(c["mother"])
            c["stable"] = st
            c["stable_kind"] = rng.choice(["tuple", "list", "set"])
            if names and rng.random() < 0.2:
                # reached by an in-place edit of one mode of a chain object that was already flattened / rendered in its earlier state
                d0 = rng.choice([d for d in c["decays"] if d[0] != c["mother"]])
                c["pre"] = [d0[0], d0[1] * Fraction(rng.choice([1, 3]), rng.choice([2, 4])), [x for x in list(d0[2])[:-1] if x not in {d[0] for d in c["decays"]}] + ["zz_pre"]]
            cases.append(c)
    impl = vlib.run_impl("c12.py", enc(cases))
    terms = [f"vfres (flatten 400 {coq_chain(c)} {clist([cstr(s) for s in c['stable']])})" for c in cases]
    model = vlib.run_model("C12", ["Lib.PyDict", "Decay.Conj", "Decay.Flatten"], "fun v : val => v", terms, shard=300)
    # exceptions: model says ValueError / KeyError, implementation reports the exception type
    diffs = vlib.compare_veq(ck, cases, impl, model)
    # visible_bf of every chain against the model's full flattening
    vis = vlib.run_impl("c12.py", enc(cases), mode="visible")
    vterms = [f"vfres (flatten 400 {coq_chain(c)} [])" for c in cases]
    vmodel = vlib.run_model("C12v", ["Lib.PyDict", "Decay.Conj", "Decay.Flatten"], "fun v : val => v", vterms, shard=300)
    vexp = [m[0] if isinstance(m, list) else m for m in vmodel]
    vdiffs = [i for i, (a, b) in enumerate(zip(vis, vexp)) if not vlib.veq(a, b) and not (isinstance(a, dict) and isinstance(b, dict) and "err" in a and "err" in b)]
    ck.cov["evaluations"] += len(cases)
    ck.cov["traces_validated_against_impl"] += len(cases) - len(vdiffs)
    ck.notes["visible_bf_compared"] = len(cases)
    ck.cov["distinct_nontrivial"] = len({json.dumps(enc(c), sort_keys=True) for c in cases if len(c["decays"]) > 1})
    ck.cov["rule"] = ("exhaustive: all chain shapes with <=3 decaying particles, daughter multiplicities <=2 (every decaying "
                      "particle reachable) x stable subsets x orders of the decays mapping (sampled 2x2 per shape in the quick "
                      "tier, all in thorough); random: 1..12 decaying particles, multiplicities <=3, re-occurrence at several "
                      "depths, metadata, stable given as tuple/list/set; non-trivial = at least one sub-decay")
    ck.cov["samples"] = [enc(cases[len(cases) // 3]), enc(cases[-1])]
    ck.notes["distribution"] = {"cases": len(cases), "max_decays": max(len(c["decays"]) for c in cases),
                                "with_stable": sum(1 for c in cases if c["stable"]),
                                "mother_in_stable": sum(1 for c in cases if c["mother"] in c["stable"])}
    hits = []
    for i in vdiffs[:5]:
        hits.append((enc(cases[i]), "visible_bf differs from the product of the branching fractions of all decays in the tree"))
    if diffs or getattr(ck, "proof_failed", None):
        sus = [cases[i] for i in diffs] if diffs else cases
        orc = vlib.run_impl("c12.py", enc(sus), mode="oracle")
        hits += [(enc(c), v[0]) for c, v in zip(sus, orc) if v]
        if not hits and diffs:
            orc = vlib.run_impl("c12.py", enc(cases), mode="oracle")
            hits = [(enc(c), v[0]) for c, v in zip(cases, orc) if v]
    vlib.std_failure(ck, "Props/C12.v", enc(cases), diffs, impl, model, hits, "py/c12.py", sig_of=lambda c, v: "oracle:" + v)
    sys.exit(ck.finish(assumptions=["branching fractions are exact rationals (Fraction) in the correspondence; float runs are not compared bit by bit"]))


if __name__ == "__main__":
    if len(sys.argv) > 1 and sys.argv[1] in ("impl", "oracle", "visible"):
        impl_main(sys.argv[1], sys.argv[2], sys.argv[3])
    else:
        main()
