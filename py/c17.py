#!/usr/bin/env python3
"""C17 — AmpGen option files are read into the amplitudes and tables they state.

proof:          coq/Props/C17.v (model coq/Amp/Read.v)
correspondence: generated option texts (event type with repeated particles, full and partial lines nested to depth 3, 0..3
                separate lines per resonance, spin / lineshape tags, comments, blank lines, parameter and constant lines, the
                coherent-sum option 0/1/absent) through AmplitudeChain.read_ampgen(text=...) vs read_ampgen in the model.
"""
from __future__ import annotations

import cmath
import json
import math
import sys
from fractions import Fraction
from pathlib import Path

sys.path.insert(0, str(Path(__file__).resolve().parent))
import ampgen_gen  # noqa: E402


def obs_line(ln):
    return [ln.name, int(ln.particle.pdgid), ln.spinfactor, ln.lineshape,
            [ln.amp.real, ln.amp.imag, ln.err.real, ln.err.imag, bool(ln.fix)], [obs_line(d) for d in ln.daughters]]


def impl_main(mode, fin, fout):
    from decaylanguage.modeling.amplitudechain import AmplitudeChain
    cases = json.loads(Path(fin).read_text())
    out = []
    for c in cases:
        AmplitudeChain.cartesian = c["cart0"]
        try:
            lines, pars, consts, states = AmplitudeChain.read_ampgen(text=c["text"])
            res = [[int(p.pdgid) for p in states],
                   [[str(n), bool(r["fix"]), float(r["value"]), float(r["error"])] for n, r in pars.iterrows()],
                   [[str(n), float(r["value"])] for n, r in consts.iterrows()],
                   [obs_line(l) for l in lines], None, [str(l) for l in lines]]
        except Exception as e:
            res = {"err": type(e).__name__}
        out.append(res)
    Path(fout).write_text(json.dumps(out))


def close(a, b):
    return a == b or abs(a - b) <= 1e-13 * max(1.0, abs(a), abs(b))


def qf(v):
    return float(Fraction(v["q"][0], v["q"][1]))


def cmp_tree(it, mt):
    """implementation line observation vs model atree value"""
    if it[0] != mt[0] or it[1] != mt[1] or it[2] != mt[2] or it[3] != mt[3]:
        return False
    c = mt[4]
    if c is None:
        exp = [1.0, 0.0, 0.0, 0.0, True]
    elif c[0] == "polar":
        A, th, dA, dth = map(qf, c[1:5])
        amp = A * cmath.exp(th * 1j)
        exp = [amp.real, amp.imag, dA * math.cos(th) + A * math.sin(dth), dA * math.sin(th) + A * math.cos(dth), c[5]]
    else:
        a, b, da, db = map(qf, c[1:5])
        exp = [a, b, da, db, c[5]]
    if it[4][4] != exp[4] or not all(close(x, y) for x, y in zip(it[4][:4], exp[:4])):
        return False
    return len(it[5]) == len(mt[5]) and all(cmp_tree(a, b) for a, b in zip(it[5], mt[5]))


def agree(iv, mv):
    if isinstance(iv, dict) or isinstance(mv, dict):
        return iv == mv or (isinstance(iv, dict) and isinstance(mv, dict) and {iv["err"], mv["err"]} <= {"ParticleNotFound", "ParticleNotFound"})
    ev, pars, consts, lines, cart, _strs = iv
    mev, mpars, mconsts, mlines, mcart = mv
    if ev != mev or len(pars) != len(mpars) or len(consts) != len(mconsts) or len(lines) != len(mlines):
        return False
    for a, b in zip(pars, mpars):
        if a[0] != b[0] or a[1] != b[1] or float(a[2]) != qf(b[2]) or float(a[3]) != qf(b[3]):
            return False
    for a, b in zip(consts, mconsts):
        if a[0] != b[0] or float(a[1]) != qf(b[1]):
            return False
    return all(cmp_tree(a, b) for a, b in zip(lines, mlines))


def oracle(c, iv):
    """independent enumeration of the complete decay lines from the option file"""
    import itertools
    if isinstance(iv, dict):
        return "exception " + iv["err"]
    cplx = [ln for ln in c["opt"] if ln[0] == "cplx"]

    def exp(t):
        n, sp, ls, sub = t
        if sub:
            return [[n, sp, ls, list(combo)] for combo in itertools.product(*[exp(s) for s in sub])]
        alts = [e for ln in cplx if ln[1][0] == n for e in exp(ln[1])]
        return alts or [t]
    want = [ampgen_gen.render_tree(e) for ln in cplx if ln[1][0] == "D0" for e in exp(ln[1])]

    def strip(s):
        return s
    got = []
    def tree_str(o):
        n, pid, sp, ls, cpl, sub = o
        s = n
        if sp and ls:
            s += f"[{sp};{ls}]"
        elif sp:
            s += f"[{sp}]"
        elif ls:
            s += f"[{ls}]"
        if sub:
            s += "{" + ",".join(tree_str(x) for x in sub) + "}"
        return s
    got = [tree_str(o) for o in iv[3]]
    if got != want:
        return "amplitudes are not the full cartesian expansion of the lines, each once and in file order"
    # couplings of the mother's lines: real + i imag under the coherent-sum option, magnitude * exp(i phase) otherwise
    fcs = [ln[1] for ln in c["opt"] if ln[0] == "fcs"]
    cart = c["cart0"] if not fcs else fcs[0] == "1"
    heads = [ln for ln in cplx if ln[1][0] == "D0" for _ in exp(ln[1])]
    for ln, o in zip(heads, iv[3]):
        v1, v2 = float(Fraction(ln[2][1])), float(Fraction(ln[3][1]))
        amp = complex(v1, v2) if cart else v1 * cmath.exp(v2 * 1j)
        if not (close(o[4][0], amp.real) and close(o[4][1], amp.imag)):
            return ("coupling of a line is not " + ("real + i imag (coherent-sum option on)" if cart else "magnitude * exp(i phase) (coherent-sum option off or absent)")
                    + ": " + ampgen_gen.render_tree(ln[1]))
    if len(iv[1]) != sum(1 for ln in c["opt"] if ln[0] == "var") or len(iv[2]) != sum(1 for ln in c["opt"] if ln[0] == "const"):
        return "parameter / constant tables do not have one row per line"
    return None


def main():
    import vlib
    import tr_amp
    from vlib import Check, cbool
    args = vlib.std_args()
    ck = Check("C17", args.tier, args.seed)
    rng = ck.rng
    tr = tr_amp.main()
    ck.notes["name_resolution"] = tr["names"]
    ck.proofs("Props/C17.v", extra_trusted=[
        "PARTIAL front end: the AmpGen lexer/LALR parser (ampgen.lark) is not modelled; py/ampgen_gen.py renders option files to text",
        "particle_from_string_name (fuzzy AmpGen-name lookup) is data: its answers for the name pool are regenerated by py/tr_amp.py",
        "numpy.exp / cos / sin: the model keeps couplings as exact (magnitude, phase) pairs; the harness compares with cmath to 1e-13",
        "hand-written model coq/Amp/Read.v tied by correspondence"])
    if args.replay:
        cases = json.loads(Path(args.replay).read_text())["cases"]
    else:
        cases = []
        n = 90 if args.tier == "quick" else 1200
        for _ in range(n):
            opt = ampgen_gen.rand_optfile(rng)
            if rng.random() < 0.04:
                opt.append(["cplx", ["D0", None, None, [ampgen_gen.leaf("NoSuchParticle"), ampgen_gen.leaf("pi+")]], ["0", "1", "0"], ["0", "0", "0"]])
            if rng.random() < 0.03:
                opt = [ln for ln in opt if ln[0] != "event"]
            cases.append({"opt": opt, "text": ampgen_gen.render(opt), "cart0": rng.random() < 0.2})
    impl = vlib.run_impl("c17.py", cases, nshards=16)
    pre = "Definition pid_of (n : string) : option Z := pd_get n amp_names."
    terms = [f"vrres (read_ampgen pid_of 40 {cbool(c['cart0'])} {ampgen_gen.coq_optfile(c['opt'])})" for c in cases]
    model = vlib.run_model("C17", ["Lib.PyDict", "Gen.GenAmp", "Amp.Syntax", "Amp.Read"], "fun v : val => v", terms, shard=60, preamble=pre)
    diffs = [i for i, (a, b) in enumerate(zip(impl, model)) if not agree(a, b)]
    ck.cov["evaluations"] += len(cases)
    ck.cov["traces_validated_against_impl"] += len(cases) - len(diffs)
    ck.cov["distinct_nontrivial"] = len({c["text"] for c, v in zip(cases, impl) if isinstance(v, list) and len(v[3]) > 1})
    ck.cov["rule"] = ("event type D0 -> K- pi+ pi+ pi- (repeated pi+); 1..6 lines of the mother (two-resonance and cascade topologies, "
                      "bare or written-out resonances), 0..3 separate lines per bare resonance down to depth 3, spin tags S/P/D, FOCUS / "
                      "kMatrix / GSpline lineshape tags, comments and blank lines, 0..6 parameter and 0..4 constant lines, coherent-sum "
                      "option 0/1/absent with either previous class state; unknown particle / missing event type now and then; "
                      "non-trivial = more than one amplitude")
    ck.cov["samples"] = [{"text": cases[0]["text"], "amplitudes": impl[0][5] if isinstance(impl[0], list) else impl[0]}]
    ck.notes["distribution"] = {"files": len(cases), "errors": sum(1 for v in impl if isinstance(v, dict)),
                                "max_amplitudes": max([len(v[3]) for v in impl if isinstance(v, list)] or [0]),
                                "with_fcs": sum(1 for c in cases if any(l[0] == "fcs" for l in c["opt"]))}
    hits = []
    for i in diffs[:30]:
        if any(l[0] == "cplx" and l[1][3] and l[1][3][0][0] == "NoSuchParticle" for l in cases[i]["opt"]) or not any(l[0] == "event" for l in cases[i]["opt"]):
            continue
        msg = oracle(cases[i], impl[i])
        if msg:
            hits.append((cases[i], "F7: text with the coherent-sum option raises AttributeError" if msg == "exception AttributeError" else msg))
    vlib.std_failure(ck, "Props/C17.v", cases, diffs, impl, model, hits, "py/c17.py",
                     sig_of=lambda c, v: "F7:coherent-sum-option-AttributeError" if v.startswith("F7") else "oracle:" + v.split(": ")[0])
    sys.exit(ck.finish())


if __name__ == "__main__":
    if len(sys.argv) > 1 and sys.argv[1] in ("impl", "oracle"):
        impl_main(sys.argv[1], sys.argv[2], sys.argv[3])
    else:
        main()
