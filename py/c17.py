#!/usr/bin/env python3
"""C17 — AmpGen option files are read into the amplitudes and tables they state.

proof:          coq/Props/C17.v (model coq/Amp/Read.v)
correspondence: generated option texts (event type with repeated particles, full and partial lines nested to depth 3, 0..3
                separate lines per resonance, spin / lineshape tags, comments, blank lines, parameter and constant lines, the
                coherent-sum option 0/1/absent) through AmplitudeChain.read_ampgen(text=...) vs read_ampgen in the model.
"""
from __future__ import annotations

import cmath
import json
import math
import sys
from fractions import Fraction
from pathlib import Path

sys.path.insert(0, str(Path(__file__).resolve().parent))
import ampgen_gen  # noqa: E402


def obs_line(ln):
    return [ln.name, int(ln.particle.pdgid), ln.spinfactor, ln.lineshape,
            [ln.amp.real, ln.amp.imag, ln.err.real, ln.err.imag, bool(ln.fix)], [obs_line(d) for d in ln.daughters]]


LARK_ERRORS = ("UnexpectedCharacters", "UnexpectedToken", "UnexpectedEOF", "UnexpectedInput")


_FRONT = {}


def lark_front(text, grammar):
    """the tree Lark builds for the text with data/ampgen.lark and NO transformer, in the JSON form of coq/Amp/Text.vtext"""
    from lark import Lark, Tree
    from lark.exceptions import UnexpectedInput
    if "parser" not in _FRONT:
        _FRONT["parser"] = Lark(grammar, parser="lalr")
    try:
        tree = _FRONT["parser"].parse(text)
    except UnexpectedInput:
        return {"err": "UnexpectedInput"}

    def tok1(t):
        (x,) = t.children
        return str(x)

    def dtree(d):
        ch = d.children
        name, sp, ls, sub = tok1(ch[0]), None, None, []
        for x in ch[1:]:
            if x.data == "subdecay":
                sub += [dtree(y) for y in x.children]
            elif x.data == "decaytype":
                for y in x.children:
                    if y.data == "spinfactor":
                        sp = tok1(y)
                    elif y.data == "lineshape":
                        ls = tok1(y)
        return [name, sp, ls, sub]

    def fc(t):
        a, b, c = t.children
        return [tok1(a), str(b), str(c)]
    out = []
    for ln in tree.children:
        assert isinstance(ln, Tree), ln
        d, ch = ln.data, ln.children
        if d == "event_type":
            out.append(["event", [tok1(x) for x in ch]])
        elif d == "cplx_decay_line":
            out.append(["cplx", dtree(ch[0]), fc(ch[1]), fc(ch[2])])
        elif d == "constant":
            out.append(["const", tok1(ch[0]), str(ch[1])])
        elif d == "variable":
            out.append(["var", tok1(ch[0]), tok1(ch[1]), str(ch[2]), str(ch[3])])
        elif d == "options" and ch[0].data == "fast_coherent_sum":
            out.append(["fcs", tok1(ch[0])])
        elif d in ("options", "cart_decay_line", "invert_line"):
            out.append(["other"])
        else:
            raise AssertionError(d)
    return out


def impl_main(mode, fin, fout):
    from decaylanguage import data
    from decaylanguage.modeling.amplitudechain import AmplitudeChain
    grammar = data.basepath.joinpath("ampgen.lark").read_text()
    cases = json.loads(Path(fin).read_text())
    out = []
    for c in cases:
        AmplitudeChain.cartesian = c["cart0"]
        try:
            lines, pars, consts, states = AmplitudeChain.read_ampgen(text=c["text"])
            res = [[int(p.pdgid) for p in states],
                   [[str(n), bool(r["fix"]), float(r["value"]), float(r["error"])] for n, r in pars.iterrows()],
                   [[str(n), float(r["value"])] for n, r in consts.iterrows()],
                   [obs_line(l) for l in lines], None, [str(l) for l in lines]]
        except Exception as e:
            n = type(e).__name__
            res = {"err": "UnexpectedInput" if n in LARK_ERRORS else n}
        out.append([res, lark_front(c["text"], grammar)])
    Path(fout).write_text(json.dumps(out))


def ast_json(opt):
    """the generator's option file in the JSON form of coq/Amp/Text.vtext (comments and blank lines leave no trace)"""
    out = []
    for ln in opt:
        k = ln[0]
        if k == "event":
            out.append(["event", list(ln[1])])
        elif k == "cplx":
            out.append(["cplx", ln[1], list(ln[2]), list(ln[3])])
        elif k == "const":
            out.append(["const", ln[1], ln[2]])
        elif k == "var":
            out.append(["var", ln[1], ln[2], ln[3], ln[4]])
        elif k == "fcs":
            out.append(["fcs", ln[1]])
    return out


def text_variants(rng, opt):
    """spellings and malformations of a rendered option file: (kind, text).  The model and Lark must agree on accept / reject and on
    the tree; what the text "should" mean is not assumed here."""
    base = ampgen_gen.render(opt)
    lines = base.split("\n")[:-1]
    out = []

    def join(ls, nl="\n", last=True):
        return nl.join(ls) + (nl if last else "")
    out.append(("crlf", join(lines, "\r\n")))
    out.append(("no final newline", join(lines, last=False)))
    out.append(("no final newline, comment", join(lines, last=False) + "  # end"))
    out.append(("blank / indented / tabbed", "\n  \n" + "".join(("\t " if rng.random() < 0.4 else "") + l.replace("   ", " \t  ") + "\n" + ("\n   \n" if rng.random() < 0.3 else "") for l in lines)))
    out.append(("spaces around punctuation", join([l.replace("{", " { ").replace(",", " , ").replace("}", " } ").replace("[", " [ ").replace("]", " ] ").replace(";", " ; ") for l in lines])))
    out.append(("only comments", "# a\n# b\n"))
    out.append(("empty", ""))
    idx = [i for i, l in enumerate(lines) if l and not l.startswith("#")]
    if idx:
        i = rng.choice(idx)
        w = lines[i].split()
        for kind, repl in (("a column removed", " ".join(w[:-1])), ("a column added", " ".join(w + ["0.5"])), ("a word column", " ".join(w[:-1] + ["abc"])),
                           ("tag without sub-decay", w[0].split("{")[0] + "[D] " + " ".join(w[1:])),
                           ("bare particle, six numbers", w[0].split("{")[0].split("[")[0] + " 0 1 2 0 3 4"),
                           ("bare particle, three numbers", w[0].split("{")[0].split("[")[0] + " 0 1 2"),
                           ("single colon", w[0].split("{")[0].split("[")[0] + ":x 1"),
                           ("carriage return inside", w[0] + "\r " + " ".join(w[1:]))):
            out.append((kind, join(lines[:i] + [repl] + lines[i + 1:])))
    extra = ["Output \"out.root\"", "nEvents 1000", "K(1)(1270)bar- = K(1)(1270)+", "rho(770)0{pi+,pi-} 2 1 0",
             "D0[S;P]{K-,pi+} 0 1 0 0 1 0", "D0[D;S]{K-,pi+} 0 1 0 0 1 0", "D0[GSpline.EFF;FOCUS.Kpi]{K-,pi+} 0 1 0 0 1 0", "D0[SBW]{K-,pi+} 0 1 0 0 1 0",
             "D0[P;BW.x]{K-,pi+} +1 -.5 1e3 0 1. 2E-2", "EventType D0", "EventType", "2 3", "FastCoherentSum::UseCartesian x", "nEvents -1",
             "D0{K-,pi+,pi-} 0 1 0 0 1 0", "D0{K-} 0 1 0 0 1 0", "EventType Output nEvents", "Output 1", "nEvents{K-,pi+} 0 1 0 0 1 0", "x::y 1", "x:::y 1",
             "a'*+-() 1", "a.b 1", "D0{K-[S],pi+} 0 1 0 0 1 0", "D0{K-[S]{pi+,pi-},pi+} 0 1 0 0 1 0", "D0 {K-,pi+} 0 1 0 0 1 0", "D0{K-,pi+}0 1 0 0 1 0", "D0{K-,pi+ 0 1 0 0 1 0", "D0[]{K-,pi+} 0 1 0 0 1 0", "D0[S{K-,pi+} 0 1 0 0 1 0"]
    for e in rng.sample(extra, 9):
        pos = rng.randint(1, len(lines))
        out.append(("line: " + e, join(lines[:pos] + [e] + lines[pos:])))
    return out


def close(a, b):
    return a == b or abs(a - b) <= 1e-13 * max(1.0, abs(a), abs(b))


def qf(v):
    return float(Fraction(v["q"][0], v["q"][1]))


def cmp_tree(it, mt):
    """implementation line observation vs model atree value"""
    if it[0] != mt[0] or it[1] != mt[1] or it[2] != mt[2] or it[3] != mt[3]:
        return False
    c = mt[4]
    if c is None:
        exp = [1.0, 0.0, 0.0, 0.0, True]
    elif c[0] == "polar":
        A, th, dA, dth = map(qf, c[1:5])
        amp = A * cmath.exp(th * 1j)
        exp = [amp.real, amp.imag, dA * math.cos(th) + A * math.sin(dth), dA * math.sin(th) + A * math.cos(dth), c[5]]
    else:
        a, b, da, db = map(qf, c[1:5])
        exp = [a, b, da, db, c[5]]
    if it[4][4] != exp[4] or not all(close(x, y) for x, y in zip(it[4][:4], exp[:4])):
        return False
    return len(it[5]) == len(mt[5]) and all(cmp_tree(a, b) for a, b in zip(it[5], mt[5]))


def agree(iv, mv):
    if isinstance(mv, dict) and mv.get("err") == "UnexpectedInput" and isinstance(iv, dict):
        # the model says the text is not in the grammar: any exception of the implementation is a rejection (with the transformer
        # running inside the LALR parser, a callback can raise before Lark reports the syntax error)
        return True
    if isinstance(iv, dict) or isinstance(mv, dict):
        return iv == mv or (isinstance(iv, dict) and isinstance(mv, dict) and {iv["err"], mv["err"]} <= {"ParticleNotFound", "ParticleNotFound"})
    ev, pars, consts, lines, cart, _strs = iv
    mev, mpars, mconsts, mlines, mcart = mv
    if ev != mev or len(pars) != len(mpars) or len(consts) != len(mconsts) or len(lines) != len(mlines):
        return False
    for a, b in zip(pars, mpars):
        if a[0] != b[0] or a[1] != b[1] or float(a[2]) != qf(b[2]) or float(a[3]) != qf(b[3]):
            return False
    for a, b in zip(consts, mconsts):
        if a[0] != b[0] or float(a[1]) != qf(b[1]):
            return False
    return all(cmp_tree(a, b) for a, b in zip(lines, mlines))


def oracle(c, iv):
    """independent enumeration of the complete decay lines from the option file"""
    import itertools
    if isinstance(iv, dict):
        return "exception " + iv["err"]
    cplx = [ln for ln in c["opt"] if ln[0] == "cplx"]

    def exp(t):
        n, sp, ls, sub = t
        if sub:
            return [[n, sp, ls, list(combo)] for combo in itertools.product(*[exp(s) for s in sub])]
        alts = [e for ln in cplx if ln[1][0] == n for e in exp(ln[1])]
        return alts or [t]
    want = [ampgen_gen.render_tree(e) for ln in cplx if ln[1][0] == "D0" for e in exp(ln[1])]

    def strip(s):
        return s
    got = []
    def tree_str(o):
        n, pid, sp, ls, cpl, sub = o
        s = n
        if sp and ls:
            s += f"[{sp};{ls}]"
        elif sp:
            s += f"[{sp}]"
        elif ls:
            s += f"[{ls}]"
        if sub:
            s += "{" + ",".join(tree_str(x) for x in sub) + "}"
        return s
    got = [tree_str(o) for o in iv[3]]
    if got != want:
        return "amplitudes are not the full cartesian expansion of the lines, each once and in file order"
    # couplings of the mother's lines: real + i imag under the coherent-sum option, magnitude * exp(i phase) otherwise
    fcs = [ln[1] for ln in c["opt"] if ln[0] == "fcs"]
    cart = c["cart0"] if not fcs else fcs[0] == "1"
    heads = [ln for ln in cplx if ln[1][0] == "D0" for _ in exp(ln[1])]
    for ln, o in zip(heads, iv[3]):
        v1, v2 = float(Fraction(ln[2][1])), float(Fraction(ln[3][1]))
        amp = complex(v1, v2) if cart else v1 * cmath.exp(v2 * 1j)
        if not (close(o[4][0], amp.real) and close(o[4][1], amp.imag)):
            return ("coupling of a line is not " + ("real + i imag (coherent-sum option on)" if cart else "magnitude * exp(i phase) (coherent-sum option off or absent)")
                    + ": " + ampgen_gen.render_tree(ln[1]))
    if len(iv[1]) != sum(1 for ln in c["opt"] if ln[0] == "var") or len(iv[2]) != sum(1 for ln in c["opt"] if ln[0] == "const"):
        return "parameter / constant tables do not have one row per line"
    return None


def main():
    import vlib
    import tr_amp
    from vlib import Check, cbool
    args = vlib.std_args()
    ck = Check("C17", args.tier, args.seed)
    rng = ck.rng
    tr = tr_amp.main()
    ck.notes["name_resolution"] = tr["names"]
    ck.proofs("Props/C17.v", extra_trusted=[
        "front end: coq/Amp/Text.v is a hand-written model of ampgen.lark as Lark's contextual lexer + LALR driver + AmpGenTransformer read it "
        "(words classified whole; words the lexer would cut in two are outside the domain), tied by comparing its reading of every text of the run "
        "(generated files, spellings, malformations, the shipped model) with the tree Lark builds without transformer, and the whole pipeline "
        "text -> amplitudes with read_ampgen",
        "particle_from_string_name (fuzzy AmpGen-name lookup) is data: its answers for the name pool are regenerated by py/tr_amp.py",
        "numpy.exp / cos / sin: the model keeps couplings as exact (magnitude, phase) pairs; the harness compares with cmath to 1e-13",
        "hand-written model coq/Amp/Read.v tied by correspondence"])
    if args.replay:
        cases = json.loads(Path(args.replay).read_text())["cases"]
    else:
        cases = []
        n = 90 if args.tier == "quick" else 1200
        for _ in range(n):
            opt = ampgen_gen.rand_optfile(rng)
            if rng.random() < 0.04:
                opt.append(["cplx", ["D0", None, None, [ampgen_gen.leaf("NoSuchParticle"), ampgen_gen.leaf("pi+")]], ["0", "1", "0"], ["0", "0", "0"]])
            if rng.random() < 0.03:
                opt = [ln for ln in opt if ln[0] != "event"]
            cases.append({"opt": opt, "text": ampgen_gen.render(opt), "cart0": rng.random() < 0.2})
    # spellings / malformations of some of the files, and the shipped model: front end only adds cases, same comparison
    nbase = len(cases)
    if not args.replay:
        for c in list(cases[:5 if args.tier == "quick" else 120]):
            if not any(l[0] == "event" for l in c["opt"]):
                continue
            for kind, text in text_variants(rng, c["opt"]):
                cases.append({"opt": None, "variant_of": c["opt"], "kind": kind, "text": text, "cart0": c["cart0"]})
        cases.append({"opt": None, "kind": "models/DtoKpipipi_v2.txt", "text": (vlib.REPO / "models" / "DtoKpipipi_v2.txt").read_text(), "cart0": False})
    both = vlib.run_impl("c17.py", cases, nshards=16)
    impl = [b[0] for b in both]
    front = [b[1] for b in both]
    pre = "Definition pid_of (n : string) : option Z := pd_get n amp_names."
    from vlib import cstr
    # the text is read in its own command (a large text inside the printed expression makes Eval vm_compute many times slower)
    terms = [("Definition r@ := Eval vm_compute in parse_text " + cstr(c["text"]) + ".",
              "VList [vtext r@; match r@ with Some f => vrres (read_ampgen pid_of 40 " + cbool(c["cart0"]) + " f) | None => VErr \"UnexpectedInput\" end]")
             for c in cases]
    both_m = vlib.run_model("C17", ["Lib.PyDict", "Gen.GenAmp", "Amp.Syntax", "Amp.Read", "Amp.Text"], "fun v : val => v", terms, shard=25, preamble=pre)
    mfront = [m[0] for m in both_m]
    model = [m[1] for m in both_m]
    # (1) text -> result, model vs implementation
    diffs = [i for i, (a, b) in enumerate(zip(impl, model)) if not agree(a, b)]
    # (2) the front end alone: the model's reading of the text vs the tree Lark builds (no transformer), and vs the generator's file
    fdiffs = [i for i, (a, b) in enumerate(zip(front, mfront)) if a != b]
    gdiffs = [i for i, c in enumerate(cases) if c["opt"] is not None and mfront[i] != ast_json(c["opt"])]
    ck.cov["evaluations"] += 2 * len(cases)
    ck.cov["traces_validated_against_impl"] += 2 * len(cases) - len(diffs) - len(fdiffs)
    ck.notes["front_end"] = {"texts": len(cases), "generated files": nbase, "spellings / malformations / shipped model": len(cases) - nbase,
                             "rejected by both": sum(1 for a, b in zip(front, mfront) if isinstance(a, dict) and isinstance(b, dict)),
                             "model tree differs from Lark's": len(fdiffs), "model tree differs from the generator's file": len(gdiffs),
                             "kinds": sorted({c.get("kind", "generated").split(":")[0] for c in cases})}
    for i in fdiffs + gdiffs:
        if i not in diffs:
            diffs.append(i)
    ck.cov["distinct_nontrivial"] = len({c["text"] for c, v in zip(cases, impl) if isinstance(v, list) and len(v[3]) > 1})
    for c in cases:
        if c["opt"] is None:
            c["opt"] = c.get("variant_of") or []
    ck.cov["rule"] = ("event type D0 -> K- pi+ pi+ pi- (repeated pi+); 1..6 lines of the mother (two-resonance and cascade topologies, "
                      "bare or written-out resonances), 0..3 separate lines per bare resonance down to depth 3, spin tags S/P/D, FOCUS / "
                      "kMatrix / GSpline lineshape tags, comments and blank lines, 0..6 parameter and 0..4 constant lines, coherent-sum "
                      "option 0/1/absent with either previous class state; unknown particle / missing event type now and then; "
                      "non-trivial = more than one amplitude")
    ck.cov["samples"] = [{"text": cases[0]["text"], "amplitudes": impl[0][5] if isinstance(impl[0], list) else impl[0]}]
    ck.notes["distribution"] = {"files": len(cases), "errors": sum(1 for v in impl if isinstance(v, dict)),
                                "max_amplitudes": max([len(v[3]) for v in impl if isinstance(v, list)] or [0]),
                                "with_fcs": sum(1 for c in cases if any(l[0] == "fcs" for l in c["opt"]))}
    hits = []
    # a text Lark's grammar accepts must be read without an internal error (whatever the model says)
    for i, (c, iv, fr) in enumerate(zip(cases, impl, front)):
        if isinstance(iv, dict) and isinstance(fr, list) and iv["err"] not in ("UnexpectedInput", "ParticleNotFound", "ValueError:event", "MatchingIDNotFound"):
            has_event = sum(1 for l in fr if l[0] == "event") == 1
            if has_event:
                hits.append(({"text": c["text"], "cart0": c["cart0"], "opt": c["opt"] or []},
                             "a text in the options grammar raises " + iv["err"] + " (internal error)"))
    for i in diffs[:30]:
        if cases[i].get("kind"):
            continue
        if any(l[0] == "cplx" and l[1][3] and l[1][3][0][0] == "NoSuchParticle" for l in cases[i]["opt"]) or not any(l[0] == "event" for l in cases[i]["opt"]):
            continue
        msg = oracle(cases[i], impl[i])
        if msg:
            hits.append((cases[i], "F7: text with the coherent-sum option raises AttributeError" if msg == "exception AttributeError" else msg))
    vlib.std_failure(ck, "Props/C17.v", cases, diffs, impl, model, hits, "py/c17.py",
                     sig_of=lambda c, v: "F7:coherent-sum-option-AttributeError" if v.startswith("F7") else "oracle:" + v.split(": ")[0])
    sys.exit(ck.finish())


if __name__ == "__main__":
    if len(sys.argv) > 1 and sys.argv[1] in ("impl", "oracle"):
        impl_main(sys.argv[1], sys.argv[2], sys.argv[3])
    else:
        main()
