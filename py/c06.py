#!/usr/bin/env python3
"""C06 — Every supported model name is recognised as itself; unknown models are rejected.

proof:          coq/Props/C06.v; (T) py/tr_lexer.py regenerates coq/Gen/GenLexer.v from the MODEL_NAME terminal Lark compiles for the
                published list and for this run's user-registered lists, and the theorem C06_terminal_is_spec is re-proved on it.
correspondence: every published name in every context (with/without PHOTOS, without/with numeric/word parameters, daughters that extend
                the name by a word character), all pairs of names where one is a prefix of the other side by side, user-registered
                names (prefixes/extensions of published ones, names with regex-special characters, names ending in '-'),
                near-miss unknown words; outcome of DecFileParser.parse() vs match_alts of the model on the model word.
"""
from __future__ import annotations

import json
import sys
from pathlib import Path

sys.path.insert(0, str(Path(__file__).resolve().parent))


def impl_main(mode, fin, fout):
    import warnings
    from decaylanguage import DecFileParser
    cases = json.loads(Path(fin).read_text())
    out = []
    for c in cases:
        p = DecFileParser.from_string(c["text"])
        for grp in c["user"]:
            p.load_additional_decay_models(*grp)
        try:
            with warnings.catch_warnings():
                warnings.simplefilter("ignore")
                p.parse()
        except Exception as e:
            out.append({"err": "rejected", "type": type(e).__name__})
            continue
        res = []
        for m in p.list_decay_mother_names():
            for dm in p._find_decay_modes(m):
                try:
                    d = p._decay_mode_details(dm, True)
                    res.append([d["model"], list(d["fs"]), [str(x) for x in d["model_params"]] if isinstance(d["model_params"], list) else []])
                except Exception as e:      # parse() accepted the file, the mode cannot be read: reported as accepted-with-junk
                    res.append(["<unreadable:" + type(e).__name__ + ">", [], []])
        out.append(res)
    Path(fout).write_text(json.dumps(out))


def main():
    import vlib
    import tr_lexer
    import tr_models
    from vlib import Check, cstr
    args = vlib.std_args()
    ck = Check("C06", args.tier, args.seed)
    rng = ck.rng
    models = tr_models.main()["models"]
    # user-registered lists of this run
    pick = lambda: rng.choice(models)
    instances = [[],
                 [["MYMODEL", "My_Model2", "X-MODEL"]],
                 [[pick()[:-1] or "Q", pick() + "X", pick() + "_2"]],
                 [["A.B", "C+D", "E*F", "G(H)"], ["PHSPX"]],
                 [["FOO-", "BAR-1"]],
                 [[pick() + "1", pick()[:3]], [pick() + "_" + pick()]],
                 [["SVS_", "VSS_BMIXX", "PH", "PHS"]],
                 # prefixes of published names that stop right before a non-word character (then the longer published name must still win)
                 [sorted({m[:i] for m in models for i, ch in enumerate(m) if i > 0 and not (ch.isalnum() or ch == "_")})]]
    if args.tier == "thorough":
        for _ in range(8):
            instances.append([[pick()[: rng.randint(1, 4)], pick() + rng.choice(["x", "_y", "-z", "9"])], [rng.choice(["N-1", "AA", "a_b"])]])
    try:
        tr = tr_lexer.main(instances)
        ck.notes["translator"] = tr["instances"]
        kinds = [i["kind"] for i in tr["instances"]]
    except RuntimeError as e:
        tr = None
        ck.notes["translator_error"] = str(e)[:400]
        kinds = ["BWordBoundary"] * len(instances)
    if tr is not None:
        ck.proofs("Props/C06.v", extra_trusted=[
            "py/tr_lexer.py (reads the compiled MODEL_NAME pattern from Lark and rebuilds it from the recovered alternatives, fail-closed); "
            "Python's `re` alternation / \\\\b semantics are modelled by match_alts, tied by the correspondence",
            "the rest of the lexer/parser (which terminal is tried where) is Lark's: covered by the correspondence through parse()"])
    # ---- cases
    cases = []

    def line(word, photos=False, params="", fs=("K+", "pi-")):
        return "  1.0 " + " ".join(fs) + (" PHOTOS" if photos else "") + " " + word + (" " + params if params else "") + ";"

    def add(inst_i, lines, words):
        cases.append({"inst": inst_i, "user": instances[inst_i], "text": "Decay B0sig\n" + "\n".join(lines) + "\nEnddecay\n", "words": words})
    names_of = [models + [n for grp in inst for n in grp] for inst in instances]
    for m in models:
        ctx = [(False, ""), (True, ""), (False, "1.0 0.5"), (True, "x_1 2E-4")]
        if args.tier == "quick":
            ctx = rng.sample(ctx, 2)
        for ph, prm in ctx:
            add(0, [line(m, ph, prm, fs=(m + rng.choice(["x", "_1", "0"]), "pi-"))], [m])
    # prefix-related pairs side by side
    for ii, names in enumerate(names_of):
        pairs = [(a, b) for a in names for b in names if a != b and b.startswith(a)]
        if ii == 0:
            ck.notes["prefix_pairs_published"] = len(pairs)
        for a, b in (pairs if (ii > 0 or args.tier == "thorough") else pairs):
            add(ii, [line(a), line(b, params="1.0"), line(a, True)], [a, b, a])
    # user names
    for ii, inst in enumerate(instances):
        for grp in inst:
            for n in grp:
                add(ii, [line(n), line(n, True, "0.5 w")], [n, n])
    # near-miss unknown words (word characters only, not a registered name)
    alpha = "ABCXYZ_019abz"
    nmiss = 150 if args.tier == "quick" else 1500
    for _ in range(nmiss):
        ii = rng.randrange(len(instances))
        m = rng.choice(names_of[ii])
        r = rng.random()
        if r < 0.4:
            w = m + rng.choice(alpha)
        elif r < 0.7 and len(m) > 2:
            w = m[:-1]
        else:
            k = rng.randrange(len(m))
            w = m[:k] + rng.choice(alpha) + m[k + 1:]
        if w in names_of[ii] or not w or not all(ch.isalnum() or ch == "_" for ch in w) or w[0].isdigit() or w == "PHOTOS":
            continue
        add(ii, [line(w, params=rng.choice(["", "1.0"]))], [w])
    impl = vlib.run_impl("c06.py", cases)
    # model: match_alts on every model word of every case
    terms, idx = [], []
    for ci, c in enumerate(cases):
        for w in c["words"]:
            terms.append(f"match nth_error mn_instances {c['inst']}%nat with Some i => vopt (fun n => VInt (Z.of_nat n)) "
                         f"(match_alts (mi_kind i) (Some \" \"%char) (mi_alts i) ({cstr(w)} ++ \" ;\")) | None => VErr \"no instance\" end")
            idx.append(ci)
    model = vlib.run_model("C06", ["Dec.ModelName", "Gen.GenLexer"], "fun v : val => v", terms, shard=400) if tr is not None else [None] * len(terms)
    per_case = {}
    for ci, mv in zip(idx, model):
        per_case.setdefault(ci, []).append(mv)
    diffs, hits = [], []
    for ci, (c, iv) in enumerate(zip(cases, impl)):
        mvs = per_case.get(ci, [])
        names = names_of[c["inst"]]
        # expected outcome from the model
        if tr is None:
            exp = None
        elif all(isinstance(n, int) and n == len(w) for n, w in zip(mvs, c["words"])):
            exp = [w if "PHOTOS" not in ln else "PHOTOS " + w for w, ln in zip(c["words"], c["text"].split("\n")[1:])]
        elif any(n is None for n in mvs):
            exp = {"err": "rejected"}
        else:
            exp = "skip"
        got = [r[0] for r in iv] if isinstance(iv, list) else {"err": iv["err"]}
        if exp is not None and exp != "skip" and got != exp:
            diffs.append(ci)
        # direct statement of the property
        want_ok = all(w in names for w in c["words"])
        if want_ok:
            if isinstance(iv, dict) or [g.replace("PHOTOS ", "") for g in got] != c["words"]:
                w0 = c["words"][0]
                hits.append((c, ("F9: a registered model name ending in a non-word character is not recognised" if isinstance(iv, dict) and not (w0[-1].isalnum() or w0[-1] == "_")
                                 else "a supported model name is not recognised as itself")))
        else:
            if not isinstance(iv, dict):
                hits.append((c, "a decay line with an undefined model word is accepted"))
    ck.cov["evaluations"] += len(cases)
    ck.cov["traces_validated_against_impl"] += len(cases) - len(diffs)
    ck.cov["distinct_nontrivial"] = len({c["text"] + json.dumps(c["user"]) for c in cases})
    ck.cov["rule"] = ("every published model name in 2 (quick) / 4 (thorough) contexts with a daughter extending it by a word character; all pairs "
                      "(a, b) of registered names with a a proper prefix of b, side by side in one block, for every instance; every user-registered "
                      "name of this run's instances; near-miss unknown words (one word character added / removed / changed)")
    ck.cov["samples"] = [{"user": cases[-1]["user"], "text": cases[-1]["text"], "impl": impl[-1]}]
    ck.notes["distribution"] = {"cases": len(cases), "instances": len(instances), "rejected_by_impl": sum(1 for v in impl if isinstance(v, dict))}
    if tr is None:
        ck.broken_tie("translator", "py/tr_lexer.py refused the compiled MODEL_NAME terminal: " + ck.notes["translator_error"],
                      {"theorem_or_correspondence": "translator py/tr_lexer.py / theorem C06_terminal_is_spec"}) if not hits else None
    vlib.std_failure(ck, "Props/C06.v", cases, diffs, impl, [None] * len(cases), hits, "py/c06.py",
                     sig_of=lambda c, v: "F9:name-ending-in-nonword-char" if v.startswith("F9") else "oracle:" + v)
    sys.exit(ck.finish())


if __name__ == "__main__":
    if len(sys.argv) > 1 and sys.argv[1] in ("impl", "oracle"):
        impl_main(sys.argv[1], sys.argv[2], sys.argv[3])
    else:
        main()
