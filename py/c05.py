#!/usr/bin/env python3
"""C05 — Define'd parameters and ModelAlias'd models mean exactly their expansion.

proof:          coq/Props/C05.v (model coq/Dec/Post.v)
correspondence: generated files with Define / ModelAlias statements placed before, between and after the blocks using
                them, redefinitions, aliases whose parameter lists contain Define'd names (also negated), each used 0..3
                times within and across blocks, also in copied and conjugated tables.
"""
from __future__ import annotations

import json
import sys
from fractions import Fraction
from pathlib import Path

sys.path.insert(0, str(Path(__file__).resolve().parent))
import decgen  # noqa: E402
import decpost  # noqa: E402


def impl_main(mode, fin, fout):
    cases = json.loads(Path(fin).read_text())
    out = []
    for c in cases:
        try:
            p, warns = decpost.parse(c["text"])
            res = decpost.observe_tables(p)
        except Exception as e:
            res = {"err": type(e).__name__}
        if mode == "oracle":
            try:
                p2, _ = decpost.parse(c["expanded_text"])
                res2 = decpost.observe_tables(p2)
            except Exception as e:
                res2 = {"err": type(e).__name__}
            v = []
            if res != res2:
                if isinstance(res, dict) and res.get("err") == "TypeError":
                    v.append("F1: parse() raises TypeError when one ModelAlias with a Define'd parameter is used in several decay lines")
                else:
                    v.append("tables differ from those of the textually expanded file")
            elif isinstance(res2, list):
                # words that are not defined names stay verbatim: in the expanded file no word parameter is a defined name
                # (nor its negation), so every word written must be reported as written
                want = [[t, [[k2, t2] for l in st[2] for k2, t2 in (l.get("params") or []) if k2 == "word"]]
                        for st in c.get("expanded_stmts", []) if st[0] == "Decay" for t in [st[1]]]
                got = {}
                for m, lines in res2:
                    got.setdefault(m, [x for l in lines for x in (l[3] if isinstance(l[3], list) else []) if isinstance(x, str)])
                seen = set()
                for m, words in want:
                    if m in seen:
                        continue
                    seen.add(m)
                    if m in got and [w for _, w in words] != got[m]:
                        v.append("a word that is not a defined name is not reported verbatim")
                        break
            out.append(v)
        else:
            out.append(res)
    Path(fout).write_text(json.dumps(out))


def neg_lit(lit):
    if lit.startswith("-"):
        return "+" + lit[1:]
    if lit.startswith("+"):
        return "-" + lit[1:]
    return "-" + lit


def expand_src(stmts):
    defs, mal = {}, {}
    for st in stmts:
        if st[0] == "Define":
            defs[st[1]] = st[2]
        elif st[0] == "ModelAlias":
            mal[st[1]] = (st[2], st[3])

    def exp_params(prm):
        if prm is None:
            return None
        out = []
        for k, t in prm:
            if k == "word":
                if t.startswith("-") and t[1:] in defs:
                    out.append(["num", neg_lit(defs[t[1:]])])
                    continue
                if not t.startswith("-") and t in defs:
                    out.append(["num", defs[t]])
                    continue
            out.append([k, t])
        return out
    res = []
    for st in stmts:
        if st[0] == "Decay":
            lines = []
            for l in st[2]:
                l2 = dict(l)
                if l.get("label") and l["model"] in mal:
                    l2["model"], l2["params"] = mal[l["model"]]
                    l2["label"] = False
                l2["params"] = exp_params(l2["params"])
                lines.append(l2)
            res.append(["Decay", st[1], lines])
        else:
            res.append(st)
    return res


def gen_cases(rng, tier):
    from gen_chains import REAL
    cases = []
    n = 260 if tier == "quick" else 3000
    for _ in range(n):
        dnames = ["dm", "dGamma", "qoverp", "myVal_1", "x.y"][:rng.randint(0, 5)]
        if rng.random() < 0.25:
            # names (and undefined words) that float() would accept: they are names / words all the same
            dnames = dnames + rng.sample(["inf", "nan", "Infinity", "NaN", "INF"], rng.randint(1, 2))
        anames = ["MA", "MyVSS", "Alias-2", "MODELX"][:rng.randint(0, 4)]
        pre = []
        for d in dnames:
            for _ in range(rng.choice([1, 1, 2])):
                pre.append(["Define", d, rng.choice(decgen.NUMFORMS)])
        def params():
            prm = []
            for _ in range(rng.randint(0, 5)):
                r = rng.random()
                if r < 0.4:
                    prm.append(["num", rng.choice(decgen.NUMFORMS)])
                elif r < 0.8 and dnames:
                    nme = rng.choice(dnames + ["undefd"])
                    # "-NAME" is the negated value; "+NAME" is just a word (it is not a defined name)
                    prm.append(["word", ("-" if rng.random() < 0.3 else ("+" if rng.random() < 0.15 else "")) + nme])
                else:
                    prm.append(["word", rng.choice(["file.dat", "yes", "-foo", "w1", "nan", "-inf", "infinity"])])
            return prm or None
        for a in anames:
            for _ in range(rng.choice([1, 1, 2])):
                pre.append(["ModelAlias", a, rng.choice(["VSS_BMIX", "HELAMP", "PHSP", "SVV_HELAMP", "PYTHIA"]), params()])
        blocks = []
        mothers = rng.sample(REAL, rng.randint(1, 5))
        for m in mothers:
            lines = []
            for _ in range(rng.randint(0, 4)):
                fs = [rng.choice(REAL) for _ in range(rng.randint(0, 4))]
                if anames and rng.random() < 0.5:
                    lines.append({"bf": rng.choice(decgen.NUMFORMS[:8]), "fs": fs, "photos": rng.random() < 0.3,
                                  "model": rng.choice(anames), "params": None, "label": True})
                else:
                    lines.append({"bf": rng.choice(decgen.NUMFORMS[:8]), "fs": fs, "photos": rng.random() < 0.3,
                                  "model": rng.choice(["VSS_BMIX", "HELAMP", "PHSP", "SSD_CP"]), "params": params(), "label": False})
            blocks.append(["Decay", m, lines])
        extra = []
        if rng.random() < 0.5 and mothers:
            srcm = rng.choice(mothers)
            extra.append(["CopyDecay", "MyCopy", srcm])
            if rng.random() < 0.4:
                extra.append(["CopyDecay", "MyCopy2", srcm])           # two copies of one source
            if len(mothers) >= 2 and rng.random() < 0.5:
                # copies of several sources, stated in any order relative to the order of their sources
                for k, om in enumerate(rng.sample(mothers, min(len(mothers), rng.randint(2, 3)))):
                    extra.append(["CopyDecay", f"MyCopyOf{k}", om])
            if rng.random() < 0.4:
                extra.append(["ChargeConj", "MyCopy", "MyantiCopy"])   # a copy as the source of a CDecay
                extra.append(["CDecay", "MyantiCopy"])
        if rng.random() < 0.4:
            src = rng.choice(mothers)
            extra.append(["CDecay", "Myanti" + src.replace("/", "")])
            extra.append(["ChargeConj", src, "Myanti" + src.replace("/", "")] if rng.random() < 0.5 else ["ChargeConj", "Myanti" + src.replace("/", ""), src])
        stmts = pre + blocks + extra
        rng.shuffle(stmts)
        ex = expand_src(stmts)
        cases.append({"stmts": stmts, "text": decgen.render(stmts), "expanded_text": decgen.render(ex), "expanded_stmts": ex})
    return cases


def render_line_label(ln):
    return ln


def main():
    import vlib
    import tr_particles
    from vlib import Check
    args = vlib.std_args()
    ck = Check("C05", args.tier, args.seed)
    tr_particles.main()
    ck.proofs("Props/C05.v", extra_trusted=[
        "PARTIAL front end: text -> statement list (Lark) is not modelled; py/decgen.py renders the statements in one canonical layout",
        "hand-written model coq/Dec/Post.v tied by correspondence (tables after parse(), incl. copied and conjugated ones)"])
    cases = json.loads(Path(args.replay).read_text())["cases"] if args.replay else gen_cases(ck.rng, args.tier)
    impl = vlib.run_impl("c05.py", cases)
    decpost.front_end_check(ck, "C05fe", cases)
    terms = [f"vpost (parse_post cc sc_of true {decpost.coq_stmts(c['stmts'])})" for c in cases]
    pre = "Definition sc_of (n : string) : option bool := pd_get n (t_selfconj gen_tables)."
    model = vlib.run_model("C05", ["Lib.PyDict", "Decay.Conj", "Decay.GenTables", "Dec.Tables", "Dec.Syntax", "Dec.Post"],
                           "fun v : val => v", terms, shard=60, preamble=pre)
    diffs = vlib.compare_veq(ck, cases, impl, model)
    ck.cov["distinct_nontrivial"] = len({c["text"] for c in cases if "ModelAlias" in c["text"] or "Define" in c["text"]})
    ck.cov["rule"] = ("0..5 Define names (redefinitions, all literal forms), 0..4 ModelAlias names (redefinitions, bodies with Define'd and "
                      "negated Define'd words and undefined words), shuffled among 1..5 Decay blocks whose lines use an alias (p=0.5) or "
                      "a model with parameters; CopyDecay / CDecay+ChargeConj on top; non-trivial = has a Define or ModelAlias")
    ck.cov["samples"] = [{"text": cases[0]["text"]}]
    shared = 0
    for c in cases:
        uses = {}
        for st in c["stmts"]:
            if st[0] == "Decay":
                for l in st[2]:
                    if l.get("label"):
                        uses[l["model"]] = uses.get(l["model"], 0) + 1
        shared += any(v > 1 for v in uses.values())
    ck.notes["distribution"] = {"files": len(cases), "files_with_alias_used_more_than_once": shared,
                                "impl_errors": sum(1 for v in impl if isinstance(v, dict))}
    hits = []
    if diffs or getattr(ck, "proof_failed", None):
        sus = [cases[i] for i in diffs] if diffs else cases
        orc = vlib.run_impl("c05.py", sus, mode="oracle")
        hits = [(c, v[0]) for c, v in zip(sus, orc) if v]
    vlib.std_failure(ck, "Props/C05.v", cases, diffs, impl, model, hits, "py/c05.py",
                     sig_of=lambda c, v: "F1:shared-alias-with-defined-parameter-TypeError" if v.startswith("F1") else "oracle:" + v)
    sys.exit(ck.finish())


if __name__ == "__main__":
    if len(sys.argv) > 1 and sys.argv[1] in ("impl", "oracle"):
        impl_main(sys.argv[1], sys.argv[2], sys.argv[3])
    else:
        main()
