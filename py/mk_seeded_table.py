#!/usr/bin/env python3
"""Rewrite the section '## 10. Seeded changes' of DESIGN.md from seeded/*/meta.json."""
import json
import re
from pathlib import Path

V = Path("/verif")
rows = []
for d in sorted(V.glob("seeded/*/"), key=lambda p: (p.name.split("_")[0], int(p.name.split("_")[1]))):
    m = json.loads((d / "meta.json").read_text())
    det = m.get("detected_by_check", "")
    vio = [l for l in det.split("\n") if l.startswith("VIOLATION")]
    sig = re.search(r"\[([^\]]*)\]", vio[0]).group(1) if vio else "MISSED"
    how = "failing input" if vio and "no-failing-input-found" not in vio[0] else "no-failing-input-found"
    br = m["breaks"].replace("|", "/").strip()
    br = re.sub(r"^(Change|Changed|CHANGE)\s*:?\s*", "", br)
    rows.append(f"| {d.name} | {br[:170]} | `{sig[:110]}` ({how}) |")
txt = ("## 10. Seeded changes and the checks that catch them\n\n"
       "Written by fresh sub-agents that were given only the text of one property and a scratch worktree of /repo (nothing from /verif); every change passes the\n"
       "unchanged 282-test suite (same 2 known failures), breaks the property only for specific inputs, and comes with a demo that fails with it and passes\n"
       "without it — all re-confirmed by me in a scratch worktree before keeping it (`seeded/<id>/meta.json`: what I ran). `patch.diff` applies to /repo's\n"
       "current HEAD (`git -C /repo apply`), the property's quick check is run, the change is undone (`git -C /repo checkout -- .`): `py/seedtest.py`.\n"
       "Where a check first missed a change or found no failing input, the check was strengthened (generators / oracles; never loosened): C10_1, C04_2, C12_2,\n"
       "C13_1, C15_2, C16_2, C11_2, C08_1–3, C03_1 (first two batches), C18_3 (kMatrix/FOCUS now also generated on vector resonances), C19_2 (parameter arrays\n"
       "compared between languages and checked for index order), C19_3 (C19 now also converts generated option files with all supported spin structures and the\n"
       "parameter families they need), C17_1 (coupling-convention oracle), C06_1 (user names that are prefixes of published names up to a non-word character),\n"
       "C06_3 (rejection by parse() separated from unreadable modes); third round: C09_4, C15_4, C17_4, C19_4, C01_4, C12_4, C20_4; fourth round: C01_6, C05_5, C16_5 (oracle crash), C16_6;\n"
       "fifth round: C02_6, C11_5, C15_5, C15_6, C19_6, C19_7, C20_6, C20_7; sixth round: C01_7, C03_7, C03_8, C05_7, C10_8, C14_8, C16_7, C16_8, C18_9; seventh round: C02_8, C09_7,\n"
       "C12_7, C12_8, C13_7, C13_8, C15_7, C19_8, C19_9 (see §0 for what each needed). The last column is what the property's own quick check printed with the change applied\n"
       "(`MISSED`: exit 0 — see §0 for the ones that are still missed and why); `py/seedconfirm.py` is the script that confirmed each change in a scratch worktree.\n\n"
       "| change | what it breaks (first line of the author's notes) | caught by `./check <ID> --tier quick` as |\n|---|---|---|\n" + "\n".join(rows) + "\n")
p = V / "DESIGN.md"
s = p.read_text()
if "## 10. Seeded changes" in s:
    s = s[:s.index("## 10. Seeded changes")]
p.write_text(s.rstrip("\n") + "\n\n" + "-" * 92 + "\n\n" + txt)
print(len(rows), "rows")
