#!/usr/bin/env python3
"""C20 — Conversion output depends only on the input file.

proof:          coq/Props/C20.v (model coq/Amp/Session.v: the reader classes' process-wide state as a state machine)
correspondence: histories (all of length <= 2 over a pool, random up to length 8) of read / convert-to-C++ / convert-to-Python calls
                across the three reader classes on a pool of option files with different resonance content, with and without the
                coherent-sum option; after every call the class-level state (particle sets per class, coupling switch) is compared
                with the model's, and the call's canonical output with the same call in a FRESH interpreter; a range of
                PYTHONHASHSEED values for exact-replay and cross-seed equivalence.
"""
from __future__ import annotations

import json
import re
import subprocess
import sys
from pathlib import Path

sys.path.insert(0, str(Path(__file__).resolve().parent))
import ampgen_gen  # noqa: E402

CLASSES = ["AmplitudeChain", "GooFitChain", "GooFitPyChain"]


def canon_text(txt):
    """drop the timestamp; the header comment block, the intro declarations and the parameter declarations (multi-line
    array declarations taken as units) are compared as unordered collections; the amplitude code in order"""
    lines = [l for l in txt.split("\n") if "Generated on" not in l]

    def is_mark(l, word):
        return word in l and (l.strip().startswith("//") or l.strip().startswith("#"))
    idx = {w: next((i for i, l in enumerate(lines) if is_mark(l, w)), None) for w in ("Intro", "Parameters", "Lines")}
    if None in idx.values():
        return lines
    hdr, intro, pars, body = lines[:idx["Intro"]], lines[idx["Intro"]:idx["Parameters"]], lines[idx["Parameters"]:idx["Lines"]], lines[idx["Lines"]:]
    units, cur = [], None
    for l in pars:
        if cur is not None:
            cur.append(l)
            if l.strip() in ("}};", "]") or l.strip().endswith("]"):
                units.append("\n".join(cur))
                cur = None
            continue
        if re.match(r"\s*(std::vector<Variable>|\w+ =\s+\[$)", l):
            cur = [l]
        else:
            units.append(l)
    if cur:
        units.append("\n".join(cur))
    return [sorted(hdr), sorted(intro), sorted(units), body]


def do_op(op, files):
    import decaylanguage.modeling.amplitudechain as ac
    import decaylanguage.modeling.goofit as gf
    from decaylanguage.modeling.ampgen2goofit import ampgen2goofit, ampgen2goofitpy
    kind, cls, fi = op
    path = files[fi]
    try:
        if kind in ("read", "readtext"):
            C = {"AmplitudeChain": ac.AmplitudeChain, "GooFitChain": gf.GooFitChain, "GooFitPyChain": gf.GooFitPyChain}[cls]
            # by file name, or the same content handed over as text
            r = C.read_ampgen(str(path)) if kind == "read" else C.read_ampgen(text=Path(path).read_text())
            lines = r[0]
            # the amplitudes, and what is known about every particle seen (the particle table is process-wide)
            return ["read", [str(l) for l in lines], [[round(l.amp.real, 12), round(l.amp.imag, 12), bool(l.fix)] for l in lines],
                    sorted([int(p.pdgid), p.mass, p.width] for p in C.all_particles)]
        if kind == "cpp":
            return ["cpp", canon_text(ampgen2goofit(str(path), ret_output=True))]
        return ["py", canon_text(ampgen2goofitpy(str(path), ret_output=True))]
    except Exception as e:
        return {"err": type(e).__name__}


def class_state():
    import decaylanguage.modeling.amplitudechain as ac
    import decaylanguage.modeling.goofit as gf
    out = []
    for C in (ac.AmplitudeChain, gf.GooFitChain, gf.GooFitPyChain):
        out.append([sorted(int(p.pdgid) for p in C.all_particles), sorted(int(p.pdgid) for p in C.final_particles), bool(C.cartesian)])
    return out


def impl_main(mode, fin, fout):
    cases = json.loads(Path(fin).read_text())
    if mode == "single":
        # one op in this fresh interpreter
        c = cases
        res = do_op(c["op"], c["files"])
        Path(fout).write_text(json.dumps(res))
        return
    out = []
    for c in cases:
        # each history runs in its own interpreter (spawned by the driver); here: run the history, observe after each op
        hist = []
        for op in c["ops"]:
            r = do_op(op, c["files"])
            hist.append([r, class_state()])
        out.append(hist)
    Path(fout).write_text(json.dumps(out))


def parse_opt(text):
    """the option-file structure (ampgen_gen form) of a text made of the shipped model's lines"""
    out = []

    def tree(sx):
        m = re.match(r"([^\[{},]+)(?:\[([^\]]*)\])?", sx)
        name, tag = m.group(1), m.group(2)
        rest = sx[m.end():]
        sp = ls = None
        if tag:
            for part in tag.split(";"):
                if part in ("S", "P", "D"):
                    sp = part
                else:
                    ls = part
        sub = []
        if rest.startswith("{"):
            depth, cur, parts = 0, "", []
            for ch in rest[1:]:
                if ch == "{":
                    depth += 1
                elif ch == "}":
                    if depth == 0:
                        parts.append(cur)
                        break
                    depth -= 1
                if ch == "," and depth == 0:
                    parts.append(cur)
                    cur = ""
                else:
                    cur += ch
            sub = [tree(x) for x in parts]
        return [name, sp, ls, sub]
    for l in text.split("\n"):
        t = l.split()
        if not t or l.startswith("#"):
            continue
        if t[0] == "EventType":
            out.append(["event", t[1:]])
        elif t[0] == "FastCoherentSum::UseCartesian":
            out.append(["fcs", t[1]])
        elif len(t) == 7:
            out.append(["cplx", tree(t[0]), t[1:4], t[4:7]])
        elif len(t) == 4 and "{" in t[0]:
            continue                                 # a single-component decay line: parsed by the grammar, not converted
        elif len(t) == 4:
            out.append(["var", t[0], t[1], t[2], t[3]])
        elif len(t) == 2:
            out.append(["const", t[0], t[1]])
    return out


def run_fresh(case, seed=None):
    """run one history in a fresh interpreter"""
    import vlib
    d = vlib.BUILD / "c20"
    d.mkdir(parents=True, exist_ok=True)
    import hashlib
    h = hashlib.sha1(json.dumps(case, sort_keys=True).encode()).hexdigest()[:12] + (f"_{seed}" if seed is not None else "")
    fin, fo = d / f"in_{h}.json", d / f"out_{h}.json"
    fin.write_text(json.dumps([case]))
    env = vlib.impl_env({"PYTHONHASHSEED": str(seed)} if seed is not None else None)
    p = subprocess.run([vlib.PY, str(vlib.VERIF / "py" / "c20.py"), "impl", str(fin), str(fo)], env=env, capture_output=True, text=True, timeout=1200)
    if p.returncode != 0:
        raise RuntimeError("c20 history runner failed: " + p.stderr[-2000:])
    return json.loads(fo.read_text())[0]


def main():
    import concurrent.futures as cf
    import vlib
    import tr_amp
    from vlib import Check, cbool
    args = vlib.std_args()
    ck = Check("C20", args.tier, args.seed)
    rng = ck.rng
    tr_amp.main()
    ck.proofs("Props/C20.v", extra_trusted=[
        "fresh-interpreter runs and PYTHONHASHSEED runs are executed (subprocesses), the model's set order parameter stands for them",
        "hand-written model coq/Amp/Session.v tied by comparing the class-level state after every call",
        "AmpGen front end and particle lookup as C17"])
    d = vlib.BUILD / "c20" / "files"
    d.mkdir(parents=True, exist_ok=True)
    # pool of option files with different resonance content: sub-models of the shipped models/DtoKpipipi_v2.txt
    # (every line of it converts), each with the separate lines its bare resonances need, all parameter / constant lines
    import random
    prng = random.Random(12345)
    src = (vlib.REPO / "models" / "DtoKpipipi_v2.txt").read_text().split("\n")
    ev = [l for l in src if l.startswith("EventType")]
    cplx = [l for l in src if len(l.split()) == 7 and "{" in l.split()[0]]
    rest = [l for l in src if l.strip() and not l.startswith("EventType") and l not in cplx and not l.startswith("#")]
    tops = [l for l in cplx if l.startswith("D0")]
    subs = [l for l in cplx if not l.startswith("D0")]

    def head(l):
        return re.split(r"[\[{]", l.split()[0])[0]

    def closure(sel):
        names, out, changed = set(), list(sel), True
        while changed:
            changed = False
            text = " ".join(x.split()[0] for x in out)
            for sl in subs:
                if sl not in out and re.search(r"[{,]" + re.escape(head(sl)) + r"[,}]", text):
                    out.append(sl)
                    changed = True
        return out
    pool_txt = []
    bodies = []
    for i in range(6):
        sel = prng.sample(tops, prng.randint(1, 3))
        body = closure(sel)
        prng.shuffle(body)
        if i == 5:
            body = list(bodies[0])          # the same lines as file 0 ...
        bodies.append(body)
        evi = list(ev)
        if i in (2, 5):
            # ... under an event type that lists the same final state in another order (the index permutations differ)
            w = ev[0].split()
            evi = [" ".join(w[:2] + [w[3], w[5], w[2], w[4]])] + ev[1:]
        lines_ = evi + (["FastCoherentSum::UseCartesian 1"] if i in (1, 4) else []) + body + rest
        pool_txt.append("\n".join(lines_) + "\n")
    files = []
    for i, t in enumerate(pool_txt):
        f = d / f"pool_{i}.txt"
        f.write_text(t)
        files.append(str(f))
    # file 6: file 0 cut down to its top-level lines — the bare resonances it names are dead ends there (and described in file 0)
    pool_txt.append("\n".join(ev + [l for l in bodies[0] if l.startswith("D0")] + rest) + "\n")
    f = d / "pool_6.txt"
    f.write_text(pool_txt[-1])
    files.append(str(f))
    pool = [parse_opt(t) for t in pool_txt]
    allops = [["read", c, i] for c in CLASSES for i in range(len(pool))] + [["readtext", c, i] for c in CLASSES for i in range(len(pool))] + [["cpp", None, i] for i in range(len(pool))] + [["py", None, i] for i in range(len(pool))]
    hists = []
    if args.replay:
        hists = json.loads(Path(args.replay).read_text())["cases"]
    else:
        n2 = 14 if args.tier == "quick" else 300
        for _ in range(n2):
            hists.append({"ops": [rng.choice(allops) for _ in range(2)], "files": files})
        nr = 8 if args.tier == "quick" else 150
        for _ in range(nr):
            hists.append({"ops": [rng.choice(allops) for _ in range(rng.randint(3, 8))], "files": files})
        # the cut-down file before the full one, and a text read as the first call of a process
        for c1, c2 in ([("GooFitPyChain", "AmplitudeChain"), ("AmplitudeChain", "GooFitChain")] if args.tier == "quick" else [(a, b) for a in CLASSES for b in CLASSES]):
            hists.append({"ops": [["readtext", c1, 6], ["readtext", c2, 0], ["cpp", None, 0]], "files": files})
            hists.append({"ops": [["readtext", c1, 0], ["read", c2, 6], ["read", c1, 0]], "files": files})
    with cf.ThreadPoolExecutor(max_workers=16) as ex:
        runs = list(ex.map(run_fresh, hists))
    # single-op ground truth in fresh interpreters (cached per op)
    singles = {}
    need = sorted({json.dumps(op) for h in hists for op in h["ops"]})
    with cf.ThreadPoolExecutor(max_workers=16) as ex:
        res1 = list(ex.map(lambda o: run_fresh({"ops": [json.loads(o)], "files": files}), need))
    for o, r in zip(need, res1):
        singles[o] = r[0][0]
    hits, n_ops = [], 0
    for h, run in zip(hists, runs):
        for k, (op, (res, state)) in enumerate(zip(h["ops"], run)):
            n_ops += 1
            if res != singles[json.dumps(op)]:
                leak = "F8: output depends on what was read or converted earlier in the process"
                hits.append(({"ops": h["ops"][:k + 1], "files": files}, leak))
                break
    # model: class-level state after each call
    pre = """
Definition pid_of (n : string) : option Z := pd_get n amp_names.
"""
    terms, flat_states = [], []
    # the model reads the same texts as the implementation (coq/Amp/Text.v), not structures prepared in Python
    pre += "".join(f"Definition pool_opt_{k} := Eval vm_compute in parse_text {vlib.cstr(t)}.\n" for k, t in enumerate(pool_txt))
    coq_files = "[" + "; ".join(f"match pool_opt_{k} with Some f => f | None => [] end" for k in range(len(pool_txt))) + "]"
    for h, run in zip(hists, runs):
        ops = "[" + "; ".join({"read": "ORead", "readtext": "ORead", "cpp": "OCpp", "py": "OPy"}[op[0]] + " " + ({"AmplitudeChain": "CBase", "GooFitChain": "CCpp", "GooFitPyChain": "CPy", None: ""}[op[1]]) + f" {op[2]}%nat" for op in h["ops"]) + "]"
        terms.append(f"vhistory pid_of 40 {coq_files} {ops}")
        flat_states.append([st for _, st in run])
    model = vlib.run_model("C20", ["Lib.PyDict", "Gen.GenAmp", "Amp.Syntax", "Amp.Text", "Amp.Read", "Amp.Session"], "fun v : val => v", terms, shard=20, preamble=pre)
    diffs = [i for i, (a, b) in enumerate(zip(flat_states, model)) if a != b]
    ck.cov["evaluations"] += len(hists)
    ck.cov["traces_validated_against_impl"] += len(hists) - len(diffs)
    # seeds: exact replay per seed, equivalence across seeds
    seeds = [0, 1, 2] if args.tier == "quick" else list(range(16))
    probe = {"ops": [["cpp", None, 0], ["py", None, 2], ["read", "GooFitChain", 1]], "files": files}
    with cf.ThreadPoolExecutor(max_workers=16) as ex:
        sr = list(ex.map(lambda s: (run_fresh(probe, s), run_fresh(probe, s)), seeds))
    for s, (a, b) in zip(seeds, sr):
        if a != b:
            hits.append((probe, f"same calls, same hash seed {s}: text not reproduced exactly"))
        if [x[0] for x in a] != [x[0] for x in sr[0][0]]:
            hits.append((probe, f"output differs between hash seeds 0 and {s} beyond the order of independent declarations"))
    ck.cov["distinct_nontrivial"] = len({json.dumps(h["ops"]) for h in hists if len(h["ops"]) > 1})
    ck.cov["rule"] = ("pool of 7 option files (two with the coherent-sum option, two whose event type lists the final state in another order, one of them with the lines of file 0, one = file 0 cut down to its top-level lines so that its resonances are dead ends); histories: random pairs and random sequences of "
                      "3..8 calls over {read by each of the 3 classes by file name or as text, convert to C++, convert to Python} x pool, plus cut-down-then-full and text-first histories; particle data (mass, width) of every particle seen observed with each read; each call compared with "
                      "the same call alone in a fresh interpreter; class-level state after each call compared with the model; hash seeds")
    ck.cov["samples"] = [hists[0]["ops"], hists[-1]["ops"]]
    ck.notes["distribution"] = {"histories": len(hists), "calls": n_ops, "fresh_interpreter_single_calls": len(need), "hash_seeds": seeds}
    vlib.std_failure(ck, "Props/C20.v", hists, diffs, flat_states, model, hits, "py/c20.py",
                     sig_of=lambda c, v: "F8:state-of-earlier-reads-leaks" if v.startswith("F8") else "oracle:" + v[:60])
    sys.exit(ck.finish())


if __name__ == "__main__":
    if len(sys.argv) > 1 and sys.argv[1] in ("impl", "single"):
        impl_main(sys.argv[1], sys.argv[2], sys.argv[3])
    else:
        main()
