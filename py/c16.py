#!/usr/bin/env python3
"""C16 — Printed decay-mode tables show every mode once, correctly ordered and scaled.

proof:          coq/Props/C16.v (model coq/Dec/Print.v)
correspondence: generated tables x every combination of print options; stdout of print_decay_modes parsed into
                (number, rest of line); the rest must equal the model's text, the number must be the 7-significant-digit
                rendering of the model's exact value.
"""
from __future__ import annotations

import io
import itertools
import json
import sys
from fractions import Fraction
from pathlib import Path

sys.path.insert(0, str(Path(__file__).resolve().parent))
import c09  # noqa: E402
import decgen  # noqa: E402

BFS = ["0.5", "0.3", "0.2", "0.25", "0.25", "1e-12", "3.5e-7", "0.0001234567", "1", "1.0", "0.999", "0.0542", "0.0271",
       "0.533", "0.08", "2E-4", ".5", "0", "0.0", "0.125", "7.5e-3", "0.3333333", "0.6666667"]
SCALES = [None, None, "norm", "0.001", "0.5", "1", "0", "1.5", "-1", "0.25", "1.0", "nan", "inf"]


def scale_q(sc):
    """the scale as the model sees it: a not-a-number is outside ]0, 1] like any other value that is not in it"""
    return Fraction(-1) if sc == "nan" else Fraction(10) ** 400 if sc == "inf" else Fraction(sc)


def impl_main(mode, fin, fout):
    import contextlib
    cases = json.loads(Path(fin).read_text())
    out = []
    for c in cases:
        try:
            p = c09.parse_text(c["text"])
        except Exception as e:
            out.append({"err": "parse:" + type(e).__name__})
            continue
        o = c["opts"]
        kw = dict(pdg_name=o["pdg_name"], print_model=o["print_model"], display_photos_keyword=o["photos_kw"],
                  ascending=o["ascending"], normalize=o["normalize"])
        if o["scale"] is not None:
            kw["scale"] = float(o["scale"])
        before = json.dumps([c09.chain_val({"m": [p._decay_mode_details(d, True)]}) for d in p._find_decay_modes(c["evt_mother"])]) if c["has_table"] else None
        buf = io.StringIO()
        try:
            with contextlib.redirect_stdout(buf):
                p.print_decay_modes(c["mother"], **kw)
            res = buf.getvalue().split("\n")
            assert res[-1] == ""
            res = res[:-1]
        except Exception as e:
            res = {"err": type(e).__name__}
        viol = []
        if mode == "oracle":
            after = json.dumps([c09.chain_val({"m": [p._decay_mode_details(d, True)]}) for d in p._find_decay_modes(c["evt_mother"])]) if c["has_table"] else None
            if before != after:
                viol.append("printing altered the stored values")
            viol += oracle_rows(c, res)
        out.append(viol if mode == "oracle" else res)
    Path(fout).write_text(json.dumps(out))


def num_ok(numstr, exact: Fraction):
    try:
        d = Fraction(numstr)
    except Exception:
        return False
    if exact == 0:
        return d == 0
    import math
    # exponent of the leading digit of the exact value
    e = math.floor(math.log10(abs(float(exact)))) if exact != 0 else 0
    tol = Fraction(1, 2) * Fraction(10) ** (e - 6) * Fraction(1001, 1000) + abs(exact) * Fraction(1, 10 ** 13)
    return abs(d - exact) <= tol


def split_line(ln):
    """'  <num>   <rest>;' -> (num, rest-with-leading-blanks)"""
    if not ln.endswith(";") or not ln.startswith("  "):
        return None
    body = ln[2:-1]
    i = 0
    while i < len(body) and body[i] != " ":
        i += 1
    return body[:i], body[i:]


def expected_line(numstr, tail):
    return ("  " + numstr.ljust(10) + tail).rstrip() + ";"


def oracle_rows(c, res):
    """direct statement of the property on the implementation's output"""
    o = c["opts"]
    viol = []
    lines = c["lines"]
    bad = (o["scale"] is not None and (o["normalize"] or not (0 < scale_q(o["scale"]) <= 1)))
    if bad:
        return [] if isinstance(res, dict) and res.get("err") == "RuntimeError" else ["contradictory or out-of-range options not refused"]
    if not c["has_table"]:
        return []
    if isinstance(res, dict):
        tot = sum(Fraction(l["bf"]) for l in lines)
        mx = max([Fraction(l["bf"]) for l in lines] or [0])
        if (o["normalize"] and tot == 0) or (o["scale"] is not None and (not lines or mx == 0)):
            return []
        return ["unexpected exception " + res["err"]]
    if len(res) != len(lines):
        return ["number of rows differs from number of decay lines"]
    rows = [split_line(r) for r in res]
    if any(r is None for r in rows):
        return ["row not in the documented shape"]
    vals = [Fraction(r[0]) for r in rows]
    # which source line does each row show? match by daughters text (multiset), order among equal bf = file order
    srt = sorted(range(len(lines)), key=lambda i: (Fraction(lines[i]["bf"]) if o["ascending"] else -Fraction(lines[i]["bf"]), i))
    norm = Fraction(1)
    if o["normalize"]:
        norm = sum(Fraction(l["bf"]) for l in lines)
    elif o["scale"] is not None:
        if not lines or scale_q(o["scale"]) == 0:
            return ["rows printed although the requested scale is undefined or refused"] if not lines and res else []
        norm = max(Fraction(l["bf"]) for l in lines) / scale_q(o["scale"])
    if norm == 0:
        return ["rows printed although the requested normalisation / scale is undefined (zero sum or zero maximum)"]
    for k, i in enumerate(srt):
        l = lines[i]
        fs = " ".join(l["fs"])
        if fs not in rows[k][1]:
            viol.append("rows not ordered by branching fraction in the requested direction (file order among equals)"
                        if sorted(" ".join(x["fs"]) for x in lines) == sorted(" ".join(lines[j]["fs"]) for j in srt) else "daughters wrong")
            break
        if not num_ok(rows[k][0], Fraction(l["bf"]) / norm):
            viol.append("value shown is not bf scaled by the common factor")
            break
        if o["print_model"]:
            has_kw = "PHOTOS " in rows[k][1]
            if has_kw != (o["photos_kw"] and l["photos"]):
                viol.append("PHOTOS keyword shown/hidden wrongly")
                break
            if l["model"] not in rows[k][1]:
                viol.append("model missing")
                break
            ptxt = "" if l["params"] is None else " ".join(str(float(t)) if kk == "num" else t for kk, t in l["params"])
            if not rows[k][1].rstrip().endswith((l["model"] + "  " + ptxt).rstrip()):
                viol.append("model parameters not shown as stored")
                break
    return viol


def gen_cases(rng, tier, pdgmap):
    cases = []
    n = 260 if tier == "quick" else 2500
    names = ["K+", "K-", "pi+", "pi-", "pi0", "gamma", "e+", "e-", "mu+", "mu-", "nu_e", "D0", "K*0", "rho0"]
    for _ in range(n):
        nl = rng.choice([0, 1, 1, 2, 3, 4, 6, 9, 12])
        lines = []
        for _ in range(nl):
            mdl, prm = rng.choice([("PHSP", None), ("VSS", None), ("HELAMP", [["num", "1.0"], ["num", "0.0"], ["num", "-1.5e-3"]]),
                                   ("SVS", None), ("LbAmpGen", [["word", "DtoKpipipi_v1"]]), ("PYTHIA", [["num", "42"]])])
            lines.append({"bf": rng.choice(BFS), "fs": [rng.choice(names) for _ in range(rng.randint(0, 5))],
                          "photos": rng.random() < 0.4, "model": mdl, "params": prm})
        if nl >= 2 and rng.random() < 0.3:
            # values that agree to 7 significant digits but are not equal: they are NOT a tie (ordered by value, either way round in the file)
            a, b = rng.choice([("0.10000001", "0.10000004"), ("0.25000003", "0.25000001"), ("1.0000000e-3", "1.00000004e-3"), ("0.33333331", "0.33333334")])
            i, j = rng.sample(range(nl), 2)
            lines[i]["bf"], lines[j]["bf"] = a, b
        if nl >= 3 and rng.random() < 0.12:
            # a sum that is one to six digits but not to seven: normalising must still divide by it
            tpl = rng.choice([("0.6", "0.25", "0.1500009"), ("0.3333333", "0.3333333", "0.3333333"), ("0.5", "0.4999995", "0.0000001"), ("0.7000004", "0.2", "0.1")])
            idx = rng.sample(range(nl), 3)
            for l in lines:
                l["bf"] = "1e-9"
            for i, v in zip(idx, tpl):
                lines[i]["bf"] = v
        evt, pdg = rng.choice(pdgmap)
        stmts = [["Decay", evt, lines]]
        if rng.random() < 0.3:
            stmts.append(["Decay", "other", [{"bf": "1.0", "fs": ["a", "b"], "photos": False, "model": "PHSP", "params": None}]])
            rng.shuffle(stmts)
        text = decgen.render(stmts)
        combos = list(itertools.product([False, True], repeat=4))
        if tier == "quick":
            combos = rng.sample(combos, 5)
        for pm, pk, asc, usepdg in combos:
            sc = rng.choice(SCALES)
            has = True
            mother = pdg if usepdg else evt
            if rng.random() < 0.04:
                mother, usepdg, has = "nosuch", False, False
            cases.append({"text": text, "lines": lines, "mother": mother, "evt_mother": evt, "has_table": has,
                          "opts": {"pdg_name": usepdg, "print_model": pm, "photos_kw": pk, "ascending": asc,
                                   "normalize": sc == "norm" or (sc not in (None, "norm") and rng.random() < 0.1),
                                   "scale": None if sc in (None, "norm") else sc}})
    return cases


def coq_case(c):
    from vlib import cstr, clist, cq, cbool
    o = c["opts"]
    opts = ("{| o_print_model := " + cbool(o["print_model"]) + "; o_photos_kw := " + cbool(o["photos_kw"]) + "; o_ascending := "
            + cbool(o["ascending"]) + "; o_normalize := " + cbool(o["normalize"]) + "; o_scale := "
            + ("None" if o["scale"] is None else f"(Some {cq(scale_q(o['scale']))})") + " |}")
    if not c["has_table"]:
        return f"vpres_fl {opts} None"
    rows = []
    for l in c["lines"]:
        disp = [] if l["params"] is None else [str(float(t)) if k == "num" else t for k, t in l["params"]]
        rows.append("{| p_bf := " + cq(Fraction(l["bf"])) + "; p_fs := " + clist([cstr(x) for x in l["fs"]]) + "; p_photos := "
                    + cbool(l["photos"]) + "; p_model := " + cstr(l["model"]) + "; p_params := " + clist([cstr(x) for x in disp]) + " |}")
    return f"vpres_fl {opts} (Some {clist(rows)})"


def main():
    import vlib
    import tr_particles
    from vlib import Check
    args = vlib.std_args()
    ck = Check("C16", args.tier, args.seed)
    ck.proofs("Props/C16.v", extra_trusted=[
        "the {:.7g} rendering is modelled (coq/Dec/Fmt7.v: correctly rounded 7 significant digits, ties to even, fixed / exponent notation, "
        "trailing zeros removed) and compared as text with the printed number; the float arithmetic before it is modelled as well "
        "(coq/Dec/Fl64.v: binary64 round-to-nearest-even on exact rationals for float(literal), CPython 3.12's compensated sum(), division), "
        "so the printed text must be exactly the model's; that CPython's float(), sum() and / are these operations is tied by this comparison; "
        "str(float) of numeric parameters is CPython's",
        "hand-written model coq/Dec/Print.v tied by correspondence; py/decgen.py renders the table to .dec text"])
    if args.replay:
        cases = json.loads(Path(args.replay).read_text())["cases"]
    else:
        d = tr_particles.probe()
        evt2pdg = dict((b, a) for a, b in d["pdg_evt"])
        pdgmap = [(e, p) for e, p in evt2pdg.items() if e != p and all(ch not in e for ch in " ") and e[0].isalpha()][:60]
        cases = gen_cases(ck.rng, args.tier, pdgmap)
    impl = vlib.run_impl("c16.py", cases)
    model2 = vlib.run_model("C16", ["Lib.PyDict", "Decay.ChainDict", "Dec.Tables", "Dec.Print", "Dec.Fl64"], "fun v : val => v",
                            [coq_case(c) for c in cases], shard=400)
    model = [m[0] for m in model2]
    exact_texts = [m[1] for m in model2]          # the text of every number, from the binary64 model (None: outside its range)
    ck.notes["numbers_with_exact_text"] = sum(len(t) for t in exact_texts if t is not None)
    ck.notes["tables_outside_the_float_model"] = sum(1 for m, t in zip(model, exact_texts) if t is None and not isinstance(m, dict))

    def agree(iv, mv, ex=None):
        if isinstance(iv, dict) or isinstance(mv, dict):
            return iv == mv
        if len(iv) != len(mv):
            return False
        for k, (ln, (qv, tail, g7)) in enumerate(zip(iv, mv)):
            sp = split_line(ln)
            if sp is None:
                return False
            if not num_ok(sp[0], Fraction(qv["q"][0], qv["q"][1])):
                return False
            # the printed token is exactly what the model of "{:.7g}" (coq/Dec/Fmt7.v) prints for the value (or for the value
            # moved by 2^-46 relatively: the float the implementation formats is a few ulps from the exact rational)
            if sp[0] not in g7:
                return False
            # ... and, the float arithmetic being modelled too (coq/Dec/Fl64.v: float(literal), sum(), division in binary64), exactly
            # the one text the model computes for this row
            if ex is not None and sp[0] != ex[k]:
                return False
            if expected_line(sp[0], tail) != ln:
                return False
        return True

    diffs = [i for i, (a, b, e) in enumerate(zip(impl, model, exact_texts)) if not agree(a, b, e)]
    ck.cov["evaluations"] += len(cases)
    ck.cov["traces_validated_against_impl"] += len(cases) - len(diffs)
    ck.cov["distinct_nontrivial"] = len({json.dumps(c, sort_keys=True) for c in cases if len(c["lines"]) > 1})
    ck.cov["rule"] = ("tables with 0..12 lines, ties, values spanning 1e-12..1 (all literal forms), 0..5 daughters, PHOTOS on ~40%; "
                      "options: booleans print_model/photos keyword/ascending/pdg_name (5 of 16 combinations per table in quick, all in "
                      "thorough) x {none, normalize, scale in {0.001,0.25,0.5,1,0,1.5,-1}} incl. contradictory combinations; unknown mother; "
                      "non-trivial = at least two lines")
    ck.cov["samples"] = [{"opts": cases[5]["opts"], "lines": cases[5]["lines"], "printed": impl[5]}]
    ck.notes["distribution"] = {"cases": len(cases), "errors_by_kind": {}}
    for v in impl:
        if isinstance(v, dict):
            ck.notes["distribution"]["errors_by_kind"][v["err"]] = ck.notes["distribution"]["errors_by_kind"].get(v["err"], 0) + 1
    hits = []
    if diffs or getattr(ck, "proof_failed", None):
        sus = [cases[i] for i in diffs] if diffs else cases
        orc = vlib.run_impl("c16.py", sus, mode="oracle")
        hits = [(c, v[0]) for c, v in zip(sus, orc) if v]
    vlib.std_failure(ck, "Props/C16.v", cases, diffs, impl, model, hits, "py/c16.py",
                     sig_of=lambda c, v: "F2:ascending-ignored" if v.startswith("rows not ordered") and c["opts"]["ascending"] else "oracle:" + v)
    sys.exit(ck.finish())


if __name__ == "__main__":
    if len(sys.argv) > 1 and sys.argv[1] in ("impl", "oracle"):
        impl_main(sys.argv[1], sys.argv[2], sys.argv[3])
    else:
        main()
