"""Generators of acyclic single decay chains (shared by C11, C12, C13)."""
from __future__ import annotations

import itertools
from fractions import Fraction

REAL = ["D0", "D*+", "K_S0", "pi0", "pi+", "pi-", "gamma", "K+", "K-", "B0", "anti-B0", "K_1(1270)+", "Upsilon(4S)",
        "f'_0", "anti-K*0", "rho0", "eta", "e+", "e-", "mu+", "nu_mu", "J/psi", "phi", "omega", "a_1+", "K*0"]


def rand_chain(rng, nmax=8, mult_max=3, names=None, meta=True, with_rand_json=None):
    """Returns dict(mother, decays=[(name, bf, [daughter names...], info)], order as supplied).
    Acyclic by construction: particle i only has daughters with larger index (or leaves)."""
    n = rng.randint(1, nmax)
    pool = list(dict.fromkeys(names or REAL))   # distinct names: a repeated name would make a cyclic (non-)chain
    rng.shuffle(pool)
    dec = pool[:n]                      # decaying particles, dec[0] is the mother
    leaves = pool[n:n + rng.randint(1, 5)] or ["x"]
    decays = []
    used = {0}
    for i in range(n):
        ds = []
        later = list(range(i + 1, n))
        # make sure every decaying particle is reachable: attach i+1.. greedily
        for j in later:
            if j not in used and (rng.random() < 0.6 or j == i + 1):
                ds += [dec[j]] * rng.randint(1, mult_max)
                used.add(j)
        for j in later:
            if j in used and rng.random() < 0.15:
                ds += [dec[j]] * rng.randint(1, 2)
        for _ in range(rng.randint(0, 3)):
            ds += [rng.choice(leaves)] * rng.randint(1, mult_max)
        if not ds:
            ds = [rng.choice(leaves)]
        rng.shuffle(ds)
        info = {}
        if meta and rng.random() < 0.6:
            info["model"] = rng.choice(["PHSP", "VSS", "", "HELAMP"])
            if rng.random() < 0.5:
                info["model_params"] = rng.choice(["", [1, 2], ["a", 3]])
            if with_rand_json and rng.random() < 0.4:
                info[rng.choice(["study", "year", "zfit"])] = with_rand_json(rng)
        decays.append([dec[i], Fraction(0) if rng.random() < 0.06 else Fraction(rng.randint(1, 99), rng.randint(1, 99)), ds, info])
    # every decaying particle j>0 must be reachable: guaranteed for used; drop unused
    decays = [d for i, d in enumerate(decays) if i in used]
    order = decays[:]
    rng.shuffle(order)
    return {"mother": dec[0], "decays": order}


def small_shapes(max_dec=3, max_mult=2, leaves=("x", "y")):
    """Exhaustive family: chains with decaying particles p0..p(k-1), k<=max_dec; the daughters of p_i are a
    multiset over {p_j : j>i} u leaves with multiplicities <= max_mult, at least one daughter, every p_j reachable."""
    out = []
    for k in range(1, max_dec + 1):
        names = [f"p{i}" for i in range(k)]
        per = []
        for i in range(k):
            cands = names[i + 1:] + list(leaves[:1 if k > 2 else 2])
            opts = []
            for mults in itertools.product(range(max_mult + 1), repeat=len(cands)):
                if sum(mults) == 0:
                    continue
                ds = [c for c, m in zip(cands, mults) for _ in range(m)]
                opts.append(ds)
            per.append(opts)
        for combo in itertools.product(*per):
            # reachability
            reach = {0}
            for i in range(k):
                if i in reach:
                    for d in combo[i]:
                        if d in names:
                            reach.add(names.index(d))
            if len(reach) != k:
                continue
            out.append({"mother": "p0", "decays": [[names[i], Fraction(i + 1, i + 3), list(combo[i]), {}] for i in range(k)]})
    return out
