#!/usr/bin/env python3
"""C14 — Descriptor format settings are scoped and validated.

proof:          coq/Props/C14.v  (model coq/Fmt/DescFormat.v)
correspondence: programs (new / set / render / raise / with / try, nested) and patterns are run
                through decaylanguage.utils.utilities.DescriptorFormat and through the model.
"""
from __future__ import annotations

import itertools
import json
import re
import sys
from pathlib import Path

sys.path.insert(0, str(Path(__file__).resolve().parent))

DEFAULT = ("{mother} -> {daughters}", "({mother} -> {daughters})")
VALID = [
    ("{mother} => {daughters}", "[{mother} => {daughters}]"),
    ("{daughters} <- {mother}", "<{daughters} <- {mother}>"),
    ("{{{mother}}} --> {daughters}", "{mother} (=> {daughters})"),
    ("{mother} {mother} {daughters}", "{daughters}{mother}"),
    ("{mother} -> {daughters}", "[{mother} -> {daughters}]"),
    ("{mother} => {daughters}", "({mother} -> {daughters})"),
]
INVALID = [
    ("{mother}", "({mother} -> {daughters})"),
    ("{mother} -> {daughters}", "({mother} -> {daughters} {x})"),
    ("{mother} -> {daughters", "({mother} -> {daughters})"),
    ("{mother} -> {daughters}", "}{mother}{daughters}"),
    ("{} {mother} {daughters}", "{mother} {daughters}"),
    ("{mother.a} {daughters}", "{mother} {daughters}"),
    ("", ""),
]
PLAIN = re.compile(r"([^{}]|\{\{|\}\}|\{mother\}|\{daughters\})*")


# ------------------------------------------------------------------ implementation side
def impl_main(mode, fin, fout):
    import string

    from decaylanguage.utils.utilities import DescriptorFormat

    def cfg():
        c = DescriptorFormat.config
        return [c["decay_pattern"], c["sub_decay_pattern"]]

    def fmt(top):
        try:
            return DescriptorFormat.format_descriptor("M", "a b", top)
        except Exception:
            return None

    def fields_of(p):
        try:
            return [t[1] for t in string.Formatter().parse(p) if isinstance(t[1], str)]
        except ValueError:
            return None

    def spec_valid(p):
        f = fields_of(p)
        return f is not None and set(f) == {"mother", "daughters"}

    def run(stmts, objs, log, viol):
        for st in stmts:
            k = st[0]
            if k == "new":
                objs.append(DescriptorFormat(st[1], st[2]))
                log.append(["new", cfg()])
            elif k == "set":
                before = cfg()
                try:
                    DescriptorFormat.set_config(st[1], st[2])
                except ValueError:
                    if cfg() != before:
                        viol.append(["rejected pattern changed the format", st, before, cfg()])
                    raise
                else:
                    if not (spec_valid(st[1]) and spec_valid(st[2])):
                        viol.append(["invalid pattern accepted", st])
                log.append(["set", cfg()])
            elif k == "render":
                # the top-level rendering is taken from ONE DecayChain object that lives as long as the program (M -> a b):
                # what it shows must be the format in force now, not the one in force when it was first rendered
                try:
                    top = CHAIN[0].to_string()
                except Exception:
                    top = None
                if top is not None and fmt(True) is not None and top != fmt(True):
                    viol.append(["rendering of a chain object does not follow the format in force", top, fmt(True)])
                log.append(["render", [top, fmt(False)]])
            elif k == "raise":
                raise RuntimeError("leave by exception")
            elif k == "with":
                o = objs[st[1]]
                before = cfg()
                entered = [False]
                try:
                    with o:
                        entered[0] = True
                        run(st[2], objs, log, viol)
                finally:
                    if entered[0] and cfg() != before:
                        viol.append(["format not restored after block", before, cfg()])
                    if not entered[0] and cfg() != before:
                        viol.append(["failed enter changed the format", before, cfg()])
                log.append(["with", cfg()])
            elif k == "try":
                try:
                    run(st[1], objs, log, viol)
                except Exception:
                    pass
                log.append(["try", cfg()])

    from decaylanguage import DecayChain, DecayMode
    CHAIN = [None]
    cases = json.loads(Path(fin).read_text())
    out = []
    for c in cases:
        if c["kind"] == "prog":
            DescriptorFormat.config = {"decay_pattern": DEFAULT[0], "sub_decay_pattern": DEFAULT[1]}
            CHAIN[0] = DecayChain("M", {"M": DecayMode(1, "a b")})
            log, viol = [], []
            try:
                run([["try", c["prog"]]], [], log, viol)
            except Exception as e:  # driver error
                log.append({"err": type(e).__name__})
            out.append(viol if mode == "oracle" else log)
        else:
            p = c["pat"]
            f = fields_of(p)
            DescriptorFormat.config = {"decay_pattern": DEFAULT[0], "sub_decay_pattern": DEFAULT[1]}
            try:
                DescriptorFormat.set_config(p, DEFAULT[1])
                v = True
            except ValueError:
                v = False
            after = DescriptorFormat.config["decay_pattern"]
            r = None
            if PLAIN.fullmatch(p):
                try:
                    r = p.format(mother="M", daughters="a b")
                except Exception:
                    r = {"err": "format raised on a plain pattern"}
            if mode == "oracle":
                viol = []
                if v != (f is not None and set(f) == {"mother", "daughters"}):
                    viol.append(["validation differs from placeholder rule", p, v, f])
                if not v and after != DEFAULT[0]:
                    viol.append(["rejected pattern changed the format", p])
                out.append(viol)
            else:
                out.append([f, v, r])
    Path(fout).write_text(json.dumps(out))


# ------------------------------------------------------------------ generation
def atoms(npat):
    vs = VALID[:npat]
    a = [("new", *vs[0]), ("new", *INVALID[0]), ("set", *vs[1 % len(vs)]), ("set", *INVALID[2]),
         ("render",), ("raise",)]
    return a


def enum_lists(n, atoms_, depth):
    """all statement lists with exactly n nodes (a compound node counts 1 + its body)."""
    if n == 0:
        yield []
        return
    for k in range(1, n + 1):          # size of first statement
        for first in enum_stmt(k, atoms_, depth):
            for rest in enum_lists(n - k, atoms_, depth):
                yield [first] + rest


def enum_stmt(k, atoms_, depth):
    if k == 1:
        for a in atoms_:
            yield list(a)
    if depth > 0 and k >= 1:
        for body in enum_lists(k - 1, atoms_, depth - 1):
            yield ["with", 0, body]
            yield ["with", 1, body]
            yield ["try", body]


def rand_prog(rng, size, depth, pats, nobj=3):
    out = []
    while size > 0:
        r = rng.random()
        if depth > 0 and r < 0.4 and size >= 1:
            k = rng.randint(0, size - 1)
            body = rand_prog(rng, k, depth - 1, pats, nobj)
            if rng.random() < 0.8:
                out.append(["with", rng.randrange(nobj), body])
            else:
                out.append(["try", body])
            size -= 1 + k
        else:
            c = rng.random()
            if c < 0.3:
                out.append(["new", *rng.choice(pats)])
            elif c < 0.55:
                out.append(["set", *rng.choice(pats)])
            elif c < 0.85:
                out.append(["render"])
            else:
                out.append(["raise"])
            size -= 1
    return out


def rand_pattern(rng):
    r = rng.random()
    if r < 0.35:
        alphabet = ["{", "}", "{mother}", "{daughters}", "{{", "}}", " ", "->", "(", ")", "[", "]", ":", "!", "r",
                    "{x}", "{mother", "daughters}", ".", "0", "{}", "m"]
        return "".join(rng.choice(alphabet) for _ in range(rng.randint(0, 7)))
    if r < 0.7:
        parts = []
        for _ in range(rng.randint(1, 5)):
            c = rng.random()
            if c < 0.35:
                parts.append("{mother}")
            elif c < 0.7:
                parts.append("{daughters}")
            elif c < 0.8:
                parts.append(rng.choice(["{{", "}}", "{{{{", "}}}}"]))
            else:
                parts.append(rng.choice([" -> ", " ", "(", ")", "=>", "[", "]", "--> ", "<", "'", "\"", "\\", "a:b!c"]))
        return "".join(parts)
    chars = "{}[]:!mo. "
    return "".join(rng.choice(chars) for _ in range(rng.randint(0, 8)))


def coq_stmts(prog):
    from vlib import cstr
    if not prog:
        return "SNil"
    return "(SCons " + coq_stmt(prog[0]) + " " + coq_stmts(prog[1:]) + ")"


def coq_stmt(st):
    from vlib import cstr
    k = st[0]
    if k == "new":
        return f"(SNew {cstr(st[1])} {cstr(st[2])})"
    if k == "set":
        return f"(SSet {cstr(st[1])} {cstr(st[2])})"
    if k == "render":
        return "SRender"
    if k == "raise":
        return "SRaise"
    if k == "with":
        return f"(SWith {st[1]}%nat {coq_stmts(st[2])})"
    if k == "try":
        return f"(STry {coq_stmts(st[1])})"
    raise ValueError(k)


def nontrivial(prog):
    s = json.dumps(prog)
    return '"with"' in s and ('"set"' in s or '"raise"' in s or s.count('"with"') > 1)


# ------------------------------------------------------------------ driver
def main():
    import vlib
    from vlib import Check, cstr

    args = vlib.std_args()
    ck = Check("C14", args.tier, args.seed)
    rng = ck.rng
    ck.proofs("Props/C14.v", extra_trusted=[
        "py/c14.py generator + DescriptorFormat driver (with-statements executed by CPython)",
        "hand-written model coq/Fmt/DescFormat.v, tied by correspondence on this run's cases",
        "CPython string.Formatter().parse / str.format are modelled (scan/rend), not verified"])

    progs = []
    if args.replay:
        rp = json.loads(Path(args.replay).read_text())
        progs = [c for c in rp.get("cases", []) if c["kind"] == "prog"]
        pats = [c for c in rp.get("cases", []) if c["kind"] == "pat"]
    else:
        corpus = Path(vlib.VERIF / "corpus" / "C14")
        for f in sorted(corpus.glob("*.json")) if corpus.exists() else []:
            progs += [c for c in json.loads(f.read_text()) if c["kind"] == "prog"]
        exh_n = 4 if args.tier == "quick" else 5
        at = atoms(2)
        n_exh = 0
        for n in range(1, exh_n + 1):
            for p in enum_lists(n, at, 3):
                progs.append({"kind": "prog", "prog": p})
                n_exh += 1
        ck.notes["exhaustive_programs_up_to_size"] = exh_n
        ck.notes["exhaustive_programs"] = n_exh
        pool = VALID + INVALID[:4] + [DEFAULT]
        nrand = 600 if args.tier == "quick" else 6000
        for _ in range(nrand):
            progs.append({"kind": "prog", "prog": rand_prog(rng, rng.randint(3, 30), rng.randint(1, 6), pool)})
        pats = [{"kind": "pat", "pat": p} for pair in VALID + INVALID + [DEFAULT] for p in pair]
        npat = 1500 if args.tier == "quick" else 15000
        pats += [{"kind": "pat", "pat": rand_pattern(rng)} for _ in range(npat)]
        # de-duplicate
        seen, uniq = set(), []
        for c in progs + pats:
            k = json.dumps(c, sort_keys=True)
            if k not in seen:
                seen.add(k)
                uniq.append(c)
        progs = [c for c in uniq if c["kind"] == "prog"]
        pats = [c for c in uniq if c["kind"] == "pat"]

    cases = progs + pats
    impl = vlib.run_impl("c14.py", cases)
    mp = vlib.run_model("C14p", ["Fmt.DescFormat"], "run_prog", [coq_stmts(c["prog"]) for c in progs], shard=1500)
    mq = vlib.run_model("C14q", ["Fmt.DescFormat"], "run_pattern", [cstr(c["pat"]) for c in pats], shard=1500)
    model = mp + mq

    # model's render is partial (None outside the plain fragment): compare only where it is defined
    def norm(iv, mv):
        def fix(entry_i, entry_m):
            if isinstance(entry_m, list) and entry_m and entry_m[0] == "render" and isinstance(entry_i, list) \
                    and len(entry_i) == 2 and entry_i[0] == "render":
                return ["render", [a if b is not None else None for a, b in zip(entry_i[1], entry_m[1])]]
            return entry_i
        if isinstance(iv, list) and isinstance(mv, list) and len(iv) == len(mv):
            return [fix(a, b) for a, b in zip(iv, mv)]
        return iv

    impl_n = [norm(a, b) if c["kind"] == "prog" else a for c, a, b in zip(cases, impl, model)]
    diffs = vlib.compare(ck, cases, impl_n, model)
    ck.cov["distinct_nontrivial"] = sum(1 for c in progs if nontrivial(c["prog"])) + len(pats)
    ck.cov["rule"] = ("programs: exhaustive over statement lists up to the stated size on 2 objects / valid+invalid "
                      "patterns, then random nested programs (size 3..30, depth <= 6); non-trivial = contains a "
                      "with-block together with a set/raise or a second with. patterns: fixed pool + random strings "
                      "over braces/brackets/':'/'!'/placeholders; all distinct")
    ck.cov["samples"] = [progs[len(progs) // 2], progs[-1], pats[-1]]
    kinds = {"with": 0, "try": 0, "raise": 0, "set": 0, "new": 0, "render": 0}
    for c in progs:
        s = json.dumps(c["prog"])
        for k in kinds:
            kinds[k] += s.count(f'"{k}"')
    ck.notes["distribution"] = {"programs": len(progs), "patterns": len(pats), "statement_kinds": kinds,
                                "patterns_valid_per_impl": sum(1 for c, v in zip(cases, impl) if c["kind"] == "pat" and v[1])}

    if diffs or getattr(ck, "proof_failed", None):
        # search for a concrete failing input with the implementation-level oracle
        sus = [cases[i] for i in diffs] if diffs else cases
        orc = vlib.run_impl("c14.py", sus, mode="oracle")
        found = [(c, v) for c, v in zip(sus, orc) if v]
        if not found and diffs:
            orc2 = vlib.run_impl("c14.py", cases, mode="oracle")
            found = [(c, v) for c, v in zip(cases, orc2) if v]
        if found:
            found.sort(key=lambda cv: len(json.dumps(cv[0])))
            c, v = found[0]
            sig = "F11:context-object-restores-format-seen-at-construction" if v[0][0] == "format not restored after block" else "oracle:" + v[0][0]
            ck.violation(sig, {"cases": [c], "oracle": v,
                               "replay_cmd": "cd /verif && python3 py/c14.py --replay <this file>"}, True,
                         f"{v[0][0]}: {json.dumps(c)[:200]}")
        else:
            i = diffs[0] if diffs else None
            what = "correspondence model/implementation" if diffs else "theorems of Props/C14.v"
            ck.broken_tie(what, f"{len(diffs)} of {len(cases)} cases differ" if diffs else "proof no longer checks",
                          {"cases": [cases[i]] if i is not None else [], "impl": impl_n[i] if i is not None else None,
                           "model": model[i] if i is not None else None,
                           "theorem_or_correspondence": what})
    sys.exit(ck.finish(assumptions=["histories are programs of the statement language of coq/Fmt/DescFormat.v"]))


if __name__ == "__main__":
    if len(sys.argv) > 1 and sys.argv[1] in ("impl", "oracle"):
        impl_main(sys.argv[1], sys.argv[2], sys.argv[3])
    else:
        main()
