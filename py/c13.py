#!/usr/bin/env python3
"""C13 — A decay descriptor string determines the decay tree it was made from.

proof:          coq/Props/C13.v
correspondence: DecayChain.to_string() under a family of bracketing patterns vs chain_to_string in the model,
                for chains over names containing parentheses / quotes / signs, several supply orders each;
                an independent bracket-matching reader rebuilds the tree from the implementation's string.
"""
from __future__ import annotations

import json
import sys
from fractions import Fraction
from pathlib import Path

sys.path.insert(0, str(Path(__file__).resolve().parent))
from c04 import dec, enc  # noqa: E402

PATTERNS = [
    ("{mother} -> {daughters}", "({mother} -> {daughters})"),
    ("{mother} --> {daughters}", "[{mother} --> {daughters}]"),
    ("{mother} => {daughters}", "{mother} (=> {daughters})"),
    ("{daughters} <- {mother}", "<{daughters} <- {mother}>"),
    ("{{{mother}}} : {daughters}", "{{{mother} : {daughters}}}"),
    ("{mother}>{daughters}", "({mother}>{daughters})"),
    ("{mother} -> {daughters} .", "( {mother} -> {daughters} )"),
    ("TOP {mother} TO {daughters}", "SUB({mother};{daughters})"),
    ("{mother} -> {daughters}", "[{mother} -> {daughters}]"),
    ("{mother} -> {daughters}", "{mother} (-> {daughters})"),
    ("{mother} => {daughters}", "({mother} -> {daughters})"),
]
NAMES = ["K_1(1270)+", "Upsilon(4S)", "f'_0", "anti-K*0", "D0", "D*+", "K_S0", "pi0", "pi+", "pi-", "gamma", "a_1(1260)+",
         "K*(892)0", "psi(2S)", "J/psi", "B_s0", "anti-D*(2010)-", "chi_c1(1P)", "Lambda_c(2595)+", "eta'", "nu_e", "e-"]


def read_default(s):
    """independent reader for the default patterns: returns (mother, sorted items) with items str or tuple"""
    assert " -> " in s
    m, rest = s.split(" -> ", 1)
    items, depth, cur = [], 0, ""
    for ch in rest:
        if ch == "(":
            depth += 1
        elif ch == ")":
            depth -= 1
        if ch == " " and depth == 0:
            items.append(cur)
            cur = ""
        else:
            cur += ch
    if cur:
        items.append(cur)
    out = []
    for it in items:
        if it.startswith("(") and it.endswith(")") and " -> " in it:
            out.append(read_default(it[1:-1]))
        else:
            out.append(it)
    return (m, out)


def tree_of(c):
    dmap = {n: ds for n, bf, ds, info in c["decays"]}

    def rec(p):
        return (p, sorted([rec(d) if d in dmap else d for d in dmap[p]], key=canon))
    return rec(c["mother"])


def canon(t):
    if isinstance(t, str):
        return json.dumps(t)
    return json.dumps([t[0], sorted(canon(x) for x in t[1])])


def impl_main(mode, fin, fout):
    from decaylanguage import DecayChain, DecayMode
    from decaylanguage.utils import DescriptorFormat

    cases = dec(json.loads(Path(fin).read_text()))
    out = []
    for c in cases:
        viol = []
        try:
            decays = {n: DecayMode(bf, list(ds), **info) for n, bf, ds, info in c["decays"]}
            p1, p2 = c["patterns"]
            if c.get("pre"):
                # the chain object is first rendered in another state (one mode with other daughters), then that mode is edited IN
                # PLACE to the state of this case: the descriptor must be that of the chain as it now is
                from decaylanguage import DaughtersDict
                nm, pds = c["pre"]
                post = decays[nm]
                decays[nm] = DecayMode(post.bf, list(pds), **dict(post.metadata))
                dc = DecayChain(c["mother"], decays)
                with DescriptorFormat(p1, p2):
                    dc.to_string()
                dc.to_string()
                dc.decays[nm].daughters = DaughtersDict(post.daughters.to_list())
            else:
                dc = DecayChain(c["mother"], decays)
            with DescriptorFormat(p1, p2):
                s = dc.to_string()
            res = s
            if mode == "oracle":
                t = tree_of(c)

                def fmt_tree(t, top):
                    items = sorted(x if isinstance(x, str) else fmt_tree(x, False) for x in t[1])
                    return (p1 if top else p2).format(mother=t[0], daughters=" ".join(items))
                if fmt_tree(t, True) != s:
                    viol.append("tree not rendered with the first pattern at the top level and the second at every nested level")
                if (p1, p2) == PATTERNS[0]:
                    back = read_default(s)
                    if canon(back) != canon(tree_of(c)):
                        viol.append("descriptor read back by bracket matching is not the tree it was made from")
                for alt in c.get("alts", []):
                    d2 = {n: DecayMode(bf, list(ds), **info) for n, bf, ds, info in alt}
                    with DescriptorFormat(p1, p2):
                        s2 = DecayChain(c["mother"], d2).to_string()
                    if s2 != s:
                        viol.append("descriptor depends on the order daughters / sub-decays were given in")
        except Exception as e:
            res = {"err": type(e).__name__}
            if mode == "oracle":
                viol.append("exception " + type(e).__name__)
        out.append(viol if mode == "oracle" else res)
    Path(fout).write_text(json.dumps(out))


def main():
    import vlib
    import gen_chains
    from c12 import coq_chain
    from vlib import Check, cstr

    args = vlib.std_args()
    ck = Check("C13", args.tier, args.seed)
    rng = ck.rng
    ck.proofs("Props/C13.v", extra_trusted=[
        "hand-written models coq/Decay/ChainClass.v (to_dict, to_string) and coq/Decay/ChainDict.v (expand) tied by correspondence",
        "str.format on the pattern family is modelled by `render` (plain placeholders only)"])
    cases = []
    if args.replay:
        cases = dec(json.loads(Path(args.replay).read_text())["cases"])
    else:
        shapes = gen_chains.small_shapes(3, 2)
        if args.tier == "quick":
            shapes = rng.sample(shapes, 150)
        n = 350 if args.tier == "quick" else 4000
        chains = [{"mother": s["mother"], "decays": s["decays"]} for s in shapes]
        for _ in range(n):
            chains.append(gen_chains.rand_chain(rng, nmax=rng.choice([1, 2, 4, 7]), mult_max=3, names=NAMES, meta=False))
        for ch in chains:
            # rename p0.. to names with parentheses
            if ch["mother"] == "p0":
                ren = dict(zip(["p0", "p1", "p2", "x", "y"], rng.sample(NAMES, 5)))
                ch = {"mother": ren["p0"], "decays": [[ren[n], bf, [ren[d] for d in ds], info] for n, bf, ds, info in ch["decays"]]}
            alts = []
            for _ in range(3):
                alt = [[n, bf, rng.sample(ds, len(ds)), info] for n, bf, ds, info in ch["decays"]]
                rng.shuffle(alt)
                alts.append(alt)
            pats = [PATTERNS[0], rng.choice(PATTERNS[1:])]
            for p in pats:
                case = {"mother": ch["mother"], "decays": ch["decays"], "alts": alts, "patterns": list(p)}
                if rng.random() < 0.08 and len(ch["decays"]) > 1:
                    # a decaying particle whose decay has no daughters at all: still a nesting level of its own, "(X -> )"
                    k = rng.randrange(1, len(ch["decays"]))
                    dd = [list(d) for d in ch["decays"]]
                    if dd[k][0] != ch["mother"]:
                        dd[k][2] = []
                        case = {"mother": ch["mother"], "decays": dd, "alts": [], "patterns": list(p)}
                if rng.random() < 0.2:
                    d0 = rng.choice(case["decays"])
                    case["pre"] = [d0[0], [x for x in d0[2] if x not in {d[0] for d in case["decays"]}] + ["zz_pre"]]
                cases.append(case)
                a = alts[0]
                cases.append({"mother": ch["mother"], "decays": a, "alts": [], "patterns": list(p)})
    impl = vlib.run_impl("c13.py", enc(cases))
    terms = [f"chain_to_string ({cstr(c['patterns'][0])}, {cstr(c['patterns'][1])}) {coq_chain(c)}" for c in cases]
    model = vlib.run_model("C13", ["Lib.PyDict", "Decay.Conj", "Decay.Flatten", "Decay.ChainClass"], "fun v : val => v", terms, shard=250)
    diffs = vlib.compare_veq(ck, cases, impl, model)
    ck.cov["distinct_nontrivial"] = len({json.dumps(enc([c["mother"], c["decays"], c["patterns"]]), sort_keys=True) for c in cases if len(c["decays"]) > 1})
    ck.cov["rule"] = ("chains: sampled/all small shapes (<=3 decaying particles, multiplicities <=2, repeated decaying daughters) "
                      "renamed onto names with parentheses/quotes/signs, and random chains (<=7 decaying particles); each in the "
                      "order given and in a shuffled order, under the default patterns and one of 7 other bracketing patterns; "
                      "non-trivial = at least one sub-decay")
    ck.cov["samples"] = [{"case": enc(cases[1]), "impl": impl[1]}, {"case": enc(cases[-1]), "impl": impl[-1]}]
    ck.notes["distribution"] = {"cases": len(cases), "patterns_used": len({tuple(c["patterns"]) for c in cases}),
                                "max_decays": max(len(c["decays"]) for c in cases)}
    hits = []
    # the read-back / order oracle is cheap: always run it on the implementation strings of this run
    orc = vlib.run_impl("c13.py", enc(cases), mode="oracle")
    ck.notes["readback_checked"] = sum(1 for c in cases if tuple(c["patterns"]) == PATTERNS[0])
    hits = [(enc(c), v[0]) for c, v in zip(cases, orc) if v]
    vlib.std_failure(ck, "Props/C13.v", enc(cases), diffs, impl, model, hits, "py/c13.py", sig_of=lambda c, v: "oracle:" + v)
    sys.exit(ck.finish(assumptions=["names contain no blank and do not start with '(' (the label alphabet of C01 has no blank)"]))


if __name__ == "__main__":
    if len(sys.argv) > 1 and sys.argv[1] in ("impl", "oracle"):
        impl_main(sys.argv[1], sys.argv[2], sys.argv[3])
    else:
        main()
