#!/usr/bin/env python3
"""C01 — Decay tables read from a .dec file are exactly what the file states.

proof:          coq/Props/C01.v (models coq/Dec/Post.v, coq/Dec/Num.v)
correspondence: generated statement lists (repeated / empty / interleaved Decay blocks, labels over the whole
                alphabet, every published model name, all numeric literal forms, PHOTOS) rendered to text and parsed
                by DecFileParser; the tables it holds vs parse_post on the statement list; plus tests/data/*.dec
                through an AST extracted from the implementation's own tree (round trip of the renderer).
"""
from __future__ import annotations

import json
import sys
from fractions import Fraction
from pathlib import Path

sys.path.insert(0, str(Path(__file__).resolve().parent))
import decgen  # noqa: E402
import decpost  # noqa: E402


def decpost_fl(x):
    from vlib import fl
    return fl(x) if isinstance(x, float) else x


def decpost_prm(prm):
    from vlib import fl
    return [fl(x) if isinstance(x, float) else x for x in prm] if isinstance(prm, list) else prm


def impl_main(mode, fin, fout):
    cases = json.loads(Path(fin).read_text())
    out = []
    for c in cases:
        try:
            p, warns = decpost.parse(c["text"], include_cc=c.get("include_cc", True), via_file=c.get("via_file", False))
            res = decpost.observe_tables(p)
            # the same tables seen through build_decay_chains(m, stable_particles = all daughters of m): one entry per line
            bad = []
            seen = set()
            for m, lines in res:
                if m in seen:
                    continue
                seen.add(m)
                ds = sorted({d for l in lines for d in l[1]})
                try:
                    ch = p.build_decay_chains(m, stable_particles=ds)
                    got = [[decpost_fl(x["bf"]), list(x["fs"]), x["model"], decpost_prm(x["model_params"])] for x in ch[m]]
                    want = [[l[0], l[1], l[2][7:] if l[2].startswith("PHOTOS ") else l[2], l[3]] for l in lines]
                    if list(ch.keys()) != [m] or got != want:
                        bad.append(m)
                except Exception as e:  # noqa: BLE001
                    bad.append(m + ":" + type(e).__name__)
            if bad and mode != "oracle":
                res = {"chain_view": bad}
            if mode == "oracle":
                res = [p.list_decay_mother_names(), p.number_of_decays,
                       {m: p.list_decay_modes(m) for m in dict.fromkeys(p.list_decay_mother_names())}]
        except Exception as e:
            res = {"err": type(e).__name__}
        out.append(res)
    Path(fout).write_text(json.dumps(out))


def spec_tables(stmts):
    """the property's own sentence, computed from the statements (no aliases / defines in C01's files)"""
    from vlib import q
    seen, out = set(), []
    for st in stmts:
        if st[0] != "Decay" or st[1] in seen:
            continue
        seen.add(st[1])
        lines = []
        for l in st[2]:
            prm = "" if l["params"] is None else [q(Fraction(t)) if k == "num" else t for k, t in l["params"]]
            lines.append([q(Fraction(l["bf"])), l["fs"], ("PHOTOS " if l["photos"] else "") + l["model"], prm])
        out.append([st[1], lines])
    return out


def gen_cases(rng, tier, models):
    ALPHA_TAIL = "abcxyzABCXYZ0123456789/-+*_().'~"
    from gen_chains import REAL

    def label():
        r = rng.random()
        if r < 0.5:
            return rng.choice(REAL)
        body = "".join(rng.choice(ALPHA_TAIL) for _ in range(rng.randint(0, 7)))
        return rng.choice(["My", "x", "q", "anti-", "z_"]) + body

    cases = []
    n = 260 if tier == "quick" else 3000
    model_cycle = list(models)
    rng.shuffle(model_cycle)
    mi = 0
    alpha_i = 0
    for _ in range(n):
        stmts = []
        mothers = [label() for _ in range(rng.randint(0, 6))]
        blocks = []
        for m in mothers:
            lines = []
            if rng.random() > 0.15:
                for _ in range(rng.randint(1, 6)):
                    fs = [label() for _ in range(rng.randint(0, 5))]
                    # force every alphabet character into a label regularly
                    if fs and rng.random() < 0.5:
                        ch = ALPHA_TAIL[alpha_i % len(ALPHA_TAIL)]
                        alpha_i += 1
                        pos = rng.randrange(len(fs))
                        fs[pos] = "x" + ch + fs[pos][:3] + ch
                    mdl = model_cycle[mi % len(model_cycle)]
                    mi += 1
                    r = rng.random()
                    if r < 0.3:
                        prm = None
                    else:
                        prm = []
                        for _ in range(rng.randint(1, 6)):
                            if rng.random() < 0.7:
                                prm.append(["num", rng.choice(decgen.NUMFORMS)])
                            else:
                                w = rng.choice(["dm", "DtoKpipipi_v1", "x" + "".join(rng.choice(ALPHA_TAIL) for _ in range(3)), "file.dat", "yes",
                                                # words Python's float() would accept: they are words, reported verbatim
                                                "nan", "inf", "Infinity", "-inf", "NaN"])
                                # a word directly after a number must not look like a model name; fine for these
                                prm.append(["word", w])
                    lines.append({"bf": rng.choice(decgen.NUMFORMS), "fs": fs, "photos": rng.random() < 0.33, "model": mdl, "params": prm})
            blocks.append(["Decay", m, lines])
        # repeated mothers: identical and different bodies
        for b in list(blocks):
            r = rng.random()
            if r < 0.12:
                blocks.append(json.loads(json.dumps(b)))
            elif r < 0.24:
                blocks.append(["Decay", b[1], b[2][:1]])
        rng.shuffle(blocks)
        others = []
        for _ in range(rng.randint(0, 4)):
            k = rng.choice(["Alias", "Define", "Photos", "Particle", "LS", "CDecayNo"])
            if k == "Alias":
                others.append(["Alias", label() + "a", rng.choice(REAL)])
            elif k == "Define":
                others.append(["Define", "unused" + str(rng.randint(0, 9)), rng.choice(decgen.NUMFORMS)])
            elif k == "Photos":
                others.append(["Photos", rng.random() < 0.5])
            elif k == "Particle":
                others.append(["Particle", rng.choice(["pi0", "K+", "D0"]), rng.choice(["1.0", "0.5"]), "0.1"])
            elif k == "LS":
                others.append(["LS", "LSNONRELBW", label() + "l"])
        stmts = blocks + others
        rng.shuffle(stmts)
        cases.append({"stmts": stmts, "text": decgen.render(stmts, end=rng.random() < 0.2)})
    # read through the file constructor: parameter lists wrapped so that a continuation line STARTS with the word End (followed by
    # more — a line holding nothing but End is the known finding F16b of C02) or with a word that begins with End
    for k in range(6 if tier == "quick" else 40):
        m = rng.choice(REAL)
        words = rng.choice([["End", "2.5", "3.5"], ["End", "x"], ["Endpoint", "1.0"], ["End", "-0.5", "End", "7"]])
        prm = [["word", "a"]] + [["num", w] if w[0] in "-0123456789" else ["word", w] for w in words]
        line = {"bf": "1.0", "fs": ["K+", "pi-"], "photos": False, "model": "HELAMP", "params": prm}
        txt = f"Decay {m}\n  1.0 K+ pi- HELAMP a\n" + " ".join(words) + ";\nEnddecay\n"
        cases.append({"stmts": [["Decay", m, [line]]], "text": txt, "via_file": True})
    return cases


def main():
    import vlib
    import tr_models
    import tr_particles
    from vlib import Check
    args = vlib.std_args()
    ck = Check("C01", args.tier, args.seed)
    tr_particles.main()
    models = tr_models.main()["models"]
    ck.proofs("Props/C01.v", extra_trusted=[
        "PARTIAL front end: the text -> statement-list step (Lark lexer + LALR parser on decfile.lark) is NOT modelled in Coq; "
        "py/decgen.py renders statement lists to text in one canonical layout and the implementation parses that text",
        "hand-written models coq/Dec/Post.v, coq/Dec/Num.v tied by correspondence; model list regenerated by py/tr_models.py"])
    if args.replay:
        cases = json.loads(Path(args.replay).read_text())["cases"]
    else:
        cases = gen_cases(ck.rng, args.tier, models)
    impl = vlib.run_impl("c01.py", cases)
    decpost.front_end_check(ck, "C01fe", cases)
    terms = [f"vpost (parse_post cc (fun _ => None) true {decpost.coq_stmts(c['stmts'])})" for c in cases]
    model = vlib.run_model("C01", ["Lib.PyDict", "Decay.Conj", "Decay.GenTables", "Dec.Tables", "Dec.Syntax", "Dec.Post"],
                           "fun v : val => v", terms, shard=60)
    diffs = vlib.compare_veq(ck, cases, impl, model)
    used_models = {l["model"] for c in cases for st in c["stmts"] if st[0] == "Decay" for l in st[2]}
    ck.cov["distinct_nontrivial"] = len({c["text"] for c in cases if c["text"].count("Decay") >= 2})
    ck.cov["rule"] = ("statement lists: 0..6 mothers, repeated mothers (identical and different bodies), empty blocks, 1..6 lines, 0..5 "
                      "daughters from real EvtGen names and labels over the whole alphabet (each alphabet character forced into labels "
                      "round-robin), every published model name round-robin, parameter lists mixing all numeric literal forms and words, "
                      "PHOTOS on ~1/3 of lines, interleaved other statements; one canonical layout; non-trivial = at least two blocks")
    ck.cov["samples"] = [{"text": cases[0]["text"]}]
    ck.notes["distribution"] = {"files": len(cases), "models_used": len(used_models), "models_published": len(models),
                                "lines": sum(len(st[2]) for c in cases for st in c["stmts"] if st[0] == "Decay"),
                                "parse_errors": sum(1 for v in impl if isinstance(v, dict))}
    hits = []
    if diffs or getattr(ck, "proof_failed", None):
        for i in (diffs or range(len(cases))):
            exp = spec_tables(cases[i]["stmts"])
            if isinstance(impl[i], dict) and "chain_view" in impl[i]:
                hits.append((cases[i], "build_decay_chains(m, stable_particles=all daughters) does not show the table of m: " + ", ".join(impl[i]["chain_view"][:3])))
            elif not vlib.veq(impl[i], exp):
                got_m = [t[0] for t in impl[i]] if isinstance(impl[i], list) else None
                exp_m = [t[0] for t in exp]
                if got_m is not None and sorted(got_m) == sorted(exp_m) and got_m != exp_m:
                    hits.append((cases[i], "F13: tables not in file order after an identical repeated block"))
                else:
                    hits.append((cases[i], "tables differ from what the file states"))
    vlib.std_failure(ck, "Props/C01.v", cases, diffs, impl, model, hits, "py/c01.py",
                     sig_of=lambda c, v: "F13:order-after-identical-duplicate-block" if v.startswith("F13") else "oracle:" + v.split(": ")[0])
    sys.exit(ck.finish(assumptions=["texts are renderings of statement lists in the canonical layout of py/decgen.py (layout variation: C02)"]))


if __name__ == "__main__":
    if len(sys.argv) > 1 and sys.argv[1] in ("impl", "oracle"):
        impl_main(sys.argv[1], sys.argv[2], sys.argv[3])
    else:
        main()
