(* C04 — Charge conjugation is a PDG-consistent involution at every layer.
   The tables are the ones regenerated from the installed `particle` package on this run
   (Gen/GenParticles.v); the table-level theorems are re-proved against them by computation
   (finite domain: every name of the table, stated in the theorem). *)
From Coq Require Import String List Bool ZArith QArith.
From DL Require Import Lib.Val Lib.PyDict Decay.Conj Decay.ConjProofs Decay.GenTables Gen.GenParticles.
Import ListNotations.
Close Scope Q_scope.
Open Scope string_scope.

(* every EvtGen name of the table: self-conjugate -> itself; otherwise the name carrying the
   negated PDG ID, conjugating twice gives the original; no such name -> wrapped, not altered *)
Theorem C04_evtgen : forall n, In n (map fst evt_id) ->
  match pd_get n db_selfconj with
  | Some true => cc n = n
  | _ =>
      exists i, pd_get n evt_id = Some i /\
      match zassoc (- i)%Z id_evt with
      | None => cc n = wrap n
      | Some m => cc n = m /\ pd_get (cc n) evt_id = Some (- i)%Z /\ cc (cc n) = n
      end
  end.
Proof. exact (cc_table gen_tables gen_tables_ok). Qed.
Print Assumptions C04_evtgen.

(* arbitrary labels outside the table (unbounded): wrapped as unknown *)
Theorem C04_unknown : forall n, ~ In n (map fst evt_id) -> cc n = wrap n.
Proof. exact (cc_unknown gen_tables gen_tables_ok). Qed.
Print Assumptions C04_unknown.

Theorem C04_pdg : forall n, In n (map fst pdg_evt) ->
  cc_pdg n = wrap n \/
  (In (cc_pdg n) (map fst pdg_evt) /\ cc_pdg (cc_pdg n) = n /\
   exists i j, pdg_id gen_tables n = Some i /\ pdg_id gen_tables (cc_pdg n) = Some j /\
               (j = (- i)%Z \/ (j = i /\ cc_pdg n = n))).
Proof. exact (fun n => cc_pdg_table gen_tables n gen_pdg_tables_ok). Qed.
Print Assumptions C04_pdg.

Theorem C04_pdg_unknown : forall n, ~ In n (map fst pdg_evt) -> cc_pdg n = wrap n.
Proof. exact (cc_pdg_unknown gen_tables). Qed.
Print Assumptions C04_pdg_unknown.

(* conjugation never identifies two different names (all strings) *)
Theorem C04_injective : forall a b, cc a = cc b -> a = b.
Proof. exact cc_inj. Qed.
Print Assumptions C04_injective.

(* final states (any number of particles, any multiplicities): each particle conjugated with
   its multiplicity, number of particles preserved, nothing else appears *)
Theorem C04_final_state : forall d, wf_dd d ->
  dd_total (dd_cc cc d) = dd_total d /\
  (forall n, dd_get (cc n) (dd_cc cc d) = dd_get n d) /\
  (forall x, (forall n, x <> cc n) -> dd_get x (dd_cc cc d) = 0) /\
  wf_dd (dd_cc cc d).
Proof.
  intros d H. repeat split.
  - exact (dd_cc_total cc cc_inj d H).
  - intros n. exact (dd_cc_get cc cc_inj d n H).
  - intros x Hx. exact (dd_cc_get_other cc cc_inj d x H Hx).
  - exact (proj1 (dd_cc_wf cc cc_inj d H)).
  - exact (proj2 (dd_cc_wf cc cc_inj d H)).
Qed.
Print Assumptions C04_final_state.

(* decay modes: branching fraction and all metadata preserved *)
Theorem C04_mode : forall bf fs info,
  let m := mk_mode bf fs info in
  m_bf (mode_cc cc m) = m_bf m /\ m_meta (mode_cc cc m) = m_meta m /\ m_fs (mode_cc cc m) = dd_cc cc (m_fs m).
Proof. exact (mode_cc_spec cc). Qed.
Print Assumptions C04_mode.

(* non-vacuity *)
Example C04_ex1 : cc "K+" = "K-" /\ cc "pi0" = "pi0" /\ cc "anti-B0" = "B0" /\ cc "nope" = wrap "nope".
Proof. vm_compute. repeat split. Qed.
Example C04_ex2 : wf_dd (dd_of_list ["K+"; "pi0"; "K+"; "pi-"]) /\
  vdd (dd_cc cc (dd_of_list ["K+"; "pi0"; "K+"; "pi-"])) = vdd [("K-", 2); ("pi0", 1); ("pi+", 1)].
Proof. split; [apply dd_of_list_wf | vm_compute; reflexivity]. Qed.
