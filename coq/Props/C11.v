(* C11 — Class, dictionary and parser forms of a decay convert into each other losslessly.
   Proved here: the decay-mode round trip and the final-state constructor laws (unbounded).
   The chain-level round trip  from_dict (to_dict c)  (model: chain_to_dict / build_modes in Decay/ChainClass.v, including
   repeated decaying particles) is C11_chain_roundtrip (Decay/ChainRoundTrip.v).  The parser form
   (DecFileParser.build_decay_chains output -> DecayChain.from_dict -> to_dict) is C11_parser_chain_roundtrip
   (Dec/ParserForm.v): for every single-line chain the parser model builds, from_dict succeeds and to_dict returns (with
   fuel bounded by the size of the chain: it is not a fuel artefact) the same dictionary up to the order of daughters. *)
From Coq Require Import String List Bool ZArith QArith Arith Permutation.
From DL Require Import Fmt.DescFormat.
From DL Require Import Lib.Val Lib.PyDict Lib.Sort Decay.Conj Decay.ConjProofs Decay.ChainDict Decay.ChainClass
  Decay.ChainClassProofs Decay.Flatten Decay.ChainRoundTrip Decay.DescriptorProofs Dec.Tables Dec.ChainsProofs Dec.ParserForm.
Import ListNotations.
Close Scope Q_scope.
Open Scope string_scope.

Theorem C11_mode_roundtrip : forall bf fs info, wf_dd fs ->
  let m := mk_mode bf fs info in
  let m' := mode_of_cm (mode_to_cm m) in
  m_bf m' = m_bf m /\ m_meta m' = meta_out (m_meta m) /\
  dd_to_list (m_fs m') = dd_to_list (m_fs m) /\ (forall x, dd_get x (m_fs m') = dd_get x (m_fs m)).
Proof. exact mode_roundtrip. Qed.
Print Assumptions C11_mode_roundtrip.

(* final states: one canonical order, order-insensitive, multiplicities counted, length *)
Theorem C11_canonical_order : forall l, dd_to_list (dd_of_list l) = sort_strings l.
Proof. exact to_list_of_list. Qed.
Print Assumptions C11_canonical_order.

Theorem C11_order_insensitive : forall l l', Permutation l l' ->
  dd_to_list (dd_of_list l) = dd_to_list (dd_of_list l') /\
  forall x, dd_get x (dd_of_list l) = dd_get x (dd_of_list l').
Proof. exact of_list_order_insensitive. Qed.
Print Assumptions C11_order_insensitive.

Theorem C11_length : forall l, dd_total (dd_of_list l) = length l.
Proof. exact len_of_list. Qed.
Print Assumptions C11_length.

Theorem C11_string_constructor : forall l, Forall (fun s => name_ok s = true) l ->
  dd_of_string (join " " l) = dd_of_list l.
Proof. exact of_string_join. Qed.
Print Assumptions C11_string_constructor.

Theorem C11_mapping_constructor : forall l : list (string * nat),
  NoDup (map fst l) -> Forall (fun kv => 0 < snd kv) l ->
  dd_of_map l = l /\ dd_to_list (dd_of_map l) = sort_strings (flat_map (fun kv => repeat (fst kv) (snd kv)) l).
Proof. exact of_map_counts. Qed.
Print Assumptions C11_mapping_constructor.

Example C11_example :
  dd_to_list (dd_of_string "K+  K- K-	pi0") = ["K+"; "K-"; "K-"; "pi0"] /\
  vdd (dd_of_list ["K-"; "pi0"; "K+"; "K-"]) = vdd [("K-", 2); ("pi0", 1); ("K+", 1)].
Proof. vm_compute. split; reflexivity. Qed.

(* chain level: what to_dict writes, from_dict reads back as the chain with the same mother whose decays are the part of the
   original decays reachable from the mother (every registered particle is a decaying particle of the original; its decaying
   daughters are registered too), each mode being the DecayMode round trip RT md = mode_of_cm (mode_to_cm md) of the original's —
   also when a decaying particle occurs several times in the tree (F4). *)
Theorem C11_chain_roundtrip : forall decays fuel m d, chain_to_dict fuel decays m = Some d ->
  exists decays', chain_from_dict d = COk {| c_mother := m; c_decays := decays' |}
    /\ (forall p md', pd_get p decays' = Some md' ->
          exists md, pd_get p decays = Some md /\ md' = mode_of_cm (mode_to_cm md)
                     /\ forall x, In x (dd_to_list (m_fs md)) -> pd_mem x decays = true -> pd_mem x decays' = true)
    /\ pd_mem m decays' = true.
Proof.
  intros decays fuel m d H. destruct (chain_roundtrip decays fuel m d H) as [decays' [E [HI Hm]]].
  exists decays'. split; [exact E|split; [|exact Hm]]. intros p md' Hp. destruct (HI p md' Hp) as [md [E1 [E2 C]]].
  exists md. rewrite <- RT_mode_roundtrip. auto.
Qed.
Print Assumptions C11_chain_roundtrip.

Definition ex_decays : pdict mode :=
  [("pi0", mk_mode (98 # 100) (dd_of_list ["gamma"; "gamma"]) []);
   ("D0", mk_mode (1 # 10) (dd_of_list ["pi0"; "K_S0"; "pi0"]) [("model", VStr "PHSP")]);
   ("K_S0", mk_mode (7 # 10) (dd_of_list ["pi+"; "pi-"]) []);
   ("unrelated", mk_mode 1 (dd_of_list ["x"]) [])].
Example C11_chain_example :
  exists d, chain_to_dict 5 ex_decays "D0" = Some d /\
            match chain_from_dict d with COk c => map fst (c_decays c) = ["K_S0"; "pi0"; "D0"] | CErr _ => False end.
Proof. eexists. split; [vm_compute; reflexivity|]. vm_compute. reflexivity. Qed.

(* the parser clause.  c is what build_decay_chains returns for m (any tables T, any stable set S not containing m), every
   particle in it having exactly one decay line.  Then DecayChain.from_dict(c) is a chain with mother m, and its to_dict()
   returns d' with  sim c d' : the same mother, branching fraction and model information at every level, the daughters of
   every level a permutation of the original's, sub-decays related in the same way. *)
Theorem C11_parser_chain_roundtrip : forall T S fuel m c,
  build fuel T S m = Some (Some c) -> one_mode c -> ~ In m S ->
  exists decays d', chain_from_dict c = COk {| c_mother := m; c_decays := decays |}
                    /\ chain_to_dict (Datatypes.S (csize c)) decays m = Some d' /\ sim c d'.
Proof. intros T S fuel m c H. apply (parser_chain_roundtrip T S). exact (build_sound T S fuel m c H). Qed.
Print Assumptions C11_parser_chain_roundtrip.

(* hence the three forms agree on the one-line descriptor: the class form's to_string() is the descriptor of the parser's own
   dictionary, which is the single entry expand_decay_modes lists for it (C10, C13) — for any pair of patterns.
   (csize c < 100: the model's to_string runs to_dict with fuel 100.) *)
Theorem C11_parser_class_descriptor : forall cfg T S fuel m c,
  build fuel T S m = Some (Some c) -> one_mode c -> ~ In m S -> csize c < 100 ->
  exists ch, chain_from_dict c = COk ch /\ chain_to_string cfg ch = VStr (descr cfg true c)
             /\ expand cfg [] true c = [descr cfg true c].
Proof. intros cfg T S fuel m c H. apply (parser_chain_to_string cfg T S). exact (build_sound T S fuel m c H). Qed.
Print Assumptions C11_parser_class_descriptor.

(* non-vacuity: a table set with a particle (pi0) decaying at two places of the chain *)
Definition exT11 : list table :=
  [("D*+", [{| l_bf := 1#2; l_fs := ["pi0"; "D0"; "pi+"]; l_photos := false; l_model := "VSS"; l_params := None |}]);
   ("D0", [{| l_bf := 1#4; l_fs := ["pi0"; "K-"; "pi+"; "pi0"]; l_photos := true; l_model := "PHSP"; l_params := Some [PNum 42] |}]);
   ("pi0", [{| l_bf := 98#100; l_fs := ["gamma"; "gamma"]; l_photos := false; l_model := "PHSP"; l_params := None |}]);
   ("K-", [])].
Example C11_parser_example :
  exists c, build 5 exT11 ["pi+"; "K-"] "D*+" = Some (Some c) /\ one_mode c /\ ~ In "D*+" ["pi+"; "K-"]
            /\ match chain_from_dict c with
               | COk ch => map fst (c_decays ch) = ["pi0"; "D0"; "D*+"]
                           /\ match chain_to_dict (Datatypes.S (csize c)) (c_decays ch) "D*+" with
                              | Some d' => d' <> c            (* the daughters do come back in another order *)
                              | None => False
                              end
               | CErr _ => False
               end.
Proof.
  eexists. split; [vm_compute; reflexivity|]. split; [cbn; tauto|]. split; [intros [H|[H|[]]]; discriminate|].
  vm_compute. split; [reflexivity | discriminate].
Qed.
