(* C11 — Class, dictionary and parser forms of a decay convert into each other losslessly.
   Proved here: the decay-mode round trip and the final-state constructor laws (unbounded).
   The chain-level round trip  from_dict (to_dict c)  (model: chain_to_dict / build_modes in
   Decay/ChainClass.v, including repeated decaying particles) is NOT yet a theorem: it is
   covered by the correspondence run only (exhaustive small shapes + random chains, with the
   implementation-level round-trip oracle as failing-input search) — C11 is partial in that respect. *)
From Coq Require Import String List Bool ZArith QArith Arith Permutation.
From DL Require Import Fmt.DescFormat.
From DL Require Import Lib.Val Lib.PyDict Lib.Sort Decay.Conj Decay.ConjProofs Decay.ChainDict Decay.ChainClass
  Decay.ChainClassProofs.
Import ListNotations.
Close Scope Q_scope.
Open Scope string_scope.

Theorem C11_mode_roundtrip : forall bf fs info, wf_dd fs ->
  let m := mk_mode bf fs info in
  let m' := mode_of_cm (mode_to_cm m) in
  m_bf m' = m_bf m /\ m_meta m' = meta_out (m_meta m) /\
  dd_to_list (m_fs m') = dd_to_list (m_fs m) /\ (forall x, dd_get x (m_fs m') = dd_get x (m_fs m)).
Proof. exact mode_roundtrip. Qed.
Print Assumptions C11_mode_roundtrip.

(* final states: one canonical order, order-insensitive, multiplicities counted, length *)
Theorem C11_canonical_order : forall l, dd_to_list (dd_of_list l) = sort_strings l.
Proof. exact to_list_of_list. Qed.
Print Assumptions C11_canonical_order.

Theorem C11_order_insensitive : forall l l', Permutation l l' ->
  dd_to_list (dd_of_list l) = dd_to_list (dd_of_list l') /\
  forall x, dd_get x (dd_of_list l) = dd_get x (dd_of_list l').
Proof. exact of_list_order_insensitive. Qed.
Print Assumptions C11_order_insensitive.

Theorem C11_length : forall l, dd_total (dd_of_list l) = length l.
Proof. exact len_of_list. Qed.
Print Assumptions C11_length.

Theorem C11_string_constructor : forall l, Forall (fun s => name_ok s = true) l ->
  dd_of_string (join " " l) = dd_of_list l.
Proof. exact of_string_join. Qed.
Print Assumptions C11_string_constructor.

Theorem C11_mapping_constructor : forall l : list (string * nat),
  NoDup (map fst l) -> Forall (fun kv => 0 < snd kv) l ->
  dd_of_map l = l /\ dd_to_list (dd_of_map l) = sort_strings (flat_map (fun kv => repeat (fst kv) (snd kv)) l).
Proof. exact of_map_counts. Qed.
Print Assumptions C11_mapping_constructor.

Example C11_example :
  dd_to_list (dd_of_string "K+  K- K-	pi0") = ["K+"; "K-"; "K-"; "pi0"] /\
  vdd (dd_of_list ["K-"; "pi0"; "K+"; "K-"]) = vdd [("K-", 2); ("pi0", 1); ("K+", 1)].
Proof. vm_compute. split; reflexivity. Qed.
