(* C09 — Decay chains are the faithful recursive unfolding of the decay tables. *)
From Coq Require Import String List Bool ZArith QArith Arith Lia.
From DL Require Import Lib.Val Lib.PyDict Decay.ChainDict Dec.Tables Dec.ChainsProofs Dec.Syntax Dec.Post
  Dec.Layout Dec.ItemParser Dec.FrontEnd Dec.LayoutProofs Dec.ItemParserProofs Dec.FrontEndProofs Dec.Whole Dec.Pipeline Gen.GenLayout.
Import ListNotations.
Close Scope Q_scope.
Open Scope string_scope.

(* For acyclic tables, every mother with a table and every stable set S: the build returns
   (it does not run out of fuel), what it returns is the unfolding specified by [unfolds]
   (one entry per decay line in order with that line's bf/model/parameters; a daughter is bare
   when in S or without table, else the chain built for it with the same S), and that
   unfolding is unique. *)
Theorem C09_chain_is_unfolding :
  forall T S rank m, acyclic T S rank -> find_table m T <> None ->
  exists c, build (rank m + 2) T S m = Some (Some c) /\ unfolds T S m c /\
            forall c', unfolds T S m c' -> c' = c.
Proof.
  intros T S rank m Hac Hf.
  pose proof (build_terminates T S rank Hac (rank m + 2) m ltac:(lia)) as Ht.
  destruct (build (rank m + 2) T S m) as [[c|]|] eqn:E; [|exfalso|congruence].
  - exists c. split; [reflexivity|]. pose proof (build_sound T S _ _ _ E) as Hu. split; [assumption|].
    intros c' Hu'. symmetry. eapply (unfolds_det T S (Datatypes.S (csize c))); [lia | eassumption | eassumption].
  - replace (rank m + 2) with (Datatypes.S (rank m + 1)) in E by lia.
    apply build_not_found in E. contradiction.
Qed.
Print Assumptions C09_chain_is_unfolding.

(* any run that returns, with any fuel, returns the unfolding (no acyclicity needed) *)
Theorem C09_sound : forall T S fuel m c, build fuel T S m = Some (Some c) -> unfolds T S m c.
Proof. exact build_sound. Qed.
Print Assumptions C09_sound.

(* asking for a particle without a table raises the not-found error, and only then *)
Theorem C09_not_found :
  forall T S fuel m, build (Datatypes.S fuel) T S m = Some None <-> find_table m T = None.
Proof. exact build_not_found. Qed.
Print Assumptions C09_not_found.

(* non-vacuity *)
Definition exT : list table :=
  [("D*+", [{| l_bf := 1#2; l_fs := ["D0"; "pi+"]; l_photos := false; l_model := "VSS"; l_params := None |}]);
   ("D0", [{| l_bf := 1#4; l_fs := ["K-"; "pi+"; "pi0"; "pi0"]; l_photos := true; l_model := "PHSP"; l_params := None |};
           {| l_bf := 1#8; l_fs := []; l_photos := false; l_model := "PYTHIA"; l_params := Some [PNum 42] |}]);
   ("pi0", [])].
Definition exrank (s : string) : nat := if String.eqb s "D*+" then 2 else if String.eqb s "D0" then 1 else 0.
Example C09_acyclic_example : acyclic exT ["pi+"] exrank /\ find_table "D*+" exT <> None.
Proof.
  split; [|discriminate]. intros m lines l d Hf Hl Hd _ Hd'.
  unfold exT in Hf. simpl in Hf.
  destruct (String.eqb m "D*+") eqn:E1.
  { apply String.eqb_eq in E1. subst. inversion Hf; subst. destruct Hl as [<-|[]]. simpl in Hd.
    destruct Hd as [<-|[<-|[]]]; [vm_compute; lia | exfalso; apply Hd'; reflexivity]. }
  destruct (String.eqb m "D0") eqn:E2.
  { apply String.eqb_eq in E2. subst. inversion Hf; subst.
    destruct Hl as [<-|[<-|[]]]; simpl in Hd; [|destruct Hd].
    destruct Hd as [<-|[<-|[<-|[<-|[]]]]]; try (exfalso; apply Hd'; reflexivity); vm_compute; lia. }
  destruct (String.eqb m "pi0") eqn:E3; [|discriminate].
  inversion Hf; subst. destruct Hl.
Qed.

(* from the TEXT: s is any spelling of any layout of the statement list f, T the tables parse() makes of f (acyclic).  Then
   read_dec (Dec/Pipeline.v: front end, then parse()) returns f and T, and the chain built for any mother with a table is
   the unfolding of T — what build_decay_chains returns is determined by the text's content alone. *)
Theorem C09_text_level : forall ccdb sc f its s T S rank m,
  file_items (lc_kind gen_cfg) (lc_alts gen_cfg) f its -> spell (lc_label gen_cfg) (lc_ws gen_cfg) its s ->
  parse_post ccdb sc true f = inl T -> acyclic T S rank -> find_table m T <> None ->
  read_dec ccdb sc s = Some (f, T) /\
  exists c, text_chain ccdb sc (rank m + 2) s S m = vbuild (Some (Some c)) /\ unfolds T S m c /\
            forall c', unfolds T S m c' -> c' = c.
Proof.
  intros ccdb sc f its s T S rank m F Sp HT Hac Hf.
  assert (Er : read_dec ccdb sc s = Some (f, T)).
  { unfold read_dec. rewrite (parse_text_layout gen_cfg f its s whole_photos_plain F Sp), HT. reflexivity. }
  split; [exact Er|]. destruct (C09_chain_is_unfolding T S rank m Hac Hf) as (c & Eb & Hu & Huniq).
  exists c. split; [unfold text_chain; rewrite Er, Eb; reflexivity|]. split; [exact Hu | exact Huniq].
Qed.
Print Assumptions C09_text_level.
