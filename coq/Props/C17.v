(* C17 — AmpGen option files are read into the amplitudes and tables they state.
   Model: Amp/Text.v (the option file as TEXT: line splitting, comments, scanner, line parser following data/ampgen.lark as
   Lark's contextual lexer + LALR driver + AmpGenTransformer read it) and Amp/Read.v (from the transformed file on).
   The fuzzy particle-name lookup is regenerated data.  PARTIAL: Amp/Text.v is a hand-written model of Lark on this grammar,
   tied by comparing its reading of every text of a run with the tree Lark builds; words Lark's lexer would cut in two are
   outside its domain. *)
From Coq Require Import String List Bool ZArith QArith Arith Lia.
From DL Require Import Lib.Val Lib.Product Dec.Num Dec.Tables Amp.Syntax Amp.Read Amp.ReadProofs Amp.Text Amp.TextProofs.
Import ListNotations.
Close Scope Q_scope.
Open Scope string_scope.

(* the expansion of a line is exactly the set of its complete decay lines: a daughter written without its own
   decay is replaced by every line given separately for that name (recursively); sound and complete *)
Theorem C17_expansion_is_complete_lines : forall lines fuel t l, expand fuel lines t = Some l ->
  forall c, In c l <-> completes lines t c.
Proof. exact expand_spec. Qed.
Print Assumptions C17_expansion_is_complete_lines.

(* how many: product over daughters, sum over the separate lines of a bare daughter (file order) *)
Theorem C17_expansion_count : forall lines fuel t l, expand fuel lines t = Some l -> length l = ecount fuel lines t.
Proof. exact expand_length. Qed.
Print Assumptions C17_expansion_count.

(* every amplitude keeps the root of its line: name, particle, spin and lineshape tags, coupling, fixedness *)
Theorem C17_root_as_written : forall lines fuel t l, a_sub t <> [] -> expand fuel lines t = Some l ->
  Forall (fun c => root_eq c t) l.
Proof. exact expand_root. Qed.
Print Assumptions C17_root_as_written.

(* coupling: magnitude and phase of the two numeric columns (real and imaginary when the cartesian option is on) *)
Theorem C17_coupling : forall pid_of cart t re im n p sp l c s,
  mk_line pid_of cart t re im = Some (ANode n p sp l c s) ->
  c = Some (if cart then Cart (numq (fc_val re)) (numq (fc_val im)) (numq (fc_err re)) (numq (fc_err im))
            else Polar (numq (fc_val re)) (numq (fc_val im)) (numq (fc_err re)) (numq (fc_err im)),
            negb (checkfixed (fc_fix re) && checkfixed (fc_fix im))).
Proof. exact mk_line_coupling. Qed.
Print Assumptions C17_coupling.

(* tables: one row per parameter / constant line, event type in order *)
Theorem C17_tables : forall pid_of fuel cart0 f r, read_ampgen pid_of fuel cart0 f = ROk r ->
  r_pars r = flat_map (fun o => match o with OVar n fx v e => [(n, checkfixed fx, numq v, numq e)] | _ => [] end) f /\
  r_consts r = flat_map (fun o => match o with OConst n v => [(n, numq v)] | _ => [] end) f /\
  exists names, flat_map (fun o => match o with OEvent ns => [ns] | _ => [] end) f = [names] /\
                mapO pid_of names = Some (r_event r).
Proof. exact read_tables. Qed.
Print Assumptions C17_tables.

(* the coherent-sum option: read without error, it selects the coupling mode *)
Theorem C17_coherent_sum_option : forall pid_of fuel cart0 f n r,
  fcs_of f = [n] -> read_ampgen pid_of fuel cart0 f = ROk r -> r_cartesian r = negb (Qeq_bool (numq n) 0).
Proof. exact read_with_fcs. Qed.
Print Assumptions C17_coherent_sum_option.

Example C17_example :
  let pid := fun n => if String.eqb n "D0" then Some 421%Z else if String.eqb n "A" then Some 1%Z else if String.eqb n "B" then Some 2%Z
                      else if String.eqb n "x" then Some 3%Z else None in
  let z := {| fc_fix := "0"; fc_val := "1"; fc_err := "0" |} in
  let f := [OEvent ["D0"; "x"; "x"]; OFCS "1";
            OCplx (DNode "D0" None None [DNode "A" None None []; DNode "B" None None []]) z z;
            OCplx (DNode "A" (Some "P") None [DNode "x" None None []; DNode "x" None None []]) z z;
            OCplx (DNode "A" None (Some "LS") [DNode "x" None None []; DNode "x" None None []]) z z] in
  match read_ampgen pid 10 false f with
  | ROk r => length (r_amps r) = 2 /\ r_cartesian r = true
  | _ => False
  end.
Proof. vm_compute. split; reflexivity. Qed.

(* ------------------------------------------------------------------ the text front end *)
(* every well-formed option file (event type, complex decay lines with nested / tagged decays, constants, variables, the
   coherent-sum option), written with any gap width between its columns, is read back as exactly that file ... *)
Theorem C17_text_round_trip : forall g f, f <> [] -> Forall line_wf f -> parse_text (render_text g f) = Some f.
Proof. exact parse_render. Qed.
Print Assumptions C17_text_round_trip.

(* ... hence reading the text gives what the theorems above say about the file *)
Theorem C17_text_then_read : forall pid_of fuel cart0 g f, f <> [] -> Forall line_wf f ->
  match parse_text (render_text g f) with Some f' => read_ampgen pid_of fuel cart0 f' | None => RErr "UnexpectedInput" end
  = read_ampgen pid_of fuel cart0 f.
Proof. intros. rewrite parse_render by assumption. reflexivity. Qed.
Print Assumptions C17_text_then_read.

(* names: the grammar's LABEL words never contain a separator *)
Theorem C17_labels_are_words : forall s, is_label s = true -> plain s = true /\ s <> "".
Proof. exact label_plain. Qed.
Print Assumptions C17_labels_are_words.

(* non-vacuity: a file with nested, tagged decays, a constant, a variable and the option is well-formed, and its text
   (as the model reads it) is the file *)
Definition c17_text_example : list oline :=
  [OEvent ["D0"; "K-"; "pi+"; "pi+"; "pi-"];
   OCplx (DNode "D0" None None [DNode "K*(892)bar0" None None [DNode "K-" None None []; DNode "pi+" None None []];
                                DNode "rho(770)0" (Some "D") (Some "GSpline.EFF") [DNode "pi+" None None []; DNode "pi-" None None []]])
         (mk_fc "2" "0.5" "0") (mk_fc "0" "1.2" "0.1");
   OConst "a(1)(1260)+::Spline::Min" "0.18412"; OVar "D0_radius" "2" "3.7559" "0"; OFCS "1"].
Example C17_text_example_wf : Forall line_wf c17_text_example /\ parse_text (render_text 2 c17_text_example) = Some c17_text_example.
Proof.
  split; [|vm_compute; reflexivity].
  repeat (apply Forall_cons; [vm_compute; repeat split; try reflexivity; try discriminate; try lia; repeat constructor; try reflexivity; try discriminate|]).
  apply Forall_nil.
Qed.
