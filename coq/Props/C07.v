(* C07 — Global declarations are reported completely, later declarations winning.
   Model: Dec/Queries.v (+ the dictionaries of Dec/Post.v).  Statement-list level, then about texts (C07_text_level: the
   statements "anywhere in the text", in every layout, over the front-end model of C02; tied to Lark by correspondence). *)
From Coq Require Import String List Bool ZArith QArith Permutation.
From DL Require Import Lib.Val Lib.PyDict Lib.Sort Dec.Num Dec.Syntax Dec.Post Dec.PostProofs Dec.Queries Dec.QueriesProofs
  Dec.Layout Dec.ItemParser Dec.FrontEnd Dec.LayoutProofs Dec.ItemParserProofs Dec.FrontEndProofs Dec.Whole Gen.GenLayout.
Import ListNotations.
Close Scope Q_scope.
Open Scope string_scope.

(* Alias / ChargeConj / Define / CopyDecay (and Particle): dictionaries built from all statements of the kind
   in file order: the value of a name is that of its LAST declaration, the keys are exactly the declared names *)
Theorem C07_flat_dictionaries : forall (V : Type) (decls : list (string * V)) k,
  pd_get k (pd_of_list decls) = assoc_last k decls /\
  (In k (pd_keys (pd_of_list decls)) <-> In k (map fst decls)).
Proof. intros. split; [apply pd_of_list_last | apply pd_of_list_keys]. Qed.
Print Assumptions C07_flat_dictionaries.

Theorem C07_queries_are_such_dictionaries : forall f,
  aliases_of f = pd_of_list (flat_map (fun s => match s with SAlias a b => [(a, b)] | _ => [] end) f) /\
  ccdefs_of f = pd_of_list (flat_map (fun s => match s with SChargeConj a b => [(a, b)] | _ => [] end) f) /\
  defs_of f = pd_of_list (flat_map (fun s => match s with SDefine n lit => [(n, numq lit)] | _ => [] end) f) /\
  copies_of f = pd_of_list (flat_map (fun s => match s with SCopyDecay n o => [(n, o)] | _ => [] end) f).
Proof. intros. repeat split. Qed.

Theorem C07_cdecays : forall f,
  Permutation (cdecays_of f) (flat_map (fun s => match s with SCDecay m => [m] | _ => [] end) f) /\ sorted (cdecays_of f).
Proof. exact cdecays_sorted_all. Qed.
Print Assumptions C07_cdecays.

Theorem C07_photos_last_flag_or_off : forall f,
  q_photos f = match rev (photos_flags f) with b :: _ => b | [] => false end.
Proof. exact photos_last_flag. Qed.
Print Assumptions C07_photos_last_flag_or_off.

Theorem C07_pythia_last_wins : forall f kind key,
  get2 kind key (q_pythia f) = assoc2_last kind key (pythia_entries f).
Proof. exact pythia_last_wins. Qed.
Print Assumptions C07_pythia_last_wins.

Theorem C07_jetset_last_wins : forall f es d m i, jetset_entries f = Some es -> q_jetset f = Some d ->
  jget m i d = jassoc_last m i es.
Proof. exact jetset_last_wins. Qed.
Print Assumptions C07_jetset_last_wins.

Theorem C07_lineshape_error_iff_repeated : forall f,
  q_lineshape f = None <-> ~ NoDup (map lkey (ls_entries f)).
Proof. exact lineshape_error_iff_repeated. Qed.
Print Assumptions C07_lineshape_error_iff_repeated.

Theorem C07_lineshape_values : forall f d p s, q_lineshape f = Some d ->
  get2 p s d = assoc2_last p s (ls_entries f).
Proof. exact lineshape_values. Qed.
Print Assumptions C07_lineshape_values.

Theorem C07_particle_width : forall ref_width gev aliases n mass width,
  particle_entry ref_width gev aliases n mass width =
  match width with
  | Some w => Some (n, {| pp_mass := numq mass; pp_width := numq w |})
  | None => match ref_width (match pd_get n aliases with Some a => a | None => n end) with
            | Some w => Some (n, {| pp_mass := numq mass; pp_width := (w / gev)%Q |})
            | None => None
            end
  end.
Proof. exact particle_width. Qed.

Theorem C07_particles_last_wins : forall ref_width gev f es d k,
  particle_entries ref_width gev (aliases_of f) f = Some es -> q_particles ref_width gev f = Some d ->
  pd_get k d = assoc_last k es /\ (In k (pd_keys d) <-> In k (map fst es)).
Proof. exact particles_last_wins. Qed.
Print Assumptions C07_particles_last_wins.

Example C07_example :
  let f := [SAlias "MyK" "K+"; SPhotos true; SDefine "dm" "0.5"; SJetSet "MSTJ(26)" "0"; SJetSet "PARJ(1)" "0.4";
            SPythia "PythiaBothParam" "ParticleDecays" "mixB" "off"; SDefine "dm" "2E-4"; SPhotos false;
            SLS "LSFLAT" "MyK"; SBW "MyK" "3"; SAlias "MyK" "K-"] in
  pd_get "MyK" (aliases_of f) = Some "K-" /\ pd_get "dm" (defs_of f) = Some (1 # 5000)%Q /\ q_photos f = false /\
  (exists d, q_jetset f = Some d /\ jget "MSTJ" 26 d = Some (CInt 0) /\ jget "PARJ" 1 d = Some (CNum (2 # 5)%Q)) /\
  (exists d, q_lineshape f = Some d /\ get2 "MyK" "BlattWeisskopf" d = Some (LNum 3%Q)).
Proof. vm_compute. repeat split; eexists; repeat split. Qed.
Print Assumptions C07_queries_are_such_dictionaries.
Print Assumptions C07_particle_width.

(* about texts: s is any spelling of any layout of the statement list f — the declarations anywhere among the other
   statements.  The text is read to f, so every query answers as the theorems above say of f: e.g. the flat dictionaries hold,
   for every name, its last declaration in the text, and the global PHOTOS flag is the last one given (off when absent). *)
Theorem C07_text_level : forall f its s,
  file_items (lc_kind gen_cfg) (lc_alts gen_cfg) f its -> spell (lc_label gen_cfg) (lc_ws gen_cfg) its s ->
  parse_text gen_cfg s = Some f /\
  (forall k, option_map (fun g => pd_get k (aliases_of g)) (parse_text gen_cfg s)
             = Some (assoc_last k (flat_map (fun st => match st with SAlias a b => [(a, b)] | _ => [] end) f))) /\
  (forall k, option_map (fun g => pd_get k (defs_of g)) (parse_text gen_cfg s)
             = Some (assoc_last k (flat_map (fun st => match st with SDefine n lit => [(n, numq lit)] | _ => [] end) f))) /\
  option_map q_photos (parse_text gen_cfg s) = Some (match rev (photos_flags f) with b :: _ => b | [] => false end).
Proof.
  intros f its s F Sp. rewrite (parse_text_layout gen_cfg f its s whole_photos_plain F Sp). cbn [option_map].
  destruct (C07_queries_are_such_dictionaries f) as (Ea & _ & Ed & _).
  split; [reflexivity|]. split; [|split].
  - intros k. rewrite Ea, pd_of_list_last. reflexivity.
  - intros k. rewrite Ed, pd_of_list_last. reflexivity.
  - rewrite photos_last_flag. reflexivity.
Qed.
Print Assumptions C07_text_level.
