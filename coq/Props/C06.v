(* C06 — Every supported model name is recognised as itself; unknown models are rejected.
   Gen/GenLexer.v holds, for the published list and for the user-registered lists of this run, the alternation Lark
   actually compiled into the MODEL_NAME terminal (after the edit_terminals callback).  The first theorem re-checks,
   against that regenerated data, that it is the specification: all names (published then user), longest first,
   stable, each as a literal, followed by the boundary.  The others are unbounded theorems about that specification. *)
From Coq Require Import String Ascii List Bool Arith.
From DL Require Import Lib.PyDict Dec.ModelName Dec.ModelNameProofs Dec.Tables Dec.Syntax Dec.Post Gen.GenModels Gen.GenLexer.
Import ListNotations.
Open Scope string_scope.

Definition list_eqb (a b : list string) : bool :=
  Nat.eqb (length a) (length b) && forallb (fun p => String.eqb (fst p) (snd p)) (combine a b).

Lemma list_eqb_eq a : forall b, list_eqb a b = true -> a = b.
Proof.
  unfold list_eqb. induction a as [|x a IH]; intros [|y b] H; simpl in *; try discriminate; [reflexivity|].
  apply andb_true_iff in H. destruct H as [Hl H]. apply andb_true_iff in H. destruct H as [Hx Hr].
  apply String.eqb_eq in Hx. subst. f_equal. apply IH. rewrite Hl, Hr. reflexivity.
Qed.

(* (T) the compiled terminal is the specified one, for every instance probed on this run *)
Theorem C06_terminal_is_spec : forall i, In i mn_instances ->
  mi_alts i = sort_len_desc (known_decay_models ++ mi_user i)%list /\ mi_priority i = 2.
Proof.
  assert (H : forallb (fun i => list_eqb (mi_alts i) (sort_len_desc (known_decay_models ++ mi_user i)%list) && Nat.eqb (mi_priority i) 2)
                      mn_instances = true) by (vm_compute; reflexivity).
  rewrite forallb_forall in H. intros i Hi. specialize (H i Hi). apply andb_true_iff in H. destruct H as [A B].
  split; [apply list_eqb_eq; assumption | apply Nat.eqb_eq; assumption].
Qed.
Print Assumptions C06_terminal_is_spec.

(* a registered name followed by a separator is matched as a model name, in full, whatever other names are its
   prefixes or extensions (no name contains a separator character) *)
Theorem C06_name_recognised_as_itself : forall k prev (sep : ascii -> bool) names m rest,
  In m names ->
  (forall n, In n names -> all_chars (fun c => negb (sep c)) n = true) ->
  (rest = EmptyString \/ exists c r, rest = String c r /\ sep c = true) ->
  boundary_ok k (last_char m prev) (head_char rest) = true ->
  match_alts k prev (sort_len_desc names) (m ++ rest) = Some (String.length m).
Proof. exact model_name_recognised. Qed.
Print Assumptions C06_name_recognised_as_itself.

(* a label is not taken for a model name unless some registered name is a prefix of it ending at a boundary;
   in particular labels that extend a model name by letters, digits or underscores are plain labels *)
Theorem C06_label_not_a_model : forall k prev names w rest,
  (forall n, In n names -> forall r', (w ++ rest)%string = (n ++ r')%string ->
       boundary_ok k (last_char n prev) (head_char r') = false) ->
  match_alts k prev (sort_len_desc names) (w ++ rest) = None.
Proof. exact label_extension_not_a_model. Qed.
Print Assumptions C06_label_not_a_model.

(* a model word that is lexed as a label and is not a defined ModelAlias is rejected *)
Theorem C06_undefined_model_rejected : forall mal defs d l,
  d_model d = MLabel l -> pd_get l mal = None -> resolve_line mal defs d = inr (UndefinedModel l).
Proof. intros mal defs d l H1 H2. unfold resolve_line, resolve_model. rewrite H1, H2. reflexivity. Qed.
Print Assumptions C06_undefined_model_rejected.

Example C06_example :
  let names := (known_decay_models ++ ["SVS_X"; "SV"])%list in
  match_alts BWordBoundary None (sort_len_desc names) "SVS_CP 1.0;" = Some 6 /\
  match_alts BWordBoundary None (sort_len_desc names) "SVS;" = Some 3 /\
  match_alts BWordBoundary None (sort_len_desc names) "SVS_X;" = Some 5 /\
  match_alts BWordBoundary None (sort_len_desc names) "SVS_Xy;" = None /\
  match_alts BWordBoundary None (sort_len_desc names) "SV ;" = Some 2.
Proof. vm_compute. repeat split. Qed.
