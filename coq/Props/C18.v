(* C18 — Each amplitude is emitted with exactly its Bose-symmetrised permutations.
   Models: Amp/Perm.v (list_structure) and Amp/GooFit.v (to_goofit as structured items; the text of the two
   output languages is parsed back into these items by the correspondence). *)
From Coq Require Import String List Bool ZArith QArith Arith.
From DL Require Import Lib.Val Lib.Product Amp.Syntax Amp.Perm Amp.GooFit Amp.GooFitProofs Gen.GenAmp.
Import ListNotations.
Close Scope Q_scope.
Open Scope string_scope.

(* the index permutations used are exactly the one-to-one assignments of the amplitude's final-state particles to
   positions of identical particles in the event type, each once — any number of particles, any multiplicities *)
Theorem C18_permutations : forall fs st P, list_structure fs st = Some P ->
  NoDup P /\
  forall sigma, In sigma P <-> (NoDup sigma /\ Forall2 (fun i x => nth_error fs i = Some x) sigma st).
Proof. exact list_structure_spec. Qed.
Print Assumptions C18_permutations.

Theorem C18_permutations_error : forall fs st, list_structure fs st = None <-> exists x, In x st /\ ~ In x fs.
Proof. exact list_structure_error. Qed.
Print Assumptions C18_permutations_error.

(* the code for one amplitude: per permutation its spin factor(s) with that permutation and one lineshape per
   resonance with mass names from the same permutation; the declared number is the number of permutations *)
Theorem C18_emitted_contents : forall info sfk fs t e, to_goofit info sfk fs t = Some e ->
  exists perms sfs st,
    list_structure fs (leaves t) = Some perms /\ spinfactors info sfk t = Some sfs /\ decay_structure t = Some st /\
    e_perms e = perms /\ e_n e = length perms /\
    e_spin e = flat_map (fun p => map (fun sf => (sf, p)) sfs) perms /\
    exists lss, e_lines e = concat lss /\
      Forall2 (fun p ls => exists m1 m2, mass_names st p = Some (m1, m2) /\
                 length ls = length (vertexes t) /\
                 Forall2 (fun iv l => exists m, nth_error [m1; m2] (fst iv) = Some m /\
                                                make_lineshape info (snd iv) m = Some l)
                         (combine (seq 0 (length (vertexes t))) (vertexes t)) ls)
              perms lss.
Proof. exact to_goofit_contents. Qed.
Print Assumptions C18_emitted_contents.

Theorem C18_counts : forall info sfk fs t e sfs, to_goofit info sfk fs t = Some e -> spinfactors info sfk t = Some sfs ->
  length (e_spin e) = e_n e * length sfs /\ length (e_lines e) = e_n e * length (vertexes t).
Proof. exact to_goofit_counts. Qed.
Print Assumptions C18_counts.

Example C18_example : list_structure [7; 9; 9; 8]%Z [9; 8; 9]%Z = Some [[1; 3; 2]; [2; 3; 1]].
Proof. vm_compute. reflexivity. Qed.
