(* C14 — Descriptor format settings are scoped and validated.
   Only statements, `exact`, Print Assumptions and non-vacuity examples live here. *)
From Coq Require Import String Ascii List Bool.
From DL Require Import Lib.Val Fmt.DescFormat Fmt.DescFormatProofs Fmt.PatternSpec.
Import ListNotations.
Open Scope string_scope.

(* Leaving a descriptor-format context — normally or through an exception (out = Raised), with an
   arbitrary body (any nesting depth, the same or other context objects re-entered, formats set
   directly inside) — restores exactly the format in force at entry and leaves every context
   object as it was.  [valid_cfg (config s)] holds in every reachable state (C14_reachable). *)
Theorem C14_scoped :
  forall i body s s' out lg,
    valid_cfg (config s) = true ->
    exec_stmt s (SWith i body) = (s', out, lg) ->
    config s' = config s /\ exists ext, objs s' = (objs s ++ ext)%list.
Proof. exact with_restores_format. Qed.
Print Assumptions C14_scoped.

Theorem C14_reachable :
  forall p s out lg, exec_stmts init p = (s, out, lg) -> valid_cfg (config s) = true.
Proof. exact reachable_valid. Qed.
Print Assumptions C14_reachable.

Theorem C14_rendering_unaffected :
  forall i body s s' out lg m d top,
    valid_cfg (config s) = true ->
    exec_stmt s (SWith i body) = (s', out, lg) ->
    render (if top : bool then fst (config s') else snd (config s')) m d =
    render (if top then fst (config s) else snd (config s)) m d.
Proof. exact with_restores_rendering. Qed.
Print Assumptions C14_rendering_unaffected.

(* A pattern pair that is not valid is rejected and changes nothing, whether set directly or
   through a context object. *)
Theorem C14_invalid_set :
  forall s p1 p2, valid p1 && valid p2 = false -> exec_stmt s (SSet p1 p2) = (s, Raised, []).
Proof. exact invalid_pattern_rejected. Qed.
Print Assumptions C14_invalid_set.

Theorem C14_invalid_enter :
  forall s i o body, nth_error (objs s) i = Some o -> valid_cfg (o_new o) = false ->
    exec_stmt s (SWith i body) = (s, Raised, []).
Proof. exact invalid_enter_rejected. Qed.
Print Assumptions C14_invalid_enter.

(* What "valid" means, against a structural description of patterns: accepted iff both
   placeholders occur and no other does. *)
Theorem C14_valid_iff_placeholders :
  forall l, items_ok l = true ->
  (valid (pat_of l) = true <->
   (In "mother" (names l) /\ In "daughters" (names l) /\
    forall n, In n (names l) -> n = "mother" \/ n = "daughters")).
Proof. exact valid_iff_placeholders. Qed.
Print Assumptions C14_valid_iff_placeholders.

(* non-vacuity: a reachable state with two objects, a nested re-entrant block left by exception *)
Example C14_nonvacuous :
  let p := SCons (SNew "{mother} => {daughters}" "[{mother} => {daughters}]")
          (SCons (SNew "{daughters} <- {mother}" "<{daughters} <- {mother}>")
          (SCons (SWith 1 (SCons (SWith 0 (SCons (SWith 1 (SCons SRaise SNil)) SNil)) SNil)) SNil)) in
  exists s lg, exec_stmts init p = (s, Raised, lg) /\ config s = default_cfg /\ length (objs s) = 2.
Proof. eexists. eexists. vm_compute. repeat split. Qed.
