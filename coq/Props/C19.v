(* C19 — C++ and Python GooFit outputs describe the same, self-contained model.
   Model: Amp/Convert.v — the structured content both ampgen2goofit and ampgen2goofitpy print (event type, mass
   constants, resonance mass/width variables, one declaration per parameter line, the code of every amplitude).
   The content is computed once in the model: that each language's text carries exactly this content is what the
   correspondence establishes on every run (by parsing both texts), so "the two outputs contain the same ..." is a
   consequence of the two ties.  Executed only: declaration-before-use on the texts incl. spline / f_scatt / IS_poles
   arrays, execution of the Python text against a stand-in goofit module, returned string vs printed text, the
   command-line entry point. *)
From Coq Require Import String List Bool ZArith QArith.
From DL Require Import Lib.Val Amp.Syntax Amp.Read Amp.GooFit Amp.Session Amp.Convert Amp.ConvertProofs Gen.GenAmp.
Import ListNotations.
Close Scope Q_scope.
Open Scope string_scope.

(* self-contained: the mass and width variables every emitted lineshape uses belong to a particle seen while
   reading, and are declared in the intro unless that particle is one of the event-type particles (whose masses
   are the constants of the intro) *)
Theorem C19_resonance_symbols_declared : forall pid_of info sfk fuel config f c e l,
  convert pid_of info sfk fuel config f = Some c -> In (Some e) (c_amps c) -> In l (e_lines e) ->
  exists p i, info p = Some i /\ ls_prog l = pi_prog i /\
              (In p (zdedupe (c_event c) []) \/ In (pi_prog i, pi_mass i, pi_width i) (c_resvars c)).
Proof. exact lineshape_symbols_declared. Qed.
Print Assumptions C19_resonance_symbols_declared.

Theorem C19_coefficient_names_distinct : forall name : string, (name ++ "_r") <> (name ++ "_i").
Proof. exact coefficient_names_distinct. Qed.
Print Assumptions C19_coefficient_names_distinct.

(* fit parameters: one declaration per parameter line (name, value), the error exactly for free parameters *)
Theorem C19_parameter_declarations : forall pid_of info sfk fuel config f c,
  convert pid_of info sfk fuel config f = Some c ->
  exists r, map (fun p => (pd_name p, pd_value p, pd_error p)) (c_pars c) =
            map (fun row : string * bool * Q * Q => match row with (n, fx, v, e0) => (n, v, if fx then None else Some e0) end) r /\
            r = flat_map (fun o => match o with OVar n fx v e0 => [(n, checkfixed fx, Dec.Num.numq v, Dec.Num.numq e0)] | _ => [] end) f.
Proof. exact parameter_declarations. Qed.
Print Assumptions C19_parameter_declarations.

Example C19_programmatic_names :
  map programmatic ["K(1)(1270)bar-::Spline::Gamma::10"; "sA_0"; "K*(892)~0"; "D0"] =
  ["K_1_1270bar_minus_Spline_Gamma_1_0"; "sA__0"; "Kst_892_0_bar"; "D_0"].
Proof. vm_compute. reflexivity. Qed.
