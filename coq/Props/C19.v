(* C19 — C++ and Python GooFit outputs describe the same, self-contained model.
   Model: Amp/Convert.v — the structured content both ampgen2goofit and ampgen2goofitpy print (event type, mass
   constants, resonance mass/width variables, one declaration per parameter line, the code of every amplitude).
   The content is computed once in the model: that each language's text carries exactly this content is what the
   correspondence establishes on every run (by parsing both texts), so "the two outputs contain the same ..." is a
   consequence of the two ties.  Declaration before use: Amp/Symbols.v gives, for each section of the output in text order, the
   model symbols it declares and uses (incl. the spline / f_scatt / IS_poles arrays and what each kind of lineshape names);
   C19_symbols_declared_before_use proves that every use has an earlier declaration; the correspondence compares this
   structure with what both texts contain.  Executed only: execution of the Python text against a stand-in goofit module,
   returned string vs printed text, the command-line entry point. *)
From Coq Require Import String List Bool ZArith QArith.
From DL Require Import Lib.Val Lib.PyDict Amp.Syntax Amp.Read Amp.GooFit Amp.Session Amp.Convert Amp.ConvertProofs Amp.Symbols Amp.SymbolsProofs Gen.GenAmp.
Import ListNotations.
Close Scope Q_scope.
Open Scope string_scope.

(* self-contained: the mass and width variables every emitted lineshape uses belong to a particle seen while
   reading, and are declared in the intro unless that particle is one of the event-type particles (whose masses
   are the constants of the intro) *)
Theorem C19_resonance_symbols_declared : forall pid_of info sfk fuel config f c e l,
  convert pid_of info sfk fuel config f = Some c -> In (Some e) (c_amps c) -> In l (e_lines e) ->
  exists p i, info p = Some i /\ ls_prog l = pi_prog i /\
              (In p (zdedupe (c_event c) []) \/ In (pi_prog i, pi_mass i, pi_width i) (c_resvars c)).
Proof. exact lineshape_symbols_declared. Qed.
Print Assumptions C19_resonance_symbols_declared.

Theorem C19_coefficient_names_distinct : forall name : string, (name ++ "_r") <> (name ++ "_i").
Proof. exact coefficient_names_distinct. Qed.
Print Assumptions C19_coefficient_names_distinct.

(* fit parameters: one declaration per parameter line (name, value), the error exactly for free parameters *)
Theorem C19_parameter_declarations : forall pid_of info sfk fuel config f c,
  convert pid_of info sfk fuel config f = Some c ->
  exists r, map (fun p => (pd_name p, pd_value p, pd_error p)) (c_pars c) =
            map (fun row : string * bool * Q * Q => match row with (n, fx, v, e0) => (n, v, if fx then None else Some e0) end) r /\
            r = flat_map (fun o => match o with OVar n fx v e0 => [(n, checkfixed fx, Dec.Num.numq v, Dec.Num.numq e0)] | _ => [] end) f.
Proof. exact parameter_declarations. Qed.
Print Assumptions C19_parameter_declarations.

Example C19_programmatic_names :
  map programmatic ["K(1)(1270)bar-::Spline::Gamma::10"; "sA_0"; "K*(892)~0"; "D0"] =
  ["K_1_1270bar_minus_Spline_Gamma_1_0"; "sA__0"; "Kst_892_0_bar"; "D_0"].
Proof. vm_compute. reflexivity. Qed.

(* Every model symbol the generated code uses is declared earlier in the same output.  flatten_syms lists the symbols in text
   order (constants, resonance variables, the particle_masses line, one variable per parameter line, the arrays with their
   members, then what every lineshape of every amplitude names); so' is the output with the groups Python leaves unordered
   (sets, pandas indexes) in any order.  Premise, as in the property: the file defines what its lineshapes need
   (defines_needed: spline constants for a spline lineshape; sA_0, sA, s0_prod, s0_scatt and a member of each of the
   f_scatt / IS_p families for a K-matrix lineshape; no resonance named like an event-type particle). *)
Theorem C19_symbols_declared_before_use : forall pid_of info sfk fuel config f so so',
  symbols pid_of info sfk fuel config f = Some so ->
  (forall c, convert pid_of info sfk fuel config f = Some c -> defines_needed info c (const_names_of f)) ->
  sym_equiv so so' ->
  forall l1 n l2, flatten_syms so' = (l1 ++ SUse n :: l2)%list -> In (SDef n) l1.
Proof. intros pid_of info sfk fuel config f so so' H Hp He. exact (symbols_declared_before_use pid_of info sfk fuel config f so so' H Hp He). Qed.
Print Assumptions C19_symbols_declared_before_use.

(* the members of an array (make_pars / strip_pararray): exactly the parameters whose name contains the family prefix, each once,
   under their programmatic names, ordered by the integer read after the prefix (key_plain: int(name[len(prefix):]) for the
   spline and f_scatt families; key_is: i*6 + index of the channel for IS_p<i>_<channel>) — strictly, when the integers are
   distinct, so that the order does not depend on the sorting algorithm *)
Theorem C19_array_members_ordered : forall key par_names prefix els, pararray key par_names prefix = Some els ->
  exists kn, map snd kn = filter (contains prefix) par_names /\ Forall (fun x => key prefix (snd x) = Some (fst x)) kn /\
             exists sorted, els = map (fun x => programmatic (snd x)) sorted /\ Permutation.Permutation sorted kn /\
                            (NoDup (map fst kn) -> Sorted.StronglySorted (fun a b : Z * string => (fst a < fst b)%Z) sorted).
Proof.
  intros key ps b els H. destruct (pararray_spec key ps b els H) as (kn & E1 & E2 & E3 & P & _ & S).
  exists kn. split; [exact E1|]. split; [exact E2|]. exists (sort_keyed kn). split; [exact E3|]. split; [exact P | exact S].
Qed.
Print Assumptions C19_array_members_ordered.

Example C19_array_order_example :
  pararray key_is ["IS_p2_KK"; "sA"; "IS_p1_mass"; "IS_p1_pipi"; "IS_p10_4pi"] "IS_p" = Some ["IS_p1_pipi"; "IS_p1_mass"; "IS_p2_KK"; "IS_p10_4pi"]
  /\ pararray key_plain ["f_scatt10"; "f_scatt2"; "x"; "f_scatt0"] "f_scatt" = Some ["f_scatt_0"; "f_scatt2"; "f_scatt1_0"]
  /\ pararray key_plain ["f_scatt_a"] "f_scatt" = None.
Proof. vm_compute. repeat split. Qed.

(* non-vacuity: a file with a spline and a K-matrix lineshape that meets the premise; its arrays are declared and used *)
Definition ex19 : list oline :=
  [OEvent ["D0"; "K-"; "pi+"; "pi+"; "pi-"];
   OCplx (DNode "D0" None None [DNode "K(1)(1270)bar-" None (Some "GSpline.EFF")
            [DNode "PiPi00" None (Some "kMatrix.prod.0") [DNode "pi+" None None []; DNode "pi-" None None []]; DNode "K-" None None []];
            DNode "pi+" None None []])
         {| fc_fix := "1"; fc_val := "1.0"; fc_err := "0.1" |} {| fc_fix := "0"; fc_val := "-0.390311"; fc_err := "0.1" |};
   OVar "K(1)(1270)bar-::Spline::Gamma::1" "0" "2" "0.01"; OVar "K(1)(1270)bar-::Spline::Gamma::0" "2" "0.25" "0";
   OConst "K(1)(1270)bar-::Spline::N" "2"; OConst "K(1)(1270)bar-::Spline::Max" "1.9"; OConst "K(1)(1270)bar-::Spline::Min" "0.18412";
   OVar "s0_scatt" "2" "0" "0.01"; OVar "sA" "2" "0.25" "0.01"; OVar "s0_prod" "0" "-1.5" "0"; OVar "sA_0" "0" "-0.390311" "0.01";
   OVar "f_scatt0" "2" "0.5" "0"; OVar "f_scatt1" "2" "1" "0"; OVar "IS_p1_pipi" "2" "2.01551" "0"; OVar "IS_p1_KK" "2" "1" "0"].
Definition ex_pid_of (n : string) : option Z := pd_get n amp_names.
Definition ex_info (p : Z) : option pinfo := zlookup p amp_particles.
Example C19_symbols_example :
  (forall c, convert ex_pid_of ex_info known_spinfactors 40 false ex19 = Some c -> defines_needed ex_info c (const_names_of ex19)) /\
  exists so, symbols ex_pid_of ex_info known_spinfactors 40 false ex19 = Some so /\
             map fst (so_arrays so) = ["K_1_1270bar_minus_SplineArr"; "f_scatt"; "IS_poles"] /\
             In "K_1_1270bar_minus_SplineArr" (concat (concat (so_amps so))) /\ In "IS_poles" (concat (concat (so_amps so))).
Proof.
  split.
  - intros c Hc. apply defines_needed_b_sound.
    assert (E : option_map (fun c0 => defines_needed_b ex_info c0 (const_names_of ex19)) (convert ex_pid_of ex_info known_spinfactors 40 false ex19) = Some true)
      by (vm_compute; reflexivity).
    rewrite Hc in E. injection E as E. exact E.
  - eexists. split; [vm_compute; reflexivity|]. split; [vm_compute; reflexivity|]. split; vm_compute; tauto.
Qed.
