(* C15 — The chain graph has one node and one labelled edge per decay line.
   Model: Viewer/Graph.v (the node/edge calls of DecayChainViewer with the process-wide counter).
   [pre c] lists the decay lines of the chain dictionary at every depth, depth-first (a decaying daughter
   that occurs twice contributes its lines twice).  Graphviz acceptance of the DOT text is not a
   theorem: it is executed (`dot -Tcanon`) on every source of the correspondence run. *)
From Coq Require Import String List Bool ZArith QArith Arith.
From DL Require Import Lib.Val Decay.ChainDict Viewer.Graph Viewer.GraphProofs.
Import ListNotations.
Close Scope Q_scope.
Open Scope string_scope.

(* the graph is the root node followed by, for the i-th decay line (depth-first), exactly one node
   dec(k+i) listing that line's daughters in order (ports iff it has a decaying daughter) and exactly one
   edge into it labelled with the line's branching fraction, starting at the root or at the port of an
   earlier node of the same graph; nothing else; identifiers pairwise distinct; counter advanced by the
   number of lines *)
Theorem C15_one_node_one_edge_per_line : forall k c items k', graph_of k c = (items, k') ->
  let lines := pre c in
  k' = k + length lines /\
  (exists rest, items = GN {| n_id := Root; n_cells := [cd_mother c]; n_ports := true |} :: rest /\
     map n_id (nodes_of rest) = ids k (length lines) /\
     map e_dst (edges_of rest) = ids k (length lines) /\
     map ncontent (nodes_of rest) = map content lines /\
     map e_label (edges_of rest) = map cm_bf lines /\
     Forall (fun e => (e_src e = Root /\ e_port e = None) \/
                      (exists j i d, e_src e = Dec j /\ e_port e = Some i /\ e_dst e = Dec d /\ k <= j /\ j < d))
            (edges_of rest)) /\
  NoDup (map n_id (nodes_of items)).
Proof. exact graph_structure. Qed.
Print Assumptions C15_one_node_one_edge_per_line.

Theorem C15_session_unique_ids : forall k c c' items k' items' k'',
  graph_of k c = (items, k') -> graph_of k' c' = (items', k'') ->
  forall r, In r (map n_id (nodes_of items)) -> In r (map n_id (nodes_of items')) -> r = Root.
Proof. exact session_ids_disjoint. Qed.
Print Assumptions C15_session_unique_ids.

Example C15_example :
  let c := CD "A" [CM (1#2) [FSub (CD "B" [CM 1 [FName "x"; FName "y"] []; CM 1 [] []]); FName "z"; FSub (CD "B" [CM 1 [FName "x"] []])] [];
                   CM (1#2) [FName "w"] []] in
  length (pre c) = 5 /\ snd (graph_of 7 c) = 12.
Proof. vm_compute. split; reflexivity. Qed.
