(* C01 — Decay tables read from a .dec file are exactly what the file states.
   The theorems below are first stated about what parse() does with the parsed statement list (model Dec/Post.v), then
   lifted to TEXTS (C01_text_level, over Dec/Whole.v = front-end model of C02 followed by Dec/Post.v): every spelling of every
   layout of a statement list gives exactly the tables the list states.  PARTIAL: the front-end model is tied to Lark by the
   correspondence of C02 (and the cross-check of this property's harness), not by a theorem about Lark. *)
From Coq Require Import String List Bool ZArith QArith.
From DL Require Import Lib.Val Lib.PyDict Decay.ChainDict Dec.Num Dec.Tables Dec.Syntax Dec.Post Dec.PostProofs
  Dec.Layout Dec.ItemParser Dec.FrontEnd Dec.LayoutProofs Dec.ItemParserProofs Dec.FrontEndProofs Dec.Whole Gen.GenLayout.
Import ListNotations.
Close Scope Q_scope.
Open Scope string_scope.

(* one table per distinct mother, in file order of first occurrence, keeping the FIRST block of a
   repeated mother (an empty block is a block: a table with no lines) *)
Theorem C01_one_table_per_mother_first_kept : forall l : list (string * list dline),
  map fst (dedupe [] l) = firsts [] (map fst l) /\ NoDup (map fst (dedupe [] l)) /\
  (forall m, In m (map fst (dedupe [] l)) <-> In m (map fst l)) /\
  (forall m, assoc_first m (dedupe [] l) = assoc_first m l).
Proof. exact dedupe_spec. Qed.
Print Assumptions C01_one_table_per_mother_first_kept.

(* the tables held after parse() are those blocks, every line once, in order, resolved on its own *)
Theorem C01_tables_are_the_blocks : forall ccdb sc f T,
  copies_of f = [] -> parse_post ccdb sc false f = inl T ->
  Forall2 (fun blk t => fst t = fst blk /\
                        Forall2 (fun d l => resolve_line (model_aliases_of f) (defs_of f) d = inl l) (snd blk) (snd t))
          (dedupe [] (raw_decays f)) T.
Proof. exact tables_are_the_blocks. Qed.
Print Assumptions C01_tables_are_the_blocks.

(* a line with a model name: bf = the literal's value, daughters verbatim and in order, PHOTOS flag,
   model name, parameters in order; absent list reported as absent (empty) *)
Theorem C01_line_fields : forall mal defs d n opts, d_model d = MName n opts ->
  resolve_line mal defs d =
  inl {| l_bf := numq (d_bf d); l_fs := d_fs d; l_photos := d_photos d; l_model := n;
         l_params := option_map (map (resolve_param defs)) opts |}.
Proof. exact resolve_line_named. Qed.
Print Assumptions C01_line_fields.

Theorem C01_numeric_parameter : forall defs lit, resolve_param defs (PLit lit) = PNum (numq lit).
Proof. exact resolve_param_literal. Qed.
Theorem C01_word_parameter : forall defs w, pd_get (unsigned w) defs = None -> resolve_param defs (PLabel w) = PWord w.
Proof. exact resolve_param_word. Qed.
Print Assumptions C01_word_parameter.

(* every numeric literal form the grammar accepts, with its value *)
Example C01_literal_forms :
  map numval ["1"; "1."; ".5"; "-0.8"; "+3"; "20.e12"; "2E-4"] =
  [Some (1, true); Some (1, false); Some (1#2, false); Some (-4#5, false); Some (3, true);
   Some (20000000000000, false); Some (1#5000, false)]%Q.
Proof. vm_compute. reflexivity. Qed.

Example C01_example :
  vpost (parse_post (fun n => n) (fun _ => None) true
    [SDecay "A" [{| d_bf := "0.5"; d_fs := ["x~"; "K+"]; d_photos := true; d_model := MName "PHSP" None |}];
     SDecay "B" []; SDecay "A" []])
  = vtables [("A", [{| l_bf := 1#2; l_fs := ["x~"; "K+"]; l_photos := true; l_model := "PHSP"; l_params := None |}]); ("B", [])].
Proof. vm_compute. reflexivity. Qed.
Print Assumptions C01_numeric_parameter.

(* the same about texts: s is any spelling (white space, comments, LF / CR LF) of any layout (blank lines, wrapped parameter
   lists, repeated semicolons, final End) of the statement list f.  Then parsing s succeeds with exactly the tables the
   blocks of f state (first block per mother, lines in order, fields as C01_line_fields). *)
Theorem C01_text_level : forall ccdb sc f its s T,
  file_items (lc_kind gen_cfg) (lc_alts gen_cfg) f its -> spell (lc_label gen_cfg) (lc_ws gen_cfg) its s ->
  copies_of f = [] -> parse_post ccdb sc false f = inl T ->
  parse_dec_text ccdb sc false s = Some (inl T) /\
  Forall2 (fun blk t => fst t = fst blk /\
                        Forall2 (fun d l => resolve_line (model_aliases_of f) (defs_of f) d = inl l) (snd blk) (snd t))
          (dedupe [] (raw_decays f)) T.
Proof.
  intros ccdb sc f its s T F Sp Hc H. split.
  - rewrite (parse_dec_text_layout ccdb sc false f its s F Sp), H. reflexivity.
  - exact (tables_are_the_blocks ccdb sc f T Hc H).
Qed.
Print Assumptions C01_text_level.

(* and through the file-based constructor (several files, BOM, CR LF, End lines) *)
Theorem C01_files_level : forall ccdb sc fs f its T, Forall file_ok fs ->
  file_items (lc_kind gen_cfg) (lc_alts gen_cfg) f its -> spell (lc_label gen_cfg) (lc_ws gen_cfg) its (cat (map kept_text fs)) ->
  parse_post ccdb sc false f = inl T ->
  parse_dec_files ccdb sc false (map file_bytes fs) = Some (inl T).
Proof.
  intros ccdb sc fs f its T Hok F Sp H. rewrite (parse_dec_files_layout ccdb sc false fs f its Hok F Sp), H. reflexivity.
Qed.
Print Assumptions C01_files_level.

(* non-vacuity at text level: an actual text, comments and CR LF included, read to its tables inside the model *)
Example C01_text_example :
  option_map vpost (parse_dec_text (fun n => n) (fun _ => None) true
    ("# a comment" ++ String LF "" ++ "Decay A  # first block" ++ String CR (String LF "")
     ++ "  0.5   x~  K+   PHOTOS PHSP ;" ++ String LF "" ++ "0.25 K+ VSS 1.5" ++ String LF "" ++ "  foo;;" ++ String LF ""
     ++ "Enddecay" ++ String LF "" ++ "Decay B" ++ String LF "" ++ "Enddecay" ++ String LF ""
     ++ "Decay A" ++ String LF "" ++ "Enddecay" ++ String LF "" ++ "End" ++ String LF ""))
  = Some (vtables [("A", [{| l_bf := 1#2; l_fs := ["x~"; "K+"]; l_photos := true; l_model := "PHSP"; l_params := None |};
                          {| l_bf := 1#4; l_fs := ["K+"]; l_photos := false; l_model := "VSS"; l_params := Some [PNum (3#2); PWord "foo"] |}]);
                   ("B", [])]).
Proof. vm_compute. reflexivity. Qed.
