(* C12 — Flattening multiplies branching fractions and keeps exactly the leaves.
   Model: Decay/Flatten.v (the fix-point loop of DecayChain.flatten as written, on Counter
   semantics).  The tree quantities are characterised by their one-step unfolding:
     F k = bf_k * prod_{daughters d of k} F d ^ mult   for every substituted particle k
           (decaying and not designated stable),          F p = 1 otherwise;
     N_x k = sum_{daughters d of k} mult * N_x d,         N_x p = [p = x] otherwise
   (products / sums range over a duplicate-free universe U containing the decaying particles).
   For an acyclic chain these equations have exactly one solution (the product over the tree,
   each decay counted as often as it occurs; the number of leaves x).
   The first theorems speak about every run that returns (FOk); C12_terminates shows that the loop returns for
   every acyclic chain (fuel above the rank of the mother suffices) — together: total correctness. *)
From Coq Require Import String List Bool ZArith QArith Qcanon.
From Coq Require Import Arith Lia.
From DL Require Import Lib.Val Lib.PyDict Lib.Monoid Decay.Conj Decay.Flatten Decay.FlattenProofs Decay.FlattenTermination.
Import ListNotations.
Close Scope Q_scope.
Open Scope string_scope.

Theorem C12_branching_fraction :
  forall c stable fuel r, flatten fuel c stable = FOk r ->
  (forall k m, pd_get k (c_decays c) = Some m -> NoDup (pd_keys (m_fs m))) ->
  forall U, NoDup U -> (forall k, In k (pd_keys (c_decays c)) -> In k U) ->
  forall F : string -> Qc,
  (forall k m, substituted c stable k -> pd_get k (c_decays c) = Some m ->
       F k = (Q2Qc (m_bf m) * val Qc Qcmult 1%Qc U F (G (m_fs m)))%Qc) ->
  (forall p, ~ substituted c stable p -> F p = 1%Qc) ->
  forall top, pd_get (c_mother c) (c_decays c) = Some top ->
  Q2Qc (m_bf r) = (Q2Qc (m_bf top) * val Qc Qcmult 1%Qc U F (G (m_fs top)))%Qc.
Proof. exact flatten_bf. Qed.
Print Assumptions C12_branching_fraction.

Theorem C12_final_state :
  forall c stable fuel r, flatten fuel c stable = FOk r ->
  (forall k m, pd_get k (c_decays c) = Some m -> NoDup (pd_keys (m_fs m))) ->
  forall U, NoDup U -> (forall k, In k (pd_keys (c_decays c)) -> In k U) ->
  forall (x : string) (N : string -> nat), In x U ->
  (forall k m, substituted c stable k -> pd_get k (c_decays c) = Some m ->
       N k = val nat plus 0 U N (G (m_fs m))) ->
  (forall p, ~ substituted c stable p -> N p = if String.eqb p x then 1 else 0) ->
  forall top, pd_get (c_mother c) (c_decays c) = Some top ->
  dd_get x (m_fs r) = val nat plus 0 U N (G (m_fs top)).
Proof. exact flatten_count. Qed.
Print Assumptions C12_final_state.

Theorem C12_model_information_kept :
  forall c stable fuel r, flatten fuel c stable = FOk r ->
  forall top, pd_get (c_mother c) (c_decays c) = Some top ->
  m_meta r = pd_update default_meta (m_meta top).
Proof. exact flatten_meta. Qed.
Print Assumptions C12_model_information_kept.

(* the order in which the sub-decays are supplied does not matter *)
Theorem C12_order_independent :
  forall c c' stable fuel fuel' r r' U (F : string -> Qc),
  c_mother c = c_mother c' -> same_map (c_decays c) (c_decays c') ->
  flatten fuel c stable = FOk r -> flatten fuel' c' stable = FOk r' ->
  (forall k m, pd_get k (c_decays c) = Some m -> NoDup (pd_keys (m_fs m))) ->
  NoDup U -> (forall k, In k (pd_keys (c_decays c)) -> In k U) ->
  (forall k m, substituted c stable k -> pd_get k (c_decays c) = Some m ->
       F k = (Q2Qc (m_bf m) * val Qc Qcmult 1%Qc U F (G (m_fs m)))%Qc) ->
  (forall p, ~ substituted c stable p -> F p = 1%Qc) ->
  Q2Qc (m_bf r) = Q2Qc (m_bf r').
Proof. exact flatten_order_independent. Qed.
Print Assumptions C12_order_independent.

(* the substituted particles are the decaying ones that are not designated stable *)
Theorem C12_keys :
  forall c stable keys, flatten_keys c stable = Some keys ->
  forall k, In k keys <-> (In k (pd_keys (c_decays c)) /\ ~ In k stable).
Proof. exact flatten_keys_spec. Qed.
Print Assumptions C12_keys.

(* non-vacuity: D0 -> K_S0 pi0 pi0, K_S0 -> pi+ pi-, pi0 -> gamma gamma; all hypotheses met by an explicit F *)
Definition ex_chain : chain :=
  {| c_mother := "D0";
     c_decays := [("pi0", mk_mode (98 # 100) (dd_of_list ["gamma"; "gamma"]) []);
                  ("D0", mk_mode (1 # 10) (dd_of_list ["pi0"; "K_S0"; "pi0"]) [("model", VStr "PHSP")]);
                  ("K_S0", mk_mode (7 # 10) (dd_of_list ["pi+"; "pi-"]) [])] |}.
Example C12_example_run :
  exists r, flatten 10 ex_chain [] = FOk r /\
            Qeq (m_bf r) (16807 # 250000) /\
            dd_to_list (m_fs r) = ["gamma"; "gamma"; "gamma"; "gamma"; "pi+"; "pi-"] /\
            m_meta r = [("model", VStr "PHSP"); ("model_params", VStr "")].
Proof. eexists. split; [vm_compute; reflexivity|]. vm_compute. repeat split. Qed.

(* termination: for an acyclic chain (a rank that decreases from every substituted particle to its substituted daughters) the
   fix-point loop returns within (rank of the mother) + 1 passes: flatten never runs out of fuel, so with C12_branching_fraction /
   C12_final_state the result is the product over the tree and exactly its leaves — total correctness *)
Theorem C12_terminates :
  forall c stable (rank : string -> nat),
  (forall k m, pd_get k (c_decays c) = Some m -> NoDup (pd_keys (m_fs m))) ->
  (forall k m d, substituted c stable k -> pd_get k (c_decays c) = Some m -> substituted c stable d ->
                 0 < dd_get d (m_fs m) -> rank d < rank k) ->
  forall fuel, rank (c_mother c) < fuel -> flatten fuel c stable <> FOutOfFuel.
Proof. exact flatten_terminates. Qed.
Print Assumptions C12_terminates.

Definition ex_rank (s : string) : nat := if String.eqb s "D0" then 1 else 0.
Example C12_example_terminates : flatten 2 ex_chain [] <> FOutOfFuel.
Proof.
  apply (C12_terminates ex_chain [] ex_rank); [| |vm_compute; lia].
  - intros k m H. cbn in H.
    destruct (String.eqb k "pi0"); [injection H as <-; vm_compute; repeat constructor; cbn; intuition discriminate|].
    destruct (String.eqb k "D0"); [injection H as <-; vm_compute; repeat constructor; cbn; intuition discriminate|].
    destruct (String.eqb k "K_S0"); [injection H as <-; vm_compute; repeat constructor; cbn; intuition discriminate|discriminate].
  - intros k m d _ H Hsub Hpos. destruct Hsub as [Hd _]. cbn in H, Hd.
    assert (Dk : d = "pi0" \/ d = "D0" \/ d = "K_S0") by (destruct Hd as [E|[E|[E|E]]]; [auto|auto|auto|destruct E]).
    destruct (String.eqb_spec k "pi0") as [Ek|_]; [subst k; injection H as <-; destruct Dk as [E|[E|E]]; subst d; vm_compute in Hpos; lia|].
    destruct (String.eqb_spec k "D0") as [Ek|_]; [subst k; injection H as <-; destruct Dk as [E|[E|E]]; subst d; vm_compute in Hpos |- *; lia|].
    destruct (String.eqb_spec k "K_S0") as [Ek|_]; [subst k; injection H as <-; destruct Dk as [E|[E|E]]; subst d; vm_compute in Hpos; lia|discriminate].
Qed.
