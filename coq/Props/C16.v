(* C16 — Printed decay-mode tables show every mode once, correctly ordered and scaled.
   Model: Dec/Print.v.  The 7-significant-digit text of each number is CPython's; the model carries the
   exact value (checked against the printed text by the correspondence). *)
From Coq Require Import String List Bool ZArith QArith Permutation.
From DL Require Import Lib.Val Dec.Print Dec.PrintProofs.
Import ListNotations.
Close Scope Q_scope.
Open Scope string_scope.

(* one row per decay line; ordered by branching fraction in the requested direction; among equal
   values the file order is kept *)
Theorem C16_rows_ordered : forall o lines rows, print_rows o (Some lines) = POk rows ->
  map r_src rows = sort_lines (dir_le (o_ascending o)) lines /\
  Permutation (map r_src rows) lines /\
  ordered (dir_le (o_ascending o)) (map r_src rows) /\
  (forall k, filter (fun x => Qeq_bool (p_bf x) k) (map r_src rows) = filter (fun x => Qeq_bool (p_bf x) k) lines).
Proof. exact rows_are_the_lines. Qed.
Print Assumptions C16_rows_ordered.

Theorem C16_common_factor : forall o lines rows, print_rows o (Some lines) = POk rows ->
  exists n, (rows = [] \/ ~ (n == 0)%Q) /\ forall r, In r rows -> r_shown r = (p_bf (r_src r) / n)%Q.
Proof. exact rows_common_factor. Qed.
Print Assumptions C16_common_factor.

Theorem C16_plain : forall o lines rows, o_normalize o = false -> o_scale o = None ->
  print_rows o (Some lines) = POk rows -> forall r, In r rows -> (r_shown r == p_bf (r_src r))%Q.
Proof. exact plain_unchanged. Qed.
Print Assumptions C16_plain.

Theorem C16_normalized : forall o lines rows, o_normalize o = true -> rows <> [] ->
  print_rows o (Some lines) = POk rows -> (shown_sum rows == 1)%Q.
Proof. exact normalized_sum_is_one. Qed.
Print Assumptions C16_normalized.

Theorem C16_scaled : forall o lines rows s, o_normalize o = false -> o_scale o = Some s -> rows <> [] ->
  print_rows o (Some lines) = POk rows ->
  exists big, In big lines /\ (forall x, In x lines -> (p_bf x <= p_bf big)%Q) /\
    ~ (p_bf big == 0)%Q /\ ~ (s == 0)%Q /\
    forall r, In r rows -> (r_shown r == p_bf (r_src r) * (s / p_bf big))%Q.
Proof. exact scaled_to_largest. Qed.
Print Assumptions C16_scaled.

Theorem C16_refused : forall o t s, o_scale o = Some s ->
  (o_normalize o = true \/ ~ (0 < s /\ s <= 1)%Q) -> print_rows o t = PErr "RuntimeError".
Proof.
  intros o t s Hs [Hn|Hk]; apply (refused o t s Hs); [left; assumption | right].
  destruct (scale_ok s) eqn:E; [|reflexivity]. apply scale_ok_iff in E. contradiction.
Qed.
Print Assumptions C16_refused.

Example C16_example :
  show (vpres (print_rows {| o_print_model := false; o_photos_kw := true; o_ascending := true; o_normalize := false; o_scale := Some 1%Q |}
        (Some [{| p_bf := (1#2)%Q; p_fs := ["a"]; p_photos := false; p_model := "PHSP"; p_params := [] |};
               {| p_bf := (1#5)%Q; p_fs := ["b"]; p_photos := false; p_model := "PHSP"; p_params := [] |};
               {| p_bf := (3#10)%Q; p_fs := ["c"]; p_photos := false; p_model := "PHSP"; p_params := [] |}])))
  = "[[{""q"":[2,5]},""   b""],[{""q"":[3,5]},""   c""],[{""q"":[1,1]},""   a""]]".
Proof. vm_compute. reflexivity. Qed.
