(* C16 — Printed decay-mode tables show every mode once, correctly ordered and scaled.
   Model: Dec/Print.v (rows, order, scaling over exact rationals) and Dec/Fmt7.v ("{:.7g}": seven significant digits,
   correctly rounded, ties to even, fixed / exponent notation, trailing zeros removed).  The float arithmetic before the
   formatting is modelled as well (Dec/Fl64.v: binary64 round-to-nearest-even on exact rationals for float(literal) and "/",
   CPython 3.12's compensated sum()): the check compares the printed text of every number with the ONE text the model computes
   (and still requires it to be within 2^-46 of the ideal value, for which the ordering / scaling theorems are stated). *)
From Coq Require Import String List Bool ZArith QArith Permutation.
From DL Require Import Lib.Val Dec.Print Dec.PrintProofs Dec.Num Dec.Fmt7 Dec.Fmt7Proofs Dec.Fl64 Dec.Fl64Proofs.
Import ListNotations.
Close Scope Q_scope.
Open Scope string_scope.

(* one row per decay line; ordered by branching fraction in the requested direction; among equal
   values the file order is kept *)
Theorem C16_rows_ordered : forall o lines rows, print_rows o (Some lines) = POk rows ->
  map r_src rows = sort_lines (dir_le (o_ascending o)) lines /\
  Permutation (map r_src rows) lines /\
  ordered (dir_le (o_ascending o)) (map r_src rows) /\
  (forall k, filter (fun x => Qeq_bool (p_bf x) k) (map r_src rows) = filter (fun x => Qeq_bool (p_bf x) k) lines).
Proof. exact rows_are_the_lines. Qed.
Print Assumptions C16_rows_ordered.

Theorem C16_common_factor : forall o lines rows, print_rows o (Some lines) = POk rows ->
  exists n, (rows = [] \/ ~ (n == 0)%Q) /\ forall r, In r rows -> r_shown r = (p_bf (r_src r) / n)%Q.
Proof. exact rows_common_factor. Qed.
Print Assumptions C16_common_factor.

Theorem C16_plain : forall o lines rows, o_normalize o = false -> o_scale o = None ->
  print_rows o (Some lines) = POk rows -> forall r, In r rows -> (r_shown r == p_bf (r_src r))%Q.
Proof. exact plain_unchanged. Qed.
Print Assumptions C16_plain.

Theorem C16_normalized : forall o lines rows, o_normalize o = true -> rows <> [] ->
  print_rows o (Some lines) = POk rows -> (shown_sum rows == 1)%Q.
Proof. exact normalized_sum_is_one. Qed.
Print Assumptions C16_normalized.

Theorem C16_scaled : forall o lines rows s, o_normalize o = false -> o_scale o = Some s -> rows <> [] ->
  print_rows o (Some lines) = POk rows ->
  exists big, In big lines /\ (forall x, In x lines -> (p_bf x <= p_bf big)%Q) /\
    ~ (p_bf big == 0)%Q /\ ~ (s == 0)%Q /\
    forall r, In r rows -> (r_shown r == p_bf (r_src r) * (s / p_bf big))%Q.
Proof. exact scaled_to_largest. Qed.
Print Assumptions C16_scaled.

Theorem C16_refused : forall o t s, o_scale o = Some s ->
  (o_normalize o = true \/ ~ (0 < s /\ s <= 1)%Q) -> print_rows o t = PErr "RuntimeError".
Proof.
  intros o t s Hs [Hn|Hk]; apply (refused o t s Hs); [left; assumption | right].
  destruct (scale_ok s) eqn:E; [|reflexivity]. apply scale_ok_iff in E. contradiction.
Qed.
Print Assumptions C16_refused.

Example C16_example :
  show (vpres (print_rows {| o_print_model := false; o_photos_kw := true; o_ascending := true; o_normalize := false; o_scale := Some 1%Q |}
        (Some [{| p_bf := (1#2)%Q; p_fs := ["a"]; p_photos := false; p_model := "PHSP"; p_params := [] |};
               {| p_bf := (1#5)%Q; p_fs := ["b"]; p_photos := false; p_model := "PHSP"; p_params := [] |};
               {| p_bf := (3#10)%Q; p_fs := ["c"]; p_photos := false; p_model := "PHSP"; p_params := [] |}])))
  = "[[{""q"":[2,5]},""   b"",[""0.4"",""0.4"",""0.4""]],[{""q"":[3,5]},""   c"",[""0.6"",""0.6"",""0.6""]],[{""q"":[1,1]},""   a"",[""1"",""1"",""1""]]]".
Proof. vm_compute. reflexivity. Qed.

(* ------------------------------------------------------------------ "{:.7g}": the number as shown *)
(* seven significant digits, correctly rounded: for x = a/b > 0 the digits n and the exponent e chosen satisfy 10^6 <= n < 10^7 and
   n (times 10 when rounding carried into an eighth digit) is x * 10^(6-e0) rounded to the nearest integer — within half a unit of the
   seventh digit (e0: the decimal exponent of x, scaled a b e0 = (p, q) is that product as a fraction) *)
Theorem C16_seven_digits_correctly_rounded : forall a b n e, (0 < a)%Z -> (0 < b)%Z -> sci7 a b = Some (n, e) ->
  (10 ^ 6 <= n < 10 ^ 7)%Z /\
  exists e0 p q c, scaled a b e0 = (p, q) /\ (0 < q)%Z /\ (10 ^ 6 * q <= p < 10 ^ 7 * q)%Z /\
                   (c = 1 \/ c = 10)%Z /\ e = (e0 + (if (c =? 1)%Z then 0 else 1))%Z /\ (2 * Z.abs (p - q * (n * c)) <= q)%Z.
Proof. exact sci7_spec. Qed.
Print Assumptions C16_seven_digits_correctly_rounded.

(* the text printed for (n, e) — fixed or exponent notation, trailing zeros removed — is a numeric literal of the .dec grammar
   (Dec/Num.v, the reader C01 uses) and its value is exactly n * 10^(e-6) *)
Theorem C16_shown_text_denotes_the_rounded_value : forall n e, (10 ^ 6 <= n < 10 ^ 7)%Z -> (-1000 < e < 1000)%Z ->
  is_num (fmt_sci n e) = true /\ (numq (fmt_sci n e) == inject_Z n * pow10 (e - 6))%Q.
Proof. exact fmt_sci_value. Qed.
Print Assumptions C16_shown_text_denotes_the_rounded_value.

Example C16_g7_examples :
  fmt_g7 (1 # 2) = "0.5" /\ fmt_g7 (750469 # 10000000) = "0.0750469" /\ fmt_g7 (1 # 100000) = "1e-05" /\
  fmt_g7 (99999995 # 10) = "1e+07" /\ fmt_g7 (12345675 # 10) = "1234568" /\ fmt_g7 (12345665 # 10) = "1234566" /\ fmt_g7 0 = "0".
Proof. vm_compute. repeat split. Qed.

(* the floats behind the numbers: rnd64 a b (the model of float(literal) and of every "+", "-", "/" on floats) is the binary64
   nearest to a/b — a 53-bit significand m and an exponent in the normal range, m (times 2 after a carry into a 54th bit) being
   a/b scaled into [2^52, 2^53) and rounded to the nearest integer, ties to even *)
Theorem C16_floats_correctly_rounded : forall a b m k, (0 < a)%Z -> (0 < b)%Z -> rnd64 a b = Some (m, k) ->
  (2 ^ 52 <= m < 2 ^ 53)%Z /\ (-1074 <= k <= 971)%Z /\
  exists e0 p q c, scaled2 a b e0 = (p, q) /\ (0 < q)%Z /\ (2 ^ 52 * q <= p < 2 ^ 53 * q)%Z /\
                   (c = 1 \/ c = 2)%Z /\ k = (e0 - 52 + (if c =? 1 then 0 else 1))%Z /\ (2 * Z.abs (p - q * (m * c)) <= q)%Z.
Proof. exact rnd64_spec. Qed.
Print Assumptions C16_floats_correctly_rounded.

(* hence every conversion and every arithmetic step is off by at most 2^-53 relatively (stated on the scaled fraction) *)
Theorem C16_float_relative_error : forall a b m k, (0 < a)%Z -> (0 < b)%Z -> rnd64 a b = Some (m, k) ->
  exists e0 p q c, scaled2 a b e0 = (p, q) /\ (0 < q)%Z /\ (c = 1 \/ c = 2)%Z /\ k = (e0 - 52 + (if c =? 1 then 0 else 1))%Z /\
                   (2 ^ 53 * Z.abs (p - q * (m * c)) <= p)%Z.
Proof. exact rnd64_relative_error. Qed.
Print Assumptions C16_float_relative_error.

(* the numbers of a normalised table as CPython 3.12 shows them: float(literal), compensated sum, division, "{:.7g}" *)
Example C16_float_example :
  shown_texts {| o_print_model := false; o_photos_kw := false; o_ascending := false; o_normalize := true; o_scale := None |}
    (Some [{| p_bf := 1 # 10; p_fs := ["a"]; p_photos := false; p_model := "PHSP"; p_params := [] |};
           {| p_bf := 2 # 10; p_fs := ["b"]; p_photos := false; p_model := "PHSP"; p_params := [] |};
           {| p_bf := 3 # 10; p_fs := ["c"]; p_photos := false; p_model := "PHSP"; p_params := [] |}])
  = Some ["0.5"; "0.3333333"; "0.1666667"].
Proof. vm_compute. reflexivity. Qed.
