(* C10 — Expanding decay modes enumerates every complete decay path exactly once.
   `expand` is the model of _expand_decay_modes on a chain dictionary (any chain dictionary, in
   particular the ones `build` of C09 produces); `vpath` is the specification of a complete decay
   path; `paths` its enumeration; `count` the sum-of-products formula. *)
From Coq Require Import String List Bool ZArith QArith Arith.
From DL Require Import Lib.Val Lib.PyDict Lib.Sort Fmt.DescFormat Decay.ChainDict Decay.ExpandProofs.
Import ListNotations.
Close Scope Q_scope.
Open Scope string_scope.

(* the returned list is, in order, the rendering of the enumerated paths: nesting, names and
   multiplicities (sorted daughters), every decaying alias shown under the particle it aliases *)
Theorem C10_descriptors_are_paths :
  forall cfg al c top, expand cfg al top c = map (render_path cfg al top) (paths c).
Proof. exact expand_paths. Qed.
Print Assumptions C10_descriptors_are_paths.

(* every complete path (one line for the mother and recursively one for every daughter that has
   lines; daughters without lines — also via an empty block — are stable) is enumerated, and nothing else *)
Theorem C10_complete_and_sound : forall c t, In t (paths c) <-> vpath c t.
Proof. exact in_paths_iff. Qed.
Print Assumptions C10_complete_and_sound.

Theorem C10_exactly_once : forall c, NoDup (paths c).
Proof. exact paths_nodup. Qed.
Print Assumptions C10_exactly_once.

Theorem C10_length : forall cfg al c top, length (expand cfg al top c) = count c.
Proof. intros. rewrite expand_paths, map_length. apply paths_count. Qed.
Print Assumptions C10_length.

(* non-vacuity: an empty block (S) is a stable daughter; two lines for X *)
Definition exC : cdict :=
  CD "M" [CM (1#2) [FSub (CD "S" []); FSub (CD "X" [CM 1 [FName "a"; FName "b"] []; CM 1 [FName "c"] []])] [];
          CM (1#2) [FName "y"] []].
Example C10_example :
  expand default_cfg [("X", "x0")] true exC = ["M -> (x0 -> a b) S"; "M -> (x0 -> c) S"; "M -> y"] /\ count exC = 3.
Proof. vm_compute. split; reflexivity. Qed.
