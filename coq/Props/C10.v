(* C10 — Expanding decay modes enumerates every complete decay path exactly once.
   `expand` is the model of _expand_decay_modes on a chain dictionary (any chain dictionary, in
   particular the ones `build` of C09 produces); `vpath` is the specification of a complete decay
   path; `paths` its enumeration; `count` the sum-of-products formula. *)
From Coq Require Import String List Bool ZArith QArith Arith Lia.
From DL Require Import Lib.Val Lib.PyDict Lib.Sort Fmt.DescFormat Decay.ChainDict Decay.ExpandProofs Dec.Tables Dec.ChainsProofs Dec.Syntax Dec.Post
  Dec.Layout Dec.ItemParser Dec.FrontEnd Dec.LayoutProofs Dec.ItemParserProofs Dec.FrontEndProofs Dec.Whole Dec.Pipeline Gen.GenLayout.
Import ListNotations.
Close Scope Q_scope.
Open Scope string_scope.

(* the returned list is, in order, the rendering of the enumerated paths: nesting, names and
   multiplicities (sorted daughters), every decaying alias shown under the particle it aliases *)
Theorem C10_descriptors_are_paths :
  forall cfg al c top, expand cfg al top c = map (render_path cfg al top) (paths c).
Proof. exact expand_paths. Qed.
Print Assumptions C10_descriptors_are_paths.

(* every complete path (one line for the mother and recursively one for every daughter that has
   lines; daughters without lines — also via an empty block — are stable) is enumerated, and nothing else *)
Theorem C10_complete_and_sound : forall c t, In t (paths c) <-> vpath c t.
Proof. exact in_paths_iff. Qed.
Print Assumptions C10_complete_and_sound.

Theorem C10_exactly_once : forall c, NoDup (paths c).
Proof. exact paths_nodup. Qed.
Print Assumptions C10_exactly_once.

Theorem C10_length : forall cfg al c top, length (expand cfg al top c) = count c.
Proof. intros. rewrite expand_paths, map_length. apply paths_count. Qed.
Print Assumptions C10_length.

(* non-vacuity: an empty block (S) is a stable daughter; two lines for X *)
Definition exC : cdict :=
  CD "M" [CM (1#2) [FSub (CD "S" []); FSub (CD "X" [CM 1 [FName "a"; FName "b"] []; CM 1 [FName "c"] []])] [];
          CM (1#2) [FName "y"] []].
Example C10_example :
  expand default_cfg [("X", "x0")] true exC = ["M -> (x0 -> a b) S"; "M -> (x0 -> c) S"; "M -> y"] /\ count exC = 3.
Proof. vm_compute. split; reflexivity. Qed.

(* THE WHOLE PIPELINE, from the text to the descriptor list (Dec/Pipeline.v: front end, parse(), build_decay_chains,
   expand_decay_modes).  s is any spelling of any layout of the statement list f, T the tables parse() makes of it (acyclic), m a
   mother with a table.  The list returned for m is, in order, the rendering of the complete decay paths through the
   unfolding c of T at m — each once, their number given by the sum-of-products formula, aliases of f shown as the
   particle they alias. *)
Theorem C10_text_level : forall ccdb sc f its s T rank m,
  file_items (lc_kind gen_cfg) (lc_alts gen_cfg) f its -> spell (lc_label gen_cfg) (lc_ws gen_cfg) its s ->
  parse_post ccdb sc true f = inl T -> acyclic T [] rank -> find_table m T <> None ->
  exists c, unfolds T [] m c /\
            text_descriptors ccdb sc (rank m + 2) s m
            = vstrs (map (render_path default_cfg (aliases_of f) true) (paths c)) /\
            NoDup (paths c) /\ (forall t, In t (paths c) <-> vpath c t) /\ length (paths c) = count c.
Proof.
  intros ccdb sc f its s T rank m F Sp HT Hac Hf.
  assert (Er : read_dec ccdb sc s = Some (f, T)).
  { unfold read_dec. rewrite (parse_text_layout gen_cfg f its s whole_photos_plain F Sp), HT. reflexivity. }
  pose proof (build_terminates T [] rank Hac (rank m + 2) m ltac:(lia)) as Ht.
  destruct (build (rank m + 2) T [] m) as [[c|]|] eqn:E; [| |congruence].
  - exists c. split; [exact (build_sound T [] _ _ _ E)|]. split.
    + unfold text_descriptors. rewrite Er, E, expand_paths. reflexivity.
    + split; [apply paths_nodup|]. split; [intro t; apply in_paths_iff | apply paths_count].
  - exfalso. replace (rank m + 2) with (Datatypes.S (rank m + 1)) in E by lia. apply build_not_found in E. contradiction.
Qed.
Print Assumptions C10_text_level.

(* non-vacuity: an actual text (an alias, a comment, CR LF, a wrapped parameter list) through the whole pipeline *)
Example C10_pipeline_example :
  let nl := String LF "" in
  show (text_descriptors (fun n => n) (fun _ => None) 10
    ("Alias MyD0 D0" ++ String CR nl ++ "Decay D*+  # two lines" ++ nl ++ "0.7 MyD0 pi+ VSS;" ++ nl ++ "0.3 D+ pi0 HELAMP 1.0" ++ nl ++ " 0.0;" ++ nl ++
     "Enddecay" ++ nl ++ "Decay MyD0" ++ nl ++ "0.5 K- pi+ PHSP;" ++ nl ++ "0.5 K- pi+ pi0 PHSP;" ++ nl ++ "Enddecay" ++ nl ++ "End" ++ nl) "D*+")
  = show (vstrs ["D*+ -> (D0 -> K- pi+) pi+"; "D*+ -> (D0 -> K- pi+ pi0) pi+"; "D*+ -> D+ pi0"]).
Proof. vm_compute. reflexivity. Qed.
