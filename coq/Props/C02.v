(* placeholder while the harness is being brought up: statements follow *)
From Coq Require Import String List.
From DL Require Import Dec.FrontEnd Gen.GenLayout.
