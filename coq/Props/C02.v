(* C02 — Layout, comments, line ends and file packaging never change what is parsed.

   Model: Dec/Layout.v (the constructor's text assembly; the scanner), Dec/ItemParser.v (the statement automaton),
   Dec/FrontEnd.v (their composition parse_text / parse_files), over the REGENERATED configuration Gen/GenLayout.v
   (character classes of LABEL and WS_INLINE, MODEL_NAME alternation, the encoding files are opened with).

   "Two inputs that differ only in layout" is made precise by two relations:
     spell its s        — the text s spells the item list its: any white space between items (none needed next to a
                          separator), every line end written LF or CR LF, comments (one more line end each) before a line
                          end or at the end of the text;
     file_items ss its  — the item list is a layout of the statement list ss: any number of line ends before, between and
                          after statements and decay lines, line ends and commas anywhere inside a started parameter list,
                          repeated semicolons, an optional final End line.
   Every query of DecFileParser is computed from the parsed statements (models: Dec/Post.v, Dec/Queries.v, Dec/Tables.v ...),
   so equality of the statement lists is equality of every answer (C02_every_query).

   PARTIAL: (1) the scanner/automaton are a hand-written model of Lark's contextual lexer + LALR driver, tied by the
   correspondence of py/c02.py (model vs the tree Lark builds, on every generated and fixture text), not by a theorem;
   (2) words the lexer would cut in two are outside the modelled domain (the hypotheses param_ok / plain / is_num exclude them);
   (3) the hypothesis of C02_packaging is stated on the kept lines of the files; that dropping End lines is harmless is
   FALSE for one input shape — a parameter that is the word End alone on a wrapped line (finding F16b, refuted below).  *)
From Coq Require Import String Ascii List Bool Arith.
From DL Require Import Dec.ModelName Dec.Num Dec.Syntax Dec.Layout Dec.ItemParser Dec.FrontEnd
                       Dec.LayoutProofs Dec.ItemParserProofs Dec.FrontEndProofs Gen.GenLayout.
Import ListNotations.
Open Scope string_scope.

(* ---- (T) the facts the proofs use about the regenerated configuration ---- *)
Fixpoint forall_chars (f : ascii -> bool) (s : string) : bool :=
  match s with EmptyString => true | String c r => f c && forall_chars f r end.
Definition is_class (c : lexcfg) (k : cclass) (ch : ascii) : bool :=
  match classify (lc_label c) (lc_ws c) ch, k with
  | CLabel, CLabel | CWs, CWs | CHash, CHash | CLf, CLf | CCr, CCr | CSemi, CSemi | CComma, CComma | CColon, CColon | CEq, CEq | COther, COther => true
  | _, _ => false
  end.
Definition cfg_ok (c : lexcfg) : bool :=
  forall_chars (is_class c CLabel) "abcdefghijklmnopqrstuvwxyzABCDEFGHIJKLMNOPQRSTUVWXYZ0123456789/-+*_().'~"
  && is_class c CWs " " && is_class c CWs TAB && is_class c CHash "#" && is_class c CLf LF && is_class c CCr CR
  && is_class c CSemi ";" && is_class c CComma "," && is_class c CColon ":" && is_class c CEq "="
  && match mclass (lc_kind c) (lc_alts c) "PHOTOS" with WPlain => true | _ => false end
  && match mclass (lc_kind c) (lc_alts c) "PHSP" with WModel => true | _ => false end
  && lc_sig c.

Theorem C02_config : cfg_ok gen_cfg = true.
Proof. vm_compute. reflexivity. Qed.

Lemma gen_photos_plain : plain (lc_kind gen_cfg) (lc_alts gen_cfg) "PHOTOS".
Proof. vm_compute. reflexivity. Qed.
Lemma gen_sig : lc_sig gen_cfg = true.
Proof. reflexivity. Qed.
Lemma gen_lf : classify (lc_label gen_cfg) (lc_ws gen_cfg) LF = CLf.
Proof. vm_compute. reflexivity. Qed.

(* ---- the property ---- *)

(* every spelling of every layout of a statement list is read back as exactly that list (string-based construction) *)
Theorem C02_layout : forall ss its s,
  file_items (lc_kind gen_cfg) (lc_alts gen_cfg) ss its -> spell (lc_label gen_cfg) (lc_ws gen_cfg) its s ->
  parse_text gen_cfg s = Some ss.
Proof. intros ss its s. exact (parse_text_layout gen_cfg ss its s gen_photos_plain). Qed.

(* ... hence two inputs that differ only in layout give the same statements *)
Theorem C02_layout_invariance : forall ss its1 its2 s1 s2,
  file_items (lc_kind gen_cfg) (lc_alts gen_cfg) ss its1 -> spell (lc_label gen_cfg) (lc_ws gen_cfg) its1 s1 ->
  file_items (lc_kind gen_cfg) (lc_alts gen_cfg) ss its2 -> spell (lc_label gen_cfg) (lc_ws gen_cfg) its2 s2 ->
  parse_text gen_cfg s1 = parse_text gen_cfg s2.
Proof. intros ss its1 its2 s1 s2 F1 S1 F2 S2. rewrite (C02_layout _ _ _ F1 S1), (C02_layout _ _ _ F2 S2). reflexivity. Qed.

(* ... and the same answer to every query, a query being any function of the parsed statements *)
Theorem C02_every_query : forall (A : Type) (query : list stmt -> A) ss its1 its2 s1 s2,
  file_items (lc_kind gen_cfg) (lc_alts gen_cfg) ss its1 -> spell (lc_label gen_cfg) (lc_ws gen_cfg) its1 s1 ->
  file_items (lc_kind gen_cfg) (lc_alts gen_cfg) ss its2 -> spell (lc_label gen_cfg) (lc_ws gen_cfg) its2 s2 ->
  option_map query (parse_text gen_cfg s1) = option_map query (parse_text gen_cfg s2).
Proof. intros A q ss its1 its2 s1 s2 F1 S1 F2 S2. rewrite (C02_layout_invariance _ _ _ _ _ F1 S1 F2 S2). reflexivity. Qed.

(* file-based construction: what the constructor hands to the parser is, file by file, the lines that are not End lines, each
   closed by LF, plus one LF — whatever the byte-order marks, CR LF / LF line ends and missing final line ends of the files *)
Theorem C02_constructor : forall fs, Forall file_ok fs ->
  assemble_cfg gen_cfg (map file_bytes fs) = cat (map kept_text fs).
Proof. intros fs. exact (assemble_shape gen_cfg fs gen_sig). Qed.

(* ... so the files give the statement list of which their kept lines spell a layout *)
Theorem C02_packaging : forall fs ss its, Forall file_ok fs ->
  file_items (lc_kind gen_cfg) (lc_alts gen_cfg) ss its -> spell (lc_label gen_cfg) (lc_ws gen_cfg) its (cat (map kept_text fs)) ->
  parse_files gen_cfg (map file_bytes fs) = Some ss.
Proof. intros fs ss its. exact (parse_files_layout gen_cfg fs ss its gen_sig gen_photos_plain). Qed.

(* ... and what one file contributes does not depend on the files around it *)
Theorem C02_files_independent : forall t1 t2,
  scan_text gen_cfg ((t1 ++ String LF "") ++ t2) = (scan_text gen_cfg (t1 ++ String LF "") ++ scan_text gen_cfg t2)%list.
Proof. exact (scan_kept gen_cfg gen_lf). Qed.

(* layouts of bodies concatenate (statements split over files at any statement boundary) *)
Theorem C02_split : forall s1 i1 s2 i2,
  body_items (lc_kind gen_cfg) (lc_alts gen_cfg) s1 i1 -> body_items (lc_kind gen_cfg) (lc_alts gen_cfg) s2 i2 ->
  body_items (lc_kind gen_cfg) (lc_alts gen_cfg) (s1 ++ s2) (i1 ++ i2).
Proof. exact (body_items_app (lc_kind gen_cfg) (lc_alts gen_cfg)). Qed.

(* F16b: dropping End lines is NOT harmless when a parameter is the word End alone on a wrapped line: the same content, as a
   string and as a file, gives different statements *)
Definition f16b_text : string :=
  "Decay B0" ++ String LF "1.0 K+ pi- HELAMP a" ++ String LF "End" ++ String LF "2.0;" ++ String LF "Enddecay" ++ String LF "".
Theorem C02_end_parameter_refuted : parse_text gen_cfg f16b_text <> parse_files gen_cfg [f16b_text].
Proof. vm_compute. discriminate. Qed.

(* ---- non-vacuity ---- *)
Definition ex_ss : list stmt :=
  [SAlias "a" "b";
   SDecay "B0" [{| d_bf := "1.0"; d_fs := ["K+"; "pi-"]; d_photos := true; d_model := MName "PHSP" (Some [PLit "1.0"; PLabel "x"]) |}]].
Definition ex_its : list item :=
  [INl; IWord "Alias"; IWord "a"; IWord "b"; INl; INl;
   IWord "Decay"; IWord "B0"; INl; IWord "1.0"; IWord "K+"; IWord "pi-"; IWord "PHOTOS"; IWord "PHSP"; IWord "1.0"; IComma; INl; IWord "x"; ISemi; ISemi; INl;
   IWord "Enddecay"; INl; IWord "End"; INl].
Example ex_layout : file_items (lc_kind gen_cfg) (lc_alts gen_cfg) ex_ss ex_its.
Proof.
  refine (fi_end _ _ 1 ex_ss
    [IWord "Alias"; IWord "a"; IWord "b"; INl; INl;
     IWord "Decay"; IWord "B0"; INl; IWord "1.0"; IWord "K+"; IWord "pi-"; IWord "PHOTOS"; IWord "PHSP"; IWord "1.0"; IComma; INl; IWord "x"; ISemi; ISemi; INl;
     IWord "Enddecay"; INl] 0 _).
  refine (bi_cons _ _ (SAlias "a" "b") _ (IWord "Alias" :: [IWord "a"; IWord "b"] ++ nls 1)
    [IWord "Decay"; IWord "B0"; INl; IWord "1.0"; IWord "K+"; IWord "pi-"; IWord "PHOTOS"; IWord "PHSP"; IWord "1.0"; IComma; INl; IWord "x"; ISemi; ISemi; INl;
     IWord "Enddecay"; INl] _ _).
  - apply (si_simple _ _ (SAlias "a" "b") "Alias" [IWord "a"; IWord "b"] 1); [reflexivity|exact I].
  - refine (bi_cons _ _ _ [] (IWord "Decay" :: IWord "B0" :: nls 0 ++ concat [IWord "1.0" :: map IWord ["K+"; "pi-"] ++ [IWord "PHOTOS"] ++ (IWord "PHSP" :: [IWord "1.0"; IComma; INl; IWord "x"] ++ semis 1) ++ nls 0] ++ IWord "Enddecay" :: nls 0) [] _ (bi_nil _ _)).
    refine (si_decay _ _ "B0" _ [IWord "1.0" :: map IWord ["K+"; "pi-"] ++ [IWord "PHOTOS"] ++ (IWord "PHSP" :: [IWord "1.0"; IComma; INl; IWord "x"] ++ semis 1) ++ nls 0] 0 0 _).
    constructor; [|constructor].
    refine (li _ _ "1.0" ["K+"; "pi-"] true _ _ 0 _ _ _ _).
    + reflexivity.
    + repeat constructor; vm_compute; (reflexivity || discriminate).
    + refine (mi_opts _ _ "PHSP" [PLit "1.0"; PLabel "x"] _ 1 _ _ _).
      * vm_compute. reflexivity.
      * apply (oi_word (PLit "1.0")); [reflexivity|]. apply oi_comma, oi_nl. apply (oi_word (PLabel "x")); [reflexivity|]. constructor.
      * discriminate.
    + exact I.
Qed.
Example ex_parse : parse_items (lc_kind gen_cfg) (lc_alts gen_cfg) ex_its = Some ex_ss.
Proof. exact (parse_file_items _ _ gen_photos_plain _ _ ex_layout). Qed.

Example ex_spell : spell (lc_label gen_cfg) (lc_ws gen_cfg) [IWord "Alias"; IWord "a"; ISemi; INl; INl; INl]
                         ("Alias" ++ String TAB " a;  # c" ++ String LF "" ++ String CR (String LF "")).
Proof.
  apply (sp_word _ _ "Alias"); [discriminate|vm_compute; tauto|vm_compute; discriminate|].
  apply sp_ws; [vm_compute; reflexivity|]. apply sp_ws; [vm_compute; reflexivity|].
  apply (sp_word _ _ "a" (";  # c" ++ String LF (String CR (String LF "")))); [discriminate|vm_compute; tauto|vm_compute; discriminate|].
  apply (sp_sep _ _ ";" ISemi); [vm_compute; reflexivity|].
  apply sp_ws; [vm_compute; reflexivity|]. apply sp_ws; [vm_compute; reflexivity|].
  apply (sp_comment _ _ "#" " c"); [vm_compute; reflexivity|vm_compute; tauto|].
  apply sp_crlf; [vm_compute; reflexivity|]. constructor.
Qed.

Example ex_files : parse_files gen_cfg [BOM ++ "Alias a b" ++ String CR (String LF ("End # of file 1" ++ String CR (String LF "")));
                                        "Decay B0" ++ String LF " 1.0 K+ pi- PHOTOS PHSP 1.0," ++ String LF "  x;; # c" ++ String LF "Enddecay" ++ String LF "End"]
                   = Some ex_ss.
Proof. vm_compute. reflexivity. Qed.

Print Assumptions C02_config.
Print Assumptions C02_layout.
Print Assumptions C02_layout_invariance.
Print Assumptions C02_every_query.
Print Assumptions C02_constructor.
Print Assumptions C02_packaging.
Print Assumptions C02_files_independent.
Print Assumptions C02_split.
Print Assumptions C02_end_parameter_refuted.
