(* C05 — Define'd parameters and ModelAlias'd models mean exactly their expansion.
   Statement-list level (model Dec/Post.v), then lifted to texts (C05_text_level, over Dec/Whole.v = the front-end model of
   C02 followed by Dec/Post.v; the front-end model is tied to Lark by correspondence, see C01/C02). *)
From Coq Require Import String List Bool ZArith QArith.
From DL Require Import Lib.Val Lib.PyDict Dec.Num Dec.Tables Dec.Syntax Dec.Post Dec.PostProofs
  Dec.Layout Dec.ItemParser Dec.FrontEnd Dec.LayoutProofs Dec.ItemParserProofs Dec.FrontEndProofs Dec.Whole Gen.GenLayout.
Import ListNotations.
Close Scope Q_scope.
Open Scope string_scope.

(* Replacing every use of a Define'd name in a parameter list by its literal (textually negated when
   written with a leading minus) and every use of a ModelAlias name by the model and parameters it
   stands for gives the same decay tables — original, copied and conjugated ones, errors included —
   wherever the definitions are placed and however often they are used. *)
Theorem C05_expansion_same_tables : forall ccdb sc inc f, lits_numeric f ->
  parse_post ccdb sc inc (expand_src f) = parse_post ccdb sc inc f.
Proof. exact expansion_same_tables. Qed.
Print Assumptions C05_expansion_same_tables.

(* the last definition of a name wins (both dictionaries are built like this) *)
Theorem C05_last_definition_wins : forall (V : Type) (l : list (string * V)) k,
  pd_get k (pd_of_list l) = assoc_last k l.
Proof. intros. apply pd_of_list_last. Qed.
Print Assumptions C05_last_definition_wins.

(* words that are not defined names stay verbatim *)
Theorem C05_undefined_word_verbatim : forall defs w, pd_get (unsigned w) defs = None ->
  resolve_param defs (PLabel w) = PWord w.
Proof. exact resolve_param_word. Qed.

(* textual negation of a literal negates its value *)
Theorem C05_negated_literal : forall lit, is_num lit = true -> numq (neg_lit lit) = Qopp (numq lit).
Proof. exact numq_neg_lit. Qed.
Print Assumptions C05_negated_literal.

Example C05_example :
  let f := [SDefine "dm" "0.5"; SModelAlias "MA" (MName "VSS_BMIX" (Some [PLabel "-dm"; PLabel "w"]));
            SDecay "A" [{| d_bf := "1"; d_fs := ["x"]; d_photos := false; d_model := MLabel "MA" |}];
            SDecay "B" [{| d_bf := "1"; d_fs := []; d_photos := false; d_model := MLabel "MA" |}];
            SDefine "dm" "2E-1"] in
  lits_numeric f /\
  expand_src f = [SDefine "dm" "0.5"; SModelAlias "MA" (MName "VSS_BMIX" (Some [PLabel "-dm"; PLabel "w"]));
            SDecay "A" [{| d_bf := "1"; d_fs := ["x"]; d_photos := false; d_model := MName "VSS_BMIX" (Some [PLit "-2E-1"; PLabel "w"]) |}];
            SDecay "B" [{| d_bf := "1"; d_fs := []; d_photos := false; d_model := MName "VSS_BMIX" (Some [PLit "-2E-1"; PLabel "w"]) |}];
            SDefine "dm" "2E-1"].
Proof.
  split; [|vm_compute; reflexivity].
  intros n lit [H|[H|[H|[H|[H|[]]]]]]; inversion H; reflexivity.
Qed.
Print Assumptions C05_undefined_word_verbatim.

(* the same about texts: s is any spelling of any layout of the file f, s' any spelling of any layout of the file with every
   use replaced by what it stands for (the two texts may also differ in layout and comments).  They are read to the same
   result: same tables, or the same error. *)
Theorem C05_text_level : forall ccdb sc inc f its s its' s', lits_numeric f ->
  file_items (lc_kind gen_cfg) (lc_alts gen_cfg) f its -> spell (lc_label gen_cfg) (lc_ws gen_cfg) its s ->
  file_items (lc_kind gen_cfg) (lc_alts gen_cfg) (expand_src f) its' -> spell (lc_label gen_cfg) (lc_ws gen_cfg) its' s' ->
  parse_dec_text ccdb sc inc s' = parse_dec_text ccdb sc inc s.
Proof.
  intros ccdb sc inc f its s its' s' Hn F Sp F' Sp'.
  rewrite (parse_dec_text_layout ccdb sc inc f its s F Sp), (parse_dec_text_layout ccdb sc inc _ its' s' F' Sp').
  rewrite (expansion_same_tables ccdb sc inc f Hn). reflexivity.
Qed.
Print Assumptions C05_text_level.

(* non-vacuity at text level: a text using a Define'd name (also negated) and a ModelAlias, and its textual expansion *)
Example C05_text_example :
  let nl := String LF "" in
  parse_dec_text (fun n => n) (fun _ => None) true
    ("Define dm 0.5" ++ nl ++ "ModelAlias MyM VSS dm 2.0;" ++ nl ++ "Decay A" ++ nl ++ "1.0 x y MyM;" ++ nl ++ "0.5 x PHSP -dm foo;" ++ nl ++ "Enddecay" ++ nl)
  = parse_dec_text (fun n => n) (fun _ => None) true
    ("Decay A" ++ nl ++ "1.0 x y VSS 0.5 2.0;" ++ nl ++ "0.5 x PHSP -0.5 foo;" ++ nl ++ "Enddecay" ++ nl)
  /\ parse_dec_text (fun n => n) (fun _ => None) true
    ("Decay A" ++ nl ++ "1.0 x y VSS 0.5 2.0;" ++ nl ++ "0.5 x PHSP -0.5 foo;" ++ nl ++ "Enddecay" ++ nl)
  = Some (inl [("A", [{| l_bf := 1; l_fs := ["x"; "y"]; l_photos := false; l_model := "VSS"; l_params := Some [PNum (1#2); PNum 2] |};
                      {| l_bf := 1#2; l_fs := ["x"]; l_photos := false; l_model := "PHSP"; l_params := Some [PNum (-1#2); PWord "foo"] |}])]).
Proof. vm_compute. split; reflexivity. Qed.
