(* C05 — Define'd parameters and ModelAlias'd models mean exactly their expansion.
   Statement-list level (model Dec/Post.v); the text -> statement-list step is the front end (see C01). *)
From Coq Require Import String List Bool ZArith QArith.
From DL Require Import Lib.Val Lib.PyDict Dec.Num Dec.Tables Dec.Syntax Dec.Post Dec.PostProofs.
Import ListNotations.
Close Scope Q_scope.
Open Scope string_scope.

(* Replacing every use of a Define'd name in a parameter list by its literal (textually negated when
   written with a leading minus) and every use of a ModelAlias name by the model and parameters it
   stands for gives the same decay tables — original, copied and conjugated ones, errors included —
   wherever the definitions are placed and however often they are used. *)
Theorem C05_expansion_same_tables : forall ccdb sc inc f, lits_numeric f ->
  parse_post ccdb sc inc (expand_src f) = parse_post ccdb sc inc f.
Proof. exact expansion_same_tables. Qed.
Print Assumptions C05_expansion_same_tables.

(* the last definition of a name wins (both dictionaries are built like this) *)
Theorem C05_last_definition_wins : forall (V : Type) (l : list (string * V)) k,
  pd_get k (pd_of_list l) = assoc_last k l.
Proof. intros. apply pd_of_list_last. Qed.
Print Assumptions C05_last_definition_wins.

(* words that are not defined names stay verbatim *)
Theorem C05_undefined_word_verbatim : forall defs w, pd_get (unsigned w) defs = None ->
  resolve_param defs (PLabel w) = PWord w.
Proof. exact resolve_param_word. Qed.

(* textual negation of a literal negates its value *)
Theorem C05_negated_literal : forall lit, is_num lit = true -> numq (neg_lit lit) = Qopp (numq lit).
Proof. exact numq_neg_lit. Qed.
Print Assumptions C05_negated_literal.

Example C05_example :
  let f := [SDefine "dm" "0.5"; SModelAlias "MA" (MName "VSS_BMIX" (Some [PLabel "-dm"; PLabel "w"]));
            SDecay "A" [{| d_bf := "1"; d_fs := ["x"]; d_photos := false; d_model := MLabel "MA" |}];
            SDecay "B" [{| d_bf := "1"; d_fs := []; d_photos := false; d_model := MLabel "MA" |}];
            SDefine "dm" "2E-1"] in
  lits_numeric f /\
  expand_src f = [SDefine "dm" "0.5"; SModelAlias "MA" (MName "VSS_BMIX" (Some [PLabel "-dm"; PLabel "w"]));
            SDecay "A" [{| d_bf := "1"; d_fs := ["x"]; d_photos := false; d_model := MName "VSS_BMIX" (Some [PLit "-2E-1"; PLabel "w"]) |}];
            SDecay "B" [{| d_bf := "1"; d_fs := []; d_photos := false; d_model := MName "VSS_BMIX" (Some [PLit "-2E-1"; PLabel "w"]) |}];
            SDefine "dm" "2E-1"].
Proof.
  split; [|vm_compute; reflexivity].
  intros n lit [H|[H|[H|[H|[H|[]]]]]]; inversion H; reflexivity.
Qed.
Print Assumptions C05_undefined_word_verbatim.
