(* C08 — Copied and derived tables are independent; queries never change the parser.
   Two models.
   (1) Dec/Post.v, the value model of parse(): CopyDecay NEW OLD gives NEW a table equal to OLD's in everything
       but the mother name, appended after the existing tables, available as the source of a later CDecay.
   (2) Dec/Heap.v, the same post-processing on identity-carrying Tree/Token objects with a mutable token store
       (Transformer = new Tree objects over the same Tokens, copy.deepcopy with its memo, Visitors and the CopyDecay
       renaming = in-place writes).  Proved for every statement list: in the state parse() leaves behind, no Token
       and no Tree object occurs twice in the decay tables (not within one table, not in two); a table denotes a
       function of its own tokens only; hence writing any token of one table leaves what every other table denotes
       unchanged — copied and conjugated tables share no state with their sources; and parse() never raises the TypeError
       of finding F1 (no token is converted twice).
   (3) REFINEMENT (Dec/HeapRefine.v): the object-level algorithm computes exactly the tables of the value model, for every
       statement list on which the value model succeeds — so every theorem about Dec/Post.v (C01, C03, C05, the copy law)
       is a theorem about what the object-level algorithm leaves in the Token objects.
   PARTIAL: queries are modelled as pure readers of that state (functions hres -> value), so "a query never changes
   the parser" holds in the model by construction and is established for the implementation by the executed part
   of the check (query histories with mutation of the results, against a fresh parse); that the heap model
   allocates and shares exactly where CPython/Lark do is the correspondence on the object graph (ids). *)
From Coq Require Import String List Bool ZArith QArith.
From DL Require Import Lib.Val Lib.PyDict Decay.Conj Dec.Tables Dec.Syntax Dec.Post Dec.Heap Dec.HeapProofs Dec.HeapValues Dec.HeapRefine
  Dec.Layout Dec.ItemParser Dec.FrontEnd Dec.LayoutProofs Dec.ItemParserProofs Dec.FrontEndProofs Dec.Whole Gen.GenLayout.
Import ListNotations.
Close Scope Q_scope.
Open Scope string_scope.

Lemma find_table_app m T T' : find_table m (T ++ T') =
  match find_table m T with Some ls => Some ls | None => find_table m T' end.
Proof.
  induction T as [|[m' ls] r IH]; simpl; [reflexivity|]. destruct (String.eqb m m'); [reflexivity | apply IH].
Qed.

(* NEW (not itself a Decay mother) gets exactly OLD's lines; every existing table is untouched *)
Theorem C08_copy_equals_source : forall copies T new old ls,
  copies = [(new, old)] -> find_table new T = None -> find_table old (rev T) = Some ls ->
  add_copies copies T = (T ++ [(new, ls)])%list /\ find_table new (add_copies copies T) = Some ls /\
  forall m, m <> new -> find_table m (add_copies copies T) = find_table m T.
Proof.
  intros copies T new old ls -> Hn Ho. unfold add_copies. simpl. rewrite Ho. simpl. split; [reflexivity|]. split.
  - rewrite find_table_app, Hn. simpl. rewrite String.eqb_refl. reflexivity.
  - intros m Hne. rewrite find_table_app. destruct (find_table m T); [reflexivity|]. simpl.
    destruct (String.eqb m new) eqn:E; [apply String.eqb_eq in E; contradiction | reflexivity].
Qed.
Print Assumptions C08_copy_equals_source.

(* the tables the CDecay pass reads include the copies: a copy can be the source of a CDecay *)
Theorem C08_copy_is_available_to_cdecay : forall ccdb sc f T0,
  parse_post ccdb sc true f = inl T0 ->
  exists T, mapE (resolve_table (model_aliases_of f) (defs_of f)) (dedupe [] (raw_decays f)) = inl T /\
            T0 = add_cc ccdb sc (cdecays_of f) (ccdefs_of f) (add_copies (copies_of f) T).
Proof.
  intros ccdb sc f T0 H. unfold parse_post in H.
  destruct (mapE _ (dedupe [] (raw_decays f))) as [T|]; [|discriminate]. inversion H. exists T. auto.
Qed.
Print Assumptions C08_copy_is_available_to_cdecay.

(* parsing is a function of the text's statement list: the same statements give the same tables *)
Theorem C08_reparse_same : forall ccdb sc inc f, parse_post ccdb sc inc f = parse_post ccdb sc inc f.
Proof. reflexivity. Qed.
Print Assumptions C08_reparse_same.

(* ------------------------------------------------------------------ the identity-carrying model *)
(* no Token object and no Tree object is reachable twice from the decay tables parse() leaves behind *)
Theorem C08_tables_share_no_object : forall ccdb sc inc f r,
  parse_heap ccdb sc inc f = inl r ->
  NoDup (flat_map tok_ids (r_decays r)) /\ NoDup (flat_map node_ids (r_decays r)) /\
  (forall i, In i (flat_map tok_ids (r_decays r)) -> i < length (h_toks (r_state r))).
Proof.
  intros ccdb sc inc f r H. destruct (parse_heap_separated _ _ _ _ _ H) as [[S1 S2] [B1 _]]. exact (conj S1 (conj S2 B1)).
Qed.
Print Assumptions C08_tables_share_no_object.

(* what a table denotes is a function of its own tokens *)
Theorem C08_table_reads_own_tokens : forall h h' t,
  (forall i, In i (tok_ids t) -> nth_error h i = nth_error h' i) -> read_table h t = read_table h' t.
Proof. exact read_table_frame. Qed.
Print Assumptions C08_table_reads_own_tokens.

(* an in-place write to any token of one table (a source, a copy, a conjugate) changes no other table *)
Theorem C08_write_to_one_table_changes_no_other : forall ccdb sc inc f r i v t t',
  parse_heap ccdb sc inc f = inl r -> In t (r_decays r) -> In t' (r_decays r) -> t <> t' -> In i (tok_ids t) ->
  read_table (upd i v (h_toks (r_state r))) t' = read_table (h_toks (r_state r)) t'.
Proof. exact parse_heap_tables_independent. Qed.
Print Assumptions C08_write_to_one_table_changes_no_other.

(* parse() never raises TypeError: the value visitor meets every token at most once, and every token it meets still holds a
   string — whatever the file, however many lines and blocks use one ModelAlias (the symptom of finding F1 cannot return
   without the model and the implementation disagreeing on the object graph) *)
Theorem C08_no_token_converted_twice : forall ccdb sc inc f, parse_heap ccdb sc inc f <> inr HTypeError.
Proof. exact parse_heap_no_type_error. Qed.
Print Assumptions C08_no_token_converted_twice.

(* REFINEMENT: whenever the value model of parse() (Dec/Post.v: the model the theorems of C01, C03, C05 and the copy law above
   are about) yields tables, the object-level algorithm — new Tree objects over the same Tokens, copy.deepcopy with its memo,
   in-place writes to Token.value by both visitors and by the CopyDecay renaming — ends without error in a state whose decay trees
   read back (through the model of get_decay_mother_name / get_branching_fraction / get_final_state_particle_names /
   get_model_name / get_model_parameters) as exactly those tables.  params_ok: no parameter word is the empty string (the
   grammar's LABEL is non-empty). *)
Theorem C08_object_level_refines_value_model : forall ccdb sc inc f T,
  params_ok f = true -> parse_post ccdb sc inc f = inl T ->
  exists r, parse_heap ccdb sc inc f = inl r /\ tables_of r = Some T.
Proof. exact parse_heap_refines. Qed.
Print Assumptions C08_object_level_refines_value_model.

(* END TO END, from the text: s is any spelling of any layout of the statement list f.  If the text is read to tables T (front-end
   model of C02 followed by the value model), then the object-level algorithm run on the statements the text is read to ends in
   a state that reads back as exactly T, in which no Token and no Tree object is reachable twice from the decay tables. *)
Theorem C08_text_level : forall ccdb sc inc f its s T,
  file_items (lc_kind gen_cfg) (lc_alts gen_cfg) f its -> spell (lc_label gen_cfg) (lc_ws gen_cfg) its s ->
  params_ok f = true -> parse_dec_text ccdb sc inc s = Some (inl T) ->
  exists r, option_map (parse_heap ccdb sc inc) (parse_text gen_cfg s) = Some (inl r) /\ tables_of r = Some T /\
            NoDup (flat_map tok_ids (r_decays r)) /\ NoDup (flat_map node_ids (r_decays r)).
Proof.
  intros ccdb sc inc f its s T F Sp Hp H.
  rewrite (parse_dec_text_layout ccdb sc inc f its s F Sp) in H. injection H as H.
  destruct (parse_heap_refines ccdb sc inc f T Hp H) as (r & Hr & Ht).
  exists r. rewrite (parse_text_layout gen_cfg f its s whole_photos_plain F Sp). cbn [option_map]. rewrite Hr.
  split; [reflexivity|]. split; [exact Ht|]. destruct (C08_tables_share_no_object _ _ _ _ _ Hr) as (N1 & N2 & _). split; assumption.
Qed.
Print Assumptions C08_text_level.

(* the CopyDecay law at object level: the tables the CopyDecay pass creates denote (as value trees) the last table named OLD
   with the mother renamed to NEW, and the pass changes what no existing table reads as *)
Theorem C08_copy_law_at_object_level : forall D s copies cps s',
  separated D -> bounded_by s D -> copy_decays copies D s = (cps, s') ->
  (forall t, In t D -> read_table (h_toks s') t = read_table (h_toks s) t) /\
  map (erase (h_toks s')) cps = copies_v (h_toks s) D copies.
Proof. exact copy_decays_tables. Qed.
Print Assumptions C08_copy_law_at_object_level.

(* non-vacuity: a file with a shared ModelAlias, a CopyDecay and a CDecay is parsed (no error), its heap state denotes the
   tables of the value model, and two of its tables are different objects with tokens *)
Definition c08_example : list stmt :=
  [SDefine "dm" "0.5"; SModelAlias "MA" (MName "VSS_BMIX" (Some [PLabel "dm"; PLit "1.0"]));
   SDecay "B0" [ {| d_bf := "0.5"; d_fs := ["K+"; "pi-"]; d_photos := true; d_model := MLabel "MA" |};
                 {| d_bf := "0.5"; d_fs := ["K+"; "pi-"]; d_photos := false; d_model := MLabel "MA" |} ];
   SCopyDecay "X" "B0"; SChargeConj "X" "anti-X"; SCDecay "anti-X"].
Example C08_heap_example :
  match parse_heap (fun n => n) (fun _ => None) true c08_example with
  | inl r => tables_of r = match parse_post (fun n => n) (fun _ => None) true c08_example with inl T => Some T | inr _ => None end
             /\ length (r_decays r) = 3 /\ length (flat_map tok_ids (r_decays r)) = 39
  | inr _ => False
  end /\ params_ok c08_example = true /\
  (exists T, parse_post (fun n => n) (fun _ => None) true c08_example = inl T /\ length T = 3).
Proof. vm_compute. repeat split. eexists. split; reflexivity. Qed.
