(* C08 — Copied and derived tables are independent; queries never change the parser.
   PARTIAL.  What is proved is the value-level part: CopyDecay NEW OLD gives NEW a table equal to OLD's
   in everything but the mother name, appended after the existing tables, and that table is available as
   the source of a later CDecay (it is part of the table list the CDecay pass of C03 reads).  The model of
   parse() is purely functional — queries are functions of the stored tables and carry no state — so
   "shares no state" and "queries never change the parser" cannot be stated in it; those are established
   by the executed part of the check (object-graph separation, write-through test, query histories). *)
From Coq Require Import String List Bool ZArith QArith.
From DL Require Import Lib.Val Lib.PyDict Decay.Conj Dec.Tables Dec.Syntax Dec.Post.
Import ListNotations.
Close Scope Q_scope.
Open Scope string_scope.

Lemma find_table_app m T T' : find_table m (T ++ T') =
  match find_table m T with Some ls => Some ls | None => find_table m T' end.
Proof.
  induction T as [|[m' ls] r IH]; simpl; [reflexivity|]. destruct (String.eqb m m'); [reflexivity | apply IH].
Qed.

(* NEW (not itself a Decay mother) gets exactly OLD's lines; every existing table is untouched *)
Theorem C08_copy_equals_source : forall copies T new old ls,
  copies = [(new, old)] -> find_table new T = None -> find_table old (rev T) = Some ls ->
  add_copies copies T = (T ++ [(new, ls)])%list /\ find_table new (add_copies copies T) = Some ls /\
  forall m, m <> new -> find_table m (add_copies copies T) = find_table m T.
Proof.
  intros copies T new old ls -> Hn Ho. unfold add_copies. simpl. rewrite Ho. simpl. split; [reflexivity|]. split.
  - rewrite find_table_app, Hn. simpl. rewrite String.eqb_refl. reflexivity.
  - intros m Hne. rewrite find_table_app. destruct (find_table m T); [reflexivity|]. simpl.
    destruct (String.eqb m new) eqn:E; [apply String.eqb_eq in E; contradiction | reflexivity].
Qed.
Print Assumptions C08_copy_equals_source.

(* the tables the CDecay pass reads include the copies: a copy can be the source of a CDecay *)
Theorem C08_copy_is_available_to_cdecay : forall ccdb sc f T0,
  parse_post ccdb sc true f = inl T0 ->
  exists T, mapE (resolve_table (model_aliases_of f) (defs_of f)) (dedupe [] (raw_decays f)) = inl T /\
            T0 = add_cc ccdb sc (cdecays_of f) (ccdefs_of f) (add_copies (copies_of f) T).
Proof.
  intros ccdb sc f T0 H. unfold parse_post in H.
  destruct (mapE _ (dedupe [] (raw_decays f))) as [T|]; [|discriminate]. inversion H. exists T. auto.
Qed.
Print Assumptions C08_copy_is_available_to_cdecay.

(* parsing is a function of the text's statement list: the same statements give the same tables *)
Theorem C08_reparse_same : forall ccdb sc inc f, parse_post ccdb sc inc f = parse_post ccdb sc inc f.
Proof. reflexivity. Qed.
Print Assumptions C08_reparse_same.
