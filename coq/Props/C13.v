(* C13 — A decay descriptor string determines the decay tree it was made from.
   Proved: the descriptor is a function [descr] of the single-mode chain dictionary (first pattern at
   the top level, second at every nested level, daughters sorted at every level); it is the same
   string whatever order daughters and sub-decays were given in (dictionary level [ceq] and chain
   level); patterns render by plain substitution.
   With the default patterns the descriptor DETERMINES the tree (C13_descriptor_determines_tree / _iff_same_tree, character
   level, names may contain balanced parentheses): Decay/DescriptorInjective.v.  Executed only: user-defined patterns
   (injectivity depends on the pattern), and the independent bracket-matching reader run on the implementation's strings. *)
From Coq Require Import String List Bool ZArith QArith Arith Permutation.
From DL Require Import Fmt.DescFormat Fmt.PatternSpec.
From DL Require Import Lib.Val Lib.PyDict Lib.Sort Decay.Conj Decay.Flatten Decay.ChainDict Decay.ChainClass
  Decay.DescriptorProofs Decay.DescriptorInjective.
Import ListNotations.
Close Scope Q_scope.
Open Scope string_scope.

Theorem C13_to_string_is_descr : forall cfg c d,
  chain_to_dict 100 (c_decays c) (c_mother c) = Some d ->
  chain_to_string cfg c = VStr (descr cfg true d) /\ single d.
Proof.
  intros cfg c d H. split; [apply to_string_is_descr; assumption | eapply to_dict_single; eassumption].
Qed.
Print Assumptions C13_to_string_is_descr.

(* first pattern at the top level, second pattern at every nested level *)
Theorem C13_patterns : forall cfg top m bf fs meta,
  descr cfg top (CD m [CM bf fs meta]) =
  fmt cfg top m (join " " (sort_strings (map (fun f => match f with
                                                       | ChainDict.FName n => n
                                                       | FSub c' => descr cfg false c'
                                                       end) fs))).
Proof. reflexivity. Qed.
Print Assumptions C13_patterns.

Theorem C13_pattern_substitution : forall l m d, items_ok l = true ->
  (forall n, In n (names l) -> n = "mother" \/ n = "daughters") ->
  render (pat_of l) m d = Some (fill l m d).
Proof. exact render_fill. Qed.
Print Assumptions C13_pattern_substitution.

(* same string whatever the order of daughters / sub-decays *)
Theorem C13_order_canonical_dict : forall cfg c c' top, ceq c c' -> descr cfg top c = descr cfg top c'.
Proof. intros cfg c c' top H. apply (descr_order_canonical cfg (S (csz c))); [apply le_n | exact H]. Qed.
Print Assumptions C13_order_canonical_dict.

Theorem C13_order_canonical_chain : forall cfg c c',
  c_mother c = c_mother c' ->
  (forall k, option_map mode_key (pd_get k (c_decays c)) = option_map mode_key (pd_get k (c_decays c'))) ->
  chain_to_string cfg c = chain_to_string cfg c'.
Proof. exact to_string_order_independent. Qed.
Print Assumptions C13_order_canonical_chain.

Definition exC13 : chain :=
  {| c_mother := "D*+";
     c_decays := [("pi0", mk_mode 1 (dd_of_list ["gamma"; "gamma"]) []);
                  ("D*+", mk_mode 1 (dd_of_list ["pi+"; "D0"]) []);
                  ("D0", mk_mode 1 (dd_of_list ["pi0"; "K_1(1270)+"; "pi0"]) [])] |}.
Example C13_example :
  chain_to_string default_cfg exC13 = VStr "D*+ -> (D0 -> (pi0 -> gamma gamma) (pi0 -> gamma gamma) K_1(1270)+) pi+" /\
  chain_to_string ("{mother} => {daughters}", "{mother} (=> {daughters})") exC13 =
    VStr "D*+ => D0 (=> K_1(1270)+ pi0 (=> gamma gamma) pi0 (=> gamma gamma)) pi+".
Proof. vm_compute. split; reflexivity. Qed.

(* the descriptor determines the tree: with the default patterns, equal descriptor strings come only from chain dictionaries
   that are equal up to the order of daughters at every level (branching fractions and model information are not part of a
   descriptor).  Names may contain balanced parentheses but no blank and do not start with "("; every decay has a daughter. *)
Theorem C13_descriptor_determines_tree : forall c c' top, wfc c -> wfc c' ->
  descr dcfg top c = descr dcfg top c' -> ceq c c'.
Proof. intros c c' top. exact (descr_injective (S (csz c)) c c' top (Nat.lt_succ_diag_r _)). Qed.
Print Assumptions C13_descriptor_determines_tree.

Theorem C13_descriptor_iff_same_tree : forall c c' top, wfc c -> wfc c' ->
  (descr dcfg top c = descr dcfg top c' <-> ceq c c').
Proof.
  intros c c' top H H'. split; [apply C13_descriptor_determines_tree; assumption|].
  intro E. apply (descr_order_canonical dcfg (S (csz c))); [apply le_n|exact E].
Qed.
Print Assumptions C13_descriptor_iff_same_tree.

(* the pieces of a descriptor are recovered by cutting at blanks outside parentheses *)
Theorem C13_reader : forall c, wfc c ->
  split_top (descr dcfg true c) 0 "" = body c.
Proof.
  intros c H. rewrite (proj1 (descr_forms c H)). apply split_join; [|apply body_nonempty].
  apply (wf_atoms (S (csz c))); [apply Nat.lt_succ_diag_r|exact H].
Qed.
Print Assumptions C13_reader.

Definition ex13 : cdict :=
  CD "B0" [CM 1 [ChainDict.FName "K*(892)0"; FSub (CD "D*(2010)-" [CM (1#2) [ChainDict.FName "pi-"; FSub (CD "anti-D0" [CM 1 [ChainDict.FName "K+"; ChainDict.FName "pi-"] []])] []])] []].
Example C13_example_wf : wfc ex13 /\ descr dcfg true ex13 = "B0 -> (D*(2010)- -> (anti-D0 -> K+ pi-) pi-) K*(892)0".
Proof.
  split; [|vm_compute; reflexivity].
  repeat (first [apply wfc_intro | apply wff_name | apply wff_sub | apply Forall_cons | apply Forall_nil
                | (split; [split; [discriminate|reflexivity]|reflexivity]) | discriminate]).
Qed.
