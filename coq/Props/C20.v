(* C20 — Conversion output depends only on the input file.
   Model: Amp/Session.v — the reader classes' process-wide state (particle sets per class with attribute lookup
   through the class hierarchy, the coupling-convention configuration, the tables of the last read) as a state
   machine over read / convert-to-C++ / convert-to-Python calls; the output of a call is what the read returns
   (amplitudes, tables), from which the emitted code is computed (C18/C19).  Fresh-interpreter equality and the
   actual set orders under PYTHONHASHSEED are executed by the correspondence, not modelled. *)
From Coq Require Import String List Bool ZArith QArith Permutation.
From DL Require Import Lib.Val Amp.Syntax Amp.Read Amp.Session Amp.SessionProofs.
Import ListNotations.
Close Scope Q_scope.
Open Scope string_scope.

(* whatever was read or converted earlier, by whichever reader class: a call returns what the same call returns
   from the initial state, and leaves the same particle sets in the class that made it *)
Theorem C20_history_independent : forall pid_of fuel files (ops : list op) (o : op),
  snd (step pid_of fuel files (after pid_of fuel files ops) o) = snd (step pid_of fuel files init o) /\
  match snd (step pid_of fuel files init o) with
  | Some _ => own (fst (step pid_of fuel files (after pid_of fuel files ops) o)) (op_cls o)
              = own (fst (step pid_of fuel files init o)) (op_cls o)
  | None => True
  end.
Proof. exact output_after_any_history. Qed.
Print Assumptions C20_history_independent.

(* a call never touches the particle sets of the other classes, nor the configuration *)
Theorem C20_frame : forall pid_of fuel files s o c, c <> op_cls o ->
  own (fst (step pid_of fuel files s o)) c = own s c /\ cart (fst (step pid_of fuel files s o)) = cart s.
Proof. intros. split; [apply step_frame; assumption | apply step_cart]. Qed.
Print Assumptions C20_frame.

(* the particle sets are observed up to enumeration order (any hash seed): sorting is a permutation *)
Theorem C20_set_order_irrelevant : forall l, Permutation (zsort l) l.
Proof. exact zsort_perm. Qed.
Print Assumptions C20_set_order_irrelevant.

(* same calls, same state: same result (a function) *)
Theorem C20_replay : forall pid_of fuel files s o, step pid_of fuel files s o = step pid_of fuel files s o.
Proof. reflexivity. Qed.
Print Assumptions C20_replay.
