(* C03 — CDecay yields the exact charge conjugate of the referenced decay table.
   Model: Dec/Post.v (add_cc / conj_table: the Lark visitor with its write-back into the shared
   ChargeConj dictionary, daughters line by line then the mother).  The database conjugation is the
   regenerated table of C04 (cc).  Statement-list level, then lifted to texts (C03_text_level over Dec/Whole.v); the front-end
   model is tied to Lark by correspondence, as for C01/C02. *)
From Coq Require Import String List Bool ZArith QArith Arith.
From DL Require Import Lib.Val Lib.PyDict Decay.Conj Decay.ConjProofs Decay.GenTables Dec.Tables Dec.Syntax Dec.Post
  Dec.ConjTableProofs
  Dec.Layout Dec.ItemParser Dec.FrontEnd Dec.LayoutProofs Dec.ItemParserProofs Dec.FrontEndProofs Dec.Whole Gen.GenLayout.
Import ListNotations.
Close Scope Q_scope.
Open Scope string_scope.

Definition names_of_pairs (d0 : pdict string) : list string := (map fst d0 ++ map snd d0)%list.

(* well-formed ChargeConj statements (the module docstring's assumption): every name occurs in at most one
   pair, names are aliases unknown to the particle database and are not "ChargeConj(...)" markers *)
Definition wf_pairs (d0 : pdict string) : Prop :=
  NoDup (names_of_pairs d0) /\
  forall n, In n (names_of_pairs d0) -> ~ In n (evt_names gen_tables) /\ is_wrap n = false.

Lemma db_dich : forall n, cc n = wrap n \/ (In (cc n) (evt_names gen_tables) /\ cc (cc n) = n).
Proof.
  intros n. destruct (cc_wrap_or_name gen_tables gen_tables_ok n) as [H|[_ [H1 H2]]]; [left | right]; auto.
Qed.

(* The CDecay pass: existing tables untouched (in particular every source table); for every CDecay X
   without a Decay table of its own (Decay takes precedence) whose conjugate — ChargeConj statement read
   in either direction, otherwise the database — has a table, one table is appended: the same lines in the
   same order with identical branching fractions, PHOTOS flags, models and parameters, every daughter and
   the mother replaced by its conjugate under the same rule; a CDecay without source adds nothing. *)
Theorem C03_cdecay_tables : forall d0 sc cdecays T, wf_pairs d0 ->
  Forall (fun t => nonwrap (table_labels t) /\ sc (fst t) <> Some true) (cc_sources cc d0 cdecays T) ->
  add_cc cc sc cdecays d0 T =
  (T ++ map (fun t => (cj cc d0 (fst t), map (cline cc d0) (snd t))) (cc_sources cc d0 cdecays T))%list.
Proof.
  intros d0 sc cdecays T [Hnd Hunk] Hs.
  apply (add_cc_spec cc (evt_names gen_tables) d0 db_dich Hnd Hunk sc cdecays T Hs).
Qed.
Print Assumptions C03_cdecay_tables.

(* conjugating twice returns the name (unless marked unknown) — so X gets the table "for X" *)
Theorem C03_conjugate_of_source_is_X : forall d0 p, wf_pairs d0 ->
  is_wrap (cj cc d0 p) = false -> cj cc d0 (cj cc d0 p) = p.
Proof.
  intros d0 p [Hnd Hunk]. apply (cj_involutive cc (evt_names gen_tables) d0 db_dich Hnd Hunk).
Qed.
Print Assumptions C03_conjugate_of_source_is_X.

Theorem C03_decay_takes_precedence : forall cdecays T X, In X (map fst T) -> ~ In X (cc_names cdecays T).
Proof. exact decay_takes_precedence. Qed.
Print Assumptions C03_decay_takes_precedence.

Theorem C03_switch_off_adds_nothing : forall ccdb sc f T0,
  parse_post ccdb sc false f = inl T0 ->
  exists T, T0 = add_copies (copies_of f) T.
Proof.
  intros ccdb sc f T0 H. unfold parse_post in H.
  destruct (mapE _ (dedupe [] (raw_decays f))) as [T|]; [|discriminate]. inversion H. exists T. reflexivity.
Qed.
Print Assumptions C03_switch_off_adds_nothing.

(* non-vacuity: aliases MyD / MyDbar with ChargeConj in the "reverse" orientation *)
Example C03_example :
  let d0 := [("MyDbar", "MyD")] in
  wf_pairs d0 /\
  vtables (add_cc cc (fun _ => None) ["MyDbar"] d0
     [("MyD", [{| l_bf := 1#2; l_fs := ["K-"; "pi+"; "MyX"; "pi0"]; l_photos := true; l_model := "PHSP"; l_params := None |}])])
  = vtables [("MyD", [{| l_bf := 1#2; l_fs := ["K-"; "pi+"; "MyX"; "pi0"]; l_photos := true; l_model := "PHSP"; l_params := None |}]);
             ("MyDbar", [{| l_bf := 1#2; l_fs := ["K+"; "pi-"; "ChargeConj(MyX)"; "pi0"]; l_photos := true; l_model := "PHSP"; l_params := None |}])].
Proof.
  split; [|vm_compute; reflexivity]. split.
  - repeat constructor; simpl; intuition discriminate.
  - intros n [<-|[<-|[]]]; split; try reflexivity; intros H; apply smem_in in H; vm_compute in H; discriminate.
Qed.

(* the same about texts: s is any spelling of any layout of the file f whose ChargeConj statements are well formed.  What the
   text is read to with charge-conjugate decays enabled is what it is read to with them disabled (every table of which is
   therefore left untouched) followed by one conjugated table per CDecay that has a source and no Decay block of its own. *)
Theorem C03_text_level : forall sc f its s T,
  file_items (lc_kind gen_cfg) (lc_alts gen_cfg) f its -> spell (lc_label gen_cfg) (lc_ws gen_cfg) its s ->
  wf_pairs (ccdefs_of f) ->
  parse_dec_text cc sc true s = Some (inl T) ->
  exists T1, parse_dec_text cc sc false s = Some (inl T1) /\
    (Forall (fun t => nonwrap (table_labels t) /\ sc (fst t) <> Some true) (cc_sources cc (ccdefs_of f) (cdecays_of f) T1) ->
     T = (T1 ++ map (fun t => (cj cc (ccdefs_of f) (fst t), map (cline cc (ccdefs_of f)) (snd t)))
                    (cc_sources cc (ccdefs_of f) (cdecays_of f) T1))%list).
Proof.
  intros sc f its s T F Sp Hwf H.
  rewrite (parse_dec_text_layout cc sc true f its s F Sp) in H. rewrite (parse_dec_text_layout cc sc false f its s F Sp).
  unfold parse_post in *. destruct (mapE _ (dedupe [] (raw_decays f))) as [T0|]; [|discriminate].
  injection H as <-. eexists. split; [reflexivity|]. intros Hs. apply C03_cdecay_tables; assumption.
Qed.
Print Assumptions C03_text_level.

Example C03_text_example :
  let nl := String LF "" in
  option_map vpost (parse_dec_text cc (fun _ => None) true
    ("Alias MyD D0" ++ nl ++ "Alias MyDbar anti-D0" ++ nl ++ "ChargeConj MyDbar MyD" ++ nl ++
     "Decay MyD" ++ nl ++ "0.5 K- pi+ MyX pi0 PHOTOS PHSP;" ++ nl ++ "Enddecay" ++ nl ++ "CDecay MyDbar" ++ nl))
  = Some (vtables [("MyD", [{| l_bf := 1#2; l_fs := ["K-"; "pi+"; "MyX"; "pi0"]; l_photos := true; l_model := "PHSP"; l_params := None |}]);
                   ("MyDbar", [{| l_bf := 1#2; l_fs := ["K+"; "pi-"; "ChargeConj(MyX)"; "pi0"]; l_photos := true; l_model := "PHSP"; l_params := None |}])]).
Proof. vm_compute. reflexivity. Qed.
