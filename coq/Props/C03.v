From DL Require Import Dec.Post.
