(* GraphProofs.v — one node and one labelled edge per decay line, fresh consecutive ids (property C15). *)
From Coq Require Import String Ascii List Bool ZArith QArith Arith Lia.
From DL Require Import Lib.Val Lib.PyDict Decay.ChainDict Decay.ExpandProofs Viewer.Graph.
Import ListNotations.
Close Scope Q_scope.
Open Scope string_scope.
Open Scope list_scope.

(* ------------------------------------------------------------------ the inner loops, named *)
Definition gof_ (me : ref) :=
  fix gof (k : nat) (i : nat) (l : list fsp) : list gitem * nat :=
    match l with
    | [] => ([], k)
    | FName _ :: r => gof k (S i) r
    | FSub c' :: r =>
        let '(a, k1) := iter_cd k me (Some i) c' in
        let '(b, k2) := gof k1 (S i) r in (a ++ b, k2)
    end.

Definition gom_ (top : ref) (link : option nat) :=
  fix gom (k : nat) (modes : list cmode) : list gitem * nat :=
    match modes with
    | [] => ([], k)
    | CM bf fs _ :: rest =>
        let me := Dec k in
        let node := GN {| n_id := me; n_cells := cell_names fs; n_ports := has_subdecay fs |} in
        let edge := GE {| e_src := top; e_port := link; e_dst := me; e_label := bf |} in
        let '(sub, k1) := gof_ me (S k) 0 fs in
        let '(others, k2) := gom k1 rest in
        (node :: edge :: sub ++ others, k2)
    end.

Lemma iter_cd_unfold k top link m modes : iter_cd k top link (CD m modes) = gom_ top link k modes.
Proof. reflexivity. Qed.

(* ------------------------------------------------------------------ decay lines in depth-first order *)
Fixpoint pre (c : cdict) : list cmode :=
  match c with
  | CD _ modes =>
      flat_map (fun md => md :: match md with
                                | CM _ fs _ => flat_map (fun f => match f with FName _ => [] | FSub c' => pre c' end) fs
                                end) modes
  end.
Definition pre_f (f : fsp) : list cmode := match f with FName _ => [] | FSub c' => pre c' end.
Definition pre_m (md : cmode) : list cmode := md :: flat_map pre_f (cm_fs md).
Lemma pre_unfold m modes : pre (CD m modes) = flat_map pre_m modes.
Proof.
  simpl. induction modes as [|[bf fs meta] r IH]; simpl; [reflexivity|]. rewrite IH. reflexivity.
Qed.

Definition nodes_of (l : list gitem) : list gnode := flat_map (fun it => match it with GN n => [n] | GE _ => [] end) l.
Definition edges_of (l : list gitem) : list gedge := flat_map (fun it => match it with GE e => [e] | GN _ => [] end) l.
Lemma nodes_app a b : nodes_of (a ++ b) = nodes_of a ++ nodes_of b.
Proof. unfold nodes_of. apply flat_map_app_. Qed.
Lemma edges_app a b : edges_of (a ++ b) = edges_of a ++ edges_of b.
Proof. unfold edges_of. apply flat_map_app_. Qed.

Definition ids (k n : nat) : list ref := map Dec (seq k n).
Lemma ids_app k a b : ids k (a + b) = ids k a ++ ids (k + a) b.
Proof. unfold ids. rewrite seq_app, map_app. reflexivity. Qed.

Definition content (md : cmode) : list string * bool := (cell_names (cm_fs md), has_subdecay (cm_fs md)).
Definition ncontent (n : gnode) : list string * bool := (n_cells n, n_ports n).

(* an edge starts at the given parent slot, or at a node created in this very traversal (id >= k) *)
Definition src_ok (k : nat) (top : ref) (link : option nat) (e : gedge) : Prop :=
  (e_src e = top /\ e_port e = link) \/
  (exists j i d, e_src e = Dec j /\ e_port e = Some i /\ e_dst e = Dec d /\ k <= j /\ j < d).
Definition src_in (k : nat) (me : nat) (e : gedge) : Prop :=
  exists j i d, e_src e = Dec j /\ e_port e = Some i /\ e_dst e = Dec d /\ (j = me \/ k <= j) /\ j < d.

Lemma src_ok_shift k k' top link e : k <= k' -> src_ok k' top link e -> src_ok k top link e.
Proof.
  intros H [[A B]|[j [i' [d [A [B [C [D E]]]]]]]]; [left; auto|]. right. exists j, i', d. repeat split; auto. lia.
Qed.

Lemma in_ids_dst k n (es : list gedge) e : map e_dst es = ids k n -> In e es -> exists d, e_dst e = Dec d /\ k <= d.
Proof.
  intros H Hin. assert (Hd : In (e_dst e) (ids k n)) by (rewrite <- H; apply in_map; assumption).
  unfold ids in Hd. apply in_map_iff in Hd. destruct Hd as [d [E Hd]]. apply in_seq in Hd. exists d. split; [auto | lia].
Qed.

Record good (k : nat) (S : gedge -> Prop) (lines : list cmode) (r : list gitem * nat) : Prop := {
  g_counter : snd r = k + length lines;
  g_nodes : map n_id (nodes_of (fst r)) = ids k (length lines);
  g_edges : map e_dst (edges_of (fst r)) = ids k (length lines);
  g_content : map ncontent (nodes_of (fst r)) = map content lines;
  g_labels : map e_label (edges_of (fst r)) = map cm_bf lines;
  g_src : Forall S (edges_of (fst r))
}.

Lemma good_nil k S : good k S [] ([], k).
Proof. constructor; simpl; try reflexivity; [lia | constructor]. Qed.

Lemma good_app k (S1 S2 S : gedge -> Prop) l1 l2 a b k1 k2 :
  good k S1 l1 (a, k1) -> good k1 S2 l2 (b, k2) ->
  (forall e, S1 e -> S e) -> (forall e, S2 e -> S e) ->
  good k S (l1 ++ l2) (a ++ b, k2).
Proof.
  intros [A1 A2 A3 A4 A5 A6] [B1 B2 B3 B4 B5 B6] H1 H2. simpl in *. subst k1.
  constructor; simpl.
  - rewrite app_length. lia.
  - rewrite nodes_app, map_app, app_length, ids_app, A2, B2. reflexivity.
  - rewrite edges_app, map_app, app_length, ids_app, A3, B3. reflexivity.
  - rewrite nodes_app, !map_app, A4, B4. reflexivity.
  - rewrite edges_app, !map_app, A5, B5. reflexivity.
  - rewrite edges_app. apply Forall_app. split; [eapply Forall_impl; [exact H1 | exact A6] | eapply Forall_impl; [exact H2 | exact B6]].
Qed.

Definition Pc (c : cdict) : Prop := forall k top link, good k (src_ok k top link) (pre c) (iter_cd k top link c).
Definition Pf (f : fsp) : Prop := match f with FName _ => True | FSub c' => Pc c' end.

Lemma gof_good me fs : Forall Pf fs -> forall k i, me < k ->
  good k (src_in k me) (flat_map pre_f fs) (gof_ (Dec me) k i fs).
Proof.
  induction 1 as [|f r Hf Hr IH]; intros k i Hk; simpl; [apply good_nil|].
  destruct f as [n|c'].
  - simpl. apply IH. assumption.
  - simpl in Hf. specialize (Hf k (Dec me) (Some i)).
    destruct (iter_cd k (Dec me) (Some i) c') as [a k1] eqn:Ea.
    pose proof (g_counter _ _ _ _ Hf) as Hk1. simpl in Hk1.
    specialize (IH k1 (S i) ltac:(lia)).
    destruct (gof_ (Dec me) k1 (S i) r) as [b k2] eqn:Eb.
    assert (Hdst : forall e, In e (edges_of a) -> exists d, e_dst e = Dec d /\ k <= d).
    { intros e He. eapply in_ids_dst; [exact (g_edges _ _ _ _ Hf) | exact He]. }
    assert (Hf' : good k (src_in k me) (pre c') (a, k1)).
    { destruct Hf as [A1 A2 A3 A4 A5 A6]. constructor; auto. simpl in *.
      rewrite Forall_forall in *. intros e He. destruct (A6 e He) as [[A B]|[j [i' [d [A [B [C [D E]]]]]]]].
      - destruct (Hdst e He) as [d [Ed Hd]]. exists me, i, d. repeat split; auto. lia.
      - exists j, i', d. repeat split; auto. }
    eapply good_app; [exact Hf' | exact IH | |].
    + auto.
    + intros e [j [i' [d [A [B [C [[D|D] E]]]]]]]; exists j, i', d; repeat split; auto. right. lia.
Qed.

Lemma gom_good top link ms : Forall (fun md => Forall Pf (cm_fs md)) ms -> forall k,
  good k (src_ok k top link) (flat_map pre_m ms) (gom_ top link k ms).
Proof.
  induction 1 as [|[bf fs meta] rest Hm Hrest IH]; intros k; [apply good_nil|].
  simpl in Hm. cbn [gom_].
  pose proof (gof_good k fs Hm (S k) 0 ltac:(lia)) as Hsub.
  destruct (gof_ (Dec k) (S k) 0 fs) as [sub k1] eqn:Es.
  pose proof (g_counter _ _ _ _ Hsub) as Hk1. simpl in Hk1.
  specialize (IH k1). fold (gom_ top link) in *.
  destruct (gom_ top link k1 rest) as [others k2] eqn:Eo.
  change (flat_map pre_m (CM bf fs meta :: rest)) with ([CM bf fs meta] ++ (flat_map pre_f fs ++ flat_map pre_m rest)).
  change (GN {| n_id := Dec k; n_cells := cell_names fs; n_ports := has_subdecay fs |}
          :: GE {| e_src := top; e_port := link; e_dst := Dec k; e_label := bf |} :: sub ++ others)
    with ([GN {| n_id := Dec k; n_cells := cell_names fs; n_ports := has_subdecay fs |};
           GE {| e_src := top; e_port := link; e_dst := Dec k; e_label := bf |}] ++ (sub ++ others)).
  eapply (good_app k (src_ok k top link) (src_ok k top link) (src_ok k top link) _ _ _ _ (S k)).
  - constructor; simpl; try reflexivity; [lia|]. constructor; [|constructor]. left. simpl. auto.
  - eapply (good_app (S k) (src_in (S k) k) (src_ok k1 top link) (src_ok k top link)); [exact Hsub | exact IH | |].
    + intros e [j [i' [d [A [B [C [[D|D] E]]]]]]]; right; exists j, i', d; repeat split; auto; lia.
    + intros e. apply src_ok_shift. lia.
  - auto.
  - auto.
Qed.

Theorem iter_cd_good : forall c, Pc c.
Proof.
  apply (cdict_ind' Pc (fun md => Forall Pf (cm_fs md)) Pf).
  - intros m ms IH k top link. rewrite iter_cd_unfold, pre_unfold. apply gom_good. exact IH.
  - intros bf fs meta IH. exact IH.
  - intros n. exact I.
  - intros c IH. exact IH.
Qed.

(* ------------------------------------------------------------------ the whole graph *)
Lemma ids_nodup k n : NoDup (ids k n).
Proof.
  unfold ids. apply NoDup_map_inj_; [intros a b H; inversion H; reflexivity | apply seq_NoDup].
Qed.

Theorem graph_structure k c : forall items k', graph_of k c = (items, k') ->
  let lines := pre c in
  k' = k + length lines /\
  (exists rest, items = GN {| n_id := Root; n_cells := [cd_mother c]; n_ports := true |} :: rest /\
     map n_id (nodes_of rest) = ids k (length lines) /\
     map e_dst (edges_of rest) = ids k (length lines) /\
     map ncontent (nodes_of rest) = map content lines /\
     map e_label (edges_of rest) = map cm_bf lines /\
     Forall (fun e => (e_src e = Root /\ e_port e = None) \/
                      (exists j i d, e_src e = Dec j /\ e_port e = Some i /\ e_dst e = Dec d /\ k <= j /\ j < d))
            (edges_of rest)) /\
  NoDup (map n_id (nodes_of items)).
Proof.
  intros items k' H. unfold graph_of in H.
  pose proof (iter_cd_good c k Root None) as G.
  destruct (iter_cd k Root None c) as [rest k1]. inversion H; subst. clear H.
  destruct G as [A1 A2 A3 A4 A5 A6]. simpl in *. split; [assumption|]. split.
  - exists rest. repeat split; auto.
  - rewrite A2. constructor; [|apply ids_nodup].
    unfold ids. rewrite in_map_iff. intros [x [E _]]. discriminate.
Qed.

(* identifiers stay unique across graphs made one after the other in the same session *)
Theorem session_ids_disjoint k c c' items k' items' k'' :
  graph_of k c = (items, k') -> graph_of k' c' = (items', k'') ->
  forall r, In r (map n_id (nodes_of items)) -> In r (map n_id (nodes_of items')) -> r = Root.
Proof.
  intros H1 H2 r Hr Hr'.
  destruct (graph_structure k c _ _ H1) as [E1 [[rest [-> [N1 _]]] _]].
  destruct (graph_structure k' c' _ _ H2) as [E2 [[rest' [-> [N2 _]]] _]].
  simpl in Hr, Hr'. destruct Hr as [<-|Hr]; [reflexivity|]. destruct Hr' as [<-|Hr']; [reflexivity|].
  rewrite N1 in Hr. rewrite N2 in Hr'. unfold ids in *.
  apply in_map_iff in Hr. destruct Hr as [a [<- Ha]]. apply in_map_iff in Hr'. destruct Hr' as [b [E Hb]].
  inversion E; subst. apply in_seq in Ha. apply in_seq in Hb. lia.
Qed.
