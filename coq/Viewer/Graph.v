(* Graph.v — model of DecayChainViewer._build_decay_graph / iterate_chain
   (src/decaylanguage/decay/viewer.py:81-179): the sequence of graph.node / graph.edge calls
   for a chain dictionary, with the process-wide id counter threaded through.  No proofs here. *)
From Coq Require Import String Ascii List Bool ZArith QArith Arith.
From DL Require Import Lib.Val Lib.PyDict Decay.ChainDict.
Import ListNotations.
Close Scope Q_scope.
Open Scope string_scope.

Inductive ref := Root | Dec (k : nat).                (* node identifiers: "mother" | "dec<k>" *)

Record gnode := { n_id : ref; n_cells : list string; n_ports : bool }.
Record gedge := { e_src : ref; e_port : option nat; e_dst : ref; e_label : Q }.
Inductive gitem := GN (n : gnode) | GE (e : gedge).

Definition cell_names (fs : list fsp) : list string :=
  map (fun f => match f with FName n => n | FSub c => cd_mother c end) fs.
Definition has_subdecay (fs : list fsp) : bool :=
  existsb (fun f => match f with FName _ => false | FSub _ => true end) fs.

(* iterate_chain(subchain, top_node, link_pos) with the counter value k; returns the calls made and
   the counter afterwards *)
Fixpoint iter_cd (k : nat) (top : ref) (link : option nat) (c : cdict) : list gitem * nat :=
  match c with
  | CD _ modes =>
      (fix gom (k : nat) (modes : list cmode) : list gitem * nat :=
         match modes with
         | [] => ([], k)
         | CM bf fs _ :: rest =>
             let me := Dec k in
             let node := GN {| n_id := me; n_cells := cell_names fs; n_ports := has_subdecay fs |} in
             let edge := GE {| e_src := top; e_port := link; e_dst := me; e_label := bf |} in
             let '(sub, k1) :=
               (fix gof (k : nat) (i : nat) (l : list fsp) : list gitem * nat :=
                  match l with
                  | [] => ([], k)
                  | FName _ :: r => gof k (S i) r
                  | FSub c' :: r =>
                      let '(a, k1) := iter_cd k me (Some i) c' in
                      let '(b, k2) := gof k1 (S i) r in ((a ++ b)%list, k2)
                  end) (S k) 0 fs in
             let '(others, k2) := gom k1 rest in
             ((node :: edge :: sub ++ others)%list, k2)
         end) k modes
  end.

Definition graph_of (k : nat) (c : cdict) : list gitem * nat :=
  let '(items, k') := iter_cd k Root None c in
  (GN {| n_id := Root; n_cells := [cd_mother c]; n_ports := true |} :: items, k').

(* ------------------------------------------------------------------ observation *)
Definition vref (r : ref) : val := match r with Root => VStr "mother" | Dec k => VInt (Z.of_nat k) end.
Definition vitem (it : gitem) : val :=
  match it with
  | GN n => VList [VStr "node"; vref (n_id n); vstrs (n_cells n); VBool (n_ports n)]
  | GE e => VList [VStr "edge"; vref (e_src e); vopt (fun i => VInt (Z.of_nat i)) (e_port e); vref (e_dst e); vq (e_label e)]
  end.
Definition vgraph (k : nat) (c : cdict) : val :=
  let '(items, k') := graph_of k c in VList [VList (map vitem items); VInt (Z.of_nat k')].
