(* Proofs about the DescriptorFormat model (property C14). *)
From Coq Require Import String Ascii List Bool Arith Lia.
From DL Require Import Lib.Val Fmt.DescFormat.
Import ListNotations.
Open Scope string_scope.
Open Scope list_scope.

Scheme stmt_mut := Induction for stmt Sort Prop
  with stmts_mut := Induction for stmts Sort Prop.
Combined Scheme stmt_stmts_ind from stmt_mut, stmts_mut.

(* ---------------------------------------------------------------- set_config *)
Lemma set_config_normal s c s' :
  set_config s c = (s', Normal) -> config s' = c /\ objs s' = objs s /\ valid_cfg c = true.
Proof.
  unfold set_config. destruct (valid_cfg c) eqn:E; intros H; inversion H; subst; simpl; auto.
Qed.

Lemma set_config_raised s c s' :
  set_config s c = (s', Raised) -> s' = s /\ valid_cfg c = false.
Proof.
  unfold set_config. destruct (valid_cfg c) eqn:E; intros H; inversion H; subst; auto.
Qed.

Lemma set_config_valid s c : valid_cfg c = true ->
  set_config s c = ({| config := c; objs := objs s |}, Normal).
Proof. unfold set_config. intros ->. reflexivity. Qed.

(* ---------------------------------------------------------------- upd *)
Lemma upd_app l ext i f : i < length l -> upd (l ++ ext) i f = upd l i f ++ ext.
Proof.
  revert i. induction l as [|o l IH]; intros i Hi; simpl in *; [lia|].
  destruct i as [|i]; simpl; [reflexivity|]. f_equal. apply IH. lia.
Qed.

Lemma upd_length l i f : length (upd l i f) = length l.
Proof. revert i; induction l as [|o l IH]; intros [|i]; simpl; auto. Qed.

Lemma nth_error_upd l i f o : nth_error l i = Some o -> nth_error (upd l i f) i = Some (f o).
Proof.
  revert i; induction l as [|x l IH]; intros [|i] H; simpl in *; try discriminate.
  - inversion H; reflexivity.
  - apply IH; assumption.
Qed.

Lemma upd_upd_id l i f g o :
  nth_error l i = Some o -> g (f o) = o -> upd (upd l i f) i g = l.
Proof.
  revert i; induction l as [|x l IH]; intros [|i] H Hg; simpl in *; try discriminate.
  - inversion H; subst. rewrite Hg. reflexivity.
  - f_equal. apply IH; assumption.
Qed.

Lemma pop_push c o : pop_saved (push_saved c o) = o.
Proof. destruct o; reflexivity. Qed.

Lemma nth_error_app_l {A} (l ext : list A) i o :
  nth_error l i = Some o -> nth_error (l ++ ext) i = Some o.
Proof.
  intros H. rewrite nth_error_app1; [assumption|].
  apply nth_error_Some. rewrite H. discriminate.
Qed.

(* ---------------------------------------------------------------- the frame invariant:
   whatever a statement (list) does, every object that existed before is afterwards exactly
   as it was — same patterns, same stack of saved formats — and, if the format in force was
   valid before, it is valid afterwards.  A `with` statement additionally restores the format. *)
Definition frame (s s' : st) : Prop :=
  (exists ext, objs s' = objs s ++ ext) /\
  (valid_cfg (config s) = true -> valid_cfg (config s') = true).

Lemma frame_refl s : frame s s.
Proof. split; [exists []; rewrite app_nil_r; reflexivity | auto]. Qed.

Lemma frame_trans a b c : frame a b -> frame b c -> frame a c.
Proof.
  intros [[e1 H1] V1] [[e2 H2] V2]. split.
  - exists (e1 ++ e2). rewrite H2, H1, app_assoc. reflexivity.
  - auto.
Qed.

Definition with_restores (s s' : st) : Prop :=
  valid_cfg (config s) = true -> config s' = config s.

Lemma exec_frame :
  (forall c s s' o lg, exec_stmt s c = (s', o, lg) ->
      frame s s' /\ (forall i b, c = SWith i b -> with_restores s s')) /\
  (forall l s s' o lg, exec_stmts s l = (s', o, lg) -> frame s s').
Proof.
  apply stmt_stmts_ind.
  - (* SNew *) intros p1 p2 s s' o lg H. simpl in H. inversion H; subst; clear H. split.
    + split; simpl; [eexists; reflexivity | auto].
    + intros; discriminate.
  - (* SSet *) intros p1 p2 s s' o lg H. simpl in H.
    destruct (set_config s (p1, p2)) as [s1 o1] eqn:E. inversion H; subst; clear H. split.
    + destruct o.
      * apply set_config_normal in E. destruct E as [Hc [Ho Hv]]. split.
        -- exists []. rewrite app_nil_r. assumption.
        -- intros _. rewrite Hc. assumption.
      * apply set_config_raised in E. destruct E as [-> _]. apply frame_refl.
    + intros; discriminate.
  - (* SRender *) intros s s' o lg H. simpl in H. inversion H; subst. split; [apply frame_refl | intros; discriminate].
  - (* SRaise *) intros s s' o lg H. simpl in H. inversion H; subst. split; [apply frame_refl | intros; discriminate].
  - (* SWith *)
    intros i body IH s s' o lg H. simpl in H.
    destruct (nth_error (objs s) i) as [ob|] eqn:Eo.
    2:{ inversion H; subst. split; [apply frame_refl | intros ? ? _ _; reflexivity]. }
    destruct (set_config s (o_new ob)) as [s1 o1] eqn:E1.
    destruct o1.
    2:{ inversion H; subst. split; [apply frame_refl | intros ? ? _ _; reflexivity]. }
    apply set_config_normal in E1. destruct E1 as [Hc1 [Ho1 Hv1]].
    remember {| config := config s1; objs := upd (objs s1) i (push_saved (config s)) |} as s1p.
    destruct (exec_stmts s1p body) as [[s2 o2] l2] eqn:E2.
    specialize (IH _ _ _ _ E2). destruct IH as [[ext Hext] Hval].
    assert (Hobjs1 : objs s1p = upd (objs s) i (push_saved (config s)))
      by (subst s1p; simpl; rewrite Ho1; reflexivity).
    assert (Hi : i < length (objs s)) by (apply nth_error_Some; rewrite Eo; discriminate).
    assert (Hnth2 : nth_error (objs s2) i = Some (push_saved (config s) ob)).
    { rewrite Hext, Hobjs1. apply nth_error_app_l. apply nth_error_upd. assumption. }
    rewrite Hnth2 in H. simpl in H.
    assert (Hpop : upd (objs s2) i pop_saved = objs s ++ ext).
    { rewrite Hext, Hobjs1. rewrite upd_app by (rewrite upd_length; assumption).
      f_equal. eapply upd_upd_id; [eassumption | apply pop_push]. }
    remember {| config := config s2; objs := upd (objs s2) i pop_saved |} as s3.
    destruct (set_config s3 (config s)) as [s4 o4] eqn:E4.
    destruct o4.
    + apply set_config_normal in E4. destruct E4 as [Hc4 [Ho4 Hv4]].
      inversion H; subst s' o lg; clear H. split.
      * split.
        -- exists ext. rewrite Ho4. subst s3. simpl. assumption.
        -- intros _. rewrite Hc4. assumption.
      * intros ? ? _ _. assumption.
    + apply set_config_raised in E4. destruct E4 as [-> Hv4].
      inversion H; subst s' o lg; clear H. split.
      * split.
        -- exists ext. subst s3. simpl. assumption.
        -- intros Hv. rewrite Hv in Hv4. discriminate.
      * intros ? ? _ Hv. rewrite Hv in Hv4. discriminate.
  - (* STry *)
    intros body IH s s' o lg H. simpl in H.
    destruct (exec_stmts s body) as [[s1 o1] l1] eqn:E. inversion H; subst; clear H.
    split; [eapply IH; eassumption | intros; discriminate].
  - (* SNil *) intros s s' o lg H. simpl in H. inversion H; subst. apply frame_refl.
  - (* SCons *)
    intros c IHc r IHr s s' o lg H. simpl in H.
    destruct (exec_stmt s c) as [[s1 o1] l1] eqn:E1.
    destruct (IHc _ _ _ _ E1) as [F1 _].
    destruct o1.
    + destruct (exec_stmts s1 r) as [[s2 o2] l2] eqn:E2. inversion H; subst; clear H.
      eapply frame_trans; [eassumption | eapply IHr; eassumption].
    + inversion H; subst. assumption.
Qed.

(* ---------------------------------------------------------------- the property *)
(* Leaving a `with` block — normally or by an exception (out = Raised), with any body (any
   nesting, any re-use of the same or other objects, any direct set_config inside) — restores
   the format that was in force when the block was entered, and leaves every existing object
   (including its stack of saved formats) as it was. *)
Theorem with_restores_format :
  forall i body s s' out lg,
    valid_cfg (config s) = true ->
    exec_stmt s (SWith i body) = (s', out, lg) ->
    config s' = config s /\ exists ext, objs s' = objs s ++ ext.
Proof.
  intros i body s s' out lg Hv H.
  destruct (proj1 exec_frame _ _ _ _ _ H) as [[Hext _] Hw].
  split; [apply (Hw i body eq_refl Hv) | assumption].
Qed.

(* the hypothesis of the theorem holds in every reachable state *)
Theorem reachable_valid :
  forall p s out lg, exec_stmts init p = (s, out, lg) -> valid_cfg (config s) = true.
Proof.
  intros p s out lg H. destruct (proj2 exec_frame _ _ _ _ _ H) as [_ Hv].
  apply Hv. vm_compute. reflexivity.
Qed.

(* rendering is a function of the format in force, so it is unaffected by a completed block *)
Corollary with_restores_rendering :
  forall i body s s' out lg m d top,
    valid_cfg (config s) = true ->
    exec_stmt s (SWith i body) = (s', out, lg) ->
    render (if top : bool then fst (config s') else snd (config s')) m d =
    render (if top then fst (config s) else snd (config s)) m d.
Proof.
  intros. destruct (with_restores_format _ _ _ _ _ _ H H0) as [-> _]. reflexivity.
Qed.

(* A rejected pattern leaves everything unchanged *)
Theorem invalid_pattern_rejected :
  forall s p1 p2, valid p1 && valid p2 = false ->
    exec_stmt s (SSet p1 p2) = (s, Raised, []).
Proof.
  intros s p1 p2 H. simpl. unfold set_config, valid_cfg. simpl. rewrite H. reflexivity.
Qed.

Theorem invalid_enter_rejected :
  forall s i o body, nth_error (objs s) i = Some o -> valid_cfg (o_new o) = false ->
    exec_stmt s (SWith i body) = (s, Raised, []).
Proof.
  intros s i o body Ho H. simpl. rewrite Ho. unfold set_config. rewrite H. reflexivity.
Qed.
