(* DescFormat.v — executable model of decaylanguage.utils.utilities.DescriptorFormat
   (src/decaylanguage/utils/utilities.py:64-160) and of the part of CPython's
   string.Formatter().parse / str.format that it relies on.

   Patterns are Python strings.  `fields p` transcribes MarkupIterator_next + parse_field of
   Objects/stringlib/unicode_format.h as a one-pass state machine; it returns the list of
   field names (t[1] of every parsed tuple that has one) or None where CPython raises ValueError.

   The process is modelled as a small statement language executed against
     config : the class attribute DescriptorFormat.config
     objs   : the DescriptorFormat instances created so far (new_config + stack of saved configs)
   No proofs in this file. *)
From Coq Require Import String Ascii List Bool Arith.
From DL Require Import Lib.Val.
Import ListNotations.
Open Scope string_scope.

(* ------------------------------------------------------------------ format-string scanner *)
Inductive fstate :=
| FLit                         (* literal text *)
| FOpen                        (* a '{' was read in literal text *)
| FClose                       (* a '}' was read in literal text *)
| FName (acc : list ascii)     (* inside a field name (reversed) *)
| FBracket (acc : list ascii)  (* inside [...] of a field name *)
| FConv (acc : list ascii)     (* after '!' : conversion character expected *)
| FConv2 (acc : list ascii)    (* after the conversion character *)
| FSpec (acc : list ascii) (depth : nat). (* inside the format spec, depth = open braces - 1 *)

Definition str_of_rev (acc : list ascii) : string :=
  fold_left (fun s c => String c s) acc EmptyString.

Definition is (c : ascii) (d : string) : bool :=
  match d with String e EmptyString => Ascii.eqb c e | _ => false end.

(* One field seen: name, whether it is "plain" ({name} with no conversion/spec/brackets). *)
Record field := { f_name : string; f_plain : bool }.

(* scan returns None on ValueError, else the fields in order *)
Fixpoint scan (st : fstate) (s : string) (out : list field) : option (list field) :=
  match s with
  | EmptyString =>
      match st with
      | FLit => Some (rev out)
      | _ => None
      end
  | String c r =>
      match st with
      | FLit => if is c "{" then scan FOpen r out
                else if is c "}" then scan FClose r out
                else scan FLit r out
      | FOpen => if is c "{" then scan FLit r out
                 else (* first character of a field *)
                   if is c "{" then None
                   else if is c "[" then scan (FBracket [c]) r out
                   else if is c "}" then scan FLit r ({| f_name := ""; f_plain := true |} :: out)
                   else if is c ":" then scan (FSpec [] 0) r out
                   else if is c "!" then scan (FConv []) r out
                   else scan (FName [c]) r out
      | FClose => if is c "}" then scan FLit r out else None
      | FName acc =>
          if is c "{" then None
          else if is c "[" then scan (FBracket (c :: acc)) r out
          else if is c "}" then
                 let nm := str_of_rev acc in
                 scan FLit r ({| f_name := nm;
                                 f_plain := negb (existsb (fun a => orb (is a "[") (is a "]")) acc) |} :: out)
          else if is c ":" then scan (FSpec acc 0) r out
          else if is c "!" then scan (FConv acc) r out
          else scan (FName (c :: acc)) r out
      | FBracket acc =>
          if is c "]" then scan (FName (c :: acc)) r out
          else scan (FBracket (c :: acc)) r out
      | FConv acc => scan (FConv2 acc) r out
      | FConv2 acc =>
          if is c "}" then scan FLit r ({| f_name := str_of_rev acc; f_plain := false |} :: out)
          else if is c ":" then scan (FSpec acc 0) r out
          else None
      | FSpec acc d =>
          if is c "{" then scan (FSpec acc (S d)) r out
          else if is c "}" then
                 match d with
                 | 0 => scan FLit r ({| f_name := str_of_rev acc; f_plain := false |} :: out)
                 | S d' => scan (FSpec acc d') r out
                 end
          else scan (FSpec acc d) r out
      end
  end.

Definition fields (p : string) : option (list string) :=
  option_map (map f_name) (scan FLit p []).

Definition mem (x : string) (l : list string) : bool := existsb (String.eqb x) l.

(* wildcards == {"mother", "daughters"} as sets *)
Definition wild_ok (fs : list string) : bool :=
  forallb (fun f => orb (String.eqb f "mother") (String.eqb f "daughters")) fs
  && mem "mother" fs && mem "daughters" fs.

Definition valid (p : string) : bool :=
  match fields p with
  | Some fs => wild_ok fs
  | None => false
  end.

(* ------------------------------------------------------------------ str.format for plain fields *)
(* render p m d = Some text  when every field of p is a plain {mother} / {daughters};
   None = outside the modelled fragment (conversion, spec, brackets, other names, ValueError). *)
Inductive rstate := RLit | ROpen | RClose | RName (acc : list ascii).

Fixpoint rend (st : rstate) (s : string) (m d : string) (out : string) : option string :=
  match s with
  | EmptyString => match st with RLit => Some out | _ => None end
  | String c r =>
      match st with
      | RLit => if is c "{" then rend ROpen r m d out
                else if is c "}" then rend RClose r m d out
                else rend RLit r m d (out ++ String c "")
      | ROpen => if is c "{" then rend RLit r m d (out ++ "{")
                 else if is c "}" then None
                 else rend (RName [c]) r m d out
      | RClose => if is c "}" then rend RLit r m d (out ++ "}") else None
      | RName acc =>
          if is c "}" then
            let nm := str_of_rev acc in
            if String.eqb nm "mother" then rend RLit r m d (out ++ m)
            else if String.eqb nm "daughters" then rend RLit r m d (out ++ d)
            else None
          else if orb (orb (is c "{") (is c "[")) (orb (is c ":") (is c "!")) then None
          else rend (RName (c :: acc)) r m d out
      end
  end.

Definition render (p m d : string) : option string := rend RLit p m d "".

(* ------------------------------------------------------------------ the process model *)
Definition cfg := (string * string)%type.           (* decay_pattern, sub_decay_pattern *)
Definition valid_cfg (c : cfg) : bool := valid (fst c) && valid (snd c).

Record obj := { o_new : cfg; o_saved : list cfg }.
Record st := { config : cfg; objs : list obj }.

Definition default_cfg : cfg := ("{mother} -> {daughters}", "({mother} -> {daughters})").
Definition init : st := {| config := default_cfg; objs := [] |}.

Inductive stmt :=
| SNew (p1 p2 : string)          (* DescriptorFormat(p1, p2); the new object gets the next index *)
| SSet (p1 p2 : string)          (* DescriptorFormat.set_config(p1, p2) *)
| SRender                        (* observe: format_descriptor with top=True and top=False *)
| SRaise                         (* raise RuntimeError *)
| SWith (i : nat) (body : stmts) (* with objs[i]: body *)
| STry (body : stmts)            (* try: body  except Exception: pass *)
with stmts :=
| SNil
| SCons (c : stmt) (r : stmts).

Inductive outcome := Normal | Raised.

Fixpoint upd (l : list obj) (i : nat) (f : obj -> obj) : list obj :=
  match l, i with
  | [], _ => []
  | o :: r, 0 => f o :: r
  | o :: r, S i' => o :: upd r i' f
  end.

Definition push_saved (c : cfg) (o : obj) : obj := {| o_new := o_new o; o_saved := c :: o_saved o |}.
Definition pop_saved (o : obj) : obj := {| o_new := o_new o; o_saved := tl (o_saved o) |}.

(* set_config: validate both patterns first, assign only afterwards *)
Definition set_config (s : st) (c : cfg) : st * outcome :=
  if valid_cfg c then ({| config := c; objs := objs s |}, Normal) else (s, Raised).

Definition vcfg (c : cfg) : val := VList [VStr (fst c); VStr (snd c)].
Definition vrender (c : cfg) : val :=
  VList [vopt VStr (render (fst c) "M" "a b"); vopt VStr (render (snd c) "M" "a b")].

Definition obs (tag : string) (s : st) : val := VList [VStr tag; vcfg (config s)].

Fixpoint exec_stmt (s : st) (c : stmt) : st * outcome * list val :=
  match c with
  | SNew p1 p2 =>
      let s' := {| config := config s; objs := (objs s ++ [{| o_new := (p1, p2); o_saved := [] |}])%list |} in
      (s', Normal, [obs "new" s'])
  | SSet p1 p2 =>
      let '(s', o) := set_config s (p1, p2) in
      (s', o, match o with Normal => [obs "set" s'] | Raised => [] end)
  | SRender => (s, Normal, [VList [VStr "render"; vrender (config s)]])
  | SRaise => (s, Raised, [])
  | SWith i body =>
      match nth_error (objs s) i with
      | None => (s, Raised, [])                           (* IndexError in the driver *)
      | Some o =>
          (* __enter__ : remember the format in force, switch, push *)
          let old := config s in
          match set_config s (o_new o) with
          | (_, Raised) => (s, Raised, [])                (* body and __exit__ do not run *)
          | (s1, Normal) =>
              let s1 := {| config := config s1; objs := upd (objs s1) i (push_saved old) |} in
              let '(s2, o2, l2) := exec_stmts s1 body in
              (* __exit__ : pop and restore *)
              match nth_error (objs s2) i with
              | None => (s2, Raised, l2)
              | Some ob =>
                  match o_saved ob with
                  | [] => (s2, Raised, l2)                (* IndexError: pop from empty list *)
                  | c0 :: _ =>
                      let s3 := {| config := config s2; objs := upd (objs s2) i pop_saved |} in
                      match set_config s3 c0 with
                      | (s4, Normal) =>
                          (s4, o2, (l2 ++ match o2 with Normal => [obs "with" s4] | Raised => [] end)%list)
                      | (s4, Raised) => (s4, Raised, l2)
                      end
                  end
              end
          end
      end
  | STry body =>
      let '(s1, _, l1) := exec_stmts s body in
      (s1, Normal, (l1 ++ [obs "try" s1])%list)
  end
with exec_stmts (s : st) (l : stmts) : st * outcome * list val :=
  match l with
  | SNil => (s, Normal, [])
  | SCons c r =>
      let '(s1, o1, l1) := exec_stmt s c in
      match o1 with
      | Raised => (s1, Raised, l1)
      | Normal => let '(s2, o2, l2) := exec_stmts s1 r in (s2, o2, (l1 ++ l2)%list)
      end
  end.

Definition run_prog (p : stmts) : val :=
  let '(s, _, l) := exec_stmt init (STry p) in VList l.

(* for the pattern-level correspondence *)
Definition run_pattern (p : string) : val :=
  VList [vopt vstrs (fields p); VBool (valid p); vopt VStr (render p "M" "a b")].
