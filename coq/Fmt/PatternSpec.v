(* PatternSpec.v — an independent, structural description of format patterns and the proof
   that the scanner model (`fields`, `valid`) accepts exactly the patterns whose set of
   placeholders is {mother, daughters}. *)
From Coq Require Import String Ascii List Bool Arith Lia.
From DL Require Import Lib.Val Fmt.DescFormat.
Import ListNotations.
Open Scope string_scope.

Arguments is : simpl never.

Inductive item := Lit (t : string) | Fld (n : string).

Fixpoint esc_braces (t : string) : string :=
  match t with
  | EmptyString => ""
  | String c r => if is c "{" then String c (String c (esc_braces r))
                  else if is c "}" then String c (String c (esc_braces r))
                  else String c (esc_braces r)
  end.

Definition special (c : ascii) : bool :=
  is c "{" || is c "}" || is c "[" || is c "]" || is c ":" || is c "!".

Fixpoint name_ok (n : string) : bool :=
  match n with
  | EmptyString => true
  | String c r => negb (special c) && name_ok r
  end.

Fixpoint pat_of (l : list item) : string :=
  match l with
  | [] => ""
  | Lit t :: r => esc_braces t ++ pat_of r
  | Fld n :: r => "{" ++ n ++ "}" ++ pat_of r
  end.

Fixpoint names (l : list item) : list string :=
  match l with
  | [] => []
  | Lit _ :: r => names r
  | Fld n :: r => n :: names r
  end.

Fixpoint items_ok (l : list item) : bool :=
  match l with
  | [] => true
  | Lit _ :: r => items_ok r
  | Fld n :: r => name_ok n && items_ok r
  end.

Lemma is_eq c d : is c (String d "") = Ascii.eqb c d.
Proof. reflexivity. Qed.

Lemma scan_lit t rest out :
  scan FLit (esc_braces t ++ rest) out = scan FLit rest out.
Proof.
  induction t as [|c r IH]; simpl; [reflexivity|].
  destruct (is c "{") eqn:E1; [simpl; rewrite ?E1; exact IH|].
  destruct (is c "}") eqn:E2; simpl; rewrite ?E1, ?E2; exact IH.
Qed.

Definition brk (a : ascii) : bool := is a "[" || is a "]".

Lemma special_false c : special c = false ->
  is c "{" = false /\ is c "}" = false /\ is c "[" = false /\ is c "]" = false /\
  is c ":" = false /\ is c "!" = false.
Proof.
  unfold special. intros H.
  repeat (apply orb_false_iff in H; destruct H as [H ?]). auto 10.
Qed.

Lemma scan_name n : forall acc rest out,
  name_ok n = true -> existsb brk acc = false ->
  scan (FName acc) (n ++ String "}" rest) out =
  scan FLit rest ({| f_name := str_of_rev (rev (list_ascii_of_string n) ++ acc)%list; f_plain := true |} :: out).
Proof.
  induction n as [|c r IH]; intros acc rest out Hn Hb; simpl.
  - unfold brk in Hb. rewrite Hb. reflexivity.
  - simpl in Hn. apply andb_true_iff in Hn. destruct Hn as [Hc Hr].
    apply negb_true_iff in Hc. destruct (special_false _ Hc) as (A & B & C & D & E & F).
    rewrite A, C, B, E, F.
    rewrite IH; [|assumption|simpl; unfold brk at 1; rewrite C, D; assumption].
    rewrite <- app_assoc. reflexivity.
Qed.

Lemma str_of_rev_rev n : str_of_rev (rev (list_ascii_of_string n)) = n.
Proof.
  unfold str_of_rev.
  rewrite <- (fold_left_rev_right (fun c s => String c s)).
  rewrite rev_involutive.
  rewrite <- (string_of_list_ascii_of_string n) at 2.
  generalize (list_ascii_of_string n). induction l; simpl; congruence.
Qed.

Lemma scan_field n rest out :
  name_ok n = true ->
  scan FLit ("{" ++ n ++ String "}" rest) out =
  scan FLit rest ({| f_name := n; f_plain := true |} :: out).
Proof.
  intros Hn. simpl. destruct n as [|c r]; simpl.
  - reflexivity.
  - simpl in Hn. apply andb_true_iff in Hn. destruct Hn as [Hc Hr].
    apply negb_true_iff in Hc. destruct (special_false _ Hc) as (A & B & C & D & E & F).
    rewrite A, C, B, E, F.
    rewrite scan_name; [|assumption|simpl; unfold brk; rewrite C, D; reflexivity].
    change (rev (list_ascii_of_string r) ++ [c])%list with (rev (list_ascii_of_string (String c r))).
    rewrite str_of_rev_rev. reflexivity.
Qed.

Lemma app_str_assoc (a b c : string) : (a ++ b) ++ c = a ++ (b ++ c).
Proof. induction a; simpl; congruence. Qed.

Lemma scan_items l : forall out,
  items_ok l = true ->
  scan FLit (pat_of l) out =
  Some (rev out ++ map (fun n => {| f_name := n; f_plain := true |}) (names l))%list.
Proof.
  induction l as [|[t|n] r IH]; intros out Hok.
  - simpl. rewrite app_nil_r. reflexivity.
  - simpl. rewrite scan_lit. apply IH. exact Hok.
  - simpl in Hok. apply andb_true_iff in Hok. destruct Hok as [Hn Hr].
    change (pat_of (Fld n :: r)) with ("{" ++ n ++ String "}" (pat_of r)).
    rewrite scan_field by assumption. rewrite IH by assumption.
    simpl. rewrite <- app_assoc. reflexivity.
Qed.

Theorem fields_of_pattern l : items_ok l = true -> fields (pat_of l) = Some (names l).
Proof.
  intros H. unfold fields. rewrite scan_items by assumption. simpl.
  rewrite map_map. simpl. rewrite map_id. reflexivity.
Qed.

(* a pattern is accepted iff its placeholders are exactly mother and daughters (each at least
   once, nothing else) *)
Theorem valid_iff_placeholders l : items_ok l = true ->
  (valid (pat_of l) = true <->
   (In "mother" (names l) /\ In "daughters" (names l) /\
    forall n, In n (names l) -> n = "mother" \/ n = "daughters")).
Proof.
  intros H. unfold valid. rewrite fields_of_pattern by assumption. unfold wild_ok, mem.
  rewrite !andb_true_iff, forallb_forall, !existsb_exists. split.
  - intros [[Hall [m [Hm Em]]] [d [Hd Ed]]].
    apply String.eqb_eq in Em, Ed. subst. repeat split; try assumption.
    intros n Hn. specialize (Hall n Hn). apply orb_true_iff in Hall.
    destruct Hall as [E|E]; apply String.eqb_eq in E; auto.
  - intros [Hm [Hd Hall]]. repeat split.
    + intros n Hn. apply orb_true_iff. destruct (Hall n Hn) as [->| ->]; [left|right]; apply String.eqb_refl.
    + exists "mother". split; [assumption | reflexivity].
    + exists "daughters". split; [assumption | reflexivity].
Qed.

(* non-vacuity: the default patterns and the ones of the docstring are of this form *)
Example default_top : pat_of [Fld "mother"; Lit " -> "; Fld "daughters"] = fst default_cfg /\
                      items_ok [Fld "mother"; Lit " -> "; Fld "daughters"] = true.
Proof. split; reflexivity. Qed.
Example default_sub : pat_of [Lit "("; Fld "mother"; Lit " -> "; Fld "daughters"; Lit ")"] = snd default_cfg.
Proof. reflexivity. Qed.

(* ------------------------------------------------------------------ rendering of structural patterns *)
Fixpoint fill (l : list item) (m d : string) : string :=
  match l with
  | [] => ""
  | Lit t :: r => t ++ fill r m d
  | Fld n :: r => (if String.eqb n "mother" then m else d) ++ fill r m d
  end.

Lemma app_str_nil (a : string) : a ++ "" = a.
Proof. induction a; simpl; congruence. Qed.

Lemma rend_lit t : forall rest m d out,
  rend RLit (esc_braces t ++ rest) m d out = rend RLit rest m d (out ++ t).
Proof.
  induction t as [|c r IH]; intros rest m d out; simpl; [rewrite app_str_nil; reflexivity|].
  destruct (is c "{") eqn:E1.
  - simpl. rewrite ?E1. rewrite IH. rewrite app_str_assoc.
    assert (c = "{"%char) by (apply Ascii.eqb_eq; exact E1). subst. reflexivity.
  - destruct (is c "}") eqn:E2; simpl; rewrite ?E1, ?E2.
    + rewrite IH. rewrite app_str_assoc.
      assert (c = "}"%char) by (apply Ascii.eqb_eq; exact E2). subst. reflexivity.
    + rewrite IH. rewrite app_str_assoc. reflexivity.
Qed.

Lemma rend_name n : forall acc rest m d out,
  name_ok n = true ->
  rend (RName acc) (n ++ String "}" rest) m d out =
  let nm := str_of_rev (rev (list_ascii_of_string n) ++ acc)%list in
  if String.eqb nm "mother" then rend RLit rest m d (out ++ m)
  else if String.eqb nm "daughters" then rend RLit rest m d (out ++ d) else None.
Proof.
  induction n as [|c r IH]; intros acc rest m d out Hn; simpl.
  - reflexivity.
  - simpl in Hn. apply andb_true_iff in Hn. destruct Hn as [Hc Hr].
    apply negb_true_iff in Hc. destruct (special_false _ Hc) as (A & B & C & D & E & F).
    rewrite B, A, C, E, F. simpl. rewrite IH by assumption. simpl. rewrite <- app_assoc. reflexivity.
Qed.

Theorem render_fill l m d : items_ok l = true ->
  (forall n, In n (names l) -> n = "mother" \/ n = "daughters") ->
  render (pat_of l) m d = Some (fill l m d).
Proof.
  unfold render.
  assert (G : forall out, items_ok l = true ->
            (forall n, In n (names l) -> n = "mother" \/ n = "daughters") ->
            rend RLit (pat_of l) m d out = Some (out ++ fill l m d)).
  { induction l as [|[t|n] r IH]; intros out Hok Hn.
    - simpl. rewrite app_str_nil. reflexivity.
    - simpl. rewrite rend_lit. rewrite IH by assumption. rewrite app_str_assoc. reflexivity.
    - simpl in Hok. apply andb_true_iff in Hok. destruct Hok as [Hnm Hr].
      assert (Hn' : forall x, In x (names r) -> x = "mother" \/ x = "daughters") by (intros x Hx; apply Hn; right; exact Hx).
      change (pat_of (Fld n :: r)) with ("{" ++ n ++ String "}" (pat_of r)).
      destruct (Hn n (or_introl eq_refl)) as [-> | ->].
      + simpl. rewrite IH by assumption. rewrite app_str_assoc. reflexivity.
      + simpl. rewrite IH by assumption. rewrite app_str_assoc. reflexivity. }
  intros H1 H2. rewrite G by assumption. reflexivity.
Qed.
