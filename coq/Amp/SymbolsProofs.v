(* SymbolsProofs.v — every model symbol the generated code uses is declared earlier in the same output (C19). *)
From Coq Require Import String Ascii List Bool ZArith QArith Arith Lia Permutation Sorted.
From DL Require Import Lib.Val Lib.PyDict Lib.Product Dec.Num Dec.Tables Amp.Syntax Amp.Perm Amp.Read Amp.GooFit Amp.Session
  Amp.Convert Amp.ConvertProofs Amp.Symbols Gen.GenAmp.
Import ListNotations.
Close Scope Q_scope.
Open Scope string_scope.
Open Scope list_scope.

(* ------------------------------------------------------------------ declared before use, for a sequence of symbols *)
Definition well_scoped (l : list sym) : Prop := forall l1 n l2, l = l1 ++ SUse n :: l2 -> In (SDef n) l1.

Fixpoint scoped (defs : list string) (l : list sym) : Prop :=
  match l with
  | [] => True
  | SDef n :: r => scoped (n :: defs) r
  | SUse n :: r => In n defs /\ scoped defs r
  end.

Fixpoint defs_of (l : list sym) : list string :=
  match l with [] => [] | SDef n :: r => n :: defs_of r | SUse _ :: r => defs_of r end.

Lemma scoped_mono l : forall d d', incl d d' -> scoped d l -> scoped d' l.
Proof.
  induction l as [|[n|n] r IH]; intros d d' Hi H; cbn [scoped] in *; [exact I | |].
  - eapply IH; [|exact H]. intros x [->|Hx]; [left; reflexivity | right; apply Hi, Hx].
  - destruct H as [H1 H2]. split; [apply Hi, H1 | eapply IH; eassumption].
Qed.

Lemma scoped_app l1 : forall d l2, scoped d (l1 ++ l2) <-> scoped d l1 /\ scoped (rev (defs_of l1) ++ d) l2.
Proof.
  induction l1 as [|[n|n] r IH]; intros d l2; cbn [app scoped defs_of rev].
  - tauto.
  - rewrite IH. rewrite <- app_assoc. cbn [app]. tauto.
  - rewrite IH. tauto.
Qed.

Lemma scoped_defs l d : scoped d (map SDef l).
Proof. revert d. induction l as [|x r IH]; intros d; cbn; [exact I | apply IH]. Qed.

Lemma scoped_uses l d : scoped d (map SUse l) <-> incl l d.
Proof.
  induction l as [|x r IH]; cbn [map scoped].
  - split; [intros _ y [] | intros _; exact I].
  - rewrite IH. split.
    + intros [H1 H2] y [->|Hy]; [exact H1 | apply H2, Hy].
    + intros H. split; [apply H; left; reflexivity | intros y Hy; apply H; right; exact Hy].
Qed.

Lemma defs_of_defs l : defs_of (map SDef l) = l.
Proof. induction l as [|x r IH]; cbn; [reflexivity | rewrite IH; reflexivity]. Qed.
Lemma defs_of_uses l : defs_of (map SUse l) = [].
Proof. induction l as [|x r IH]; cbn; [reflexivity | exact IH]. Qed.
Lemma defs_of_app l1 l2 : defs_of (l1 ++ l2) = defs_of l1 ++ defs_of l2.
Proof. induction l1 as [|[n|n] r IH]; cbn; [reflexivity | rewrite IH; reflexivity | exact IH]. Qed.

Lemma scoped_sound l : forall d, scoped d l -> forall l1 n l2, l = l1 ++ SUse n :: l2 -> In n d \/ In (SDef n) l1.
Proof.
  induction l as [|[m|m] r IH]; intros d H l1 n l2 E.
  - destruct l1; discriminate.
  - destruct l1 as [|y l1]; [discriminate|]. injection E as <- E. cbn [scoped] in H.
    destruct (IH _ H _ _ _ E) as [[<-|Hd]|Hl]; [right; left; reflexivity | left; exact Hd | right; right; exact Hl].
  - cbn [scoped] in H. destruct H as [H1 H2]. destruct l1 as [|y l1].
    + injection E as <- _. left. exact H1.
    + injection E as <- E. destruct (IH _ H2 _ _ _ E) as [Hd|Hl]; [left; exact Hd | right; right; exact Hl].
Qed.

Theorem scoped_well_scoped l : scoped [] l -> well_scoped l.
Proof. intros H l1 n l2 E. destruct (scoped_sound l [] H l1 n l2 E) as [[]|Hl]. exact Hl. Qed.

(* ------------------------------------------------------------------ the condition on the sections *)
Definition scoped_cond (so : symout) : Prop :=
  incl (so_masses so) (so_consts so) /\
  (forall a, In a (so_arrays so) -> incl (snd a) (so_pars so)) /\
  (forall amp ls n, In amp (so_amps so) -> In ls amp -> In n ls ->
     In n (so_resvars so) \/ In n (so_pars so) \/ In n (map fst (so_arrays so))).

Lemma scoped_arrays (arrs : list (string * list string)) : forall d, (forall a, In a arrs -> incl (snd a) d) ->
  scoped d (flat_map (fun a : string * list string => map SUse (snd a) ++ [SDef (fst a)]) arrs).
Proof.
  induction arrs as [|a r IH]; intros d H; cbn [flat_map]; [exact I|].
  rewrite scoped_app. split.
  - rewrite scoped_app. split; [apply scoped_uses, H; left; reflexivity | cbn; exact I].
  - apply IH. intros b Hb x Hx. apply in_or_app. right. apply (H b); [right; exact Hb | exact Hx].
Qed.

Lemma defs_of_arrays (arrs : list (string * list string)) :
  defs_of (flat_map (fun a : string * list string => map SUse (snd a) ++ [SDef (fst a)]) arrs) = map fst arrs.
Proof.
  induction arrs as [|a r IH]; cbn [flat_map map]; [reflexivity|].
  rewrite !defs_of_app, defs_of_uses, IH. reflexivity.
Qed.

Theorem scoped_flatten so : scoped_cond so -> well_scoped (flatten_syms so).
Proof.
  intros (Hm & Ha & Hu). apply scoped_well_scoped. unfold flatten_syms.
  rewrite scoped_app. split; [apply scoped_defs|]. rewrite defs_of_defs.
  rewrite scoped_app. split; [apply scoped_defs|]. rewrite defs_of_defs.
  rewrite scoped_app. split.
  { apply scoped_uses. intros x Hx. apply in_or_app. right. apply in_or_app. left. rewrite <- in_rev. apply Hm, Hx. }
  rewrite defs_of_uses. cbn [rev app].
  rewrite scoped_app. split; [apply scoped_defs|]. rewrite defs_of_defs.
  rewrite scoped_app. split.
  { apply scoped_arrays. intros a Hin x Hx. apply in_or_app. left. rewrite <- in_rev. apply (Ha a Hin), Hx. }
  rewrite defs_of_arrays. apply scoped_uses. intros n Hn.
  apply in_concat in Hn. destruct Hn as (ls & Hls & Hn). apply in_concat in Hls. destruct Hls as (amp & Hamp & Hls).
  destruct (Hu amp ls n Hamp Hls Hn) as [H|[H|H]].
  - apply in_or_app. right. apply in_or_app. right. apply in_or_app. left. rewrite <- in_rev. exact H.
  - apply in_or_app. right. apply in_or_app. left. rewrite <- in_rev. exact H.
  - apply in_or_app. left. rewrite <- in_rev. exact H.
Qed.

(* the condition does not depend on the order Python's sets and pandas happen to give to the unordered groups *)
Definition sym_equiv (so so' : symout) : Prop :=
  Permutation (so_consts so) (so_consts so') /\ Permutation (so_resvars so) (so_resvars so') /\
  so_masses so = so_masses so' /\ so_pars so = so_pars so' /\ so_amps so = so_amps so' /\
  exists mid, Forall2 (fun a b : string * list string => fst a = fst b /\ Permutation (snd a) (snd b)) (so_arrays so) mid
              /\ Permutation mid (so_arrays so').

Lemma Forall2_in_r {A B} (R : A -> B -> Prop) l l' b : Forall2 R l l' -> In b l' -> exists a, In a l /\ R a b.
Proof.
  induction 1 as [|x y l l' Hxy F IH]; intros Hin; [destruct Hin|].
  destruct Hin as [<-|Hin]; [exists x; split; [left; reflexivity | exact Hxy]|].
  destruct (IH Hin) as (a & Ha & Hr). exists a. split; [right; exact Ha | exact Hr].
Qed.
Lemma Forall2_in_l {A B} (R : A -> B -> Prop) l l' a : Forall2 R l l' -> In a l -> exists b, In b l' /\ R a b.
Proof.
  induction 1 as [|x y l l' Hxy F IH]; intros Hin; [destruct Hin|].
  destruct Hin as [<-|Hin]; [exists y; split; [left; reflexivity | exact Hxy]|].
  destruct (IH Hin) as (b & Hb & Hr). exists b. split; [right; exact Hb | exact Hr].
Qed.

Lemma scoped_cond_equiv so so' : sym_equiv so so' -> scoped_cond so -> scoped_cond so'.
Proof.
  intros (Pc & Pr & Em & Ep & Ea & mid & F & Pm) (Hm & Ha & Hu). split; [|split].
  - rewrite <- Em. intros x Hx. eapply Permutation_in; [exact Pc | apply Hm, Hx].
  - intros b Hb. rewrite <- Ep. apply Permutation_sym in Pm. pose proof (Permutation_in _ Pm Hb) as Hb'.
    destruct (Forall2_in_r _ _ _ _ F Hb') as (a & Hin & _ & Pab). intros x Hx.
    apply (Ha a Hin). eapply Permutation_in; [apply Permutation_sym; exact Pab | exact Hx].
  - rewrite <- Ea, <- Ep. intros amp ls n H1 H2 H3. destruct (Hu amp ls n H1 H2 H3) as [H|[H|H]].
    + left. eapply Permutation_in; [exact Pr | exact H].
    + right. left. exact H.
    + right. right. apply in_map_iff in H. destruct H as (a & <- & Hin).
      destruct (Forall2_in_l _ _ _ _ F Hin) as (b & Hb & Efst & _). rewrite Efst.
      apply in_map. eapply Permutation_in; [exact Pm | exact Hb].
Qed.

(* ------------------------------------------------------------------ the output of the conversion *)
Lemma all_some_in {A} (l : list (option A)) xs x : all_some l = Some xs -> In x xs -> In (Some x) l.
Proof.
  revert xs. induction l as [|[y|] r IH]; intros xs E Hin; cbn [all_some] in E; try discriminate.
  - injection E as <-. destruct Hin.
  - destruct (all_some r) as [ys|]; [|discriminate]. injection E as <-.
    destruct Hin as [<-|Hin]; [left; reflexivity | right; eapply IH; [reflexivity | exact Hin]].
Qed.

Lemma zdedupe_sub l : forall seen x, In x (zdedupe l seen) -> In x l.
Proof.
  induction l as [|y r IH]; intros seen x H; cbn [zdedupe] in H; [destruct H|].
  destruct (existsb (Z.eqb y) seen); [right; eapply IH; exact H|].
  destruct H as [<-|H]; [left; reflexivity | right; eapply IH; exact H].
Qed.

(* ------------------------------------------------------------------ the arrays of make_pars *)
Lemma ins_key_perm x l : Permutation (ins_key x l) (x :: l).
Proof.
  induction l as [|y r IH]; cbn [ins_key]; [apply Permutation_refl|].
  destruct (Z.ltb (fst x) (fst y)); [apply Permutation_refl|].
  eapply perm_trans; [apply perm_skip; exact IH | apply perm_swap].
Qed.

Lemma sort_keyed_perm l : Permutation (sort_keyed l) l.
Proof.
  induction l as [|x r IH]; cbn [sort_keyed fold_right]; [apply perm_nil|].
  eapply perm_trans; [apply ins_key_perm | apply perm_skip; exact IH].
Qed.

Definition kle (a b : Z * string) : Prop := (fst a <= fst b)%Z.

Lemma ins_key_sorted x l : StronglySorted kle l -> StronglySorted kle (ins_key x l).
Proof.
  induction 1 as [|y r Hs IH Hy]; cbn [ins_key]; [constructor; [constructor | constructor]|].
  destruct (Z.ltb_spec (fst x) (fst y)) as [Hlt|Hge].
  - constructor; [constructor; assumption|]. constructor; [unfold kle; lia|].
    eapply Forall_impl; [|exact Hy]. intros z Hz. unfold kle in *. lia.
  - constructor; [exact IH|]. eapply Permutation_Forall; [apply Permutation_sym, ins_key_perm|].
    constructor; [unfold kle; lia | exact Hy].
Qed.

Lemma sort_keyed_sorted l : StronglySorted kle (sort_keyed l).
Proof. induction l as [|x r IH]; cbn [sort_keyed fold_right]; [constructor | apply ins_key_sorted, IH]. Qed.

(* with distinct keys the order is strict: the result does not depend on the sorting algorithm *)
Lemma sorted_strict l : StronglySorted kle l -> NoDup (map fst l) -> StronglySorted (fun a b : Z * string => (fst a < fst b)%Z) l.
Proof.
  induction 1 as [|y r Hs IH Hy]; intros Hnd; [constructor|]. cbn [map] in Hnd. inversion Hnd as [|? ? Hnin Hnd']; subst.
  constructor; [apply IH, Hnd'|]. rewrite Forall_forall in *. intros z Hz. specialize (Hy z Hz). unfold kle in Hy.
  assert (fst y <> fst z) by (intros E; apply Hnin; rewrite E; apply in_map, Hz). lia.
Qed.

Lemma mapM_pairs {A B} (f : A -> option B) l ys : mapM f l = Some ys -> Forall2 (fun x y => f x = Some y) l ys.
Proof.
  revert ys. induction l as [|x r IH]; intros ys H; cbn [mapM] in H.
  - injection H as <-. constructor.
  - destruct (f x) as [y|] eqn:Ef; [|discriminate]. destruct (mapM f r) as [ys'|]; [|discriminate]. injection H as <-.
    constructor; [exact Ef | apply IH; reflexivity].
Qed.

Lemma keyed_names key ps b kn : keyed key ps b = Some kn ->
  map snd kn = filter (contains b) ps /\ Forall (fun x => key b (snd x) = Some (fst x)) kn.
Proof.
  unfold keyed. intros H. apply mapM_pairs in H. induction H as [|n x l l' Hx F [IH1 IH2]]; [split; [reflexivity | constructor]|].
  destruct (key b n) as [k|] eqn:Ek; [|discriminate]. injection Hx as <-. cbn [map snd fst]. split; [rewrite IH1; reflexivity|].
  constructor; [exact Ek | exact IH2].
Qed.

(* the members of an array: exactly the parameters whose name contains the family prefix, each once, under their programmatic
   names, in the order of their integers *)
Theorem pararray_spec key ps b els : pararray key ps b = Some els ->
  exists kn, map snd kn = filter (contains b) ps /\ Forall (fun x => key b (snd x) = Some (fst x)) kn /\
             els = map (fun x => programmatic (snd x)) (sort_keyed kn) /\
             Permutation (sort_keyed kn) kn /\ StronglySorted kle (sort_keyed kn) /\
             (NoDup (map fst kn) -> StronglySorted (fun a b : Z * string => (fst a < fst b)%Z) (sort_keyed kn)).
Proof.
  unfold pararray. intros H. destruct (keyed key ps b) as [kn|] eqn:Ek; [|discriminate]. injection H as <-.
  destruct (keyed_names _ _ _ _ Ek) as [E1 E2]. exists kn. split; [exact E1|]. split; [exact E2|]. split; [reflexivity|].
  split; [apply sort_keyed_perm|]. split; [apply sort_keyed_sorted|].
  intros Hnd. apply sorted_strict; [apply sort_keyed_sorted|].
  eapply Permutation_NoDup; [apply Permutation_map, Permutation_sym, sort_keyed_perm | exact Hnd].
Qed.

Lemma pararray_incl key ps b els : pararray key ps b = Some els -> incl els (map programmatic ps).
Proof.
  intros H. destruct (pararray_spec _ _ _ _ H) as (kn & E1 & _ & -> & P & _). intros x Hx.
  apply in_map_iff in Hx. destruct Hx as (y & <- & Hy). apply in_map.
  assert (Hin : In (snd y) (map snd kn)) by (apply in_map; eapply Permutation_in; [exact P | exact Hy]).
  rewrite E1 in Hin. apply filter_In in Hin. apply Hin.
Qed.

Lemma arrays_spec ps cs arrs : arrays ps cs = Some arrs ->
  (forall a, In a arrs -> incl (snd a) (map programmatic ps)) /\
  (forall s, In s (spline_names cs) -> In (programmatic s ++ "_SplineArr")%string (map fst arrs)) /\
  (filter (contains "f_scatt") ps <> [] -> In "f_scatt"%string (map fst arrs)) /\
  (filter (contains "IS_p") ps <> [] -> In "IS_poles"%string (map fst arrs)).
Proof.
  unfold arrays. intros H.
  destruct (mapM _ (spline_names cs)) as [sp|] eqn:Esp; [|discriminate].
  apply mapM_pairs in Esp.
  set (F := match filter (contains "f_scatt") ps with [] => Some [] | _ => option_map (fun els => [("f_scatt"%string, els)]) (pararray key_plain ps "f_scatt") end) in *.
  set (G := match filter (contains "IS_p") ps with [] => Some [] | _ => option_map (fun els => [("IS_poles"%string, els)]) (pararray key_is ps "IS_p") end) in *.
  destruct F as [fsc|] eqn:EF; [|discriminate]. destruct G as [isp|] eqn:EG; [|discriminate]. injection H as <-.
  assert (Hsp : forall a, In a sp -> incl (snd a) (map programmatic ps)).
  { intros a Ha. destruct (Forall2_in_r _ _ _ _ Esp Ha) as (s0 & _ & Hs0).
    destruct (pararray key_plain ps (s0 ++ "::Spline::Gamma::")) as [els|] eqn:Ep; [|discriminate]. injection Hs0 as <-.
    cbn [snd]. eapply pararray_incl; exact Ep. }
  assert (Hf : forall a, In a fsc -> incl (snd a) (map programmatic ps)).
  { subst F. intros a Ha. destruct (filter (contains "f_scatt") ps); [injection EF as <-; destruct Ha|].
    destruct (pararray key_plain ps "f_scatt") as [els|] eqn:Ep; [|discriminate]. injection EF as <-. destruct Ha as [<-|[]].
    cbn [snd]. eapply pararray_incl; exact Ep. }
  assert (Hi : forall a, In a isp -> incl (snd a) (map programmatic ps)).
  { subst G. intros a Ha. destruct (filter (contains "IS_p") ps); [injection EG as <-; destruct Ha|].
    destruct (pararray key_is ps "IS_p") as [els|] eqn:Ep; [|discriminate]. injection EG as <-. destruct Ha as [<-|[]].
    cbn [snd]. eapply pararray_incl; exact Ep. }
  split; [|split; [|split]].
  - intros a Ha. apply in_app_or in Ha. destruct Ha as [Ha|Ha]; [apply Hsp, Ha|].
    apply in_app_or in Ha. destruct Ha as [Ha|Ha]; [apply Hf, Ha | apply Hi, Ha].
  - intros s0 Hs0. rewrite map_app. apply in_or_app. left.
    destruct (Forall2_in_l _ _ _ _ Esp Hs0) as (a & Ha & Hs1).
    destruct (pararray key_plain ps (s0 ++ "::Spline::Gamma::")) as [els|]; [|discriminate]. injection Hs1 as <-.
    apply in_map_iff. eexists. split; [|exact Ha]. reflexivity.
  - intros Hne. rewrite !map_app. apply in_or_app. right. apply in_or_app. left. subst F.
    destruct (filter (contains "f_scatt") ps); [contradiction|].
    destruct (pararray key_plain ps "f_scatt"); [|discriminate]. injection EF as <-. left. reflexivity.
  - intros Hne. rewrite !map_app. apply in_or_app. right. apply in_or_app. right. subst G.
    destruct (filter (contains "IS_p") ps); [contradiction|].
    destruct (pararray key_is ps "IS_p"); [|discriminate]. injection EG as <-. left. reflexivity.
Qed.

Section Closed.
Variable pid_of : string -> option Z.
Variable info : Z -> option pinfo.
Variable sfk : list (string * list string).
Variable fuel : nat.

(* "defines the parameters those lineshapes need" (the premise of the property), for the lineshapes the file's amplitudes use:
   a spline lineshape has its constants (X::Spline::Min / Max / N make X one of the spline names); a K-matrix lineshape has
   its four scalar parameters and at least one member of each of the two array families; and no resonance carries the
   programmatic name of an event-type particle (whose mass is a constant, not a variable) *)
Definition defines_needed (c : content) (const_names : list string) : Prop :=
  let par_names := map pd_name (c_pars c) in
  forall e l, In (Some e) (c_amps c) -> In l (e_lines e) ->
    (forall p i, In p (c_event c) -> info p = Some i -> pi_prog i <> ls_prog l) /\
    match ls_k l with
    | GSpline => In (ls_name l) (spline_names const_names)
    | KMatrix _ _ => incl KM_PARS par_names
                     /\ (exists n, In n par_names /\ contains "f_scatt" n = true)
                     /\ (exists n, In n par_names /\ contains "IS_p" n = true)
    | _ => True
    end.

(* the premise as a computation (used for the examples) *)
Definition defines_needed_b (c : content) (const_names : list string) : bool :=
  let par_names := map pd_name (c_pars c) in
  forallb (fun oe => match oe with
                     | None => true
                     | Some e =>
                         forallb (fun l =>
                           forallb (fun p => match info p with Some i => negb (String.eqb (pi_prog i) (ls_prog l)) | None => true end) (c_event c)
                           && match ls_k l with
                              | GSpline => existsb (String.eqb (ls_name l)) (spline_names const_names)
                              | KMatrix _ _ => forallb (fun k => existsb (String.eqb k) par_names) KM_PARS
                                               && existsb (contains "f_scatt") par_names && existsb (contains "IS_p") par_names
                              | _ => true
                              end) (e_lines e)
                     end) (c_amps c).

Lemma defines_needed_b_sound c cn : defines_needed_b c cn = true -> defines_needed c cn.
Proof.
  unfold defines_needed_b, defines_needed. intros H e l He Hl.
  rewrite forallb_forall in H. specialize (H _ He). cbn beta iota in H. rewrite forallb_forall in H. specialize (H _ Hl).
  apply andb_prop in H. destruct H as [H1 H2]. split.
  - intros p i Hp Ei E. rewrite forallb_forall in H1. specialize (H1 _ Hp). rewrite Ei, E, String.eqb_refl in H1. discriminate.
  - destruct (ls_k l); try exact I.
    + apply existsb_exists in H2. destruct H2 as (x & Hx & Ex). apply String.eqb_eq in Ex. subst x. exact Hx.
    + apply andb_prop in H2. destruct H2 as [H2 H4]. apply andb_prop in H2. destruct H2 as [H2 H3]. split; [|split].
      * intros k Hk. rewrite forallb_forall in H2. specialize (H2 _ Hk). apply existsb_exists in H2.
        destruct H2 as (x & Hx & Ex). apply String.eqb_eq in Ex. subst x. exact Hx.
      * apply existsb_exists in H3. exact H3.
      * apply existsb_exists in H4. exact H4.
Qed.

Lemma convert_pnames config f c : convert pid_of info sfk fuel config f = Some c ->
  map pd_pname (c_pars c) = map programmatic (map pd_name (c_pars c)).
Proof.
  unfold convert. intros H. destruct (read_sets pid_of fuel config f) as [[cs r]|]; [|discriminate].
  injection H as <-. cbn [c_pars]. rewrite !map_map. apply map_ext. intros [[[n fx] v] e0]. reflexivity.
Qed.

Lemma convert_masses config f c : convert pid_of info sfk fuel config f = Some c ->
  incl (c_masses_line c) (map fst (c_massconsts c)).
Proof.
  unfold convert. intros H. destruct (read_sets pid_of fuel config f) as [[cs r]|]; [|discriminate].
  injection H as <-. cbn [c_masses_line c_massconsts]. rewrite map_map. cbn [fst].
  intros x Hx. apply in_map_iff in Hx. destruct Hx as (p & <- & Hp).
  apply in_map_iff. exists p. split; [reflexivity|].
  destruct (zdedupe_in _ [] _ Hp) as [[]|A]. exact A.
Qed.

Lemma filter_nonempty {A} (g : A -> bool) l x : In x l -> g x = true -> filter g l <> [].
Proof. intros Hin Hg E. assert (H : In x (filter g l)) by (apply filter_In; split; assumption). rewrite E in H. destruct H. Qed.

Theorem symbols_scoped config f so :
  symbols pid_of info sfk fuel config f = Some so ->
  (forall c, convert pid_of info sfk fuel config f = Some c -> defines_needed c (const_names_of f)) ->
  scoped_cond so.
Proof.
  unfold symbols. intros H Hprem. destruct (convert pid_of info sfk fuel config f) as [c|] eqn:Ec; [|discriminate].
  specialize (Hprem c eq_refl). destruct (all_some (c_amps c)) as [es|] eqn:Ees; [|discriminate].
  destruct (arrays (map pd_name (c_pars c)) (const_names_of f)) as [arrs|] eqn:Ea; [|discriminate].
  injection H as <-. unfold scoped_cond. cbn [so_consts so_resvars so_masses so_pars so_arrays so_amps].
  pose proof (convert_pnames _ _ _ Ec) as Epn.
  destruct (arrays_spec _ _ _ Ea) as (Hincl & Hspl & Hfs & His).
  split; [exact (convert_masses _ _ _ Ec)|]. split.
  - (* array elements are parameter variables *)
    intros a Ha. rewrite Epn. apply Hincl, Ha.
  - (* what a lineshape uses *)
    intros amp ls n Hamp Hls Hn. apply in_map_iff in Hamp. destruct Hamp as (e & <- & He).
    apply in_map_iff in Hls. destruct Hls as (l & <- & Hl).
    pose proof (all_some_in _ _ _ Ees He) as He'.
    destruct (Hprem e l He' Hl) as (Hnoev & Hkind).
    assert (Hmw : forall sfx, (sfx = "_M" \/ sfx = "_W") ->
              In (ls_prog l ++ sfx)%string (flat_map (fun x : string * option Q * option Q => match x with (n0, _, _) => [(n0 ++ "_M")%string; (n0 ++ "_W")%string] end) (c_resvars c))).
    { intros sfx Hs. destruct (lineshape_symbols_declared pid_of info sfk fuel config f c e l Ec He' Hl) as (p & i & Ei & Epr & [Hev|Hrv]).
      - exfalso. apply (Hnoev p i); [eapply zdedupe_sub; exact Hev | exact Ei | symmetry; exact Epr].
      - apply in_flat_map. eexists. split; [exact Hrv|]. cbn beta iota. rewrite <- Epr.
        destruct Hs as [->| ->]; [left; reflexivity | right; left; reflexivity]. }
    unfold ls_uses in Hn. destruct (ls_k l) eqn:Ek.
    + left. destruct Hn as [<-|[<-|[]]]; apply Hmw; auto.
    + destruct Hn as [<-|[<-|[<-|[]]]]; [left; apply Hmw; auto | left; apply Hmw; auto|].
      right. right. apply Hspl, Hkind.
    + destruct Hkind as (Hkm & (n1 & Hn1 & Hc1) & (n2 & Hn2 & Hc2)).
      apply in_app_or in Hn. destruct Hn as [Hn|Hn].
      * right. left. rewrite Epn. apply in_map_iff in Hn. destruct Hn as (k & <- & Hk). apply in_map, Hkm, Hk.
      * destruct Hn as [<-|[<-|[<-|[<-|[]]]]]; [| |left; apply Hmw; auto|left; apply Hmw; auto].
        -- right. right. apply Hfs. exact (filter_nonempty _ _ n1 Hn1 Hc1).
        -- right. right. apply His. exact (filter_nonempty _ _ n2 Hn2 Hc2).
    + left. destruct Hn as [<-|[<-|[]]]; apply Hmw; auto.
Qed.

(* every model symbol the generated code uses is declared earlier in the same output — whatever order the unordered groups
   (constants, resonance variables, arrays and the members of an array) come out in *)
Theorem symbols_declared_before_use config f so so' :
  symbols pid_of info sfk fuel config f = Some so ->
  (forall c, convert pid_of info sfk fuel config f = Some c -> defines_needed c (const_names_of f)) ->
  sym_equiv so so' -> well_scoped (flatten_syms so').
Proof.
  intros H Hp He. apply scoped_flatten. eapply scoped_cond_equiv; [exact He|]. eapply symbols_scoped; eassumption.
Qed.
End Closed.
