(* Text.v — AmpGen option files as TEXT: what data/ampgen.lark + Lark's contextual lexer + AmpGenTransformer make
   of a text, as far as modeling/amplitudechain.py reads it.  (The rest of C17's model, Amp/Read.v, starts from
   the transformed file, `list oline`.)

   ampgen.lark:   start : _NEWLINE? (line _NEWLINE)+          _NEWLINE : ( /\r?\n[\t ]*/ | COMMENT )+     COMMENT : /[#][^\n]*/
                  line  : cplx_decay_line | cart_decay_line | invert_line | constant | variable | options | event_type
                  decay : particle ( decaytype? subdecay )?     decaytype : "[" (SPIN | LINESHAPE) (";" LINESHAPE)? "]"
                  subdecay : "{" decay "," decay "}"            LABEL : ( CHAR | DIGIT | "'" | "*" | "::" | "+" | "-" | "(" | ")" )+
                  LINESHAPE : CHAR (CHAR | ".")+                CHAR : LETTER | DIGIT | "_" | "/"      %ignore WS_INLINE, COMMENT

   Model: a line is cut into words (maximal runs of characters other than blank, tab, '#', and the punctuation
   [ ] { } , ; =) and punctuation tokens; a word is classified as a whole by what the grammar position accepts
   (keyword, LABEL, SIGNED_NUMBER, INT, SPIN, LINESHAPE).  Words Lark's lexer would cut in two (a number glued to a
   label, a label with a single ':') are outside the domain: the model rejects them.  LALR facts built in (measured on
   lark 1.3.1, checked by the correspondence on every run): a bare particle followed by numbers is a constant (1 number)
   or a variable (3 numbers) — shift wins over the reduction to `decay`; a decay type tag needs a sub-decay; after a particle a
   word beginning like a number is lexed as a number (so the 2nd, 3rd, ... name of an event type may not begin like one).  No proofs here. *)
From Coq Require Import String Ascii List Bool ZArith QArith Arith.
From DL Require Import Lib.Val Lib.PyDict Dec.Num Amp.Syntax.
Import ListNotations.
Close Scope Q_scope.
Open Scope string_scope.

(* ------------------------------------------------------------------ character classes *)
Definition cnat (c : ascii) : nat := nat_of_ascii c.
Definition is_letter (c : ascii) : bool :=
  let n := cnat c in (Nat.leb 65 n && Nat.leb n 90) || (Nat.leb 97 n && Nat.leb n 122).
Definition is_char (c : ascii) : bool := is_letter c || is_digit c || Nat.eqb (cnat c) 95 (* _ *) || Nat.eqb (cnat c) 47 (* / *).
Definition is_label_char (c : ascii) : bool :=
  is_char c || Nat.eqb (cnat c) 39 (* ' *) || Nat.eqb (cnat c) 42 (* * *) || Nat.eqb (cnat c) 43 (* + *)
  || Nat.eqb (cnat c) 45 (* - *) || Nat.eqb (cnat c) 40 (* ( *) || Nat.eqb (cnat c) 41 (* ) *).
Definition is_colon (c : ascii) : bool := Nat.eqb (cnat c) 58.

(* LABEL: label characters and "::" pairs, non-empty *)
Fixpoint label_body (s : string) : bool :=
  match s with
  | EmptyString => true
  | String c r =>
      if is_label_char c then label_body r
      else if is_colon c then match r with String c2 r2 => is_colon c2 && label_body r2 | EmptyString => false end
      else false
  end.
Definition is_label (s : string) : bool := match s with EmptyString => false | _ => label_body s end.

Fixpoint all_chars (p : ascii -> bool) (s : string) : bool :=
  match s with EmptyString => true | String c r => p c && all_chars p r end.
Definition is_dot (c : ascii) : bool := Nat.eqb (cnat c) 46.
(* LINESHAPE : CHAR (CHAR | ".")+ *)
Definition is_lineshape (s : string) : bool :=
  match s with
  | String c (String c2 r) => is_char c && all_chars (fun x => is_char x || is_dot x) (String c2 r)
  | _ => false
  end.
Definition is_spin (s : string) : bool := String.eqb s "S" || String.eqb s "P" || String.eqb s "D".
Definition is_int (s : string) : bool := match s with EmptyString => false | _ => all_chars is_digit s end.
(* ESCAPED_STRING without inner quotes or backslashes, as one word *)
Definition is_quoted (s : string) : bool :=
  match s with
  | String q r => Nat.eqb (cnat q) 34 &&
      (fix go (t : string) : bool :=
         match t with
         | String c EmptyString => Nat.eqb (cnat c) 34
         | String c t' => negb (Nat.eqb (cnat c) 34) && negb (Nat.eqb (cnat c) 92) && go t'
         | EmptyString => false
         end) r
  | _ => false
  end.

Definition keywords : list string := ["EventType"; "FastCoherentSum::UseCartesian"; "Output"; "nEvents"].
Definition is_keyword (s : string) : bool := existsb (String.eqb s) keywords.

(* ------------------------------------------------------------------ scanning one line *)
Inductive atok := TWord (s : string) | TLBr | TRBr | TLBrace | TRBrace | TComma | TSemi | TEq.

Definition punct (c : ascii) : option atok :=
  let n := cnat c in
  if Nat.eqb n 91 then Some TLBr else if Nat.eqb n 93 then Some TRBr
  else if Nat.eqb n 123 then Some TLBrace else if Nat.eqb n 125 then Some TRBrace
  else if Nat.eqb n 44 then Some TComma else if Nat.eqb n 59 then Some TSemi
  else if Nat.eqb n 61 then Some TEq else None.
Definition is_blank (c : ascii) : bool := Nat.eqb (cnat c) 32 || Nat.eqb (cnat c) 9.
Definition is_hash (c : ascii) : bool := Nat.eqb (cnat c) 35.

Definition flush (cur : string) : list atok := match cur with EmptyString => [] | _ => [TWord cur] end.

(* (tokens, a comment was met) *)
Fixpoint scan (s : string) (cur : string) : list atok * bool :=
  match s with
  | EmptyString => (flush cur, false)
  | String c r =>
      if is_blank c then let '(ts, k) := scan r "" in (flush cur ++ ts, k)%list
      else if is_hash c then (flush cur, true)
      else match punct c with
           | Some t => let '(ts, k) := scan r "" in (flush cur ++ t :: ts, k)%list
           | None => scan r (cur ++ String c "")
           end
  end.

(* ------------------------------------------------------------------ one line of tokens *)
Fixpoint all_nums (ts : list atok) : option (list string) :=
  match ts with
  | [] => Some []
  | TWord w :: r => if is_num w then match all_nums r with Some l => Some (w :: l) | None => None end else None
  | _ => None
  end.
Fixpoint all_labels (ts : list atok) : option (list string) :=
  match ts with
  | [] => Some []
  | TWord w :: r => if is_label w then match all_labels r with Some l => Some (w :: l) | None => None end else None
  | _ => None
  end.

(* decaytype: "[" (SPIN | LINESHAPE) (";" LINESHAPE)? "]" -> (spinfactor, lineshape) as the transformer's dictionary ends up *)
Definition parse_tag (ts : list atok) : option (option string * option string * list atok) :=
  match ts with
  | TWord a :: TRBr :: r =>
      if is_spin a then Some (Some a, None, r) else if is_lineshape a then Some (None, Some a, r) else None
  | TWord a :: TSemi :: TWord b :: TRBr :: r =>
      if is_lineshape b then
        if is_spin a then Some (Some a, Some b, r) else if is_lineshape a then Some (None, Some b, r) else None
      else None
  | _ => None
  end.

(* decay : particle ( decaytype? subdecay )? ; fuel bounds the nesting depth *)
Fixpoint parse_decay (fuel : nat) (ts : list atok) : option (dtree * list atok) :=
  match fuel with
  | 0 => None
  | S f =>
      match ts with
      | TWord n :: r =>
          if is_label n then
            let sub (sp ls : option string) (r1 : list atok) :=
              match parse_decay f r1 with
              | Some (d1, TComma :: r2) =>
                  match parse_decay f r2 with
                  | Some (d2, TRBrace :: r3) => Some (DNode n sp ls [d1; d2], r3)
                  | _ => None
                  end
              | _ => None
              end in
            match r with
            | TLBr :: r0 => match parse_tag r0 with
                            | Some (sp, ls, TLBrace :: r1) => sub sp ls r1
                            | _ => None
                            end
            | TLBrace :: r1 => sub None None r1
            | _ => Some (DNode n None None [], r)
            end
          else None
      | _ => None
      end
  end.

(* LALR look-ahead merging: the state after ANY particle accepts SIGNED_NUMBER as well as LABEL, and the number wins; so a
   particle name that follows another particle (the second, third, ... name of an event type) must not begin like a number *)
Definition numlike_start (s : string) : bool :=
  match s with
  | String c r =>
      if is_digit c then true
      else if is_c c "+" || is_c c "-" then match r with String c2 _ => is_digit c2 | EmptyString => false end
      else false
  | EmptyString => false
  end.

Definition mk_fc (a b c : string) : fcplx := {| fc_fix := a; fc_val := b; fc_err := c |}.

(* None: syntax error; Some None: nothing on the line *)
Definition parse_line (ts : list atok) : option (option oline) :=
  match ts with
  | [] => Some None
  | TWord w :: rest =>
      if String.eqb w "EventType" then
        match all_labels rest with
        | Some (a :: b :: l) => if forallb (fun n => negb (numlike_start n)) (b :: l) then Some (Some (OEvent (a :: b :: l))) else None
        | _ => None
        end
      else if String.eqb w "FastCoherentSum::UseCartesian" then
        match rest with [TWord n] => if is_int n then Some (Some (OFCS n)) else None | _ => None end
      else if String.eqb w "Output" then
        match rest with [TWord q] => if is_quoted q then Some (Some OOther) else None | _ => None end
      else if String.eqb w "nEvents" then
        match rest with [TWord n] => if is_int n then Some (Some OOther) else None | _ => None end
      else
        match parse_decay (S (length ts)) ts with
        | Some (DNode n None None [], r) =>
            match r with
            | [TEq; TWord p] => if is_label p then Some (Some OOther) else None
            | _ => match all_nums r with
                   | Some [v] => Some (Some (OConst n v))
                   | Some [fx; v; e] => Some (Some (OVar n fx v e))
                   | _ => None
                   end
            end
        | Some (t, r) =>
            match all_nums r with
            | Some [a; b; c; d; e; g] => Some (Some (OCplx t (mk_fc a b c) (mk_fc d e g)))
            | Some [a; b; c] => Some (Some OOther)                     (* cart_decay_line: parsed, not read *)
            | _ => None
            end
        | None => None
        end
  | _ => None
  end.

(* ------------------------------------------------------------------ the text *)
Definition is_nl (c : ascii) : bool := Nat.eqb (cnat c) 10.
Definition is_cr (c : ascii) : bool := Nat.eqb (cnat c) 13.

(* segments between line feeds; the last one is what follows the last line feed *)
Fixpoint split_nl (s : string) (cur : string) : list string :=
  match s with
  | EmptyString => [cur]
  | String c r => if is_nl c then cur :: split_nl r "" else split_nl r (cur ++ String c "")
  end.

Fixpoint strip_cr (s : string) : string :=
  match s with
  | EmptyString => ""
  | String c EmptyString => if is_cr c then "" else s
  | String c r => String c (strip_cr r)
  end.

Fixpoint parse_segments (segs : list string) : option (list oline) :=
  match segs with
  | [] => Some []
  | [last] =>
      (* no line feed after it: fine when empty, or when a comment closes the line *)
      let '(ts, k) := scan last "" in
      match ts with
      | [] => Some []
      | _ => if k then match parse_line ts with Some (Some l) => Some [l] | Some None => Some [] | None => None end else None
      end
  | seg :: r =>
      let '(ts, _) := scan (strip_cr seg) "" in
      match parse_line ts, parse_segments r with
      | Some (Some l), Some ls => Some (l :: ls)
      | Some None, Some ls => Some ls
      | _, _ => None
      end
  end.

(* (line _NEWLINE)+ : at least one line *)
Definition parse_text (s : string) : option (list oline) :=
  match parse_segments (split_nl s "") with
  | Some [] => None
  | r => r
  end.

(* ------------------------------------------------------------------ rendering (canonical spelling; gaps of g+1 blanks) *)
Fixpoint spaces (n : nat) : string := match n with 0 => "" | S k => String " " (spaces k) end.
Definition gap (g : nat) : string := spaces (S g).

Fixpoint render_tree (t : dtree) : string :=
  match t with
  | DNode n sp ls sub =>
      n ++ (match sp, ls with
            | Some a, Some b => "[" ++ a ++ ";" ++ b ++ "]"
            | Some a, None => "[" ++ a ++ "]"
            | None, Some b => "[" ++ b ++ "]"
            | None, None => ""
            end)
        ++ (match sub with
            | [d1; d2] => "{" ++ render_tree d1 ++ "," ++ render_tree d2 ++ "}"
            | _ => ""
            end)
  end.

Fixpoint join_gap (g : nat) (l : list string) : string :=
  match l with [] => "" | [x] => x | x :: r => x ++ gap g ++ join_gap g r end.

Definition render_line (g : nat) (l : oline) : string :=
  match l with
  | OEvent names => join_gap g ("EventType" :: names)
  | OCplx t re im => join_gap g [render_tree t; fc_fix re; fc_val re; fc_err re; fc_fix im; fc_val im; fc_err im]
  | OConst n v => join_gap g [n; v]
  | OVar n fx v e => join_gap g [n; fx; v; e]
  | OFCS n => join_gap g ["FastCoherentSum::UseCartesian"; n]
  | OOther => ""
  end.

Definition nl : string := String (ascii_of_nat 10) "".
Fixpoint render_text (g : nat) (f : list oline) : string :=
  match f with [] => "" | l :: r => render_line g l ++ nl ++ render_text g r end.

(* ------------------------------------------------------------------ observation *)
Definition vostr (o : option string) : val := match o with Some s => VStr s | None => VNone end.
Fixpoint vdtree (t : dtree) : val :=
  match t with DNode n sp ls sub => VList [VStr n; vostr sp; vostr ls; VList (map vdtree sub)] end.
Definition voline (l : oline) : val :=
  match l with
  | OEvent names => VList [VStr "event"; VList (map VStr names)]
  | OCplx t re im => VList [VStr "cplx"; vdtree t; VList [VStr (fc_fix re); VStr (fc_val re); VStr (fc_err re)];
                            VList [VStr (fc_fix im); VStr (fc_val im); VStr (fc_err im)]]
  | OConst n v => VList [VStr "const"; VStr n; VStr v]
  | OVar n fx v e => VList [VStr "var"; VStr n; VStr fx; VStr v; VStr e]
  | OFCS n => VList [VStr "fcs"; VStr n]
  | OOther => VList [VStr "other"]
  end.
Definition vtext (r : option (list oline)) : val :=
  match r with Some f => VList (map voline f) | None => VErr "UnexpectedInput" end.
