(* Symbols.v — the model symbols of the generated code, in the order of the text: which names each section of the output of
   ampgen2goofit / ampgen2goofitpy DECLARES and which it USES (modeling/goofit.py make_intro, make_pars incl. the spline /
   f_scatt / IS_poles arrays, make_lineshape; ampgen2goofit.py: the intro, the parameter section and the lines, in that order).
   Both languages have the same symbol structure.  No proofs here. *)
From Coq Require Import String Ascii List Bool ZArith QArith Arith.
From DL Require Import Lib.Val Lib.PyDict Lib.Product Dec.Num Dec.Tables Amp.Syntax Amp.Perm Amp.Read Amp.GooFit Amp.Session
  Amp.Convert Gen.GenAmp.
Import ListNotations.
Close Scope Q_scope.
Open Scope string_scope.

Inductive sym := SDef (n : string) | SUse (n : string).

(* pandas Index.str.contains(sub) for a pattern without regular-expression metacharacters *)
Fixpoint contains (sub s : string) : bool :=
  match sprefix sub s with
  | Some _ => true
  | None => match s with EmptyString => false | String _ r => contains sub r end
  end.

Fixpoint sdedupe (l seen : list string) : list string :=
  match l with
  | [] => []
  | x :: r => if existsb (String.eqb x) seen then sdedupe r seen else x :: sdedupe r (x :: seen)
  end.

(* make_pars: the resonances with spline constants — names of constants containing "Spline", with the three suffixes removed *)
Definition spline_names (const_names : list string) : list string :=
  sdedupe (map (fun n => repl "::Spline::Max" "" (repl "::Spline::Min" "" (repl "::Spline::N" "" n)))
               (filter (contains "Spline") const_names)) [].

(* strip_pararray(pars, begin, convert): the parameters whose name contains `begin`, ordered by the integer that convert makes of
   name[len(begin):] (int(...) for the spline and f_scatt families; i*6 + index of the channel name for IS_p<i>_<channel>), under their
   programmatic names.  None: int() / names.index raise (ValueError) — the conversion fails.  Integers are digit strings here
   (Python's int() also takes signs, blanks and underscores: outside the domain).  pandas' sort_index is not stable: two members
   with the same integer are outside the domain as well (the theorem about the order assumes distinct keys). *)
Definition sy_digit (c : ascii) : bool := let n := nat_of_ascii c in Nat.leb 48 n && Nat.leb n 57.
Fixpoint digits_val (s : string) (acc : Z) : option Z :=
  match s with
  | EmptyString => Some acc
  | String c r => if sy_digit c then digits_val r (acc * 10 + Z.of_nat (nat_of_ascii c - 48))%Z else None
  end.
Definition parse_int (s : string) : option Z := match s with EmptyString => None | _ => digits_val s 0%Z end.

Fixpoint sdrop (n : nat) (s : string) : string :=
  match n, s with S k, String _ r => sdrop k r | _, _ => s end.

Fixpoint split_us (s cur : string) : list string :=
  match s with
  | EmptyString => [cur]
  | String c r => if is_c c "_" then cur :: split_us r "" else split_us r (cur ++ String c "")
  end.

Definition IS_NAMES : list string := ["pipi"; "KK"; "4pi"; "EtaEta"; "EtapEta"; "mass"].

Definition key_plain (begin name : string) : option Z := parse_int (sdrop (String.length begin) name).
Definition key_is (begin name : string) : option Z :=
  match split_us (sdrop (String.length begin) name) "" with
  | i :: j :: _ => match parse_int i, index_of j IS_NAMES with
                   | Some a, Some b => Some (a * 6 + Z.of_nat b)%Z
                   | _, _ => None
                   end
  | _ => None
  end.

Fixpoint ins_key (x : Z * string) (l : list (Z * string)) : list (Z * string) :=
  match l with
  | [] => [x]
  | y :: r => if Z.ltb (fst x) (fst y) then x :: l else y :: ins_key x r
  end.
Definition sort_keyed (l : list (Z * string)) : list (Z * string) := fold_right ins_key [] l.

Definition keyed (key : string -> string -> option Z) (par_names : list string) (begin : string) : option (list (Z * string)) :=
  mapM (fun n => option_map (fun k => (k, n)) (key begin n)) (filter (contains begin) par_names).

Definition pararray (key : string -> string -> option Z) (par_names : list string) (begin : string) : option (list string) :=
  option_map (fun kn => map (fun x => programmatic (snd x)) (sort_keyed kn)) (keyed key par_names begin).

Definition arrays (par_names const_names : list string) : option (list (string * list string)) :=
  match mapM (fun s => option_map (fun els => (programmatic s ++ "_SplineArr", els)) (pararray key_plain par_names (s ++ "::Spline::Gamma::")))
             (spline_names const_names) with
  | None => None
  | Some sp =>
      match (match filter (contains "f_scatt") par_names with
             | [] => Some []
             | _ => option_map (fun els => [("f_scatt", els)]) (pararray key_plain par_names "f_scatt")
             end),
            (match filter (contains "IS_p") par_names with
             | [] => Some []
             | _ => option_map (fun els => [("IS_poles", els)]) (pararray key_is par_names "IS_p")
             end) with
      | Some fsc, Some isp => Some (app sp (app fsc isp))
      | _, _ => None
      end
  end.

Definition KM_PARS : list string := ["sA_0"; "sA"; "s0_prod"; "s0_scatt"].

(* make_lineshape: the model symbols in the text of one lineshape, in text order *)
Definition ls_uses (l : lineshape) : list string :=
  let m := ls_prog l ++ "_M" in let w := ls_prog l ++ "_W" in
  match ls_k l with
  | RBW => [m; w]
  | GSpline => [m; w; programmatic (ls_name l) ++ "_SplineArr"]
  | KMatrix _ _ => app (map programmatic KM_PARS) ["f_scatt"; "IS_poles"; m; w]
  | FOCUS _ => [m; w]
  end.

Record symout := {
  so_consts : list string;                     (* intro: constants of the event-type particles *)
  so_resvars : list string;                    (* intro: <prog>_M, <prog>_W of every other particle seen *)
  so_masses : list string;                     (* intro: DK3P_DI.particle_masses = {...} uses the constants *)
  so_pars : list string;                       (* parameters: one variable per parameter line *)
  so_arrays : list (string * list string);     (* parameters: arrays, each listing parameter variables *)
  so_amps : list (list (list string))          (* lines: per amplitude, per lineshape, the symbols used *)
}.

Fixpoint all_some {A} (l : list (option A)) : option (list A) :=
  match l with
  | [] => Some []
  | Some x :: r => match all_some r with Some xs => Some (x :: xs) | None => None end
  | None :: _ => None
  end.

Section Sym.
Variable pid_of : string -> option Z.
Variable info : Z -> option pinfo.
Variable sfk : list (string * list string).
Variable fuel : nat.

Definition const_names_of (f : list oline) : list string :=
  flat_map (fun o => match o with OConst n _ => [n] | _ => [] end) f.

(* None: the conversion raises (reading fails, an amplitude cannot be emitted, or an array index is not an integer) *)
Definition symbols (config : bool) (f : list oline) : option symout :=
  match convert pid_of info sfk fuel config f with
  | None => None
  | Some c =>
      match all_some (c_amps c), arrays (map pd_name (c_pars c)) (const_names_of f) with
      | Some es, Some arrs =>
          Some {| so_consts := map fst (c_massconsts c);
                  so_resvars := flat_map (fun x => match x with (n, _, _) => [n ++ "_M"; n ++ "_W"] end) (c_resvars c);
                  so_masses := c_masses_line c;
                  so_pars := map pd_pname (c_pars c);
                  so_arrays := arrs;
                  so_amps := map (fun e => map ls_uses (e_lines e)) es |}
      | _, _ => None
      end
  end.
End Sym.

(* the symbols in text order *)
Definition flatten_syms (so : symout) : list sym :=
  (map SDef (so_consts so) ++ map SDef (so_resvars so) ++ map SUse (so_masses so) ++ map SDef (so_pars so)
   ++ flat_map (fun a : string * list string => map SUse (snd a) ++ [SDef (fst a)]) (so_arrays so)
   ++ map SUse (concat (concat (so_amps so))))%list.

(* ------------------------------------------------------------------ observation (groups the text leaves unordered are sorted
   by the harness on both sides) *)
Definition vsymout (o : option symout) : val :=
  match o with
  | None => VErr "error"
  | Some so =>
      VList [vstrs (so_consts so); vstrs (so_resvars so); vstrs (so_masses so); vstrs (so_pars so);
             VList (map (fun a => VList [VStr (fst a); vstrs (snd a)]) (so_arrays so));
             VList (map (fun a => VList (map vstrs a)) (so_amps so))]
  end.
