(* Session.v — the process-wide state of the AmpGen reader classes as a state machine
   (amplitudechain.py: class attributes all_particles / final_particles / cartesian, shared with the subclasses
    GooFitChain / GooFitPyChain until a class rebinds them; goofit.py: pars / consts of the last read).
   A read or a conversion starts from empty particle sets of the reading class; the coherent-sum option of a
   file applies to that file only; the class-wide `cartesian` attribute is configuration, never written. *)
From Coq Require Import String Ascii List Bool ZArith QArith Arith.
From DL Require Import Lib.Val Lib.PyDict Lib.Product Dec.Num Dec.Tables Amp.Syntax Amp.Read.
Import ListNotations.
Close Scope Q_scope.
Open Scope string_scope.

Inductive cls := CBase | CCpp | CPy.
Definition cls_eqb (a b : cls) : bool :=
  match a, b with CBase, CBase | CCpp, CCpp | CPy, CPy => true | _, _ => false end.

Record csets := { s_all : list Z; s_final : list Z }.

Record sess := {
  own : cls -> option csets;          (* the class's own binding of the two sets, if it ever read *)
  cart : cls -> bool;                 (* class-wide coupling convention: configuration *)
  pars_of : cls -> option (list (string * bool * Q * Q) * list (string * Q))   (* GooFit*Chain.pars / consts *)
}.

Definition init : sess := {| own := fun _ => None; cart := fun _ => false; pars_of := fun _ => None |}.

(* attribute lookup through the class hierarchy *)
Definition sets_of (s : sess) (c : cls) : csets :=
  match own s c with
  | Some x => x
  | None => match own s CBase with Some x => x | None => {| s_all := []; s_final := [] |} end
  end.

Inductive op := ORead (c : cls) (file : nat) | OCpp (file : nat) | OPy (file : nat).
Definition op_cls (o : op) : cls := match o with ORead c _ => c | OCpp _ => CCpp | OPy _ => CPy end.
Definition op_file (o : op) : nat := match o with ORead _ f | OCpp f | OPy f => f end.

Fixpoint zdedupe (l : list Z) (seen : list Z) : list Z :=
  match l with
  | [] => []
  | x :: r => if existsb (Z.eqb x) seen then zdedupe r seen else x :: zdedupe r (x :: seen)
  end.

Fixpoint node_pids (t : atree) : list Z :=
  match t with ANode _ p _ _ _ sub => p :: flat_map node_pids sub end.
Fixpoint leaf_pids (t : atree) : list Z :=
  match t with ANode _ p _ _ _ [] => [p] | ANode _ _ _ _ _ sub => flat_map leaf_pids sub end.

Section Step.
Variable pid_of : string -> option Z.
Variable fuel : nat.
Variable files : list (list oline).

(* the lines of a file as from_matched_line builds them (all cplx lines, resolved) *)
Definition file_lines (cartesian : bool) (f : list oline) : option (list atree) :=
  mapO (fun o => o) (flat_map (fun o => match o with OCplx t re im => [mk_line pid_of cartesian t re im] | _ => [] end) f).

(* what one read leaves in the reading class: particles of every node of every line; particles of the bare leaves
   of the expanded amplitudes *)
Definition read_sets (config : bool) (f : list oline) : option (csets * rresult) :=
  match read_ampgen pid_of fuel config f with
  | ROk r =>
      match file_lines (r_cartesian r) f with
      | Some ls => Some ({| s_all := zdedupe (flat_map node_pids ls) [];
                            s_final := zdedupe (flat_map leaf_pids (r_amps r)) [] |}, r)
      | None => None
      end
  | _ => None
  end.

(* output of a call: the amplitudes (and, for GooFit classes, tables) — a function of the file and the configuration *)
Definition step (s : sess) (o : op) : sess * option rresult :=
  let c := op_cls o in
  match nth_error files (op_file o) with
  | None => (s, None)
  | Some f =>
      match read_sets (cart s c) f with
      | None => (s, None)                  (* a failing read: outside the modelled histories *)
      | Some (cs, r) =>
          ({| own := fun c' => if cls_eqb c' c then Some cs else own s c';
              cart := cart s;
              pars_of := fun c' => match c with
                                   | CBase => pars_of s c'
                                   | _ => if cls_eqb c' c then Some (r_pars r, r_consts r) else pars_of s c'
                                   end |}, Some r)
      end
  end.

Fixpoint run (s : sess) (ops : list op) : list (sess * option rresult) :=
  match ops with
  | [] => []
  | o :: r => let '(s', out) := step s o in (s', out) :: run s' r
  end.
End Step.

(* ------------------------------------------------------------------ observation *)
Fixpoint zins (x : Z) (l : list Z) : list Z :=
  match l with [] => [x] | y :: r => if Z.leb x y then x :: l else y :: zins x r end.
Definition zsort (l : list Z) : list Z := fold_right zins [] l.

Definition vstate (s : sess) : val :=
  VList (map (fun c => let x := sets_of s c in
                       VList [VList (map VInt (zsort (s_all x))); VList (map VInt (zsort (s_final x))); VBool (cart s c)])
             [CBase; CCpp; CPy]).
Definition vhistory (pid_of : string -> option Z) (fuel : nat) (files : list (list oline)) (ops : list op) : val :=
  VList (map (fun so => vstate (fst so)) (run pid_of fuel files init ops)).
