(* Syntax.v — AmpGen option files after the Lark transformer (modeling/ampgentransform.py), and the
   amplitude trees AmplitudeChain builds from them (modeling/amplitudechain.py). *)
From Coq Require Import String Ascii List Bool ZArith QArith Arith.
From DL Require Import Lib.Val Lib.PyDict Lib.Product Dec.Num Dec.Tables.
Import ListNotations.
Close Scope Q_scope.
Open Scope string_scope.

(* a `decay` node as written: name, optional spin tag [S|P|D], optional lineshape tag, 0 or 2 daughters *)
Inductive dtree := DNode (name : string) (spin ls : option string) (sub : list dtree).

(* fix SIGNED_NUMBER SIGNED_NUMBER : "fixed_cplx" *)
Record fcplx := { fc_fix : string; fc_val : string; fc_err : string }.

Inductive oline :=
| OEvent (names : list string)
| OCplx (t : dtree) (re im : fcplx)
| OConst (name lit : string)
| OVar (name fx value err : string)
| OFCS (n : string)                           (* FastCoherentSum::UseCartesian INT *)
| OOther.                                     (* Output / nEvents / invert / cart lines: parsed, not used *)

(* coupling as stored on a line: the two numeric columns (value, error), and how they are read *)
Inductive coupling :=
| Polar (a theta da dtheta : Q)               (* amp = a * exp(i theta) *)
| Cart (re im dre dim : Q).                   (* amp = re + i im *)

(* an AmplitudeChain: resolved particle, tags, daughters; top-level lines carry coupling and fix *)
Inductive atree := ANode (name : string) (pid : Z) (spin ls : option string)
                         (cpl : option (coupling * bool)) (sub : list atree).

Definition a_name (t : atree) := match t with ANode n _ _ _ _ _ => n end.
Definition a_pid (t : atree) := match t with ANode _ p _ _ _ _ => p end.
Definition a_spin (t : atree) := match t with ANode _ _ s _ _ _ => s end.
Definition a_ls (t : atree) := match t with ANode _ _ _ l _ _ => l end.
Definition a_cpl (t : atree) := match t with ANode _ _ _ _ c _ => c end.
Definition a_sub (t : atree) := match t with ANode _ _ _ _ _ s => s end.
Definition with_sub (t : atree) (s : list atree) : atree :=
  match t with ANode n p sp l c _ => ANode n p sp l c s end.
