(* Perm.v — ModelDecay.structure / list_structure (src/decaylanguage/modeling/decay.py:81-108):
   the Bose-symmetrisation index permutations, with the proof that they are exactly the
   one-to-one assignments of the amplitude's final-state particles to positions of identical
   particles in the event type, each once (property C18, first half). *)
From Coq Require Import List Arith ZArith Bool Lia.
From DL Require Import Lib.Product.
Import ListNotations.

Section Perm.
(* particles are compared by PDG ID *)
Fixpoint positions_from (i : nat) (fs : list Z) (x : Z) : list nat :=
  match fs with
  | [] => []
  | y :: r => if Z.eqb y x then i :: positions_from (S i) r x else positions_from (S i) r x
  end.
Definition positions (fs : list Z) (x : Z) : list nat := positions_from 0 fs x.

Fixpoint nodupb (l : list nat) : bool :=
  match l with
  | [] => true
  | a :: r => negb (existsb (Nat.eqb a) r) && nodupb r
  end.

Definition zmem (x : Z) (l : list Z) : bool := existsb (Z.eqb x) l.

(* None: RuntimeError "The final states must encompass all particles in final states!" *)
Definition list_structure (fs st : list Z) : option (list (list nat)) :=
  if forallb (fun x => zmem x fs) st
  then Some (filter nodupb (product (map (positions fs) st)))
  else None.

(* ------------------------------------------------------------------ proofs *)
Lemma positions_from_spec fs x : forall i j,
  In j (positions_from i fs x) <-> exists k, j = i + k /\ nth_error fs k = Some x.
Proof.
  induction fs as [|y r IH]; intros i j; simpl.
  - split; [intros [] | intros [k [_ H]]; destruct k; discriminate].
  - destruct (Z.eqb y x) eqn:E.
    + apply Z.eqb_eq in E. subst y. simpl. rewrite IH. split.
      * intros [<-|[k [-> H]]]; [exists 0; split; [lia | reflexivity] | exists (S k); split; [lia | exact H]].
      * intros [[|k] [-> H]]; [left; lia | right; exists k; split; [lia | exact H]].
    + rewrite IH. split.
      * intros [k [-> H]]. exists (S k). split; [lia | exact H].
      * intros [[|k] [-> H]]; simpl in H.
        -- inversion H; subst. rewrite Z.eqb_refl in E. discriminate.
        -- exists k. split; [lia | exact H].
Qed.

Lemma positions_spec fs x j : In j (positions fs x) <-> nth_error fs j = Some x.
Proof.
  unfold positions. rewrite positions_from_spec. split; [intros [k [-> H]]; exact H | intros H; exists j; auto].
Qed.

Lemma positions_from_lb fs x : forall i j, In j (positions_from i fs x) -> i <= j.
Proof. intros i j H. apply positions_from_spec in H. destruct H as [k [-> _]]. lia. Qed.

Lemma positions_from_nodup fs x : forall i, NoDup (positions_from i fs x).
Proof.
  induction fs as [|y r IH]; intros i; simpl; [constructor|].
  destruct (Z.eqb y x); [|apply IH]. constructor; [|apply IH].
  intros H. apply positions_from_lb in H. lia.
Qed.

Lemma nodupb_spec l : nodupb l = true <-> NoDup l.
Proof.
  induction l as [|a r IH]; simpl; [split; [constructor | reflexivity]|].
  rewrite andb_true_iff, negb_true_iff, IH. split.
  - intros [H1 H2]. constructor; [|assumption]. intros Hin.
    assert (existsb (Nat.eqb a) r = true); [|congruence].
    apply existsb_exists. exists a. split; [assumption | apply Nat.eqb_refl].
  - intros H. inversion H; subst. split; [|assumption].
    destruct (existsb (Nat.eqb a) r) eqn:E; [|reflexivity].
    apply existsb_exists in E. destruct E as [y [Hy Ey]]. apply Nat.eqb_eq in Ey. subst. contradiction.
Qed.

(* the permutations used: each is a one-to-one assignment sigma with  fs[sigma i] = st[i];
   every such assignment is used; none twice *)
Theorem list_structure_spec fs st P : list_structure fs st = Some P ->
  NoDup P /\
  forall sigma, In sigma P <->
    (NoDup sigma /\ Forall2 (fun i x => nth_error fs i = Some x) sigma st).
Proof.
  unfold list_structure. destruct (forallb _ st); [|discriminate]. intros H. inversion H; subst; clear H. split.
  - apply NoDup_filter. apply product_nodup. rewrite Forall_forall. intros o Ho.
    apply in_map_iff in Ho. destruct Ho as [x [<- _]]. apply positions_from_nodup.
  - intros sigma. rewrite filter_In, in_product, nodupb_spec. split.
    + intros [H1 H2]. split; [assumption|].
      revert sigma H1 H2. induction st as [|x r IH]; intros sigma H1 H2; inversion H1; subst; constructor.
      * apply positions_spec. assumption.
      * apply IH; [assumption|]. inversion H2; assumption.
    + intros [H1 H2]. split; [|assumption].
      clear H1. revert sigma H2. induction st as [|x r IH]; intros sigma H2; inversion H2; subst; constructor.
      * apply positions_spec. assumption.
      * apply IH. assumption.
Qed.

(* the documented error, exactly when a particle of the amplitude is not in the event type *)
Theorem list_structure_error fs st : list_structure fs st = None <-> exists x, In x st /\ ~ In x fs.
Proof.
  unfold list_structure. destruct (forallb (fun x => zmem x fs) st) eqn:E.
  - split; [discriminate|]. intros [x [Hx Hn]]. rewrite forallb_forall in E. specialize (E x Hx).
    unfold zmem in E. apply existsb_exists in E. destruct E as [y [Hy Ey]]. apply Z.eqb_eq in Ey. subst. contradiction.
  - split; [|reflexivity]. intros _.
    assert (exists x, In x st /\ zmem x fs = false) as [x [Hx Hz]].
    { clear -E. induction st as [|a r IH]; simpl in E; [discriminate|]. apply andb_false_iff in E. destruct E as [E|E].
      - exists a. split; [left; reflexivity | assumption].
      - destruct (IH E) as [x [Hx Hz]]. exists x. split; [right; assumption | assumption]. }
    exists x. split; [assumption|]. intros Hin. unfold zmem in Hz.
    assert (existsb (Z.eqb x) fs = true); [|congruence]. apply existsb_exists. exists x. split; [assumption | apply Z.eqb_refl].
Qed.
End Perm.
