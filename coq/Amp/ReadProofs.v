(* ReadProofs.v — expand_lines enumerates exactly the complete decay lines (property C17). *)
From Coq Require Import String Ascii List Bool ZArith QArith Arith Lia.
From DL Require Import Lib.Val Lib.PyDict Lib.Product Dec.Num Dec.Tables Amp.Syntax Amp.Read.
Import ListNotations.
Close Scope Q_scope.
Open Scope string_scope.
Open Scope list_scope.

Definition matching (lines : list atree) (t : atree) : list atree :=
  filter (fun ln => String.eqb (a_name ln) (a_name t)) lines.

(* c is a complete decay line obtained from t: every bare daughter that has separate lines is replaced by a
   complete line of one of them (recursively); everything else — names, tags, couplings — is as written *)
Inductive completes (lines : list atree) : atree -> atree -> Prop :=
| C_node t cs : a_sub t <> [] -> Forall2 (completes lines) (a_sub t) cs -> completes lines t (with_sub t cs)
| C_leaf_line t ln c : a_sub t = [] -> In ln (matching lines t) -> completes lines ln c -> completes lines t c
| C_leaf_bare t : a_sub t = [] -> matching lines t = [] -> completes lines t t.

Lemma mapM_some_Forall2 {A B} (f : A -> option B) l ys : mapM f l = Some ys -> Forall2 (fun x y => f x = Some y) l ys.
Proof.
  revert ys. induction l as [|x r IH]; simpl; intros ys H; [inversion H; constructor|].
  destruct (f x) eqn:Ex; [|discriminate]. destruct (mapM f r) eqn:Er; [|discriminate].
  inversion H; subst. constructor; auto.
Qed.

Lemma in_concat_iff {A} (x : A) ls : In x (concat ls) <-> exists l, In l ls /\ In x l.
Proof. apply in_concat. Qed.

Lemma expand_S lines f t :
  expand (S f) lines t =
  match a_sub t with
  | [] => match mapM (expand f lines) (matching lines t) with
          | None => None
          | Some ls => match concat ls with [] => Some [t] | all => Some all end
          end
  | d :: ds => match mapM (expand f lines) (d :: ds) with
               | None => None
               | Some dl => Some (map (with_sub t) (product dl))
               end
  end.
Proof. unfold matching. simpl. destruct (a_sub t); reflexivity. Qed.

(* expansions are never empty *)
Lemma expand_nonempty lines : forall fuel t l, expand fuel lines t = Some l -> l <> [].
Proof.
  induction fuel as [|f IH]; intros t l H; [discriminate|]. rewrite expand_S in H.
  destruct (a_sub t) as [|d ds] eqn:Es.
  - destruct (mapM (expand f lines) _) as [ls|]; [|discriminate].
    destruct (concat ls) eqn:Ec; inversion H; subst; intros X; inversion X.
  - destruct (mapM (expand f lines) (d :: ds)) as [dl|] eqn:Em; [|discriminate]. inversion H; subst.
    apply mapM_some_Forall2 in Em.
    assert (Hne : product dl <> []).
    { assert (Forall (fun o => o <> []) dl).
      { clear H Es. induction Em as [|x y xs ys Hxy Hr IHr]; [constructor|]. constructor; [eapply IH; eassumption | exact IHr]. }
      clear -H0. induction H0 as [|o l Ho Hl IHl]; simpl; [discriminate|].
      destruct o as [|a o]; [congruence|]. simpl. destruct (product l); [congruence | discriminate]. }
    destruct (product dl); [congruence | simpl; intros X; discriminate X].
Qed.

(* soundness and completeness of the enumeration, for any run that returns *)
Theorem expand_spec lines : forall fuel t l, expand fuel lines t = Some l ->
  forall c, In c l <-> completes lines t c.
Proof.
  induction fuel as [|f IH]; intros t l H c; [discriminate|]. rewrite expand_S in H.
  destruct (a_sub t) as [|d ds] eqn:Es.
  - (* bare leaf *)
    destruct (mapM (expand f lines) (matching lines t)) as [ls|] eqn:Em; [|discriminate].
    pose proof (mapM_some_Forall2 _ _ _ Em) as F.
    destruct (matching lines t) as [|m ms] eqn:Ematch.
    + inversion F; subst. simpl in H. inversion H; subst. split.
      * intros [<-|[]]. apply C_leaf_bare; assumption.
      * intros Hc. inversion Hc as [t' cs Hs _|t' ln c' _ Hin _|t' _ _]; subst.
        -- congruence.
        -- rewrite Ematch in Hin. destruct Hin.
        -- left. reflexivity.
    + assert (Hall : l = concat ls).
      { destruct (concat ls) eqn:Ec; [|inversion H; reflexivity]. exfalso.
        inversion F as [|x y xs ys Hxy Hr]; subst. simpl in Ec. apply app_eq_nil in Ec. destruct Ec as [Ey _]. subst y.
        eapply expand_nonempty; [exact Hxy | reflexivity]. }
      subst l. rewrite in_concat_iff. split.
      * intros [lx [Hlx Hc]].
        assert (exists ln, In ln (m :: ms) /\ expand f lines ln = Some lx) as [ln [Hln Eln]].
        { clear -F Hlx. induction F as [|x y xs ys Hxy Hr IHr]; [destruct Hlx|].
          destruct Hlx as [<-|Hlx]; [exists x; split; [left; reflexivity | assumption]|].
          destruct (IHr Hlx) as [ln [A B]]. exists ln. split; [right; assumption | assumption]. }
        eapply C_leaf_line; [assumption | rewrite Ematch; exact Hln | apply (IH _ _ Eln); assumption].
      * intros Hc. inversion Hc as [t' cs Hs _|t' ln c' _ Hin Hcl|t' _ Hm]; subst.
        -- congruence.
        -- rewrite Ematch in Hin.
           assert (exists lx, In lx ls /\ expand f lines ln = Some lx) as [lx [Hlx Eln]].
           { clear -F Hin. induction F as [|x y xs ys Hxy Hr IHr]; [destruct Hin|].
             destruct Hin as [<-|Hin]; [exists y; split; [left; reflexivity | assumption]|].
             destruct (IHr Hin) as [lx [A B]]. exists lx. split; [right; assumption | assumption]. }
           exists lx. split; [assumption | apply (IH _ _ Eln); assumption].
        -- rewrite Ematch in Hm. discriminate.
  - (* node with daughters *)
    destruct (mapM (expand f lines) (d :: ds)) as [dl|] eqn:Em; [|discriminate]. inversion H; subst.
    pose proof (mapM_some_Forall2 _ _ _ Em) as F. rewrite in_map_iff. split.
    + intros [cs [<- Hcs]]. apply C_node; [rewrite Es; discriminate|]. rewrite Es.
      apply in_product in Hcs. clear -IH F Hcs. revert cs Hcs.
      induction F as [|x y xs ys Hxy Hr IHr]; intros cs Hcs; inversion Hcs; subst; constructor.
      * apply (IH _ _ Hxy). assumption.
      * apply IHr. assumption.
    + intros Hc. inversion Hc as [t' cs Hs Hf|t' ln c' Hs _ _|t' Hs _]; subst; try congruence.
      exists cs. split; [reflexivity|]. apply in_product. rewrite Es in Hf. clear -IH F Hf. revert cs Hf.
      induction F as [|x y xs ys Hxy Hr IHr]; intros cs Hf; inversion Hf; subst; constructor.
      * apply (IH _ _ Hxy). assumption.
      * apply IHr. assumption.
Qed.

(* the number of amplitudes: product over daughters; sum over the separate lines of a bare daughter *)
Fixpoint ecount (fuel : nat) (lines : list atree) (t : atree) : nat :=
  match fuel with
  | 0 => 0
  | S f =>
      match a_sub t with
      | [] => match matching lines t with
              | [] => 1
              | ms => fold_right (fun ln acc => ecount f lines ln + acc) 0 ms
              end
      | ds => fold_right (fun d acc => ecount f lines d * acc) 1 ds
      end
  end.

Theorem expand_length lines : forall fuel t l, expand fuel lines t = Some l -> length l = ecount fuel lines t.
Proof.
  induction fuel as [|f IH]; intros t l H; [discriminate|]. rewrite expand_S in H. simpl.
  destruct (a_sub t) as [|d ds] eqn:Es.
  -
    destruct (mapM (expand f lines) (matching lines t)) as [ls|] eqn:Em; [|discriminate].
    pose proof (mapM_some_Forall2 _ _ _ Em) as F.
    destruct (matching lines t) as [|m ms] eqn:Ematch.
    + inversion F; subst. simpl in H. inversion H. reflexivity.
    + assert (Hall : l = concat ls).
      { destruct (concat ls) eqn:Ec; [|inversion H; reflexivity]. exfalso.
        inversion F as [|x y xs ys Hxy Hr]; subst. simpl in Ec. apply app_eq_nil in Ec. destruct Ec as [Ey _]. subst y.
        eapply expand_nonempty; [exact Hxy | reflexivity]. }
      subst l. clear H Em Ematch.
      assert (G : forall L ls0, Forall2 (fun x y => expand f lines x = Some y) L ls0 ->
                  length (concat ls0) = fold_right (fun ln acc => ecount f lines ln + acc) 0 L).
      { induction 1 as [|x y xs ys Hxy Hr IHr]; simpl; [reflexivity|]. rewrite app_length, IHr, (IH _ _ Hxy). reflexivity. }
      exact (G _ _ F).
  - destruct (mapM (expand f lines) (d :: ds)) as [dl|] eqn:Em; [|discriminate]. inversion H; subst.
    rewrite map_length, product_length. apply mapM_some_Forall2 in Em.
    assert (G : forall L dl0, Forall2 (fun x y => expand f lines x = Some y) L dl0 ->
                fold_right (fun l0 acc => length l0 * acc) 1 dl0 = fold_right (fun d0 acc => ecount f lines d0 * acc) 1 L).
    { induction 1 as [|x y xs ys Hxy Hr IHr]; simpl; [reflexivity|]. rewrite IHr, (IH _ _ Hxy). reflexivity. }
    exact (G _ _ Em).
Qed.

(* the root of every amplitude is the line as written: name, particle, tags, coupling, fixedness *)
Definition root_eq (a b : atree) : Prop :=
  a_name a = a_name b /\ a_pid a = a_pid b /\ a_spin a = a_spin b /\ a_ls a = a_ls b /\ a_cpl a = a_cpl b.

Theorem expand_root lines fuel t l : a_sub t <> [] -> expand fuel lines t = Some l -> Forall (fun c => root_eq c t) l.
Proof.
  intros Hs H. destruct fuel as [|f]; [discriminate|]. rewrite expand_S in H.
  destruct (a_sub t) as [|d ds] eqn:Es; [congruence|].
  destruct (mapM (expand f lines) (d :: ds)) as [dl|]; [|discriminate]. inversion H; subst.
  rewrite Forall_forall. intros c Hc. apply in_map_iff in Hc. destruct Hc as [cs [<- _]].
  destruct t. unfold root_eq. simpl. auto.
Qed.

(* coupling: magnitude/phase unless the cartesian option is on; fix flag from the two fix columns *)
Theorem mk_line_coupling pid_of cart t re im n p sp l c s :
  mk_line pid_of cart t re im = Some (ANode n p sp l c s) ->
  c = Some (if cart then Cart (numq (fc_val re)) (numq (fc_val im)) (numq (fc_err re)) (numq (fc_err im))
            else Polar (numq (fc_val re)) (numq (fc_val im)) (numq (fc_err re)) (numq (fc_err im)),
            negb (checkfixed (fc_fix re) && checkfixed (fc_fix im))).
Proof.
  unfold mk_line. destruct (resolve pid_of t) as [[n' p' sp' l' c' s']|]; [|discriminate].
  intros H. inversion H; subst. destruct cart; reflexivity.
Qed.

(* a text carrying the coherent-sum option is read without internal error: the option sets the coupling mode *)
Theorem read_with_fcs pid_of fuel cart0 f n r :
  fcs_of f = [n] -> read_ampgen pid_of fuel cart0 f = ROk r -> r_cartesian r = negb (Qeq_bool (numq n) 0).
Proof.
  intros Hn H. unfold read_ampgen in H. rewrite Hn in H.
  destruct (flat_map _ f) as [|names [|? ?]]; try discriminate.
  destruct (mapO pid_of names) as [ev|]; [|discriminate].
  match type of H with match ?X with _ => _ end = _ => destruct X as [lines|]; [|discriminate] end.
  destruct ev as [|m ev']; [discriminate|].
  match type of H with match ?X with _ => _ end = _ => destruct X as [ls|]; [|discriminate] end.
  inversion H; subst. reflexivity.
Qed.

Theorem read_tables pid_of fuel cart0 f r : read_ampgen pid_of fuel cart0 f = ROk r ->
  r_pars r = flat_map (fun o => match o with OVar n fx v e => [(n, checkfixed fx, numq v, numq e)] | _ => [] end) f /\
  r_consts r = flat_map (fun o => match o with OConst n v => [(n, numq v)] | _ => [] end) f /\
  exists names, flat_map (fun o => match o with OEvent ns => [ns] | _ => [] end) f = [names] /\
                mapO pid_of names = Some (r_event r).
Proof.
  intros H. unfold read_ampgen in H.
  destruct (flat_map (fun o => match o with OEvent ns => [ns] | _ => [] end) f) as [|names [|? ?]] eqn:Ee; try discriminate.
  destruct (mapO pid_of names) as [ev|] eqn:Ev; [|discriminate].
  destruct (fcs_of f) as [|a [|b r0]]; try discriminate;
  (match type of H with match ?X with _ => _ end = _ => destruct X as [lines|]; [|discriminate] end;
   destruct ev as [|m ev']; [discriminate|];
   match type of H with match ?X with _ => _ end = _ => destruct X as [ls|]; [|discriminate] end;
   inversion H; subst; simpl; repeat split; exists names; auto).
Qed.
