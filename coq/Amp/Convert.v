(* Convert.v — what ampgen2goofit / ampgen2goofitpy put into their output, as structured content shared by the two
   languages: event type, mass constants of the event-type particles, mass/width variables of every other particle
   seen, one declaration per parameter line, and the code of every amplitude (Amp/GooFit.v).
   (modeling/goofit.py make_intro 77-115 / 411-454, make_pars 203-264 / 542-603 first part, ampgen2goofit.py.)
   The spline / f_scatt / IS_poles arrays of make_pars are not modelled (pandas string operations); the check examines
   them on the emitted text directly.  No proofs here. *)
From Coq Require Import String Ascii List Bool ZArith QArith Arith.
From DL Require Import Lib.Val Lib.PyDict Lib.Product Dec.Num Dec.Tables Amp.Syntax Amp.Perm Amp.Read Amp.GooFit Amp.Session
  Gen.GenAmp.
Import ListNotations.
Close Scope Q_scope.
Open Scope string_scope.

(* ------------------------------------------------------------------ particle.utilities.programmatic_name(name, False) *)
Fixpoint sprefix (p s : string) : option string :=           (* rest of s after prefix p *)
  match p, s with
  | EmptyString, _ => Some s
  | String a p', String b s' => if Ascii.eqb a b then sprefix p' s' else None
  | _, _ => None
  end.

Fixpoint replace_all (fuel : nat) (from to s : string) : string :=
  match fuel with
  | 0 => s
  | S f =>
      match s with
      | EmptyString => EmptyString
      | String c r => match sprefix from s with
                      | Some rest => to ++ replace_all f from to rest
                      | None => String c (replace_all f from to r)
                      end
      end
  end.
Definition repl (from to s : string) : string := replace_all (S (String.length s)) from to s.

Fixpoint ends_with_0 (s : string) : bool :=
  match s with
  | EmptyString => false
  | String c EmptyString => is_c c "0"
  | String _ r => ends_with_0 r
  end.
Fixpoint drop_last (s : string) : string :=
  match s with EmptyString => EmptyString | String c EmptyString => EmptyString | String c r => String c (drop_last r) end.
Fixpoint lstrip_us (s : string) : string :=
  match s with String c r => if is_c c "_" then lstrip_us r else s | EmptyString => s end.
Fixpoint has_char (c0 : string) (s : string) : bool :=
  match s with EmptyString => false | String c r => is_c c c0 || has_char c0 r end.

Definition programmatic (name : string) : string :=
  let n1 := if ends_with_0 name then drop_last name ++ "_0" else name in
  let n2 := match sprefix "~" n1 with Some rest => "tilde_" ++ rest | None => n1 end in
  let n3 := if has_char "~" n2 then repl "~" "" n2 ++ "_bar" else n2 in
  let n4 := repl "+" "_plus" (repl "-" "_minus" (repl "++" "_pp" (repl "--" "_mm" (repl "/" "" (repl "::" "_"
            (repl "'" "p" (repl "*" "st" (repl ")" "" (repl "(" "_" (repl ")(" "_" n3)))))))))) in
  lstrip_us n4.

(* ------------------------------------------------------------------ content *)
Definition upper_char (c : ascii) : ascii :=
  let n := nat_of_ascii c in if Nat.leb 97 n && Nat.leb n 122 then ascii_of_nat (n - 32) else c.
Fixpoint upper (s : string) : string := match s with EmptyString => EmptyString | String c r => String (upper_char c) (upper r) end.

Record par_decl := { pd_pname : string; pd_name : string; pd_value : Q; pd_error : option Q }.  (* error given iff free *)

Record content := {
  c_event : list Z;
  c_massconsts : list (string * option Q);                (* NAME (upper-case programmatic name), mass *)
  c_resvars : list (string * option Q * option Q);        (* programmatic name, mass, width -> <name>_M, <name>_W *)
  c_masses_line : list string;                            (* DK3P_DI.particle_masses *)
  c_pars : list par_decl;
  c_amps : list (option emitted)
}.

Section Conv.
Variable pid_of : string -> option Z.
Variable info : Z -> option pinfo.
Variable sfk : list (string * list string).
Variable fuel : nat.

Definition convert (config : bool) (f : list oline) : option content :=
  match read_sets pid_of fuel config f with
  | None => None
  | Some (cs, r) =>
      let ev := r_event r in
      let evset := zdedupe ev [] in
      let prog (p : Z) := match info p with Some i => pi_prog i | None => "?" end in
      let mass (p : Z) := match info p with Some i => pi_mass i | None => None end in
      let width (p : Z) := match info p with Some i => pi_width i | None => None end in
      Some {| c_event := ev;
              c_massconsts := map (fun p => (upper (prog p), mass p)) evset;
              c_resvars := map (fun p => (prog p, mass p, width p))
                               (filter (fun p => negb (existsb (Z.eqb p) evset)) (s_all cs));
              c_masses_line := map (fun p => upper (prog p)) ev;
              c_pars := map (fun row : string * bool * Q * Q => match row with (n, fx, v, e) =>
                                          {| pd_pname := programmatic n; pd_name := n; pd_value := v;
                                             pd_error := if fx then None else Some e |} end) (r_pars r);
              c_amps := map (to_goofit info sfk (tl ev)) (r_amps r) |}
  end.
End Conv.

(* ------------------------------------------------------------------ observation *)
Definition voq (o : option Q) : val := match o with Some q => vq q | None => VNone end.
Definition vcontent (o : option content) : val :=
  match o with
  | None => VErr "error"
  | Some c =>
      VList [VList (map VInt (c_event c));
             VList (map (fun x => VList [VStr (fst x); voq (snd x)]) (c_massconsts c));
             VList (map (fun x => match x with (n, m, w) => VList [VStr n; voq m; voq w] end) (c_resvars c));
             vstrs (c_masses_line c);
             VList (map (fun p => VList [VStr (pd_pname p); VStr (pd_name p); vq (pd_value p); voq (pd_error p)]) (c_pars c));
             VList (map vemitted (c_amps c))]
  end.
