(* TextProofs.v — every well-formed option file, spelled with any gap width, is read back as itself
   (scanner + line parser + file splitter of Amp/Text.v). *)
From Coq Require Import String Ascii List Bool ZArith QArith Arith Lia.
From DL Require Import Lib.Val Lib.PyDict Dec.Num Amp.Syntax Amp.Text.
Import ListNotations.
Close Scope Q_scope.
Open Scope string_scope.

(* ------------------------------------------------------------------ strings *)
Lemma append_assoc (a b c : string) : (a ++ b) ++ c = a ++ (b ++ c).
Proof. induction a as [|x a IH]; simpl; [reflexivity | rewrite IH; reflexivity]. Qed.
Lemma append_nil_r (a : string) : a ++ "" = a.
Proof. induction a as [|x a IH]; simpl; [reflexivity | rewrite IH; reflexivity]. Qed.

(* characters that stay inside a word *)
Definition plainc (c : ascii) : bool :=
  negb (is_cr c) && (negb (is_blank c) && negb (is_hash c) && negb (is_nl c) && match punct c with Some _ => false | None => true end).
Definition plain (w : string) : bool := all_chars plainc w.

Lemma plainc_facts c : plainc c = true -> is_blank c = false /\ is_hash c = false /\ is_nl c = false /\ punct c = None.
Proof.
  unfold plainc. intros H. apply andb_true_iff in H. destruct H as [_ H]. apply andb_true_iff in H. destruct H as [H Hp]. apply andb_true_iff in H. destruct H as [H Hn].
  apply andb_true_iff in H. destruct H as [Hb Hh]. apply negb_true_iff in Hb, Hh, Hn. destruct (punct c); [discriminate | auto].
Qed.

(* what may follow a word *)
Definition delim_start (s : string) : Prop :=
  match s with EmptyString => True | String c _ => plainc c = false /\ is_nl c = false end.

Lemma scan_word : forall w rest cur, plain w = true -> scan (w ++ rest) cur = scan rest (cur ++ w).
Proof.
  induction w as [|c w IH]; intros rest cur H; simpl.
  - rewrite append_nil_r. reflexivity.
  - simpl in H. apply andb_true_iff in H. destruct H as [Hc Hw]. destruct (plainc_facts c Hc) as (Hb & Hh & _ & Hp).
    rewrite Hb, Hh, Hp. rewrite (IH rest (cur ++ String c "") Hw). rewrite append_assoc. reflexivity.
Qed.

Lemma scan_spaces : forall n rest, scan (spaces n ++ rest) "" = scan rest "".
Proof.
  induction n as [|n IH]; intros rest; [reflexivity|]. simpl. change (is_blank " ") with true. cbn iota.
  rewrite IH. destruct (scan rest "") as [ts k]. reflexivity.
Qed.

Lemma flush_nonempty w : w <> "" -> flush w = [TWord w].
Proof. destruct w; [congruence | reflexivity]. Qed.

(* a word followed by a gap *)
Lemma scan_word_gap w g rest : plain w = true -> w <> "" ->
  scan (w ++ gap g ++ rest) "" = (TWord w :: fst (scan rest ""), snd (scan rest "")).
Proof.
  intros Hp Hne. rewrite scan_word by exact Hp. simpl. unfold gap. cbn [spaces append]. cbn [scan]. change (is_blank " ") with true. cbn iota.
  rewrite scan_spaces. rewrite flush_nonempty by exact Hne. destruct (scan rest "") as [ts k]. reflexivity.
Qed.
Lemma scan_word_end w : plain w = true -> w <> "" -> scan w "" = ([TWord w], false).
Proof.
  intros Hp Hne. rewrite <- (append_nil_r w) at 1. rewrite scan_word by exact Hp. simpl. rewrite flush_nonempty by exact Hne. reflexivity.
Qed.

Lemma scan_words g : forall ws, ws <> [] -> Forall (fun w => plain w = true /\ w <> "") ws ->
  scan (join_gap g ws) "" = (map TWord ws, false).
Proof.
  induction ws as [|w r IH]; intros Hne HF; [congruence|]. inversion HF as [|? ? [Hp Hw] HFr]; subst.
  destruct r as [|w2 r2].
  - simpl. apply scan_word_end; assumption.
  - change (join_gap g (w :: w2 :: r2)) with (w ++ gap g ++ join_gap g (w2 :: r2)). rewrite scan_word_gap by assumption.
    rewrite IH by (congruence || assumption). reflexivity.
Qed.

(* ------------------------------------------------------------------ trees: characters -> tokens *)
Definition tag_toks (sp ls : option string) : list atok :=
  match sp, ls with
  | Some a, Some b => [TLBr; TWord a; TSemi; TWord b; TRBr]
  | Some a, None => [TLBr; TWord a; TRBr]
  | None, Some b => [TLBr; TWord b; TRBr]
  | None, None => []
  end.
Fixpoint tree_toks (t : dtree) : list atok :=
  match t with
  | DNode n sp ls sub =>
      TWord n :: tag_toks sp ls ++
      match sub with
      | [d1; d2] => TLBrace :: tree_toks d1 ++ TComma :: tree_toks d2 ++ [TRBrace]
      | _ => []
      end
  end.

Definition oplain (o : option string) : Prop := match o with Some s => plain s = true /\ s <> "" | None => True end.
Fixpoint tree_plain (t : dtree) : Prop :=
  match t with
  | DNode n sp ls sub =>
      plain n = true /\ n <> "" /\ oplain sp /\ oplain ls /\
      match sub with [d1; d2] => tree_plain d1 /\ tree_plain d2 | _ => True end
  end.

Lemma dtree_ind2 (P : dtree -> Prop) :
  (forall n sp ls, P (DNode n sp ls [])) ->
  (forall n sp ls d1 d2, P d1 -> P d2 -> P (DNode n sp ls [d1; d2])) ->
  (forall n sp ls sub, (match sub with [] => False | [_; _] => False | _ => True end) -> P (DNode n sp ls sub)) ->
  forall t, P t.
Proof.
  intros H0 H2 Ho. fix IH 1. intros [n sp ls sub]. destruct sub as [|d1 [|d2 [|d3 r]]].
  - apply H0.
  - apply Ho. exact I.
  - apply H2; apply IH.
  - apply Ho. exact I.
Qed.

(* what may follow a word: nothing, a blank, a '#', or punctuation *)
Definition dstart (s : string) : Prop :=
  match s with
  | EmptyString => True
  | String c _ => is_blank c = true \/ (is_blank c = false /\ is_hash c = true) \/ (is_blank c = false /\ is_hash c = false /\ punct c <> None)
  end.

Lemma scan_flush rest cur : dstart rest -> cur <> "" -> scan rest cur = (TWord cur :: fst (scan rest ""), snd (scan rest "")).
Proof.
  intros Hd Hne. destruct rest as [|c r]; simpl.
  - rewrite flush_nonempty by exact Hne. reflexivity.
  - simpl in Hd. destruct Hd as [Hb|[[Hb Hh]|(Hb & Hh & Hp)]].
    + rewrite Hb. rewrite flush_nonempty by exact Hne. destruct (scan r "") as [ts k]. reflexivity.
    + rewrite Hb, Hh. rewrite flush_nonempty by exact Hne. reflexivity.
    + rewrite Hb, Hh. destruct (punct c) as [t|]; [|congruence]. rewrite flush_nonempty by exact Hne. destruct (scan r "") as [ts k]. reflexivity.
Qed.

Lemma scan_word_then w rest : plain w = true -> w <> "" -> dstart rest ->
  scan (w ++ rest) "" = (TWord w :: fst (scan rest ""), snd (scan rest "")).
Proof. intros Hp Hne Hd. rewrite scan_word by exact Hp. simpl. apply scan_flush; assumption. Qed.

Lemma scan_punct0 c t rest : punct c = Some t -> is_blank c = false -> is_hash c = false ->
  scan (String c rest) "" = (t :: fst (scan rest ""), snd (scan rest "")).
Proof. intros Hp Hb Hh. simpl. rewrite Hb, Hh, Hp. destruct (scan rest "") as [ts k]. reflexivity. Qed.

Lemma dstart_punct c t r : punct c = Some t -> is_blank c = false -> is_hash c = false -> dstart (String c r).
Proof. intros Hp Hb Hh. simpl. right. right. rewrite Hp. repeat split; auto. discriminate. Qed.

Ltac dpunct := eapply dstart_punct; reflexivity.

Lemma scan_tags sp ls rest : oplain sp -> oplain ls ->
  scan ((match sp, ls with
         | Some a, Some b => "[" ++ a ++ ";" ++ b ++ "]"
         | Some a, None => "[" ++ a ++ "]"
         | None, Some b => "[" ++ b ++ "]"
         | None, None => ""
         end) ++ rest) "" = ((tag_toks sp ls ++ fst (scan rest ""))%list, snd (scan rest "")).
Proof.
  intros Hsp Hls. destruct sp as [a|], ls as [b|]; cbn [tag_toks oplain app] in *.
  - destruct Hsp as [Ha Hae], Hls as [Hb Hbe]. rewrite !append_assoc. cbn [append].
    rewrite (scan_punct0 "["%char TLBr) by reflexivity. rewrite scan_word_then by (assumption || dpunct). cbn [fst snd append].
    rewrite (scan_punct0 ";"%char TSemi) by reflexivity. rewrite scan_word_then by (assumption || dpunct). cbn [fst snd append].
    rewrite (scan_punct0 "]"%char TRBr) by reflexivity. reflexivity.
  - destruct Hsp as [Ha Hae]. rewrite !append_assoc. cbn [append].
    rewrite (scan_punct0 "["%char TLBr) by reflexivity. rewrite scan_word_then by (assumption || dpunct). cbn [fst snd append].
    rewrite (scan_punct0 "]"%char TRBr) by reflexivity. reflexivity.
  - destruct Hls as [Hb Hbe]. rewrite !append_assoc. cbn [append].
    rewrite (scan_punct0 "["%char TLBr) by reflexivity. rewrite scan_word_then by (assumption || dpunct). cbn [fst snd append].
    rewrite (scan_punct0 "]"%char TRBr) by reflexivity. reflexivity.
  - cbn [append]. destruct (scan rest "") as [ts k]. reflexivity.
Qed.

Lemma dstart_tags sp ls rest : dstart rest ->
  dstart ((match sp, ls with
           | Some a, Some b => "[" ++ a ++ ";" ++ b ++ "]"
           | Some a, None => "[" ++ a ++ "]"
           | None, Some b => "[" ++ b ++ "]"
           | None, None => ""
           end) ++ rest).
Proof. intros H. destruct sp, ls; cbn [append]; try dpunct. exact H. Qed.

Lemma scan_tree : forall t rest, tree_plain t -> dstart rest ->
  scan (render_tree t ++ rest) "" = ((tree_toks t ++ fst (scan rest ""))%list, snd (scan rest "")).
Proof.
  induction t as [n sp ls|n sp ls d1 d2 IH1 IH2|n sp ls sub Hbad] using dtree_ind2; intros rest (Hn & Hne & Hsp & Hls & Hsub) Hd.
  - cbn [render_tree tree_toks]. rewrite !append_nil_r, app_nil_r. rewrite append_assoc.
    rewrite scan_word_then by (assumption || apply dstart_tags; exact Hd). rewrite scan_tags by assumption. reflexivity.
  - destruct Hsub as [P1 P2]. cbn [render_tree tree_toks]. rewrite !append_assoc.
    rewrite scan_word_then by (assumption || apply dstart_tags; dpunct). rewrite scan_tags by assumption. cbn [fst snd append].
    rewrite (scan_punct0 "{"%char TLBrace) by reflexivity. rewrite IH1 by (assumption || dpunct). cbn [fst snd append].
    rewrite (scan_punct0 ","%char TComma) by reflexivity. rewrite IH2 by (assumption || dpunct). cbn [fst snd append].
    rewrite (scan_punct0 "}"%char TRBrace) by reflexivity. cbn [fst snd]. f_equal.
    assert (L : forall (a b c : list atok) x, (a ++ (x :: b) ++ c = a ++ x :: b ++ c)%list) by (intros; reflexivity).
    repeat first [ rewrite <- app_assoc | rewrite <- app_comm_cons ]. reflexivity.
  - cbn [render_tree tree_toks]. destruct sub as [|x [|y [|z r]]]; try contradiction; rewrite !append_nil_r, app_nil_r, append_assoc;
      rewrite scan_word_then by (assumption || apply dstart_tags; exact Hd); rewrite scan_tags by assumption; reflexivity.
Qed.

(* ------------------------------------------------------------------ trees: tokens -> tree *)
Definition wf_spin (o : option string) : Prop := match o with Some a => is_spin a = true | None => True end.
Definition wf_ls (o : option string) : Prop := match o with Some b => is_lineshape b = true | None => True end.

Fixpoint tree_wf (t : dtree) : Prop :=
  match t with
  | DNode n sp ls sub =>
      is_label n = true /\
      match sub with
      | [] => sp = None /\ ls = None
      | [d1; d2] => wf_spin sp /\ wf_ls ls /\ tree_wf d1 /\ tree_wf d2
      | _ => False
      end
  end.

Fixpoint depth (t : dtree) : nat :=
  match t with DNode _ _ _ sub => S (fold_right (fun d acc => Nat.max (depth d) acc) 0 sub) end.

Definition no_open (r : list atok) : Prop := match r with TLBr :: _ => False | TLBrace :: _ => False | _ => True end.

Lemma spin_not_lineshape a : is_spin a = true -> is_lineshape a = false.
Proof.
  unfold is_spin. intros H. apply orb_true_iff in H. destruct H as [H|H]; [apply orb_true_iff in H; destruct H as [H|H]|];
    apply String.eqb_eq in H; subst; reflexivity.
Qed.

Lemma parse_tag_toks sp ls r : wf_spin sp -> wf_ls ls -> (sp <> None \/ ls <> None) ->
  parse_tag (tl (tag_toks sp ls ++ r)) = Some (sp, ls, r).
Proof.
  intros Hs Hl Hne. destruct sp as [a|], ls as [b|]; cbn [tag_toks app tl parse_tag wf_spin wf_ls] in *.
  - rewrite Hl, Hs. reflexivity.
  - rewrite Hs. reflexivity.
  - destruct (is_spin b) eqn:E; [rewrite (spin_not_lineshape b E) in Hl; discriminate|]. rewrite Hl. reflexivity.
  - destruct Hne as [H|H]; congruence.
Qed.

Lemma parse_decay_toks : forall t fuel r, tree_wf t -> depth t <= fuel -> no_open r ->
  parse_decay fuel (tree_toks t ++ r) = Some (t, r).
Proof.
  induction t as [n sp ls|n sp ls d1 d2 IH1 IH2|n sp ls sub Hbad] using dtree_ind2; intros fuel r Hwf Hd Hno.
  - destruct Hwf as [Hn [-> ->]]. destruct fuel as [|f]; [simpl in Hd; lia|]. simpl. rewrite Hn.
    destruct r as [|[] r']; try reflexivity; destruct Hno.
  - destruct Hwf as (Hn & Hs & Hl & W1 & W2). destruct fuel as [|f]; [simpl in Hd; lia|].
    assert (D1 : depth d1 <= f) by (simpl in Hd; lia). assert (D2 : depth d2 <= f) by (simpl in Hd; lia).
    cbn [tree_toks]. rewrite <- app_comm_cons. cbn [parse_decay]. rewrite Hn.
    set (body := (tree_toks d1 ++ TComma :: tree_toks d2 ++ TRBrace :: r)%list).
    assert (Enorm : ((tag_toks sp ls ++ TLBrace :: tree_toks d1 ++ TComma :: tree_toks d2 ++ [TRBrace]) ++ r = tag_toks sp ls ++ TLBrace :: body)%list).
    { unfold body. rewrite <- app_assoc. f_equal. rewrite <- app_comm_cons. f_equal. rewrite <- app_assoc. f_equal.
      rewrite <- app_comm_cons. f_equal. rewrite <- app_assoc. reflexivity. }
    rewrite Enorm. clear Enorm.
    assert (Hsub : forall sp0 ls0,
              match parse_decay f body with
              | Some (d1', TComma :: r2) =>
                  match parse_decay f r2 with
                  | Some (d2', TRBrace :: r3) => Some (DNode n sp0 ls0 [d1'; d2'], r3)
                  | _ => None
                  end
              | _ => None
              end = Some (DNode n sp0 ls0 [d1; d2], r)).
    { intros sp0 ls0. unfold body. rewrite (IH1 f (TComma :: tree_toks d2 ++ TRBrace :: r)%list W1 D1 I).
      rewrite (IH2 f (TRBrace :: r)%list W2 D2 I). reflexivity. }
    destruct sp as [a|], ls as [b|].
    + pose proof (parse_tag_toks (Some a) (Some b) (TLBrace :: body) Hs Hl) as Ht. cbn [tag_toks app tl] in Ht |- *.
      rewrite Ht by (left; discriminate). apply Hsub.
    + pose proof (parse_tag_toks (Some a) None (TLBrace :: body) Hs Hl) as Ht. cbn [tag_toks app tl] in Ht |- *.
      rewrite Ht by (left; discriminate). apply Hsub.
    + pose proof (parse_tag_toks None (Some b) (TLBrace :: body) Hs Hl) as Ht. cbn [tag_toks app tl] in Ht |- *.
      rewrite Ht by (right; discriminate). apply Hsub.
    + cbn [tag_toks app]. apply Hsub.
  - destruct Hwf as [_ Hwf]. destruct sub as [|x [|y [|z q]]]; try contradiction.
Qed.

(* ------------------------------------------------------------------ lines *)
Definition wf_num (w : string) : Prop := is_num w = true /\ plain w = true /\ w <> "".
Definition wf_name (n : string) : Prop := is_label n = true /\ plain n = true /\ n <> "" /\ is_keyword n = false.

Definition wf_fc (c : fcplx) : Prop := wf_num (fc_fix c) /\ wf_num (fc_val c) /\ wf_num (fc_err c).

Definition line_wf (l : oline) : Prop :=
  match l with
  | OEvent names => 2 <= length names /\ Forall (fun n => is_label n = true /\ plain n = true /\ n <> "") names /\
                    forallb (fun n => negb (numlike_start n)) (tl names) = true
  | OCplx t re im => tree_wf t /\ tree_plain t /\ is_keyword (match t with DNode n _ _ _ => n end) = false /\
                     (match t with DNode _ _ _ sub => sub <> [] end) /\ wf_fc re /\ wf_fc im
  | OConst n v => wf_name n /\ wf_num v
  | OVar n fx v e => wf_name n /\ wf_num fx /\ wf_num v /\ wf_num e
  | OFCS n => is_int n = true /\ plain n = true /\ n <> ""
  | OOther => False
  end.

Definition line_toks (l : oline) : list atok :=
  match l with
  | OEvent names => map TWord ("EventType" :: names)
  | OCplx t re im => tree_toks t ++ map TWord [fc_fix re; fc_val re; fc_err re; fc_fix im; fc_val im; fc_err im]
  | OConst n v => map TWord [n; v]
  | OVar n fx v e => map TWord [n; fx; v; e]
  | OFCS n => map TWord ["FastCoherentSum::UseCartesian"; n]
  | OOther => []
  end.

Lemma dstart_gap g rest : dstart (gap g ++ rest).
Proof. simpl. left. reflexivity. Qed.

Lemma scan_gap g rest : scan (gap g ++ rest) "" = scan rest "".
Proof. unfold gap. apply scan_spaces. Qed.

Lemma scan_line g l : line_wf l -> scan (render_line g l) "" = (line_toks l, false).
Proof.
  destruct l as [names|t re im|n v|n fx v e|n|]; cbn [line_wf render_line line_toks]; intros H.
  - destruct H as (_ & HF & _). apply scan_words; [discriminate|]. constructor; [split; [reflexivity | discriminate]|].
    eapply Forall_impl; [|exact HF]. intros a (_ & P & N). auto.
  - destruct H as (_ & Hp & _ & _ & (R1 & R2 & R3) & (I1 & I2 & I3)).
    change (join_gap g [render_tree t; fc_fix re; fc_val re; fc_err re; fc_fix im; fc_val im; fc_err im])
      with (render_tree t ++ gap g ++ join_gap g [fc_fix re; fc_val re; fc_err re; fc_fix im; fc_val im; fc_err im]).
    rewrite scan_tree by (exact Hp || apply dstart_gap). rewrite scan_gap. rewrite scan_words.
    + reflexivity.
    + discriminate.
    + repeat constructor; (apply R1 || apply R2 || apply R3 || apply I1 || apply I2 || apply I3).
  - destruct H as ((_ & Pn & Nn & _) & (_ & Pv & Nv)). apply scan_words; [discriminate | repeat constructor; assumption].
  - destruct H as ((_ & Pn & Nn & _) & (_ & P1 & N1) & (_ & P2 & N2) & (_ & P3 & N3)). apply scan_words; [discriminate | repeat constructor; assumption].
  - destruct H as (_ & P & N). apply scan_words; [discriminate | repeat constructor; try assumption; try reflexivity; discriminate].
  - destruct H.
Qed.

Lemma all_nums_words ws : Forall wf_num ws -> all_nums (map TWord ws) = Some ws.
Proof. induction 1 as [|w r (Hn & _) _ IH]; [reflexivity|]. cbn [map all_nums]. rewrite Hn, IH. reflexivity. Qed.
Lemma all_labels_words ws : Forall (fun n => is_label n = true /\ plain n = true /\ n <> "") ws -> all_labels (map TWord ws) = Some ws.
Proof. induction 1 as [|w r (Hn & _) _ IH]; [reflexivity|]. cbn [map all_labels]. rewrite Hn, IH. reflexivity. Qed.

Lemma keyword_eqbs n : is_keyword n = false ->
  String.eqb n "EventType" = false /\ String.eqb n "FastCoherentSum::UseCartesian" = false /\ String.eqb n "Output" = false /\ String.eqb n "nEvents" = false.
Proof.
  unfold is_keyword, keywords. cbn [existsb]. intros H. repeat (apply orb_false_iff in H; destruct H as [? H]). auto.
Qed.

Lemma depth_le_toks : forall t, tree_wf t -> depth t <= length (tree_toks t).
Proof.
  induction t as [n sp ls|n sp ls d1 d2 IH1 IH2|n sp ls sub Hbad] using dtree_ind2; intros Hwf.
  - simpl. lia.
  - destruct Hwf as (_ & _ & _ & W1 & W2). specialize (IH1 W1). specialize (IH2 W2).
    cbn [depth fold_right tree_toks length]. apply le_n_S. rewrite app_length. cbn [length]. rewrite app_length. cbn [length]. rewrite app_length.
    apply Nat.max_lub; [lia | apply Nat.max_lub; lia].
  - destruct Hwf as [_ Hwf]. destruct sub as [|x [|y [|z q]]]; contradiction.
Qed.

Lemma parse_line_toks l : line_wf l -> parse_line (line_toks l) = Some (Some l).
Proof.
  destruct l as [names|t re im|n v|n fx v e|n|]; cbn [line_wf line_toks]; intros H.
  - destruct H as (Hlen & HF & Hnl). cbn [map parse_line]. replace (String.eqb "EventType" "EventType") with true by reflexivity.
    rewrite (all_labels_words names HF). destruct names as [|a [|b r]]; simpl in Hlen; try lia. cbn [tl] in Hnl. rewrite Hnl. reflexivity.
  - destruct H as (Hw & Hp & Hk & Hsub & (R1 & R2 & R3) & (I1 & I2 & I3)). destruct t as [n sp ls sub].
    destruct (keyword_eqbs n Hk) as (K1 & K2 & K3 & K4).
    assert (Htoks : exists r0, tree_toks (DNode n sp ls sub) = TWord n :: r0) by (eexists; reflexivity). destruct Htoks as [r0 Er0].
    remember (map TWord [fc_fix re; fc_val re; fc_err re; fc_fix im; fc_val im; fc_err im]) as nums eqn:En.
    assert (Hpd : parse_decay (S (length (tree_toks (DNode n sp ls sub) ++ nums))) (tree_toks (DNode n sp ls sub) ++ nums) = Some (DNode n sp ls sub, nums)).
    { apply parse_decay_toks; [exact Hw | | subst nums; exact I]. pose proof (depth_le_toks (DNode n sp ls sub) Hw). rewrite app_length. lia. }
    rewrite Er0 in *. rewrite <- app_comm_cons in Hpd |- *. cbn [parse_line]. rewrite K1, K2, K3, K4. rewrite Hpd.
    destruct sub as [|x sub']; [congruence|].
    destruct sp, ls; subst nums; rewrite (all_nums_words [fc_fix re; fc_val re; fc_err re; fc_fix im; fc_val im; fc_err im]) by (repeat (apply Forall_cons; [assumption|]); apply Forall_nil);
      destruct re, im; reflexivity.
  - destruct H as ((Hl & _ & _ & Hk) & Hv). destruct (keyword_eqbs n Hk) as (K1 & K2 & K3 & K4).
    cbn [map parse_line]. rewrite K1, K2, K3, K4. cbn [length parse_decay]. rewrite Hl. cbn [all_nums]. destruct Hv as (Hv & _). rewrite Hv. reflexivity.
  - destruct H as ((Hl & _ & _ & Hk) & (H1 & _) & (H2 & _) & (H3 & _)). destruct (keyword_eqbs n Hk) as (K1 & K2 & K3 & K4).
    cbn [map parse_line]. rewrite K1, K2, K3, K4. cbn [length parse_decay]. rewrite Hl. cbn [all_nums]. rewrite H1, H2, H3. reflexivity.
  - destruct H as (Hi & _). cbn [map parse_line]. replace (String.eqb "FastCoherentSum::UseCartesian" "EventType") with false by reflexivity.
    replace (String.eqb "FastCoherentSum::UseCartesian" "FastCoherentSum::UseCartesian") with true by reflexivity. rewrite Hi. reflexivity.
  - destruct H.
Qed.

(* ------------------------------------------------------------------ the file *)
Definition cleanc (c : ascii) : bool := negb (is_nl c) && negb (is_cr c).
Definition clean (s : string) : bool := all_chars cleanc s.

Lemma clean_app a b : clean (a ++ b) = clean a && clean b.
Proof. unfold clean. induction a as [|c a IH]; simpl; [reflexivity|]. rewrite IH. apply andb_assoc. Qed.
Lemma clean_spaces n : clean (spaces n) = true.
Proof. unfold clean. induction n; simpl; auto. Qed.
Lemma plain_clean w : plain w = true -> clean w = true.
Proof.
  unfold clean, plain. induction w as [|c w IH]; simpl; intros H; [reflexivity|]. apply andb_true_iff in H. destruct H as [Hc Hw]. rewrite (IH Hw), andb_true_r.
  unfold plainc in Hc. apply andb_true_iff in Hc. destruct Hc as [Hcr Hc]. apply andb_true_iff in Hc. destruct Hc as [Hc _]. apply andb_true_iff in Hc. destruct Hc as [_ Hn].
  unfold cleanc. rewrite Hn, Hcr. reflexivity.
Qed.

Lemma clean_join g : forall ws, Forall (fun w => clean w = true) ws -> clean (join_gap g ws) = true.
Proof.
  induction ws as [|w r IH]; intros H; [reflexivity|]. inversion H; subst. destruct r as [|w2 r2]; [simpl; assumption|].
  change (join_gap g (w :: w2 :: r2)) with (w ++ gap g ++ join_gap g (w2 :: r2)). rewrite !clean_app. unfold gap. rewrite clean_spaces. rewrite IH by assumption.
  rewrite H2. reflexivity.
Qed.

Lemma clean_tree : forall t, tree_plain t -> clean (render_tree t) = true.
Proof.
  induction t as [n sp ls|n sp ls d1 d2 IH1 IH2|n sp ls sub Hbad] using dtree_ind2; intros (Hn & _ & Hsp & Hls & Hsub); cbn [render_tree].
  - rewrite !clean_app. rewrite (plain_clean n Hn). destruct sp as [a|], ls as [b|]; cbn [oplain] in *; rewrite ?clean_app;
      repeat match goal with H : plain ?x = true /\ _ |- _ => rewrite (plain_clean x (proj1 H)); clear H end; reflexivity.
  - destruct Hsub as [P1 P2]. rewrite !clean_app. rewrite (plain_clean n Hn), (IH1 P1), (IH2 P2).
    destruct sp as [a|], ls as [b|]; cbn [oplain] in *; rewrite ?clean_app;
      repeat match goal with H : plain ?x = true /\ _ |- _ => rewrite (plain_clean x (proj1 H)); clear H end; reflexivity.
  - destruct sub as [|x [|y [|z q]]]; try contradiction; rewrite !clean_app; rewrite (plain_clean n Hn);
      destruct sp as [a|], ls as [b|]; cbn [oplain] in *; rewrite ?clean_app;
      repeat match goal with H : plain ?x = true /\ _ |- _ => rewrite (plain_clean x (proj1 H)); clear H end; reflexivity.
Qed.

Lemma clean_line g l : line_wf l -> clean (render_line g l) = true.
Proof.
  destruct l as [names|t re im|n v|n fx v e|n|]; cbn [line_wf render_line]; intros H.
  - destruct H as (_ & HF & _). apply clean_join. constructor; [reflexivity|]. eapply Forall_impl; [|exact HF]. intros a (_ & P & _). apply plain_clean. exact P.
  - destruct H as (_ & Hp & _ & _ & (R1 & R2 & R3) & (I1 & I2 & I3)). apply clean_join.
    constructor; [apply clean_tree; exact Hp|]. repeat (apply Forall_cons; [apply plain_clean; first [apply R1 | apply R2 | apply R3 | apply I1 | apply I2 | apply I3]|]). apply Forall_nil.
  - destruct H as ((_ & Pn & _) & (_ & Pv & _)). apply clean_join. repeat (apply Forall_cons; [apply plain_clean; assumption|]). apply Forall_nil.
  - destruct H as ((_ & Pn & _) & (_ & P1 & _) & (_ & P2 & _) & (_ & P3 & _)). apply clean_join. repeat (apply Forall_cons; [apply plain_clean; assumption|]). apply Forall_nil.
  - destruct H as (_ & P & _). apply clean_join. apply Forall_cons; [reflexivity|]. apply Forall_cons; [apply plain_clean; exact P | apply Forall_nil].
  - destruct H.
Qed.

Lemma split_nl_line : forall s rest cur, clean s = true -> split_nl (s ++ nl ++ rest) cur = (cur ++ s) :: split_nl rest "".
Proof.
  induction s as [|c s IH]; intros rest cur H.
  - simpl. rewrite append_nil_r. reflexivity.
  - simpl in H. apply andb_true_iff in H. destruct H as [Hc Hs]. unfold cleanc in Hc. apply andb_true_iff in Hc. destruct Hc as [Hn _]. apply negb_true_iff in Hn.
    cbn [append split_nl]. rewrite Hn. rewrite IH by exact Hs. rewrite append_assoc. reflexivity.
Qed.

Lemma strip_cr_clean : forall s, clean s = true -> strip_cr s = s.
Proof.
  induction s as [|c s IH]; intros H; [reflexivity|]. simpl in H. apply andb_true_iff in H. destruct H as [Hc Hs].
  unfold cleanc in Hc. apply andb_true_iff in Hc. destruct Hc as [_ Hr]. apply negb_true_iff in Hr.
  cbn [strip_cr]. destruct s as [|c2 s2]; [rewrite Hr; reflexivity|]. rewrite IH by exact Hs. reflexivity.
Qed.

Lemma split_nl_nonempty : forall s cur, split_nl s cur <> [].
Proof. induction s as [|c s IH]; intros cur; cbn [split_nl]; [discriminate|]. destruct (is_nl c); [discriminate | apply IH]. Qed.

Lemma parse_segments_cons seg s0 r :
  parse_segments (seg :: s0 :: r) =
  (let '(ts, _) := scan (strip_cr seg) "" in
   match parse_line ts, parse_segments (s0 :: r) with
   | Some (Some l), Some ls => Some (l :: ls)
   | Some None, Some ls => Some ls
   | _, _ => None
   end).
Proof. reflexivity. Qed.

Lemma parse_segments_render g : forall f, Forall line_wf f -> parse_segments (split_nl (render_text g f) "") = Some f.
Proof.
  induction f as [|l r IH]; intros HF; [reflexivity|]. inversion HF as [|? ? Hl Hr]; subst. cbn [render_text].
  rewrite split_nl_line by (apply clean_line; exact Hl). cbn [append].
  remember (split_nl (render_text g r) "") as segs eqn:Es. destruct segs as [|s0 segs'].
  - exfalso. symmetry in Es. revert Es. apply split_nl_nonempty.
  - rewrite parse_segments_cons. rewrite strip_cr_clean by (apply clean_line; exact Hl). rewrite scan_line by exact Hl. rewrite parse_line_toks by exact Hl.
    rewrite (IH Hr). reflexivity.
Qed.

(* every well-formed option file, written with any gap width between the columns, is read back as itself *)
Theorem parse_render g f : f <> [] -> Forall line_wf f -> parse_text (render_text g f) = Some f.
Proof.
  intros Hne HF. unfold parse_text. rewrite (parse_segments_render g f HF). destruct f; [congruence | reflexivity].
Qed.

(* labels are plain words: the plainness conditions on names follow from is_label *)
Lemma label_char_plain c : is_label_char c = true -> plainc c = true.
Proof. destruct c as [[] [] [] [] [] [] [] []]; vm_compute; intros H; congruence. Qed.
Lemma colon_plain c : is_colon c = true -> plainc c = true.
Proof. destruct c as [[] [] [] [] [] [] [] []]; vm_compute; intros H; congruence. Qed.

Lemma label_body_plain : forall n s, String.length s <= n -> label_body s = true -> plain s = true.
Proof.
  induction n as [|n IH]; intros s Hl H; destruct s as [|c r]; try reflexivity; [simpl in Hl; lia|].
  cbn [label_body] in H. unfold plain. cbn [all_chars]. destruct (is_label_char c) eqn:Ec.
  - rewrite (label_char_plain c Ec). apply IH; [simpl in Hl; lia | exact H].
  - destruct (is_colon c) eqn:Ek; [|discriminate]. destruct r as [|c2 r2]; [discriminate|]. apply andb_true_iff in H. destruct H as [H2 Hr].
    rewrite (colon_plain c Ek). cbn [all_chars andb]. rewrite (colon_plain c2 H2). apply IH; [simpl in Hl; lia | exact Hr].
Qed.
Lemma label_plain s : is_label s = true -> plain s = true /\ s <> "".
Proof. destruct s as [|c r]; [discriminate|]. intros H. split; [eapply label_body_plain; [apply le_n | exact H] | discriminate]. Qed.
