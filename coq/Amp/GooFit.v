(* GooFit.v — the per-amplitude code generators of modeling/goofit.py (GooFitChain / GooFitPyChain):
   decay_structure, L, spindetails, spinfactors, vertexes, ls_enum, make_spinfactor, make_linefactor,
   make_lineshape, make_amplitude — as structured items (the text is a thin printing of these, parsed back by the
   correspondence).  No proofs here. *)
From Coq Require Import String Ascii List Bool ZArith QArith Arith DecimalString.
From DL Require Import Lib.Val Lib.PyDict Lib.Product Dec.Num Dec.Tables Amp.Syntax Amp.Perm Gen.GenAmp.
Import ListNotations.
Close Scope Q_scope.
Open Scope string_scope.

Definition zlookup {V} (k : Z) (l : list (Z * V)) : option V :=
  (fix go l := match l with [] => None | (k', v) :: r => if Z.eqb k k' then Some v else go r end) l.

Section Emit.
Variable info : Z -> option pinfo.
Variable sf_known : list (string * list string).         (* known_spinfactors *)

Definition J2 (t : atree) : option Z := match info (a_pid t) with Some i => pi_J2 i | None => None end.
Definition spin_of (t : atree) : option string := option_map pi_spin (info (a_pid t)).
Definition prog_of (t : atree) : option string := option_map pi_prog (info (a_pid t)).

(* sprint(stype) *)
Definition sprint (s : string) : string :=
  if String.eqb s "PseudoTensor" then "t" else if String.eqb s "PseudoScalar" then "s"
  else match s with String c _ => String c "" | EmptyString => "" end.

Inductive topo := FF_12_34 | FF_1_2_34.

Definition decay_structure (t : atree) : option topo :=
  match a_sub t with
  | d0 :: d1 :: _ => Some (if Nat.eqb (length (a_sub d0)) 2 && Nat.eqb (length (a_sub d1)) 2 then FF_12_34 else FF_1_2_34)
  | _ => None                                              (* IndexError *)
  end.

Fixpoint index_of (x : string) (l : list string) : option nat :=
  match l with [] => None | y :: r => if String.eqb x y then Some 0 else option_map S (index_of x r) end.

(* L: the spin tag's index in S P D F, else the smallest |S -+ s1 -+ s2| (integer spins: 2J even) *)
Definition L_of (t : atree) : option Z :=
  match a_spin t with
  | Some s => option_map Z.of_nat (index_of s ["S"; "P"; "D"; "F"])
  | None =>
      match a_sub t with
      | d0 :: d1 :: _ =>
          match J2 t, J2 d0, J2 d1 with
          | Some S0, Some s1, Some s2 =>
              let m := Z.min (Z.abs (S0 + s1 - s2)) (Z.abs (S0 - s1 - s2)) in
              let m := Z.min (Z.abs (S0 - s1 + s2)) m in
              if Z.even m then Some (m / 2)%Z else None
          | _, _, _ => None
          end
      | _ => None
      end
  end.

Definition tag_not_S (o : option string) : option string :=
  match o with Some s => if String.eqb s "S" then None else Some s | None => None end.

Definition spindetails (t : atree) : option string :=
  match decay_structure t, a_sub t with
  | Some FF_12_34, d0 :: d1 :: _ =>
      match spin_of d0, spin_of d1 with
      | Some s0, Some s1 =>
          let a := sprint s0 ++ "1" in let b := sprint s1 ++ "2" in
          Some ("Dto" ++ a ++ b ++ "_" ++ a ++ "toP1P2_" ++ b ++ "toP3P4"
                ++ match tag_not_S (a_spin t) with Some s => "_" ++ s | None => "" end)
      | _, _ => None
      end
  | Some FF_1_2_34, d0 :: _ =>
      match a_sub d0 with
      | d00 :: _ =>
          match spin_of d0, spin_of d00 with
          | Some s0, Some s00 =>
              let a := sprint s0 ++ "1" in let b := sprint s00 ++ "2" in
              Some ("Dto" ++ a ++ "P1_" ++ a ++ "to" ++ b ++ "P2"
                    ++ match tag_not_S (a_spin d0) with Some s => s ++ "wave" | None => "" end
                    ++ "_" ++ b ++ "toP3P4")
          | _, _ => None
          end
      | [] => None                                         (* LineFailure: no daughters *)
      end
  | _, _ => None
  end.

Definition formfactor (t : atree) (L : Z) : option (option string) :=   (* None = NotImplementedError *)
  match decay_structure t with
  | None => None
  | Some st =>
      let norm := match st with FF_12_34 => true | _ => false end in
      if Z.eqb L 0 then Some None
      else if Z.eqb L 1 then Some (Some (if norm then "FF_12_34_L1" else "FF_123_4_L1"))
      else if Z.eqb L 2 then Some (Some (if norm then "FF_12_34_L2" else "FF_123_4_L2"))
      else None
  end.

Definition spinfactors (t : atree) : option (list string) :=
  match spindetails t with
  | None => None
  | Some sd =>
      match pd_get sd sf_known, L_of t with
      | Some sfs, Some L =>
          if Z.ltb 0 L then match formfactor t L with
                            | Some (Some ff) => Some (sfs ++ [ff])%list
                            | Some None => Some sfs
                            | None => None
                            end
          else Some sfs
      | _, _ => None
      end
  end.

(* vertexes: daughters that are two-body vertices, depth first *)
Fixpoint vertexes (t : atree) : list atree :=
  match t with
  | ANode _ _ _ _ _ sub =>
      flat_map (fun d => if Nat.eqb (length (a_sub d)) 2 then d :: vertexes d else []) sub
  end.

(* leaves, left to right: ModelDecay.structure flattened *)
Fixpoint leaves (t : atree) : list Z :=
  match t with
  | ANode _ p _ _ _ [] => [p]
  | ANode _ _ _ _ _ sub => flat_map leaves sub
  end.

Definition show_nat (n : nat) : string := NilZero.string_of_uint (Nat.to_uint n).

Definition mass_names (st : topo) (perm : list nat) : option (string * string) :=
  match perm with
  | a :: b :: c :: d :: _ =>
      let s i := show_nat (S i) in
      Some (match st with
            | FF_12_34 => ("M_" ++ s a ++ s b, "M_" ++ s c ++ s d)
            | FF_1_2_34 => ("M_" ++ s a ++ s b ++ "_" ++ s c, "M_" ++ s a ++ s b)
            end)
  | _ => None
  end.

Inductive lskind := RBW | GSpline | KMatrix (pole : bool) (pterm : string) | FOCUS (mod_ : string).

Fixpoint split_dot (s : string) (cur : string) : list string :=
  match s with
  | EmptyString => [cur]
  | String c r => if is_c c "." then cur :: split_dot r "" else split_dot r (cur ++ String c "")
  end.

Definition sprefix_ (p s : string) : bool := String.prefix p s.

Definition ls_kind (t : atree) : option lskind :=
  match a_ls t with
  | None => Some RBW
  | Some l =>
      if String.eqb l "GSpline.EFF" then Some GSpline
      else if sprefix_ "kMatrix" l then
             match split_dot l "" with
             | [_; pp; pterm] => Some (KMatrix (String.eqb pp "pole") pterm)
             | _ => None
             end
      else if sprefix_ "FOCUS" l then
             match split_dot l "" with
             | [_; m] => Some (FOCUS m)
             | _ => None
             end
      else None
  end.

Record lineshape := { ls_k : lskind; ls_name : string; ls_prog : string; ls_L : Z; ls_mass : string; ls_charm : bool }.

Definition make_lineshape (sub : atree) (mass : string) : option lineshape :=
  match ls_kind sub, prog_of sub, L_of sub, info (a_pid sub) with
  | Some k, Some pr, Some L, Some i =>
      Some {| ls_k := k; ls_name := a_name sub; ls_prog := pr; ls_L := L; ls_mass := mass; ls_charm := pi_charm i |}
  | _, _, _, _ => None
  end.

Record emitted := { e_name : string; e_perms : list (list nat); e_spin : list (string * list nat);
                    e_lines : list lineshape; e_fix : bool; e_cpl : option coupling; e_n : nat }.

(* str(line): particle name, tags, daughters *)
Fixpoint line_str (t : atree) : option string :=
  match t with
  | ANode _ p sp l _ sub =>
      match info p with
      | None => None
      | Some i =>
          let tags := match sp, l with
                      | Some s, Some x => "[" ++ s ++ ";" ++ x ++ "]"
                      | None, Some x => "[" ++ x ++ "]"
                      | Some s, None => "[" ++ s ++ "]"
                      | None, None => ""
                      end in
          match sub with
          | [] => Some (pi_name i ++ tags)
          | _ =>
              match (fix go (l0 : list atree) : option (list string) :=
                       match l0 with
                       | [] => Some []
                       | d :: r => match line_str d, go r with Some a, Some ar => Some (a :: ar) | _, _ => None end
                       end) sub with
              | Some ds => Some (pi_name i ++ tags ++ "{" ++ (fix jn (l0 : list string) : string :=
                                    match l0 with [] => "" | [x] => x | x :: r => x ++ "," ++ jn r end) ds ++ "}")
              | None => None
              end
          end
      end
  end.

(* to_goofit(final_states) *)
Definition to_goofit (fs : list Z) (t : atree) : option emitted :=
  match list_structure fs (leaves t), spinfactors t, decay_structure t, line_str t with
  | Some perms, Some sfs, Some st, Some nm =>
      let spin := flat_map (fun p => map (fun sf => (sf, p)) sfs) perms in
      match mapM (fun p => match mass_names st p with
                           | None => None
                           | Some (m1, m2) =>
                               mapM (fun iv => match nth_error [m1; m2] (fst iv) with
                                               | Some m => make_lineshape (snd iv) m
                                               | None => None             (* IndexError: a third vertex *)
                                               end)
                                    (combine (seq 0 (length (vertexes t))) (vertexes t))
                           end) perms with
      | None => None
      | Some lss =>
          Some {| e_name := nm; e_perms := perms; e_spin := spin; e_lines := concat lss;
                  e_fix := match a_cpl t with Some (_, f) => f | None => true end;
                  e_cpl := option_map fst (a_cpl t); e_n := length perms |}
      end
  | _, _, _, _ => None
  end.
End Emit.

(* ------------------------------------------------------------------ observation *)
Definition vlskind (k : lskind) : val :=
  match k with
  | RBW => VList [VStr "RBW"] | GSpline => VList [VStr "GSpline"]
  | KMatrix pole pt => VList [VStr "kMatrix"; VStr pt; VBool pole]
  | FOCUS m => VList [VStr "FOCUS"; VStr m]
  end.
Definition vemitted (o : option emitted) : val :=
  match o with
  | None => VErr "error"
  | Some e =>
      VList [VStr (e_name e);
             VList (map (fun sp => VList [VStr (fst sp); VList (map (fun i => VInt (Z.of_nat i)) (snd sp))]) (e_spin e));
             VList (map (fun l => VList [vlskind (ls_k l); VStr (ls_name l); VStr (ls_prog l); VInt (ls_L l); VStr (ls_mass l);
                                         VBool (ls_charm l)]) (e_lines e));
             VBool (e_fix e); VInt (Z.of_nat (e_n e))]
  end.
