(* GooFitProofs.v — what the code generated for one amplitude contains (property C18, second half). *)
From Coq Require Import String Ascii List Bool ZArith QArith Arith Lia.
From DL Require Import Lib.Val Lib.PyDict Lib.Product Dec.Tables Amp.Syntax Amp.Perm Amp.GooFit Gen.GenAmp.
Import ListNotations.
Close Scope Q_scope.
Open Scope string_scope.
Open Scope list_scope.

Lemma mapM_length {A B} (f : A -> option B) l ys : mapM f l = Some ys -> length ys = length l.
Proof.
  revert ys. induction l as [|x r IH]; simpl; intros ys H; [inversion H; reflexivity|].
  destruct (f x); [|discriminate]. destruct (mapM f r) eqn:E; [|discriminate]. inversion H; subst. simpl. f_equal. apply IH. reflexivity.
Qed.

Lemma mapM_Forall2_ {A B} (f : A -> option B) l ys : mapM f l = Some ys -> Forall2 (fun x y => f x = Some y) l ys.
Proof.
  revert ys. induction l as [|x r IH]; simpl; intros ys H; [inversion H; constructor|].
  destruct (f x) eqn:Ex; [|discriminate]. destruct (mapM f r) eqn:Er; [|discriminate].
  inversion H; subst. constructor; auto.
Qed.

Lemma Forall2_impl {A B} (P Q : A -> B -> Prop) l l' : (forall a b, P a b -> Q a b) -> Forall2 P l l' -> Forall2 Q l l'.
Proof. intros H. induction 1; constructor; auto. Qed.

Section Emit.
Variable info : Z -> option pinfo.
Variable sfk : list (string * list string).

(* per permutation: the amplitude's spin factor(s) carrying that permutation, and one lineshape per
   resonance (vertex) whose invariant-mass name is built from the same permutation; the declared count is the
   number of permutations *)
Theorem to_goofit_contents fs t e : to_goofit info sfk fs t = Some e ->
  exists perms sfs st,
    list_structure fs (leaves t) = Some perms /\ spinfactors info sfk t = Some sfs /\ decay_structure t = Some st /\
    e_perms e = perms /\ e_n e = length perms /\
    e_spin e = flat_map (fun p => map (fun sf => (sf, p)) sfs) perms /\
    exists lss, e_lines e = concat lss /\
      Forall2 (fun p ls => exists m1 m2, mass_names st p = Some (m1, m2) /\
                 length ls = length (vertexes t) /\
                 Forall2 (fun iv l => exists m, nth_error [m1; m2] (fst iv) = Some m /\
                                                make_lineshape info (snd iv) m = Some l)
                         (combine (seq 0 (length (vertexes t))) (vertexes t)) ls)
              perms lss.
Proof.
  unfold to_goofit. intros H.
  destruct (list_structure fs (leaves t)) as [perms|] eqn:Ep; [|discriminate].
  destruct (spinfactors info sfk t) as [sfs|] eqn:Es; [|discriminate].
  destruct (decay_structure t) as [st|] eqn:Ed; [|discriminate].
  destruct (line_str info t) as [nm|]; [|discriminate].
  match type of H with match ?X with _ => _ end = _ => destruct X as [lss|] eqn:El; [|discriminate] end.
  inversion H; subst; clear H. simpl. exists perms, sfs, st. repeat split; try reflexivity.
  exists lss. split; [reflexivity|].
  apply mapM_Forall2_ in El. eapply Forall2_impl; [|exact El]. clear El.
  intros p ls Hp. simpl in Hp. destruct (mass_names st p) as [[m1 m2]|]; [|discriminate].
  exists m1, m2. split; [reflexivity|].
  pose proof (mapM_length _ _ _ Hp) as Hl. rewrite combine_length, seq_length, Nat.min_id in Hl. split; [assumption|].
  apply mapM_Forall2_ in Hp. eapply Forall2_impl; [|exact Hp]. intros iv l Hiv. simpl in Hiv.
  destruct (nth_error [m1; m2] (fst iv)) as [m|]; [|discriminate]. exists m. auto.
Qed.

Corollary to_goofit_counts fs t e sfs : to_goofit info sfk fs t = Some e -> spinfactors info sfk t = Some sfs ->
  length (e_spin e) = e_n e * length sfs /\ length (e_lines e) = e_n e * length (vertexes t).
Proof.
  intros H Hs. destruct (to_goofit_contents fs t e H) as [perms [sfs' [st [_ [Hs' [_ [_ [En [Esp [lss [El F]]]]]]]]]]].
  rewrite Hs in Hs'. inversion Hs'; subst sfs'. rewrite En, Esp, El. split.
  - clear. induction perms as [|p r IH]; simpl; [reflexivity|]. rewrite app_length, map_length, IH. reflexivity.
  - clear -F. induction F as [|p ls ps lss' [m1 [m2 [_ [Hl _]]]] Hr IH]; simpl; [reflexivity|].
    rewrite app_length, IH, Hl. reflexivity.
Qed.
End Emit.
