(* SessionProofs.v — the output of a read / conversion depends only on the file and the configuration (C20). *)
From Coq Require Import String Ascii List Bool ZArith QArith Arith Permutation.
From DL Require Import Lib.Val Lib.PyDict Amp.Syntax Amp.Read Amp.Session.
Import ListNotations.
Close Scope Q_scope.
Open Scope string_scope.
Open Scope list_scope.

Section S.
Variable pid_of : string -> option Z.
Variable fuel : nat.
Variable files : list (list oline).

Notation step := (step pid_of fuel files).
Notation run := (run pid_of fuel files).

(* the configuration is never written *)
Lemma step_cart s o : cart (fst (step s o)) = cart s.
Proof.
  unfold Session.step. destruct (nth_error files (op_file o)); [|reflexivity].
  destruct (read_sets pid_of fuel (cart s (op_cls o)) l) as [[cs r]|]; reflexivity.
Qed.

(* what a call returns, and what it leaves in the class that made it, is a function of the file and the
   configuration of that class — whatever the state before *)
Theorem step_output_history_independent s s' o :
  cart s (op_cls o) = cart s' (op_cls o) ->
  snd (step s o) = snd (step s' o) /\
  own (fst (step s o)) (op_cls o) = match snd (step s o) with
                                    | Some _ => own (fst (step s' o)) (op_cls o)
                                    | None => own s (op_cls o)
                                    end.
Proof.
  intros Hc. unfold Session.step. destruct (nth_error files (op_file o)) as [f|]; [|split; reflexivity].
  rewrite <- Hc. destruct (read_sets pid_of fuel (cart s (op_cls o)) f) as [[cs r]|]; simpl; [|split; reflexivity].
  split; [reflexivity|]. destruct (op_cls o); reflexivity.
Qed.

(* the other classes' own particle sets are not touched *)
Theorem step_frame s o c : c <> op_cls o -> own (fst (step s o)) c = own s c.
Proof.
  intros Hne. unfold Session.step. destruct (nth_error files (op_file o)) as [f|]; [|reflexivity].
  destruct (read_sets pid_of fuel (cart s (op_cls o)) f) as [[cs r]|]; [|reflexivity]. simpl.
  destruct c, (op_cls o); try reflexivity; congruence.
Qed.

(* the state after a history *)
Definition after (ops : list op) : sess := fold_left (fun s o => fst (step s o)) ops init.

Lemma after_cart ops : cart (after ops) = cart init.
Proof.
  unfold after. generalize init. induction ops as [|o r IH]; intros s; simpl; [reflexivity|].
  rewrite IH. apply step_cart.
Qed.

(* C20: whatever was read or converted earlier, and by whichever class, a call returns what the same call returns in
   a fresh process, and leaves the same particle sets in the class that made it *)
Theorem output_after_any_history (ops : list op) (o : op) :
  snd (step (after ops) o) = snd (step init o) /\
  match snd (step init o) with
  | Some _ => own (fst (step (after ops) o)) (op_cls o) = own (fst (step init o)) (op_cls o)
  | None => True
  end.
Proof.
  assert (Hc : cart (after ops) (op_cls o) = cart init (op_cls o)) by (rewrite after_cart; reflexivity).
  destruct (step_output_history_independent (after ops) init o Hc) as [A B]. split; [exact A|].
  rewrite A in B. destruct (snd (step init o)); [exact B | exact I].
Qed.
End S.

(* hash-seed independence of what is computed: the particle sets are sets — any enumeration order of them is a
   permutation of the model's lists, and the observation sorts them *)
Lemma zins_perm x l : Permutation (zins x l) (x :: l).
Proof.
  induction l as [|y r IH]; simpl; [reflexivity|]. destruct (Z.leb x y); [reflexivity|].
  rewrite IH. apply perm_swap.
Qed.
Lemma zsort_perm l : Permutation (zsort l) l.
Proof. induction l; simpl; [reflexivity|]. rewrite zins_perm. constructor. assumption. Qed.
