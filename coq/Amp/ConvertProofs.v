(* ConvertProofs.v — the generated model is self-contained: every resonance variable an amplitude's lineshape uses
   is declared in the intro (property C19). *)
From Coq Require Import String Ascii List Bool ZArith QArith Arith Lia.
From DL Require Import Lib.Val Lib.PyDict Lib.Product Dec.Num Dec.Tables Amp.Syntax Amp.Perm Amp.Read Amp.ReadProofs Amp.GooFit
  Amp.GooFitProofs Amp.Session Amp.Convert Gen.GenAmp.
Import ListNotations.
Close Scope Q_scope.
Open Scope string_scope.
Open Scope list_scope.

Section AtreeInd.
Variable P : atree -> Prop.
Hypothesis H : forall n p sp l c sub, Forall P sub -> P (ANode n p sp l c sub).
Fixpoint atree_ind_nested (t : atree) : P t :=
  match t with
  | ANode n p sp l c sub =>
      H n p sp l c sub ((fix go (l0 : list atree) : Forall P l0 :=
                          match l0 with [] => Forall_nil _ | x :: r => Forall_cons x (atree_ind_nested x) (go r) end) sub)
  end.
End AtreeInd.

Lemma node_pids_unfold t : node_pids t = a_pid t :: flat_map node_pids (a_sub t).
Proof. destruct t. reflexivity. Qed.

Lemma node_pids_with_sub t cs : node_pids (with_sub t cs) = a_pid t :: flat_map node_pids cs.
Proof. destruct t. reflexivity. Qed.

(* every particle in an expanded amplitude occurs in the line itself or in one of the file's lines *)
Lemma expand_pids lines : forall fuel t l, expand fuel lines t = Some l ->
  forall c, In c l -> forall p, In p (node_pids c) -> In p (node_pids t) \/ In p (flat_map node_pids lines).
Proof.
  induction fuel as [|f IH]; intros t l H c Hc p Hp; [discriminate|]. rewrite expand_S in H.
  destruct (a_sub t) as [|d ds] eqn:Es.
  - destruct (mapM (expand f lines) (matching lines t)) as [ls|] eqn:Em; [|discriminate].
    pose proof (mapM_some_Forall2 _ _ _ Em) as F.
    destruct (concat ls) as [|x xs] eqn:Ec.
    + inversion H; subst. destruct Hc as [<-|[]]. left. assumption.
    + inversion H; subst. rewrite <- Ec in Hc. apply in_concat in Hc. destruct Hc as [lx [Hlx Hcx]].
      assert (exists ln, In ln (matching lines t) /\ expand f lines ln = Some lx) as [ln [Hln Eln]].
      { clear -F Hlx. induction F as [|a b as_ bs Hab Hr IHr]; [destruct Hlx|].
        destruct Hlx as [<-|Hlx]; [exists a; split; [left; reflexivity | assumption]|].
        destruct (IHr Hlx) as [ln [A B]]. exists ln. split; [right; assumption | assumption]. }
      right. destruct (IH _ _ Eln c Hcx p Hp) as [A|A]; [|assumption].
      apply in_flat_map. exists ln. split; [|assumption]. unfold matching in Hln. apply filter_In in Hln. tauto.
  - destruct (mapM (expand f lines) (d :: ds)) as [dl|] eqn:Em; [|discriminate]. inversion H; subst.
    apply in_map_iff in Hc. destruct Hc as [cs [<- Hcs]]. rewrite node_pids_with_sub in Hp.
    destruct Hp as [<-|Hp]; [left; rewrite node_pids_unfold; left; reflexivity|].
    apply in_flat_map in Hp. destruct Hp as [c0 [Hc0 Hp]].
    apply in_product in Hcs. pose proof (mapM_some_Forall2 _ _ _ Em) as F.
    assert (exists d0 l0, In d0 (d :: ds) /\ expand f lines d0 = Some l0 /\ In c0 l0) as [d0 [l0 [Hd0 [El0 Hin0]]]].
    { clear -F Hcs Hc0. revert cs Hcs Hc0. induction F as [|a b as_ bs Hab Hr IHr]; intros cs Hcs Hc0; inversion Hcs; subst; [destruct Hc0|].
      destruct Hc0 as [<-|Hc0]; [exists a, b; split; [left; reflexivity | auto]|].
      destruct (IHr _ H3 Hc0) as [d0 [l0 [A [B C]]]]. exists d0, l0. split; [right; assumption | auto]. }
    destruct (IH _ _ El0 c0 Hin0 p Hp) as [A|A]; [|right; assumption].
    left. rewrite node_pids_unfold, Es. right. apply in_flat_map. exists d0. auto.
Qed.

Lemma vertexes_sub t : forall v, In v (vertexes t) -> In (a_pid v) (node_pids t).
Proof.
  induction t as [n p sp l c sub IH] using atree_ind_nested. intros v Hv.
  simpl in Hv. apply in_flat_map in Hv. destruct Hv as [d [Hd Hv]].
  destruct (Nat.eqb (length (a_sub d)) 2); [|destruct Hv].
  simpl. right. apply in_flat_map. exists d. split; [assumption|].
  rewrite Forall_forall in IH. destruct Hv as [<-|Hv]; [rewrite node_pids_unfold; left; reflexivity | apply IH; assumption].
Qed.

Lemma zdedupe_in l : forall seen x, In x l -> In x seen \/ In x (zdedupe l seen).
Proof.
  induction l as [|y r IH]; intros seen x H; [destruct H|]. simpl.
  destruct (existsb (Z.eqb y) seen) eqn:E.
  - destruct H as [->|H]; [|apply IH; assumption]. left.
    apply existsb_exists in E. destruct E as [z [Hz Ez]]. apply Z.eqb_eq in Ez. subst. assumption.
  - destruct H as [->|H]; [right; left; reflexivity|].
    destruct (IH (y :: seen) x H) as [[->|Hs]|Hd]; [right; left; reflexivity | left; assumption | right; right; assumption].
Qed.

Lemma mapM_in {X Y} (f : X -> option Y) xs ys y : mapM f xs = Some ys -> In y ys -> exists x, In x xs /\ f x = Some y.
Proof.
  revert ys. induction xs as [|x r IH]; simpl; intros ys H Hy; [inversion H; subst; destruct Hy|].
  destruct (f x) eqn:Ex; [|discriminate]. destruct (mapM f r) eqn:Er; [|discriminate]. inversion H; subst.
  destruct Hy as [<-|Hy]; [exists x; split; [left; reflexivity | assumption]|].
  destruct (IH _ eq_refl Hy) as [x' [Hx1 Hx2]]. exists x'. split; [right; assumption | assumption].
Qed.

Lemma in_combine_snd {X Y} (l1 : list X) (l2 : list Y) a b : In (a, b) (combine l1 l2) -> In b l2.
Proof. apply in_combine_r. Qed.

Section Closed.
Variable pid_of : string -> option Z.
Variable info : Z -> option pinfo.
Variable sfk : list (string * list string).
Variable fuel : nat.

(* every emitted lineshape belongs to a vertex of the amplitude *)
Lemma to_goofit_line_vertex fs t e l : to_goofit info sfk fs t = Some e -> In l (e_lines e) ->
  exists v m, In v (vertexes t) /\ make_lineshape info v m = Some l.
Proof.
  unfold to_goofit. intros H Hl.
  destruct (list_structure fs (leaves t)) as [perms|]; [|discriminate].
  destruct (spinfactors info sfk t) as [sfs|]; [|discriminate].
  destruct (decay_structure t) as [st|]; [|discriminate].
  destruct (line_str info t) as [nm|]; [|discriminate].
  match type of H with match ?X with _ => _ end = _ => destruct X as [lss|] eqn:El; [|discriminate] end.
  inversion H; subst; clear H. simpl in Hl. apply in_concat in Hl. destruct Hl as [ls [Hls Hl]].
  destruct (mapM_in _ _ _ _ El Hls) as [pm [_ Hpm]]. simpl in Hpm.
  destruct (mass_names st pm) as [[m1 m2]|]; [|discriminate].
  destruct (mapM_in _ _ _ _ Hpm Hl) as [[i v] [Hiv Hm]]. simpl in Hm.
  destruct (nth_error [m1; m2] i) as [m|]; [|discriminate].
  exists v, m. split; [eapply in_combine_snd; eassumption | assumption].
Qed.

(* every lineshape of every emitted amplitude names the mass/width variables <prog>_M, <prog>_W of a particle that was
   seen while reading the file; unless that particle is one of the event-type particles, those two variables are
   declared in the intro *)
Theorem lineshape_symbols_declared config f c e l :
  convert pid_of info sfk fuel config f = Some c -> In (Some e) (c_amps c) -> In l (e_lines e) ->
  exists p i, info p = Some i /\ ls_prog l = pi_prog i /\
              (In p (zdedupe (c_event c) []) \/ In (pi_prog i, pi_mass i, pi_width i) (c_resvars c)).
Proof.
  unfold convert. intros H Hamp Hl.
  destruct (read_sets pid_of fuel config f) as [[cs r]|] eqn:Ers; [|discriminate]. inversion H; subst c; clear H. simpl in *.
  apply in_map_iff in Hamp. destruct Hamp as [t [Ht Hin]].
  destruct (to_goofit_line_vertex _ _ _ _ Ht Hl) as [v [m [Hv Hm]]].
  unfold make_lineshape in Hm. destruct (ls_kind v) as [k|]; [|discriminate].
  unfold prog_of in Hm. destruct (info (a_pid v)) as [i|] eqn:Ei; [|discriminate]. simpl in Hm.
  destruct (L_of info v) as [L|]; [|discriminate]. inversion Hm; subst l; clear Hm. simpl.
  exists (a_pid v), i. split; [assumption|]. split; [reflexivity|].
  (* a_pid v is among the particles of all lines *)
  assert (Hall : In (a_pid v) (s_all cs)).
  { unfold read_sets in Ers. destruct (read_ampgen pid_of fuel config f) as [r0|err|] eqn:Er; try discriminate.
    destruct (file_lines pid_of (r_cartesian r0) f) as [ls|] eqn:Efl; [|discriminate]. inversion Ers as [[Hcs Hr]]. subst r0. subst cs. simpl.
    assert (Hp : In (a_pid v) (flat_map node_pids ls)).
    { (* t is an expansion of a line of the mother *)
      unfold read_ampgen in Er.
      destruct (flat_map (fun o => match o with OEvent ns => [ns] | _ => [] end) f) as [|names [|? ?]]; try discriminate.
      destruct (mapO pid_of names) as [ev|]; [|discriminate].
      assert (G : forall cart, match mapO (fun o => o) (flat_map (fun o => match o with OCplx t0 re im => [mk_line pid_of cart t0 re im] | _ => [] end) f) with
                               | Some lines => match ev with
                                               | [] => RErr "IndexError"
                                               | m0 :: _ => match mapM (expand fuel lines) (filter (fun ln => Z.eqb (a_pid ln) m0) lines) with
                                                            | None => ROutOfFuel
                                                            | Some ls0 => ROk {| r_event := ev; r_pars := flat_map (fun o => match o with OVar n fx v0 e0 => [(n, checkfixed fx, numq v0, numq e0)] | _ => [] end) f;
                                                                                 r_consts := flat_map (fun o => match o with OConst n v0 => [(n, numq v0)] | _ => [] end) f;
                                                                                 r_amps := concat ls0; r_cartesian := cart |}
                                                            end
                                               end
                               | None => RErr "ParticleNotFound"
                               end = ROk r ->
                          cart = r_cartesian r -> In (a_pid v) (flat_map node_pids ls)).
      { intros cart HH Hcart. subst cart. unfold file_lines in Efl. rewrite Efl in HH.
        destruct ev as [|m0 ev']; [discriminate|].
        destruct (mapM (expand fuel ls) (filter (fun ln => Z.eqb (a_pid ln) m0) ls)) as [ls0|] eqn:Eex; [|discriminate].
        inversion HH as [Hr]. rewrite <- Hr in Hin. simpl in Hin.
        apply in_concat in Hin. destruct Hin as [lx [Hlx Htx]].
        destruct (mapM_in _ _ _ _ Eex Hlx) as [ln [Hln Eln]]. apply filter_In in Hln. destruct Hln as [Hln _].
        destruct (expand_pids ls fuel ln lx Eln t Htx (a_pid v) (vertexes_sub t v Hv)) as [A|A]; [|assumption].
        apply in_flat_map. exists ln. auto. }
      destruct (fcs_of f) as [|a [|b r1]]; try discriminate.
      - eapply G; [exact Er|]. destruct (mapO _ _) as [lines|]; [|discriminate]. destruct ev; [discriminate|].
        destruct (mapM _ _); [|discriminate]. inversion Er. reflexivity.
      - eapply G; [exact Er|]. destruct (mapO _ _) as [lines|]; [|discriminate]. destruct ev; [discriminate|].
        destruct (mapM _ _); [|discriminate]. inversion Er. reflexivity. }
    destruct (zdedupe_in _ [] _ Hp) as [[]|A]. assumption. }
  destruct (existsb (Z.eqb (a_pid v)) (zdedupe (r_event r) [])) eqn:Eev.
  - left. apply existsb_exists in Eev. destruct Eev as [z [Hz Ez]]. apply Z.eqb_eq in Ez. subst. assumption.
  - right. apply in_map_iff. exists (a_pid v). rewrite Ei. split; [reflexivity|].
    apply filter_In. split; [assumption|]. rewrite Eev. reflexivity.
Qed.

(* the two coefficients of an amplitude have distinct names *)
Theorem coefficient_names_distinct (name : string) : (name ++ "_r")%string <> (name ++ "_i")%string.
Proof. induction name as [|c r IH]; simpl; [discriminate|]. intros H. inversion H. auto. Qed.

(* one declaration per parameter line; the error is given exactly for free parameters *)
Theorem parameter_declarations config f c : convert pid_of info sfk fuel config f = Some c ->
  exists r, map (fun p => (pd_name p, pd_value p, pd_error p)) (c_pars c) =
            map (fun row : string * bool * Q * Q => match row with (n, fx, v, e0) => (n, v, if fx then None else Some e0) end) r /\
            r = flat_map (fun o => match o with OVar n fx v e0 => [(n, checkfixed fx, numq v, numq e0)] | _ => [] end) f.
Proof.
  unfold convert. intros H. destruct (read_sets pid_of fuel config f) as [[cs r]|] eqn:Ers; [|discriminate].
  inversion H; subst c; clear H. simpl. exists (r_pars r). split.
  - rewrite map_map. apply map_ext. intros [[[n fx] v] e0]. reflexivity.
  - unfold read_sets in Ers. destruct (read_ampgen pid_of fuel config f) as [r0|err|] eqn:Er; try discriminate.
    destruct (file_lines pid_of (r_cartesian r0) f); [|discriminate]. inversion Ers; subst.
    apply (read_tables _ _ _ _ _ Er).
Qed.
End Closed.
