(* Read.v — AmplitudeChain.read_ampgen / from_matched_line / expand_lines
   (src/decaylanguage/modeling/amplitudechain.py:65-144,211-291).  No proofs here. *)
From Coq Require Import String Ascii List Bool ZArith QArith Arith.
From DL Require Import Lib.Val Lib.PyDict Lib.Product Dec.Num Dec.Tables Amp.Syntax.
Import ListNotations.
Close Scope Q_scope.
Open Scope string_scope.

Section Read.
(* particle_from_string_name: the AmpGen-style fuzzy lookup in the installed database (data, not modelled) *)
Variable pid_of : string -> option Z.

(* int(token) > 0 : "checkfixed" *)
Definition checkfixed (lit : string) : bool :=
  match numval lit with Some (q, _) => negb (Qle_bool q 0) | None => false end.

Fixpoint mapO {A B} (f : A -> option B) (l : list A) : option (list B) :=
  match l with [] => Some [] | x :: r => match f x, mapO f r with Some y, Some ys => Some (y :: ys) | _, _ => None end end.

(* from_matched_line on a daughter / sub-tree: particle lookup at every node *)
Fixpoint resolve (t : dtree) : option atree :=
  match t with
  | DNode n sp l sub =>
      match pid_of n with
      | None => None
      | Some p =>
          match (fix go (l0 : list dtree) : option (list atree) :=
                   match l0 with
                   | [] => Some []
                   | d :: r => match resolve d, go r with Some a, Some ar => Some (a :: ar) | _, _ => None end
                   end) sub with
          | None => None
          | Some s => Some (ANode n p sp l None s)
          end
      end
  end.

(* cplx_decay_line + the polar/cartesian reading of the two columns *)
Definition mk_line (cartesian : bool) (t : dtree) (re im : fcplx) : option atree :=
  match resolve t with
  | None => None
  | Some (ANode n p sp l _ s) =>
      let fixf := negb (checkfixed (fc_fix re) && checkfixed (fc_fix im)) in
      let c := if cartesian
               then Cart (numq (fc_val re)) (numq (fc_val im)) (numq (fc_err re)) (numq (fc_err im))
               else Polar (numq (fc_val re)) (numq (fc_val im)) (numq (fc_err re)) (numq (fc_err im)) in
      Some (ANode n p sp l (Some (c, fixf)) s)
  end.

(* expand_lines: a node with daughters -> product of the daughters' expansions;
   a bare leaf -> the expansions of every line written for that name (file order), or itself.
   None = out of fuel (a line that contains its own name as a bare leaf recurses forever) *)
Fixpoint expand (fuel : nat) (lines : list atree) (t : atree) : option (list atree) :=
  match fuel with
  | 0 => None
  | S f =>
      match a_sub t with
      | [] =>
          match mapM (expand f lines) (filter (fun ln => String.eqb (a_name ln) (a_name t)) lines) with
          | None => None
          | Some ls => match concat ls with [] => Some [t] | all => Some all end
          end
      | ds =>
          match mapM (expand f lines) ds with
          | None => None
          | Some dl => Some (map (with_sub t) (product dl))
          end
      end
  end.

Record rresult := { r_event : list Z; r_pars : list (string * bool * Q * Q); r_consts : list (string * Q);
                    r_amps : list atree; r_cartesian : bool }.

Inductive rres := ROk (r : rresult) | RErr (e : string) | ROutOfFuel.

Definition fcs_of (f : list oline) : list string := flat_map (fun o => match o with OFCS n => [n] | _ => [] end) f.

Definition read_ampgen (fuel : nat) (cart0 : bool) (f : list oline) : rres :=
  match flat_map (fun o => match o with OEvent ns => [ns] | _ => [] end) f with
  | [names] =>
      match mapO pid_of names with
      | None => RErr "ParticleNotFound"
      | Some ev =>
          match fcs_of f with
          | _ :: _ :: _ => RErr "ValueError"
          | fcs =>
              let cart := match fcs with [n] => negb (Qeq_bool (numq n) 0) | _ => cart0 end in
              let pars := flat_map (fun o => match o with
                                             | OVar n fx v e => [(n, checkfixed fx, numq v, numq e)]
                                             | _ => [] end) f in
              let consts := flat_map (fun o => match o with OConst n v => [(n, numq v)] | _ => [] end) f in
              match mapO (fun o => o) (flat_map (fun o => match o with
                                                          | OCplx t re im => [mk_line cart t re im]
                                                          | _ => [] end) f) with
              | None => RErr "ParticleNotFound"
              | Some lines =>
                  match ev with
                  | [] => RErr "IndexError"
                  | m :: _ =>
                      match mapM (expand fuel lines) (filter (fun ln => Z.eqb (a_pid ln) m) lines) with
                      | None => ROutOfFuel
                      | Some ls => ROk {| r_event := ev; r_pars := pars; r_consts := consts;
                                          r_amps := concat ls; r_cartesian := cart |}
                      end
                  end
              end
          end
      end
  | _ => RErr "ValueError"
  end.
End Read.

(* ------------------------------------------------------------------ observation *)
Definition vopts (o : option string) : val := match o with Some s => VStr s | None => VNone end.
Fixpoint vatree (t : atree) : val :=
  match t with
  | ANode n p sp l c sub =>
      VList [VStr n; VInt p; vopts sp; vopts l;
             match c with
             | None => VNone
             | Some (Polar a th da dth, fx) => VList [VStr "polar"; vq a; vq th; vq da; vq dth; VBool fx]
             | Some (Cart a b da db, fx) => VList [VStr "cart"; vq a; vq b; vq da; vq db; VBool fx]
             end;
             VList (map vatree sub)]
  end.
Definition vrres (r : rres) : val :=
  match r with
  | RErr e => VErr e
  | ROutOfFuel => VErr "OutOfFuel"
  | ROk r => VList [VList (map VInt (r_event r));
                    VList (map (fun x => match x with (n, fx, v, e) => VList [VStr n; VBool fx; vq v; vq e] end) (r_pars r));
                    VList (map (fun x => VList [VStr (fst x); vq (snd x)]) (r_consts r));
                    VList (map vatree (r_amps r)); VBool (r_cartesian r)]
  end.
