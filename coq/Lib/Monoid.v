(* Monoid.v — finite products over a fixed universe in a commutative monoid with Leibniz
   equality; used for "valuations" of multisets (products of branching fractions, leaf counts). *)
From Coq Require Import String List Arith Lia.
Import ListNotations.

Section Monoid.
Variable M : Type.
Variable op : M -> M -> M.
Variable e : M.
Hypothesis op_assoc : forall a b c, op a (op b c) = op (op a b) c.
Hypothesis op_comm : forall a b, op a b = op b a.
Hypothesis op_e_l : forall a, op e a = a.

Lemma op_e_r a : op a e = a.
Proof. rewrite op_comm. apply op_e_l. Qed.

Lemma op_swap a b c : op a (op b c) = op b (op a c).
Proof. rewrite !op_assoc. f_equal. apply op_comm. Qed.

Lemma op_4 a b c d : op (op a b) (op c d) = op (op a c) (op b d).
Proof. rewrite <- !op_assoc. f_equal. apply op_swap. Qed.

Fixpoint pow (x : M) (n : nat) : M :=
  match n with 0 => e | S n' => op x (pow x n') end.

Lemma pow_add x a b : pow x (a + b) = op (pow x a) (pow x b).
Proof. induction a; simpl; [rewrite op_e_l; reflexivity|]. rewrite IHa. apply op_assoc. Qed.

Lemma pow_op x y n : pow (op x y) n = op (pow x n) (pow y n).
Proof. induction n; simpl; [rewrite op_e_l; reflexivity|]. rewrite IHn. apply op_4. Qed.

Lemma pow_e n : pow e n = e.
Proof. induction n; simpl; [reflexivity|]. rewrite IHn. apply op_e_l. Qed.

Lemma pow_mul x n a : pow x (n * a) = pow (pow x a) n.
Proof. induction n; simpl; [reflexivity|]. rewrite pow_add, IHn. reflexivity. Qed.

Variable U : list string.
Variable F : string -> M.

Definition val (g : string -> nat) : M :=
  fold_right (fun p acc => op (pow (F p) (g p)) acc) e U.

Lemma val_ext g g' : (forall p, In p U -> g p = g' p) -> val g = val g'.
Proof.
  unfold val. induction U as [|p l IH]; simpl; intros H; [reflexivity|].
  rewrite (H p) by (left; reflexivity). f_equal. apply IH. intros q Hq. apply H. right. assumption.
Qed.

Lemma val_add g h : val (fun p => g p + h p) = op (val g) (val h).
Proof.
  unfold val. induction U as [|p l IH]; simpl; [rewrite op_e_l; reflexivity|].
  rewrite IH, pow_add. apply op_4.
Qed.

Lemma val_scale n g : val (fun p => n * g p) = pow (val g) n.
Proof.
  unfold val. induction U as [|p l IH]; simpl; [rewrite pow_e; reflexivity|].
  rewrite IH, pow_mul, pow_op. reflexivity.
Qed.

Lemma val_zero g : (forall p, In p U -> g p = 0 \/ F p = e) -> val g = e.
Proof.
  unfold val. induction U as [|p l IH]; simpl; intros H; [reflexivity|].
  rewrite IH by (intros q Hq; apply H; right; assumption).
  rewrite op_e_r. destruct (H p (or_introl eq_refl)) as [-> | ->]; [reflexivity | apply pow_e].
Qed.

Lemma val_delta k n : NoDup U -> In k U ->
  val (fun p => if String.eqb p k then n else 0) = pow (F k) n.
Proof.
  unfold val. induction U as [|p l IH]; simpl; intros Hnd Hin; [contradiction|].
  inversion Hnd as [|? ? Hni Hnd']; subst.
  destruct (String.eqb p k) eqn:E.
  - apply String.eqb_eq in E. subst p.
    assert (Z : fold_right (fun p acc => op (pow (F p) (if String.eqb p k then n else 0)) acc) e l = e).
    { clear IH Hin Hnd Hnd'. induction l as [|q l IHl]; simpl; [reflexivity|].
      destruct (String.eqb q k) eqn:E2.
      - apply String.eqb_eq in E2. subst. exfalso. apply Hni. left. reflexivity.
      - simpl. rewrite op_e_l. apply IHl. intros H. apply Hni. right. assumption. }
    rewrite Z. apply op_e_r.
  - simpl. rewrite op_e_l. apply IH; [assumption|].
    destruct Hin as [->|H]; [rewrite String.eqb_refl in E; discriminate | assumption].
Qed.

End Monoid.

Section Pick.
Variable M : Type.
Variable op : M -> M -> M.
Variable e : M.
Hypothesis op_assoc : forall a b c, op a (op b c) = op (op a b) c.
Hypothesis op_comm : forall a b, op a b = op b a.
Hypothesis op_e_l : forall a, op e a = a.
Variable U : list string.
Variable F : string -> M.

Lemma val_pick g x : NoDup U -> In x U ->
  (forall p, In p U -> p <> x -> g p = 0 \/ F p = e) ->
  val M op e U F g = pow M op e (F x) (g x).
Proof.
  intros Hnd Hin H.
  rewrite (val_ext M op e U F g (fun p => (if String.eqb p x then 0 else g p) + (if String.eqb p x then g x else 0))).
  - rewrite val_add by assumption.
    rewrite (val_zero M op e op_comm op_e_l U F (fun p => if String.eqb p x then 0 else g p)).
    + rewrite op_e_l. apply val_delta; assumption.
    + intros p Hp. destruct (String.eqb p x) eqn:E; [left; reflexivity|].
      apply H; [assumption|]. intros ->. rewrite String.eqb_refl in E. discriminate.
  - intros p _. destruct (String.eqb p x) eqn:E; [apply String.eqb_eq in E; subst; lia | lia].
Qed.
End Pick.

Lemma pow_nat a n : pow nat plus 0 a n = n * a.
Proof. induction n; simpl; [reflexivity|]. rewrite IHn. reflexivity. Qed.
