(* Product.v — itertools.product over a list of option lists (same enumeration order). *)
From Coq Require Import List Arith Lia.
Import ListNotations.

Section Product.
Context {A : Type}.

Fixpoint product (ls : list (list A)) : list (list A) :=
  match ls with
  | [] => [[]]
  | l :: r => flat_map (fun x => map (cons x) (product r)) l
  end.

Lemma in_product x ls : In x (product ls) <-> Forall2 (fun a l => In a l) x ls.
Proof.
  revert x. induction ls as [|l r IH]; simpl; intros x.
  - split; [intros [<-|[]]; constructor | intros H; inversion H; left; reflexivity].
  - rewrite in_flat_map. split.
    + intros [a [Ha Hx]]. apply in_map_iff in Hx. destruct Hx as [y [<- Hy]].
      constructor; [assumption | apply IH; assumption].
    + intros H. inversion H as [|a l' y r' Ha Hy]; subst. exists a. split; [assumption|].
      apply in_map_iff. exists y. split; [reflexivity | apply IH; assumption].
Qed.

Lemma product_length ls : length (product ls) = fold_right (fun l acc => length l * acc) 1 ls.
Proof.
  induction ls as [|l r IH]; simpl; [reflexivity|].
  rewrite <- IH. clear IH. induction l as [|a l IHl]; simpl; [reflexivity|].
  rewrite app_length, map_length, IHl. reflexivity.
Qed.

Lemma NoDup_app_disj (l1 l2 : list A) :
  NoDup l1 -> NoDup l2 -> (forall x, In x l1 -> ~ In x l2) -> NoDup (l1 ++ l2).
Proof.
  induction l1 as [|a l1 IH]; simpl; intros H1 H2 D; [assumption|].
  inversion H1; subst. constructor.
  - rewrite in_app_iff. intros [H|H]; [contradiction | eapply D; [left; reflexivity | exact H]].
  - apply IH; auto.
Qed.

End Product.

Lemma NoDup_map_cons {A} (a : A) (l : list (list A)) : NoDup l -> NoDup (map (cons a) l).
Proof.
  induction 1; simpl; constructor; [|assumption].
  rewrite in_map_iff. intros [y [E Hy]]. inversion E; subst. contradiction.
Qed.

Lemma product_nodup {A} (ls : list (list A)) : Forall (@NoDup A) ls -> NoDup (product ls).
Proof.
  induction 1 as [|l r Hl Hr IH]; simpl; [repeat constructor; intros []|].
  induction Hl as [|a l Ha Hl IHl]; simpl; [constructor|].
  apply NoDup_app_disj; [apply NoDup_map_cons; assumption | assumption|].
  intros x Hx Hx'. apply in_map_iff in Hx. destruct Hx as [y [<- Hy]].
  apply in_flat_map in Hx'. destruct Hx' as [b [Hb Hx']].
  apply in_map_iff in Hx'. destruct Hx' as [z [E Hz]]. inversion E; subst. contradiction.
Qed.
