(* PyDict.v — insertion-ordered association lists with Python `dict` semantics
   (string keys): assignment keeps the position of an existing key and replaces its value,
   a new key is appended.  Model definitions and their basic lemmas. *)
From Coq Require Import String List Bool Arith Lia.
Import ListNotations.
Open Scope string_scope.
Open Scope list_scope.

Section PyDict.
Context {V : Type}.
Definition pdict := list (string * V).

Fixpoint pd_get (k : string) (d : pdict) : option V :=
  match d with
  | [] => None
  | (k', v) :: r => if String.eqb k k' then Some v else pd_get k r
  end.

Definition pd_mem (k : string) (d : pdict) : bool :=
  match pd_get k d with Some _ => true | None => false end.

Fixpoint pd_set (k : string) (v : V) (d : pdict) : pdict :=
  match d with
  | [] => [(k, v)]
  | (k', v') :: r => if String.eqb k k' then (k, v) :: r else (k', v') :: pd_set k v r
  end.

Definition pd_update (d e : pdict) : pdict := fold_left (fun acc kv => pd_set (fst kv) (snd kv) acc) e d.
Definition pd_of_list (l : list (string * V)) : pdict := pd_update [] l.
Definition pd_keys (d : pdict) : list string := map fst d.

Fixpoint pd_del (k : string) (d : pdict) : pdict :=
  match d with
  | [] => []
  | (k', v') :: r => if String.eqb k k' then r else (k', v') :: pd_del k r
  end.

Lemma pd_get_set_same k v d : pd_get k (pd_set k v d) = Some v.
Proof.
  induction d as [|[k' v'] r IH]; simpl.
  - rewrite String.eqb_refl. reflexivity.
  - destruct (String.eqb k k') eqn:E; simpl; rewrite ?String.eqb_refl, ?E; auto.
Qed.

Lemma pd_get_set_other k k' v d : k <> k' -> pd_get k' (pd_set k v d) = pd_get k' d.
Proof.
  intros Hne. induction d as [|[k2 v2] r IH]; simpl.
  - destruct (String.eqb k' k) eqn:E; [apply String.eqb_eq in E; congruence | reflexivity].
  - destruct (String.eqb k k2) eqn:E; simpl.
    + apply String.eqb_eq in E. subst k2.
      destruct (String.eqb k' k) eqn:E2; [apply String.eqb_eq in E2; congruence | reflexivity].
    + destruct (String.eqb k' k2); auto.
Qed.

Lemma pd_get_none k d : ~ In k (pd_keys d) -> pd_get k d = None.
Proof.
  induction d as [|[k' v'] r IH]; simpl; intros H; [reflexivity|].
  destruct (String.eqb k k') eqn:E.
  - apply String.eqb_eq in E. subst. exfalso. apply H. left. reflexivity.
  - apply IH. intros Hin. apply H. right. assumption.
Qed.

Lemma pd_get_some_in k v d : pd_get k d = Some v -> In (k, v) d.
Proof.
  induction d as [|[k' v'] r IH]; simpl; intros H; [discriminate|].
  destruct (String.eqb k k') eqn:E.
  - apply String.eqb_eq in E. inversion H; subst. left. reflexivity.
  - right. apply IH. assumption.
Qed.

Lemma pd_get_in_nodup k v d : NoDup (pd_keys d) -> In (k, v) d -> pd_get k d = Some v.
Proof.
  induction d as [|[k' v'] r IH]; simpl; intros Hnd Hin; [contradiction|].
  inversion Hnd as [|? ? Hni Hnd']; subst.
  destruct Hin as [Heq|Hin].
  - inversion Heq; subst. rewrite String.eqb_refl. reflexivity.
  - destruct (String.eqb k k') eqn:E.
    + apply String.eqb_eq in E. subst. exfalso. apply Hni.
      change k' with (fst (k', v)). apply in_map. assumption.
    + apply IH; assumption.
Qed.

Lemma pd_set_fresh k v d : ~ In k (pd_keys d) -> pd_set k v d = d ++ [(k, v)].
Proof.
  induction d as [|[k' v'] r IH]; simpl; intros H; [reflexivity|].
  destruct (String.eqb k k') eqn:E.
  - apply String.eqb_eq in E. subst. exfalso. apply H. left. reflexivity.
  - f_equal. apply IH. intros Hin. apply H. right. assumption.
Qed.

Lemma pd_keys_set k v d : pd_keys (pd_set k v d) = if pd_mem k d then pd_keys d else pd_keys d ++ [k].
Proof.
  unfold pd_mem. induction d as [|[k' v'] r IH]; simpl; [reflexivity|].
  destruct (String.eqb k k') eqn:E; simpl.
  - apply String.eqb_eq in E. subst. reflexivity.
  - rewrite IH. destruct (pd_get k r); reflexivity.
Qed.

Lemma pd_mem_in k d : pd_mem k d = true <-> In k (pd_keys d).
Proof.
  unfold pd_mem. induction d as [|[k' v'] r IH]; simpl.
  - split; [discriminate | contradiction].
  - destruct (String.eqb k k') eqn:E.
    + apply String.eqb_eq in E. subst. split; auto.
    + rewrite IH. split; [auto|]. intros [H|H]; [|assumption].
      subst. rewrite String.eqb_refl in E. discriminate.
Qed.

Lemma NoDup_snoc {A} (l : list A) (x : A) : NoDup l -> ~ In x l -> NoDup (l ++ [x]).
Proof.
  induction l as [|a l IH]; simpl; intros Hnd Hni.
  - constructor; [intros []|constructor].
  - inversion Hnd; subst. constructor.
    + rewrite in_app_iff. intros [H|[H|[]]]; [contradiction|]. subst. apply Hni. left. reflexivity.
    + apply IH; [assumption|]. intros H. apply Hni. right. assumption.
Qed.

Lemma pd_set_nodup k v d : NoDup (pd_keys d) -> NoDup (pd_keys (pd_set k v d)).
Proof.
  intros H. rewrite pd_keys_set. destruct (pd_mem k d) eqn:E; [assumption|].
  apply NoDup_snoc; [assumption|]. intros Hin. apply pd_mem_in in Hin. congruence.
Qed.

End PyDict.
Arguments pdict : clear implicits.
