(* Sort.v — Python's sorted() on ASCII strings: String.leb is a total order; insertion sort;
   sorted permutations are equal (so sorting is a canonical form of the multiset). *)
From Coq Require Import String Ascii List Bool Arith NArith Lia Permutation Sorted.
Import ListNotations.
Open Scope string_scope.
Open Scope list_scope.

Lemma ascii_compare_refl a : Ascii.compare a a = Eq.
Proof. unfold Ascii.compare. apply N.compare_refl. Qed.

Lemma ascii_compare_eq a b : Ascii.compare a b = Eq -> a = b.
Proof.
  unfold Ascii.compare. intros H. apply N.compare_eq in H.
  rewrite <- (ascii_N_embedding a), <- (ascii_N_embedding b). congruence.
Qed.

Lemma ascii_compare_lt_trans a b c :
  Ascii.compare a b = Lt -> Ascii.compare b c = Lt -> Ascii.compare a c = Lt.
Proof. unfold Ascii.compare. rewrite !N.compare_lt_iff. lia. Qed.

Lemma compare_refl s : String.compare s s = Eq.
Proof. induction s; simpl; [reflexivity|]. rewrite ascii_compare_refl. assumption. Qed.

Lemma compare_lt_trans : forall s1 s2 s3,
  String.compare s1 s2 = Lt -> String.compare s2 s3 = Lt -> String.compare s1 s3 = Lt.
Proof.
  induction s1 as [|a s1 IH]; intros [|b s2] [|c s3]; simpl; try discriminate; auto.
  destruct (Ascii.compare a b) eqn:E1; try discriminate;
  destruct (Ascii.compare b c) eqn:E2; try discriminate; intros H1 H2.
  - apply ascii_compare_eq in E1, E2. subst. rewrite ascii_compare_refl. eapply IH; eassumption.
  - apply ascii_compare_eq in E1. subst. rewrite E2. reflexivity.
  - apply ascii_compare_eq in E2. subst. rewrite E1. reflexivity.
  - rewrite (ascii_compare_lt_trans _ _ _ E1 E2). reflexivity.
Qed.

Lemma leb_iff s1 s2 : String.leb s1 s2 = true <-> String.compare s1 s2 <> Gt.
Proof. unfold String.leb. destruct (String.compare s1 s2); split; congruence. Qed.

Lemma leb_refl s : String.leb s s = true.
Proof. unfold String.leb. rewrite compare_refl. reflexivity. Qed.

Lemma leb_trans s1 s2 s3 : String.leb s1 s2 = true -> String.leb s2 s3 = true -> String.leb s1 s3 = true.
Proof.
  unfold String.leb.
  destruct (String.compare s1 s2) eqn:E1; try discriminate;
  destruct (String.compare s2 s3) eqn:E2; try discriminate; intros _ _.
  - apply String.compare_eq_iff in E1, E2. subst. rewrite compare_refl. reflexivity.
  - apply String.compare_eq_iff in E1. subst. rewrite E2. reflexivity.
  - apply String.compare_eq_iff in E2. subst. rewrite E1. reflexivity.
  - rewrite (compare_lt_trans _ _ _ E1 E2). reflexivity.
Qed.

Fixpoint insert_sorted (x : string) (l : list string) : list string :=
  match l with
  | [] => [x]
  | y :: r => if String.leb x y then x :: l else y :: insert_sorted x r
  end.
Definition sort_strings (l : list string) : list string := fold_right insert_sorted [] l.

Definition sorted (l : list string) : Prop := StronglySorted (fun a b => String.leb a b = true) l.

Lemma insert_perm x l : Permutation (insert_sorted x l) (x :: l).
Proof.
  induction l as [|y r IH]; simpl; [reflexivity|].
  destruct (String.leb x y); [reflexivity|]. rewrite IH. apply perm_swap.
Qed.

Lemma sort_perm l : Permutation (sort_strings l) l.
Proof. induction l; simpl; [reflexivity|]. rewrite insert_perm. constructor. assumption. Qed.

Lemma insert_sorted_ok x l : sorted l -> sorted (insert_sorted x l).
Proof.
  unfold sorted. induction l as [|y r IH]; simpl; intros H.
  - constructor; constructor.
  - inversion H as [|? ? Hs Hall]; subst. destruct (String.leb x y) eqn:E.
    + constructor; [assumption|]. constructor; [assumption|].
      rewrite Forall_forall in *. intros z Hz. eapply leb_trans; eauto.
    + constructor; [auto|].
      assert (Hyx : String.leb y x = true) by (destruct (String.leb_total x y); congruence).
      rewrite Forall_forall in *. intros z Hz.
      apply (Permutation_in _ (insert_perm x r)) in Hz. destruct Hz as [<-|Hz]; auto.
Qed.

Lemma sort_sorted l : sorted (sort_strings l).
Proof. induction l; simpl; [constructor | apply insert_sorted_ok; assumption]. Qed.

Lemma sorted_perm_eq : forall l l', sorted l -> sorted l' -> Permutation l l' -> l = l'.
Proof.
  unfold sorted. induction l as [|a l IH]; intros [|b l'] H1 H2 P.
  - reflexivity.
  - apply Permutation_nil in P. discriminate.
  - apply Permutation_sym, Permutation_nil in P. discriminate.
  - inversion H1 as [|? ? S1 A1]; inversion H2 as [|? ? S2 A2]; subst.
    assert (a = b).
    { rewrite Forall_forall in A1, A2.
      assert (Ha : In a (b :: l')) by (eapply Permutation_in; [exact P | left; reflexivity]).
      assert (Hb : In b (a :: l)) by (eapply Permutation_in; [apply Permutation_sym; exact P | left; reflexivity]).
      destruct Ha as [->|Ha]; [reflexivity|]. destruct Hb as [->|Hb]; [reflexivity|].
      apply String.leb_antisym; auto. }
    subst. f_equal. apply IH; auto. eapply Permutation_cons_inv. exact P.
Qed.

Theorem sort_canonical l l' : Permutation l l' -> sort_strings l = sort_strings l'.
Proof.
  intros P. apply sorted_perm_eq; try apply sort_sorted.
  rewrite sort_perm, P. symmetry. apply sort_perm.
Qed.

Lemma sort_length l : length (sort_strings l) = length l.
Proof. apply Permutation_length. apply sort_perm. Qed.
