(* Val.v — the common, exact value type in which model outputs are printed, and a
   JSON serializer.  No proofs here: this file is part of the correspondence tie only. *)
From Coq Require Import String Ascii List ZArith QArith Bool DecimalString.
Import ListNotations.
Close Scope Q_scope.
Open Scope nat_scope.
Open Scope string_scope.

Inductive val :=
| VNone
| VBool (b : bool)
| VInt (z : Z)
| VQ (n : Z) (d : positive)          (* always printed reduced *)
| VStr (s : string)
| VList (l : list val)
| VErr (s : string).

Definition show_Z (z : Z) : string := NilZero.string_of_int (Z.to_int z).

Definition hexdigit (n : nat) : ascii :=
  match n with
  | 0 => "0" | 1 => "1" | 2 => "2" | 3 => "3" | 4 => "4" | 5 => "5" | 6 => "6" | 7 => "7"
  | 8 => "8" | 9 => "9" | 10 => "a" | 11 => "b" | 12 => "c" | 13 => "d" | 14 => "e" | _ => "f"
  end%char.

Definition esc_char (c : ascii) : string :=
  let n := nat_of_ascii c in
  if Nat.eqb n 34 then "\"""
  else if Nat.eqb n 92 then "\\"
  else if orb (Nat.ltb n 32) (Nat.ltb 126 n)
       then "\u00" ++ String (hexdigit (Nat.div n 16)) (String (hexdigit (Nat.modulo n 16)) "")
       else String c "".

Fixpoint esc (s : string) : string :=
  match s with
  | EmptyString => ""
  | String c r => esc_char c ++ esc r
  end.

Definition quote (s : string) : string := """" ++ esc s ++ """".

Definition show_Q (n : Z) (d : positive) : string :=
  let q := Qred (n # d) in
  "{""q"":[" ++ show_Z (Qnum q) ++ "," ++ show_Z (Zpos (Qden q)) ++ "]}".

Fixpoint show (v : val) : string :=
  match v with
  | VNone => "null"
  | VBool true => "true"
  | VBool false => "false"
  | VInt z => show_Z z
  | VQ n d => show_Q n d
  | VStr s => quote s
  | VErr s => "{""err"":" ++ quote s ++ "}"
  | VList l =>
      "[" ++ (fix go (l : list val) : string :=
                match l with
                | [] => ""
                | [x] => show x
                | x :: r => show x ++ "," ++ go r
                end) l ++ "]"
  end.

Definition newline : string := String (ascii_of_nat 10) "".

Fixpoint show_lines (l : list val) : string :=
  match l with
  | [] => ""
  | x :: r => show x ++ newline ++ show_lines r
  end.

Definition vq (q : Q) : val := VQ (Qnum q) (Qden q).
Definition vstrs (l : list string) : val := VList (map VStr l).
Definition vopt {A} (f : A -> val) (o : option A) : val :=
  match o with None => VNone | Some a => f a end.
Definition vpair (a b : val) : val := VList [a; b].
