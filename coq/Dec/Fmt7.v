(* Fmt7.v — Python's  format(x, ".7g")  for a finite non-negative x given as an exact rational
   (print_decay_modes prints  "{:<10.7g}".format(bf / norm) ; CPython formats the exact binary value of the float,
   correctly rounded to 7 significant digits, ties to even, in the shortest of fixed / exponent notation that %g
   prescribes, trailing zeros removed).  No proofs here. *)
From Coq Require Import String Ascii List Bool ZArith QArith Arith.
From DL Require Import Dec.Num.
Import ListNotations.
Close Scope Q_scope.
Open Scope string_scope.
Local Open Scope Z_scope.

(* x = a / b with a >= 0, b > 0 *)
Definition q_ge_pow (a b e : Z) : bool :=          (* 10^e <= a/b *)
  if 0 <=? e then (10 ^ e * b <=? a) else (b <=? a * 10 ^ (- e)).

(* floor(log10 (a/b)) for a > 0, by search from 0 *)
Fixpoint up (fuel : nat) (a b e : Z) : Z :=         (* largest e' >= e with 10^e' <= x, given 10^e <= x *)
  match fuel with
  | O => e
  | S f => if q_ge_pow a b (e + 1) then up f a b (e + 1) else e
  end.
Fixpoint down (fuel : nat) (a b e : Z) : Z :=       (* largest e' <= e with 10^e' <= x *)
  match fuel with
  | O => e
  | S f => if q_ge_pow a b e then e else down f a b (e - 1)
  end.
Definition ilog10 (a b : Z) : Z :=
  let fuel := Z.to_nat (Z.log2 a + Z.log2 b + 2) in
  if q_ge_pow a b 0 then up fuel a b 0 else down fuel a b (-1).

(* round half to even of p / q (q > 0, p >= 0) *)
Definition round_he (p q : Z) : Z :=
  let d := p / q in let r := p mod q in
  if 2 * r <? q then d else if q <? 2 * r then d + 1 else if Z.even d then d else d + 1.

(* the scaled fraction p / q = (a/b) * 10^(6-e) *)
Definition scaled (a b e : Z) : Z * Z :=
  if 0 <=? 6 - e then (a * 10 ^ (6 - e), b) else (a, b * 10 ^ (e - 6)).

(* (n, e): 10^6 <= n < 10^7, x ~ n * 10^(e-6).  None when the search for the exponent ran out of fuel
   (checked, never observed: the theorems are about the Some case) *)
Definition sci7 (a b : Z) : option (Z * Z) :=
  let e := ilog10 a b in
  if q_ge_pow a b e && negb (q_ge_pow a b (e + 1)) then
    let '(p, q) := scaled a b e in
    let n := round_he p q in
    Some (if n =? 10 ^ 7 then (10 ^ 6, e + 1) else (n, e))
  else None.

(* the seven decimal digits of n (10^6 <= n < 10^7), most significant first *)
Definition digit_char (d : Z) : ascii := ascii_of_nat (48 + Z.to_nat d).
Definition digs7 (n : Z) : string :=
  let q1 := n / 10 in let q2 := q1 / 10 in let q3 := q2 / 10 in let q4 := q3 / 10 in let q5 := q4 / 10 in let q6 := q5 / 10 in
  String (digit_char (q6 mod 10)) (String (digit_char (q5 mod 10)) (String (digit_char (q4 mod 10)) (String (digit_char (q3 mod 10))
  (String (digit_char (q2 mod 10)) (String (digit_char (q1 mod 10)) (String (digit_char (n mod 10)) "")))))).

(* remove trailing '0' characters, keeping the first character *)
Definition is_zero_char (c : ascii) : bool := Nat.eqb (nat_of_ascii c) 48.
Fixpoint rstrip0 (s : string) : string :=
  match s with
  | EmptyString => ""
  | String c r => let r' := rstrip0 r in
                  match r' with EmptyString => if is_zero_char c then "" else String c "" | _ => String c r' end
  end.
Definition strip_keep1 (s : string) : string :=
  match s with String c r => String c (rstrip0 r) | EmptyString => "" end.

Fixpoint zeros (n : nat) : string := match n with O => "" | S k => String "0" (zeros k) end.

Fixpoint take (n : nat) (s : string) : string :=
  match n, s with S k, String c r => String c (take k r) | _, _ => "" end.
Fixpoint drop (n : nat) (s : string) : string :=
  match n, s with S k, String c r => drop k r | _, _ => s end.

(* the exponent: sign and at least two digits (|e| < 1000 in the theorems; doubles have |e| <= 324) *)
Definition exp_digits (m : Z) : string :=
  if m <? 10 then String "0" (String (digit_char m) "")
  else if m <? 100 then String (digit_char (m / 10)) (String (digit_char (m mod 10)) "")
  else String (digit_char (m / 100)) (String (digit_char ((m / 10) mod 10)) (String (digit_char (m mod 10)) "")).
Definition exp_str (e : Z) : string := (if e <? 0 then "-" else "+") ++ exp_digits (Z.abs e).

Definition fmt_sci (n e : Z) : string :=
  let D := strip_keep1 (digs7 n) in
  let L := Z.of_nat (String.length D) in
  if (-4 <=? e) && (e <? 7) then
    if L - 1 <=? e then D ++ zeros (Z.to_nat (e - (L - 1)))
    else if 0 <=? e then take (Z.to_nat (e + 1)) D ++ "." ++ drop (Z.to_nat (e + 1)) D
    else "0." ++ zeros (Z.to_nat (- e - 1)) ++ D
  else
    take 1 D ++ (if 1 <? L then "." ++ drop 1 D else "") ++ "e" ++ exp_str e.

(* the text of a positive a/b ("?" : exponent search out of fuel) *)
Definition fmt_pos (a b : Z) : string :=
  match sci7 a b with Some (n, e) => fmt_sci n e | None => "?" end.

Definition fmt_g7 (x : Q) : string :=
  let a := Qnum x in let b := Zpos (Qden x) in
  if a =? 0 then "0" else if a <? 0 then "-" ++ fmt_pos (- a) b else fmt_pos a b.
