(* Tables.v — decay tables as DecFileParser holds them after parse(): an ordered list of
   (mother, decay lines); and DecFileParser.build_decay_chains (dec.py:999-1080) on them. *)
From Coq Require Import String Ascii List Bool ZArith QArith Arith.
From DL Require Import Lib.Val Lib.PyDict Decay.ChainDict.
Import ListNotations.
Close Scope Q_scope.
Open Scope string_scope.

Inductive pval := PNum (q : Q) | PWord (s : string).

Record line := { l_bf : Q; l_fs : list string; l_photos : bool; l_model : string;
                 l_params : option (list pval) }.   (* None: no model_options node ('' in Python) *)

Definition table := (string * list line)%type.

(* _find_decay_modes: the first table whose mother matches *)
Fixpoint find_table (m : string) (T : list table) : option (list line) :=
  match T with
  | [] => None
  | (m', ls) :: r => if String.eqb m m' then Some ls else find_table m r
  end.

Definition vpval (p : pval) : val := match p with PNum q => vq q | PWord s => VStr s end.
Definition vparams (o : option (list pval)) : val :=
  match o with None => VStr "" | Some l => VList (map vpval l) end.

(* _decay_mode_details(dm, display_photos_keyword) minus bf/fs *)
Definition line_meta (photos_kw : bool) (l : line) : pdict val :=
  [("model", VStr (if photos_kw && l_photos l then "PHOTOS " ++ l_model l else l_model l));
   ("model_params", vparams (l_params l))].

Definition smem (x : string) (l : list string) : bool := existsb (String.eqb x) l.

(* result: None = out of fuel (cyclic tables: Python hits RecursionError);
           Some None = DecayNotFound; Some (Some c) = the chain *)
Fixpoint mapM {A B} (f : A -> option B) (l : list A) : option (list B) :=
  match l with
  | [] => Some []
  | x :: r => match f x, mapM f r with Some y, Some ys => Some (y :: ys) | _, _ => None end
  end.

Fixpoint build (fuel : nat) (T : list table) (S : list string) (m : string) : option (option cdict) :=
  match fuel with
  | 0 => None
  | S f =>
      match find_table m T with
      | None => Some None
      | Some lines =>
          match mapM (fun l =>
                   match mapM (fun d =>
                            if smem d S then Some (FName d)
                            else match build f T S d with
                                 | None => None
                                 | Some None => Some (FName d)           (* DecayNotFound caught *)
                                 | Some (Some c) => Some (FSub c)
                                 end) (l_fs l) with
                   | None => None
                   | Some fs => Some (CM (l_bf l) fs (line_meta false l))
                   end) lines with
          | None => None
          | Some modes => Some (Some (CD m modes))
          end
      end
  end.

Definition vbuild (r : option (option cdict)) : val :=
  match r with
  | None => VErr "OutOfFuel"
  | Some None => VErr "DecayNotFound"
  | Some (Some c) => vcdict c
  end.
