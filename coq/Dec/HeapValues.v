(* HeapValues.v — parse() never raises TypeError (model: Dec/Heap.v).

   The value visitor converts Token.value in place.  A word token that has already been converted to a
   float makes it raise TypeError ('float' object is not subscriptable) — the symptom of finding F1, where
   one alias body was shared by several decay lines.  Here: for EVERY statement list the visitor meets
   every token at most once and every token it meets still holds a string, so HTypeError is impossible.

   Ingredients: (1) all token values are strings until the visitor runs; (2) the trees have the shape Lark
   gives them: below a model_options node there is no further model / model_options node, so the visited
   tokens are a sub-sequence of the tokens of the tree; (3) separation (HeapProofs). *)
From Coq Require Import String Ascii List Bool ZArith QArith Arith Lia.
From DL Require Import Lib.Val Lib.PyDict Lib.Sort Decay.Conj Decay.ChainDict Dec.Num Dec.Tables Dec.Syntax Dec.Post Dec.Heap Dec.HeapProofs.
Import ListNotations.
Close Scope Q_scope.
Open Scope string_scope.

(* ------------------------------------------------------------------ (1) token values are strings *)
Definition is_TS (v : tval) : Prop := match v with TS _ => True | TQ _ => False end.
Definition all_TS (h : list tval) : Prop := Forall is_TS h.

Definition pres {A} (m : M A) : Prop := forall s x s', m s = (x, s') -> all_TS (h_toks s) -> all_TS (h_toks s').

Lemma pres_ret {A} (x : A) : pres (ret x).
Proof. intros s y s' H. inversion H; subst. auto. Qed.
Lemma pres_bind {A B} (m : M A) (f : A -> M B) : pres m -> (forall x, pres (f x)) -> pres (bind m f).
Proof.
  intros Hm Hf s y s' H Hs. unfold bind in H. destruct (m s) as [x s1] eqn:E. eapply Hf; [exact H | eapply Hm; eauto].
Qed.
Lemma pres_tok k v : pres (mk_tok k v).
Proof.
  intros s x s' H Hs. unfold mk_tok in H. inversion H; subst. simpl. apply Forall_app. split; [exact Hs | constructor; [exact I | constructor]].
Qed.
Lemma pres_tree d ch : pres (mk_tree d ch).
Proof. intros s x s' H Hs. unfold mk_tree in H. inversion H; subst. exact Hs. Qed.
Lemma pres_mapM {A B} (f : A -> M B) l : (forall x, pres (f x)) -> pres (mapM f l).
Proof.
  intros Hf. induction l as [|x r IH]; simpl; [apply pres_ret|].
  apply pres_bind; [apply Hf|]. intros y. apply pres_bind; [exact IH|]. intros ys. apply pres_ret.
Qed.

Ltac pres_tac :=
  repeat first [ apply pres_ret | apply pres_tok | apply pres_tree
               | apply pres_bind; [|intros ?]
               | apply pres_mapM; intros ? ].

Lemma pres_particle n : pres (mk_particle n).
Proof. unfold mk_particle. pres_tac. Qed.
Lemma pres_value n : pres (mk_value n).
Proof. unfold mk_value. pres_tac. Qed.
Lemma pres_param p : pres (mk_param p).
Proof. destruct p; simpl; [apply pres_value | apply pres_tok]. Qed.
Lemma pres_model_children m : pres (mk_model_children m).
Proof. destruct m as [l|n [ps|]]; simpl; pres_tac. apply pres_param. Qed.
Lemma pres_model m : pres (mk_model m).
Proof. unfold mk_model. apply pres_bind; [apply pres_model_children | intros; apply pres_tree]. Qed.
Lemma pres_line d : pres (mk_line d).
Proof.
  unfold mk_line. apply pres_bind; [apply pres_value|]. intros v. apply pres_bind; [apply pres_mapM; intros; apply pres_particle|].
  intros ps. apply pres_bind; [destruct (d_photos d); pres_tac|]. intros ph. apply pres_bind; [apply pres_model|]. intros m. apply pres_tree.
Qed.
Lemma pres_decay m ls : pres (mk_decay m ls).
Proof.
  unfold mk_decay. apply pres_bind; [apply pres_particle|]. intros p. apply pres_bind; [apply pres_mapM; intros; apply pres_line|].
  intros. apply pres_tree.
Qed.
Lemma pres_model_alias n m : pres (mk_model_alias n m).
Proof.
  unfold mk_model_alias. apply pres_bind; [apply pres_tok|]. intros t. apply pres_bind; [apply pres_tree|]. intros l.
  apply pres_bind; [apply pres_model|]. intros. apply pres_tree.
Qed.
Lemma pres_file f : pres (mk_file f).
Proof.
  induction f as [|st r IH]; simpl; [apply pres_ret|]. destruct st; try exact IH.
  - apply pres_bind; [apply pres_decay|]. intros t. apply pres_bind; [exact IH|]. intros. apply pres_ret.
  - apply pres_bind; [apply pres_model_alias|]. intros t. apply pres_bind; [exact IH|]. intros. apply pres_ret.
Qed.

Lemma nth_all_TS h i : all_TS h -> is_TS (nth i h (TS "")).
Proof.
  intros H. destruct (nth_in_or_default i h (TS "")) as [Hin|Heq]; [|rewrite Heq; exact I].
  unfold all_TS in H. rewrite Forall_forall in H. apply H. exact Hin.
Qed.

Lemma dcopy_pres : forall t m s t' m' s', dcopy t m s = (t', m', s') -> all_TS (h_toks s) -> all_TS (h_toks s').
Proof.
  induction t as [i k|i d ch IH] using ot_ind'; intros m s t' m' s' H Hs.
  - simpl in H. destruct (alook i (m_tok m)); inversion H; subst; [exact Hs|]. simpl.
    apply Forall_app. split; [exact Hs | constructor; [apply nth_all_TS; exact Hs | constructor]].
  - simpl in H. destruct (alook i (m_node m)); [inversion H; subst; exact Hs|].
    match type of H with context [?g ch m s] => destruct (g ch m s) as [[ch' m1] s1] eqn:Ego end.
    inversion H; subst; clear H. simpl.
    clear -IH Ego Hs. revert m s ch' m1 s1 Ego Hs. induction ch as [|x r IHr]; intros m s ch' m1 s1 Ego Hs.
    + inversion Ego; subst. exact Hs.
    + inversion IH as [|? ? Hx HFr]; subst.
      destruct (dcopy x m s) as [[x' mx] sx] eqn:Ex.
      match type of Ego with context [?g r mx sx] => destruct (g r mx sx) as [[r' mr] sr] eqn:Er end.
      inversion Ego; subst. eapply IHr; eauto.
Qed.
Lemma dcopy_list_pres : forall l m s l' m' s', dcopy_list l m s = (l', m', s') -> all_TS (h_toks s) -> all_TS (h_toks s').
Proof.
  induction l as [|x r IH]; simpl; intros m s l' m' s' H Hs; [inversion H; subst; exact Hs|].
  destruct (dcopy x m s) as [[x' mx] sx] eqn:Ex. destruct (dcopy_list r mx sx) as [[r' mr] sr] eqn:Er. inversion H; subst.
  eapply IH; [exact Er | eapply dcopy_pres; eauto].
Qed.
Lemma pres_deepcopy_list l : pres (deepcopy_list l).
Proof.
  intros s x s' H Hs. unfold deepcopy_list in H. destruct (dcopy_list l memo0 s) as [[c m] s1] eqn:E. inversion H; subst.
  eapply dcopy_list_pres; eauto.
Qed.

Lemma pres_raw_aliases : forall F acc, pres (raw_aliases F acc).
Proof.
  induction F as [|t r IH]; intros acc; cbn [raw_aliases]; [apply pres_ret|].
  destruct (is_data "model_alias" t); [|apply IH]. intros s x s' H Hs.
  destruct (alias_entry (h_toks s) t) as [[n body]|]; [|eapply IH; eauto].
  revert H Hs. apply pres_bind; [apply pres_deepcopy_list | intros; apply IH].
Qed.

Lemma dcopy_dict_pres : forall d m s d' m' s', dcopy_dict d m s = (d', m', s') -> all_TS (h_toks s) -> all_TS (h_toks s').
Proof.
  intros d m s d' m' s' H. apply dcopy_dict_vals in H. eapply dcopy_list_pres; eauto.
Qed.
Lemma pres_deepcopy_dict d : pres (deepcopy_dict d).
Proof.
  intros s x s' H Hs. unfold deepcopy_dict in H. destruct (dcopy_dict d memo0 s) as [[c m] s1] eqn:E. inversion H; subst.
  eapply dcopy_dict_pres; eauto.
Qed.

Lemma transform_pres al : forall t s r s', transform al t s = (r, s') -> all_TS (h_toks s) -> all_TS (h_toks s').
Proof.
  induction t as [i k|i d ch IH] using ot_ind'; intros s r s' H Hs.
  - simpl in H. unfold retE in H. inversion H; subst. exact Hs.
  - cbn [transform] in H. unfold bindE at 1 in H.
    match type of H with context [?g ch s] => destruct (g ch s) as [[ch'|e] s1] eqn:Ego end.
    + assert (H1 : all_TS (h_toks s1)).
      { clear H. revert s ch' s1 Ego Hs. induction ch as [|x r0 IHr]; intros s ch' s1 Ego Hs.
        - unfold retE in Ego. inversion Ego; subst. exact Hs.
        - inversion IH as [|? ? Hx HFr]; subst. unfold bindE at 1 in Ego.
          destruct (transform al x s) as [[x'|e] sx] eqn:Ex; [|discriminate]. unfold bindE at 1 in Ego.
          match type of Ego with context [?g r0 sx] => destruct (g r0 sx) as [[r'|e] sr] eqn:Er end; [|discriminate].
          unfold retE in Ego. inversion Ego; subst. eapply IHr; eauto. }
      assert (Hdef : forall d0 r0 s0, liftE (mk_tree d0 ch') s1 = (r0, s0) -> all_TS (h_toks s0)).
      { intros d0 r0 s0 Hm. unfold liftE, mk_tree in Hm. inversion Hm; subst. exact H1. }
      destruct (String.eqb d "model"); [|eapply Hdef; exact H].
      destruct ch' as [|[j k|j dj [|lbl rest]] ch'']; try (eapply Hdef; exact H).
      destruct (tokstr (h_toks s1) lbl) as [name|]; [|inversion H; subst; exact H1].
      destruct (pd_get name al) as [body|]; [|inversion H; subst; exact H1].
      unfold bindE, liftE in H. destruct (deepcopy_list body s1) as [b s2] eqn:Eb.
      unfold mk_tree in H. inversion H; subst. simpl. eapply pres_deepcopy_list; eauto.
    + inversion H; subst. clear H.
      revert s e s' Ego Hs. induction ch as [|x r0 IHr]; intros s e s' Ego Hs.
      * unfold retE in Ego. discriminate.
      * inversion IH as [|? ? Hx HFr]; subst. unfold bindE at 1 in Ego.
        destruct (transform al x s) as [[x'|e'] sx] eqn:Ex.
        -- unfold bindE at 1 in Ego.
           match type of Ego with context [?g r0 sx] => destruct (g r0 sx) as [[r'|e''] sr] eqn:Er end.
           ++ unfold retE in Ego. discriminate.
           ++ inversion Ego; subst. eapply IHr; eauto.
        -- inversion Ego; subst. eapply Hx; eauto.
Qed.

Lemma mapME_transform_pres al : forall D s r s', mapME (transform al) D s = (r, s') -> all_TS (h_toks s) -> all_TS (h_toks s').
Proof.
  induction D as [|x r0 IH]; intros s r s' H Hs; cbn [mapME] in H.
  - unfold retE in H. inversion H; subst. exact Hs.
  - unfold bindE at 1 in H. destruct (transform al x s) as [[x'|e] sx] eqn:Ex.
    + unfold bindE at 1 in H. destruct (mapME (transform al) r0 sx) as [[r'|e] sr] eqn:Er.
      * unfold retE in H. inversion H; subst. eapply IH; [exact Er | eapply transform_pres; eauto].
      * inversion H; subst. eapply IH; [exact Er | eapply transform_pres; eauto].
    + inversion H; subst. eapply transform_pres; eauto.
Qed.

(* ------------------------------------------------------------------ (2) shapes *)
Inductive sh := SK (k : string) | SN (d : string) (ch : list sh).
Fixpoint shape (t : ot) : sh := match t with OTok _ k => SK k | OTree _ d ch => SN d (map shape ch) end.

Lemma sh_ind' (P : sh -> Prop) :
  (forall k, P (SK k)) -> (forall d ch, Forall P ch -> P (SN d ch)) -> forall x, P x.
Proof.
  intros Hk Hn. fix IH 1. intros [k|d ch]; [apply Hk|]. apply Hn. induction ch as [|x r IHr]; constructor; [apply IH | exact IHr].
Qed.

(* no model / model_options node *)
Fixpoint plain_sh (x : sh) : bool :=
  match x with
  | SK _ => true
  | SN d ch => negb (String.eqb d "model") && negb (String.eqb d "model_options") && forallb plain_sh ch
  end.
(* below a model_options node there is no model / model_options node *)
Fixpoint mo_ok_sh (x : sh) : bool :=
  match x with
  | SK _ => true
  | SN d ch => forallb mo_ok_sh ch && (if String.eqb d "model_options" then forallb plain_sh ch else true)
  end.
Definition mo_ok (t : ot) : Prop := mo_ok_sh (shape t) = true.
Definition plain (t : ot) : Prop := plain_sh (shape t) = true.

Lemma plain_mo_ok : forall x, plain_sh x = true -> mo_ok_sh x = true.
Proof.
  induction x as [k|d ch IH] using sh_ind'; simpl; intros H; [reflexivity|].
  apply andb_true_iff in H. destruct H as [H1 H2]. apply andb_true_iff in H1. destruct H1 as [_ H1].
  apply negb_true_iff in H1. rewrite H1. rewrite andb_true_r.
  apply forallb_forall. intros x Hx. rewrite Forall_forall in IH. apply IH; [exact Hx|].
  rewrite forallb_forall in H2. apply H2. exact Hx.
Qed.

(* the shapes of the trees of the file *)
Definition sh_particle : sh := SN "particle" [SK "LABEL"].
Definition sh_value : sh := SN "value" [SK "SIGNED_NUMBER"].
Definition sh_param (p : param) : sh := match p with PLit _ => sh_value | PLabel _ => SK "LABEL" end.
Definition sh_model_children (m : dmodel) : list sh :=
  match m with
  | MLabel _ => [SN "model_label" [SK "LABEL"]]
  | MName _ None => [SK "MODEL_NAME"]
  | MName _ (Some ps) => [SK "MODEL_NAME"; SN "model_options" (map sh_param ps)]
  end.
Definition sh_model (m : dmodel) : sh := SN "model" (sh_model_children m).
Definition sh_line (d : dline) : sh :=
  SN "decayline" (sh_value :: map (fun _ => sh_particle) (d_fs d) ++ (if d_photos d then [SN "photos" []] else []) ++ [sh_model (d_model d)]).
Definition sh_decay (ls : list dline) : sh := SN "decay" (sh_particle :: map sh_line ls).
Definition sh_model_alias (m : dmodel) : sh := SN "model_alias" [SN "model_label" [SK "LABEL"]; sh_model m].

Lemma shape_mapM {A} (f : A -> M ot) (g : A -> sh) :
  (forall x s t s', f x s = (t, s') -> shape t = g x) ->
  forall l s ts s', mapM f l s = (ts, s') -> map shape ts = map g l.
Proof.
  intros Hf. induction l as [|x r IH]; simpl; intros s ts s' H.
  - unfold ret in H. inversion H; subst. reflexivity.
  - unfold bind, ret in H. destruct (f x s) as [y s1] eqn:E1. destruct (mapM f r s1) as [ys s2] eqn:E2. inversion H; subst.
    simpl. rewrite (Hf _ _ _ _ E1), (IH _ _ _ E2). reflexivity.
Qed.

Lemma shape_particle n s t s' : mk_particle n s = (t, s') -> shape t = sh_particle.
Proof. unfold mk_particle, bind, mk_tok, mk_tree. intros H. inversion H; subst. reflexivity. Qed.
Lemma shape_value n s t s' : mk_value n s = (t, s') -> shape t = sh_value.
Proof. unfold mk_value, bind, mk_tok, mk_tree. intros H. inversion H; subst. reflexivity. Qed.
Lemma shape_param p s t s' : mk_param p s = (t, s') -> shape t = sh_param p.
Proof. destruct p; simpl; [apply shape_value|]. unfold mk_tok. intros H. inversion H; subst. reflexivity. Qed.

Lemma shape_model_children m s ch s' : mk_model_children m s = (ch, s') -> map shape ch = sh_model_children m.
Proof.
  destruct m as [l|n [ps|]]; simpl; unfold bind, ret; intros H.
  - unfold mk_tok, mk_tree in H. inversion H; subst. reflexivity.
  - destruct (mk_tok "MODEL_NAME" n s) as [x s1] eqn:E1. destruct (mapM mk_param ps s1) as [os s2] eqn:E2.
    unfold mk_tree in H. inversion H; subst. unfold mk_tok in E1. inversion E1; subst. simpl.
    rewrite (shape_mapM mk_param sh_param shape_param _ _ _ _ E2). reflexivity.
  - unfold mk_tok in H. inversion H; subst. reflexivity.
Qed.
Lemma shape_model m s t s' : mk_model m s = (t, s') -> shape t = sh_model m.
Proof.
  unfold mk_model, bind. intros H. destruct (mk_model_children m s) as [ch s1] eqn:E. unfold mk_tree in H. inversion H; subst.
  simpl. rewrite (shape_model_children _ _ _ _ E). reflexivity.
Qed.
Lemma shape_line d s t s' : mk_line d s = (t, s') -> shape t = sh_line d.
Proof.
  unfold mk_line, bind. intros H.
  destruct (mk_value (d_bf d) s) as [v s1] eqn:E1. destruct (mapM mk_particle (d_fs d) s1) as [ps s2] eqn:E2.
  pose proof (shape_value _ _ _ _ E1) as Sv.
  pose proof (shape_mapM mk_particle (fun _ => sh_particle) shape_particle _ _ _ _ E2) as Sp.
  unfold sh_line. destruct (d_photos d).
  - destruct (mk_tree "photos" [] s2) as [x sx] eqn:Ex. unfold ret in H.
    destruct (mk_model (d_model d) sx) as [m s4] eqn:E4. unfold mk_tree in H, Ex. inversion H; subst. inversion Ex; subst.
    simpl. rewrite !map_app. simpl. rewrite Sv, Sp, (shape_model _ _ _ _ E4). reflexivity.
  - unfold ret in H. destruct (mk_model (d_model d) s2) as [m s4] eqn:E4. unfold mk_tree in H. inversion H; subst.
    simpl. rewrite !map_app. simpl. rewrite Sv, Sp, (shape_model _ _ _ _ E4). reflexivity.
Qed.
Lemma shape_decay m ls s t s' : mk_decay m ls s = (t, s') -> shape t = sh_decay ls.
Proof.
  unfold mk_decay, bind. intros H. destruct (mk_particle m s) as [p s1] eqn:E1. destruct (mapM mk_line ls s1) as [lines s2] eqn:E2.
  unfold mk_tree in H. inversion H; subst. simpl. rewrite (shape_particle _ _ _ _ E1), (shape_mapM mk_line sh_line shape_line _ _ _ _ E2). reflexivity.
Qed.
Lemma shape_model_alias n m s t s' : mk_model_alias n m s = (t, s') -> shape t = sh_model_alias m.
Proof.
  unfold mk_model_alias, bind. intros H. destruct (mk_tok "LABEL" n s) as [x s1] eqn:E1.
  destruct (mk_tree "model_label" [x] s1) as [l s2] eqn:E2. destruct (mk_model m s2) as [mm s3] eqn:E3.
  unfold mk_tree in H, E2. unfold mk_tok in E1. inversion H; subst. inversion E2; subst. inversion E1; subst.
  simpl. rewrite (shape_model _ _ _ _ E3). reflexivity.
Qed.

Lemma sh_param_plain p : plain_sh (sh_param p) = true.
Proof. destruct p; reflexivity. Qed.
Lemma sh_model_ok m : mo_ok_sh (sh_model m) = true.
Proof.
  destruct m as [l|n [ps|]]; try reflexivity. cbn [sh_model sh_model_children mo_ok_sh forallb String.eqb].
  assert (H : forallb plain_sh (map sh_param ps) = true).
  { apply forallb_forall. intros x Hx. apply in_map_iff in Hx. destruct Hx as (p & <- & _). apply sh_param_plain. }
  assert (H' : forallb mo_ok_sh (map sh_param ps) = true).
  { apply forallb_forall. intros x Hx. apply plain_mo_ok. rewrite forallb_forall in H. apply H. exact Hx. }
  simpl. rewrite H, H'. reflexivity.
Qed.
Lemma sh_line_ok d : mo_ok_sh (sh_line d) = true.
Proof.
  unfold sh_line. cbn [mo_ok_sh]. replace (String.eqb "decayline" "model_options") with false by reflexivity. rewrite andb_true_r.
  apply forallb_forall. intros x [<-|Hx]; [reflexivity|].
  apply in_app_or in Hx. destruct Hx as [Hx|Hx].
  - apply in_map_iff in Hx. destruct Hx as (? & <- & _). reflexivity.
  - apply in_app_or in Hx. destruct Hx as [Hx|[<-|[]]]; [|apply sh_model_ok].
    destruct (d_photos d); [destruct Hx as [<-|[]]; reflexivity | destruct Hx].
Qed.
Lemma sh_decay_ok ls : mo_ok_sh (sh_decay ls) = true.
Proof.
  unfold sh_decay. cbn [mo_ok_sh]. replace (String.eqb "decay" "model_options") with false by reflexivity. rewrite andb_true_r.
  apply forallb_forall. intros x [<-|Hx]; [reflexivity|]. apply in_map_iff in Hx. destruct Hx as (d & <- & _). apply sh_line_ok.
Qed.
Lemma sh_model_alias_ok m : mo_ok_sh (sh_model_alias m) = true.
Proof.
  unfold sh_model_alias. cbn [mo_ok_sh forallb]. rewrite sh_model_ok. reflexivity.
Qed.

Lemma file_mo_ok f : forall s F s', mk_file f s = (F, s') -> Forall mo_ok F.
Proof.
  induction f as [|st r IH]; simpl; intros s F s' H.
  - unfold ret in H. inversion H; subst. constructor.
  - destruct st; try (eapply IH; exact H); unfold bind, ret in H.
    + destruct (mk_decay m lines s) as [t s1] eqn:E1. destruct (mk_file r s1) as [ts s2] eqn:E2. inversion H; subst.
      constructor; [unfold mo_ok; rewrite (shape_decay _ _ _ _ _ E1); apply sh_decay_ok | eapply IH; eauto].
    + destruct (mk_model_alias n m s) as [t s1] eqn:E1. destruct (mk_file r s1) as [ts s2] eqn:E2. inversion H; subst.
      constructor; [unfold mo_ok; rewrite (shape_model_alias _ _ _ _ _ E1); apply sh_model_alias_ok | eapply IH; eauto].
Qed.

(* sub-trees of a well-shaped tree are well-shaped *)
Lemma mo_ok_children i d ch : mo_ok (OTree i d ch) -> Forall mo_ok ch.
Proof.
  unfold mo_ok. simpl. intros H. apply andb_true_iff in H. destruct H as [H _]. rewrite forallb_forall in H.
  apply Forall_forall. intros x Hx. apply H. apply in_map. exact Hx.
Qed.

(* ------------------------------------------------------------------ deepcopy keeps the shape (no memo hit on sharing-free input) *)
Lemma dcopy_shape : forall t m s t' m' s',
  NoDup (tok_ids t) -> NoDup (node_ids t) -> memo_free m [t] ->
  dcopy t m s = (t', m', s') -> shape t' = shape t.
Proof.
  induction t as [i k|i d ch IH] using ot_ind'; intros m s t' m' s' Hdt Hdn [Hft Hfn] H.
  - simpl in H. rewrite (Hft i) in H by (rewrite tids_one; simpl; auto). inversion H; subst. reflexivity.
  - simpl in H. rewrite (Hfn i) in H by (rewrite nids_one; simpl; auto).
    match type of H with context [?g ch m s] => destruct (g ch m s) as [[ch' m1] s1] eqn:Ego end.
    inversion H; subst; clear H. simpl. f_equal.
    simpl in Hdt, Hdn. inversion Hdn as [|? ? Hni Hdn']; subst. fold (tids ch) in Hdt. fold (nids ch) in Hdn'.
    assert (Hft' : forall j, In j (tids ch) -> alook j (m_tok m) = None) by (intros j Hj; apply Hft; rewrite tids_one; simpl; exact Hj).
    assert (Hfn' : forall j, In j (nids ch) -> alook j (m_node m) = None) by (intros j Hj; apply Hfn; rewrite nids_one; simpl; right; exact Hj).
    clear Hft Hfn Hni Hdn. revert m s ch' m1 s1 Ego Hdt Hdn' Hft' Hfn'.
    induction ch as [|x r IHr]; intros m s ch' m1 s1 Ego Hdt Hdn Hft Hfn.
    + inversion Ego; subst. reflexivity.
    + inversion IH as [|? ? Hx HFr]; subst.
      destruct (dcopy x m s) as [[x' mx] sx] eqn:Ex.
      match type of Ego with context [?g r mx sx] => destruct (g r mx sx) as [[r' mr] sr] eqn:Er end.
      inversion Ego; subst; clear Ego. rewrite tids_cons in Hdt, Hft. rewrite nids_cons in Hdn, Hfn.
      assert (Fx : memo_free m [x]).
      { split; intros j Hj; [apply Hft | apply Hfn]; apply in_or_app; left; [rewrite tids_one in Hj | rewrite nids_one in Hj]; exact Hj. }
      assert (Nx1 : NoDup (tok_ids x)) by (eapply NoDup_app_l; eauto).
      assert (Nx2 : NoDup (node_ids x)) by (eapply NoDup_app_l; eauto).
      simpl. f_equal; [eapply Hx; eauto|].
      destruct (dcopy_spec x m s x' mx sx Nx1 Nx2 Fx Ex) as [_ [Gt Gn]].
      eapply IHr; eauto; try (eapply NoDup_app_r; eauto).
      * intros j Hj. destruct (alook j (m_tok mx)) eqn:E; [|reflexivity]. exfalso.
        destruct (Gt j) as [H|H]; [rewrite E; discriminate | | ].
        -- apply H. apply Hft. apply in_or_app. right. exact Hj.
        -- rewrite tids_one in H. eapply NoDup_app_disj; [exact Hdt | exact H | exact Hj].
      * intros j Hj. destruct (alook j (m_node mx)) eqn:E; [|reflexivity]. exfalso.
        destruct (Gn j) as [H|H]; [rewrite E; discriminate | | ].
        -- apply H. apply Hfn. apply in_or_app. right. exact Hj.
        -- rewrite nids_one in H. eapply NoDup_app_disj; [exact Hdn | exact H | exact Hj].
Qed.

Lemma dcopy_list_shape : forall l m s l' m' s',
  NoDup (tids l) -> NoDup (nids l) -> memo_free m l ->
  dcopy_list l m s = (l', m', s') -> map shape l' = map shape l.
Proof.
  induction l as [|x r IHr]; intros m s l' m1 s1 Hdt Hdn [Hft Hfn] H; simpl in H.
  - inversion H; subst. reflexivity.
  - destruct (dcopy x m s) as [[x' mx] sx] eqn:Ex. destruct (dcopy_list r mx sx) as [[r' mr] sr] eqn:Er.
    inversion H; subst; clear H. rewrite tids_cons in Hdt, Hft. rewrite nids_cons in Hdn, Hfn.
    assert (Fx : memo_free m [x]).
    { split; intros j Hj; [apply Hft | apply Hfn]; apply in_or_app; left; [rewrite tids_one in Hj | rewrite nids_one in Hj]; exact Hj. }
    assert (Nx1 : NoDup (tok_ids x)) by (eapply NoDup_app_l; eauto).
    assert (Nx2 : NoDup (node_ids x)) by (eapply NoDup_app_l; eauto).
    simpl. f_equal; [eapply dcopy_shape; eauto|].
    destruct (dcopy_spec x m s x' mx sx Nx1 Nx2 Fx Ex) as [_ [Gt Gn]].
    eapply IHr; eauto; try (eapply NoDup_app_r; eauto). split.
    + intros j Hj. destruct (alook j (m_tok mx)) eqn:E; [|reflexivity]. exfalso.
      destruct (Gt j) as [H|H]; [rewrite E; discriminate | | ].
      * apply H. apply Hft. apply in_or_app. right. exact Hj.
      * rewrite tids_one in H. eapply NoDup_app_disj; [exact Hdt | exact H | exact Hj].
    + intros j Hj. destruct (alook j (m_node mx)) eqn:E; [|reflexivity]. exfalso.
      destruct (Gn j) as [H|H]; [rewrite E; discriminate | | ].
      * apply H. apply Hfn. apply in_or_app. right. exact Hj.
      * rewrite nids_one in H. eapply NoDup_app_disj; [exact Hdn | exact H | exact Hj].
Qed.

Lemma deepcopy_list_shape l s c s' : NoDup (tids l) -> NoDup (nids l) -> deepcopy_list l s = (c, s') -> map shape c = map shape l.
Proof.
  unfold deepcopy_list. intros H1 H2 H. destruct (dcopy_list l memo0 s) as [[c' m] s1] eqn:E. inversion H; subst.
  eapply dcopy_list_shape; eauto. apply memo0_free.
Qed.

(* ------------------------------------------------------------------ the alias dictionary holds well-shaped trees *)
Lemma mo_ok_of_shape t t' : shape t' = shape t -> mo_ok t -> mo_ok t'.
Proof. unfold mo_ok. intros ->. auto. Qed.
Lemma Forall_mo_ok_of_shapes l l' : map shape l' = map shape l -> Forall mo_ok l -> Forall mo_ok l'.
Proof.
  revert l'. induction l as [|x r IH]; intros [|x' r'] H HF; simpl in H; try discriminate; constructor.
  - inversion H. inversion HF; subst. eapply mo_ok_of_shape; eauto.
  - inversion H. inversion HF; subst. apply IH; auto.
Qed.

Lemma in_vals_set_el k v d (x : ot) : In x (vals (pd_set k v d)) -> In x v \/ In x (vals d).
Proof.
  induction d as [|[k' v'] r IH]; cbn [pd_set].
  - rewrite vals_cons. intros H. apply in_app_or in H. destruct H; auto.
  - destruct (String.eqb k k'); rewrite !vals_cons; intros H; apply in_app_or in H.
    + destruct H as [H|H]; [left; exact H | right; apply in_or_app; right; exact H].
    + destruct H as [H|H]; [right; apply in_or_app; left; exact H|].
      destruct (IH H) as [H'|H']; [left; exact H' | right; apply in_or_app; right; exact H'].
Qed.

Lemma alias_entry_ok h t n body : alias_entry h t = Some (n, body) -> mo_ok t -> Forall mo_ok body.
Proof.
  destruct t as [|i d [|l [|[|j d' b] [|? ?]]]]; simpl; try discriminate.
  destruct (leafstr h l); [|discriminate]. intros H Hok. inversion H; subst; clear H.
  apply mo_ok_children in Hok. inversion Hok as [|? ? _ Hr]; subst. inversion Hr as [|? ? Hm _]; subst.
  apply mo_ok_children in Hm. exact Hm.
Qed.

Lemma raw_aliases_shape : forall F acc s d s',
  NoDup (tids F) -> NoDup (nids F) -> Forall mo_ok F -> Forall mo_ok (vals acc) ->
  raw_aliases F acc s = (d, s') -> Forall mo_ok (vals d).
Proof.
  induction F as [|t r IH]; intros acc s d s' Hdt Hdn HF Hacc H; cbn [raw_aliases] in H.
  - unfold ret in H. inversion H; subst. exact Hacc.
  - rewrite tids_cons in Hdt. rewrite nids_cons in Hdn. inversion HF as [|? ? Ht HFr]; subst.
    assert (Hr : forall acc s d s', Forall mo_ok (vals acc) -> raw_aliases r acc s = (d, s') -> Forall mo_ok (vals d)).
    { intros. eapply IH; eauto; eapply NoDup_app_r; eauto. }
    destruct (is_data "model_alias" t); [|eapply Hr; eauto].
    destruct (alias_entry (h_toks s) t) as [[n body]|] eqn:Ea; [|eapply Hr; eauto].
    unfold bind in H. destruct (deepcopy_list body s) as [c s1] eqn:Ec.
    destruct (alias_entry_sub _ _ _ _ Ea) as (_ & _ & Nt & Nn).
    eapply Hr; [|exact H]. apply Forall_forall. intros x Hx. destruct (in_vals_set_el _ _ _ _ Hx) as [Hc|Hd].
    + assert (Hs : map shape c = map shape body).
      { eapply deepcopy_list_shape; [apply Nt | apply Nn | exact Ec]; eapply NoDup_app_l; eauto. }
      pose proof (Forall_mo_ok_of_shapes _ _ Hs (alias_entry_ok _ _ _ _ Ea Ht)) as Hc'. rewrite Forall_forall in Hc'. apply Hc'. exact Hc.
    + rewrite Forall_forall in Hacc. apply Hacc. exact Hd.
Qed.

Lemma deepcopy_dict_shape d s d' s' :
  NoDup (tids (vals d)) -> NoDup (nids (vals d)) -> deepcopy_dict d s = (d', s') -> map shape (vals d') = map shape (vals d).
Proof.
  unfold deepcopy_dict. intros H1 H2 H. destruct (dcopy_dict d memo0 s) as [[c m] s1] eqn:E. inversion H; subst.
  apply dcopy_dict_vals in E. eapply dcopy_list_shape; eauto. apply memo0_free.
Qed.

Definition al_shape_ok (al : pdict (list ot)) : Prop := forall k body, pd_get k al = Some body -> Forall mo_ok body.

Lemma al_shape_ok_of_vals al : Forall mo_ok (vals al) -> al_shape_ok al.
Proof.
  intros H k body Hg. apply pd_get_some_in in Hg. rewrite Forall_forall in H. apply Forall_forall. intros x Hx.
  apply H. unfold vals. apply in_flat_map. exists (k, body). auto.
Qed.

(* ------------------------------------------------------------------ the Transformer keeps the trees well-shaped *)
Lemma plain_children i d ch : plain (OTree i d ch) -> Forall plain ch /\ String.eqb d "model" = false /\ String.eqb d "model_options" = false.
Proof.
  unfold plain. simpl. intros H. apply andb_true_iff in H. destruct H as [H1 H2]. apply andb_true_iff in H1. destruct H1 as [Ha Hb].
  apply negb_true_iff in Ha. apply negb_true_iff in Hb. split; [|auto].
  rewrite forallb_forall in H2. apply Forall_forall. intros x Hx. apply H2. apply in_map. exact Hx.
Qed.

Lemma transform_plain al : forall t s t' s', plain t -> transform al t s = (inl t', s') -> shape t' = shape t.
Proof.
  induction t as [i k|i d ch IH] using ot_ind'; intros s t' s' Hp H.
  - simpl in H. unfold retE in H. inversion H; subst. reflexivity.
  - destruct (plain_children _ _ _ Hp) as (Hch & Hm & Hmo). cbn [transform] in H. unfold bindE at 1 in H.
    match type of H with context [?g ch s] => destruct (g ch s) as [[ch'|e] s1] eqn:Ego end; [|discriminate].
    rewrite Hm in H. unfold liftE, mk_tree in H. inversion H; subst; clear H. simpl. f_equal.
    revert s ch' s1 Ego. induction ch as [|x r IHr]; intros s ch' s1 Ego.
    + unfold retE in Ego. inversion Ego; subst. reflexivity.
    + inversion IH as [|? ? Hx HFr]; subst. inversion Hch as [|? ? Px Pr]; subst. unfold bindE at 1 in Ego.
      destruct (transform al x s) as [[x'|e] sx] eqn:Ex; [|discriminate]. unfold bindE at 1 in Ego.
      match type of Ego with context [?g r sx] => destruct (g r sx) as [[r'|e] sr] eqn:Er end; [|discriminate].
      unfold retE in Ego. inversion Ego; subst. simpl. f_equal; [eapply Hx; eauto | eapply IHr; eauto].
      unfold plain. simpl. unfold plain in Hp. simpl in Hp. rewrite Hm, Hmo in *. simpl in *.
      apply andb_true_iff in Hp. apply Hp.
Qed.

Lemma mo_ok_intro i d ch : Forall mo_ok ch -> (String.eqb d "model_options" = true -> Forall plain ch) -> mo_ok (OTree i d ch).
Proof.
  intros H1 H2. unfold mo_ok. simpl. apply andb_true_iff. split.
  - apply forallb_forall. intros x Hx. apply in_map_iff in Hx. destruct Hx as (y & <- & Hy). rewrite Forall_forall in H1. apply H1. exact Hy.
  - destruct (String.eqb d "model_options"); [|reflexivity]. specialize (H2 eq_refl).
    apply forallb_forall. intros x Hx. apply in_map_iff in Hx. destruct Hx as (y & <- & Hy). rewrite Forall_forall in H2. apply H2. exact Hy.
Qed.

Lemma mo_ok_plain_children i ch : mo_ok (OTree i "model_options" ch) -> Forall plain ch.
Proof.
  unfold mo_ok. simpl. intros H. apply andb_true_iff in H. destruct H as [_ H]. rewrite forallb_forall in H.
  apply Forall_forall. intros x Hx. apply H. apply in_map. exact Hx.
Qed.

Lemma transform_mo_ok al : al_ok al -> al_shape_ok al -> forall t s t' s', mo_ok t -> transform al t s = (inl t', s') -> mo_ok t'.
Proof.
  intros Hal Hsh. induction t as [i k|i d ch IH] using ot_ind'; intros s t' s' Hok H.
  - simpl in H. unfold retE in H. inversion H; subst. exact Hok.
  - cbn [transform] in H. unfold bindE at 1 in H.
    match type of H with context [?g ch s] => destruct (g ch s) as [[ch'|e] s1] eqn:Ego end; [|discriminate].
    pose proof (mo_ok_children _ _ _ Hok) as Hch.
    assert (Hch' : Forall mo_ok ch' /\ (Forall plain ch -> map shape ch' = map shape ch)).
    { clear H Hok. revert s ch' s1 Ego. induction ch as [|x r IHr]; intros s ch' s1 Ego.
      - unfold retE in Ego. inversion Ego; subst. split; [constructor | reflexivity].
      - inversion IH as [|? ? Hx HFr]; subst. inversion Hch as [|? ? Ox Or]; subst. unfold bindE at 1 in Ego.
        destruct (transform al x s) as [[x'|e] sx] eqn:Ex; [|discriminate]. unfold bindE at 1 in Ego.
        match type of Ego with context [?g r sx] => destruct (g r sx) as [[r'|e] sr] eqn:Er end; [|discriminate].
        unfold retE in Ego. inversion Ego; subst. destruct (IHr HFr Or _ _ _ Er) as [A B]. split.
        + constructor; [eapply Hx; eauto | exact A].
        + intros Hp. inversion Hp; subst. simpl. f_equal; [eapply transform_plain; eauto | auto]. }
    destruct Hch' as [Hc1 Hc2].
    assert (Hdef : forall t0 s0, liftE (mk_tree d ch') s1 = (inl t0, s0) -> mo_ok t0).
    { intros t0 s0 Hm. unfold liftE, mk_tree in Hm. inversion Hm; subst. apply mo_ok_intro; [exact Hc1|].
      intros Hd. apply String.eqb_eq in Hd. subst d. pose proof (mo_ok_plain_children _ _ Hok) as Hp.
      specialize (Hc2 Hp). unfold plain. apply Forall_forall. intros x Hx.
      assert (In (shape x) (map shape ch)) by (rewrite <- Hc2; apply in_map; exact Hx).
      apply in_map_iff in H0. destruct H0 as (y & Hy & Hin). rewrite <- Hy. rewrite Forall_forall in Hp. apply Hp. exact Hin. }
    destruct (String.eqb d "model") eqn:Ed; [|eapply Hdef; exact H].
    apply String.eqb_eq in Ed. subst d.
    assert (Hdef' : forall t0 s0, liftE (mk_tree "model" ch') s1 = (inl t0, s0) -> mo_ok t0) by exact Hdef.
    destruct ch' as [|[j k|j dj [|lbl rest]] ch'']; try (eapply Hdef'; exact H).
    destruct (tokstr (h_toks s1) lbl) as [name|]; [|discriminate].
    destruct (pd_get name al) as [body|] eqn:Eg; [|discriminate].
    destruct (Hal _ _ Eg) as [Nt Nn]. pose proof (Hsh _ _ Eg) as Hb.
    unfold bindE, liftE in H. destruct (deepcopy_list body s1) as [b s2] eqn:Eb.
    unfold mk_tree in H. inversion H; subst; clear H.
    apply mo_ok_intro; [|discriminate]. eapply Forall_mo_ok_of_shapes; [eapply deepcopy_list_shape; eauto | exact Hb].
Qed.

Lemma mapME_transform_mo_ok al : al_ok al -> al_shape_ok al -> forall D s D' s',
  Forall mo_ok D -> mapME (transform al) D s = (inl D', s') -> Forall mo_ok D'.
Proof.
  intros Hal Hsh. induction D as [|x r IH]; intros s D' s' HD H; cbn [mapME] in H.
  - unfold retE in H. inversion H; subst. constructor.
  - inversion HD; subst. unfold bindE at 1 in H. destruct (transform al x s) as [[x'|e] sx] eqn:Ex; [|discriminate].
    unfold bindE at 1 in H. destruct (mapME (transform al) r sx) as [[r'|e] sr] eqn:Er; [|discriminate].
    unfold retE in H. inversion H; subst. constructor; [eapply transform_mo_ok; eauto | eapply IH; eauto].
Qed.

(* the Transformer fails with ValueError (undefined model word) or on a malformed tree, never with TypeError *)
Lemma transform_err al : forall t s e s', transform al t s = (inr e, s') -> e <> HTypeError.
Proof.
  induction t as [i k|i d ch IH] using ot_ind'; intros s e s' H.
  - simpl in H. unfold retE in H. discriminate.
  - cbn [transform] in H. unfold bindE at 1 in H.
    match type of H with context [?g ch s] => destruct (g ch s) as [[ch'|e0] s1] eqn:Ego end.
    + assert (Hdef : forall d0 s0, liftE (mk_tree d0 ch') s1 = (inr e, s0) -> e <> HTypeError).
      { intros d0 s0 Hm. unfold liftE, mk_tree in Hm. discriminate. }
      destruct (String.eqb d "model"); [|eapply Hdef; exact H].
      destruct ch' as [|[j k|j dj [|lbl rest]] ch'']; try (eapply Hdef; exact H).
      destruct (tokstr (h_toks s1) lbl) as [name|]; [|inversion H; subst; discriminate].
      destruct (pd_get name al) as [body|]; [|inversion H; subst; discriminate].
      unfold bindE, liftE in H. destruct (deepcopy_list body s1) as [b s2]. unfold mk_tree in H. discriminate.
    + inversion H; subst. clear H. revert s s' Ego. induction ch as [|x r IHr]; intros s s' Ego.
      * unfold retE in Ego. discriminate.
      * inversion IH as [|? ? Hx HFr]; subst. unfold bindE at 1 in Ego.
        destruct (transform al x s) as [[x'|e'] sx] eqn:Ex.
        -- unfold bindE at 1 in Ego.
           match type of Ego with context [?g r sx] => destruct (g r sx) as [[r'|e''] sr] eqn:Er end.
           ++ unfold retE in Ego. discriminate.
           ++ inversion Ego; subst. eapply IHr; eauto.
        -- inversion Ego; subst. eapply Hx; eauto.
Qed.
Lemma mapME_transform_err al : forall D s e s', mapME (transform al) D s = (inr e, s') -> e <> HTypeError.
Proof.
  induction D as [|x r IH]; intros s e s' H; cbn [mapME] in H.
  - unfold retE in H. discriminate.
  - unfold bindE at 1 in H. destruct (transform al x s) as [[x'|e0] sx] eqn:Ex.
    + unfold bindE at 1 in H. destruct (mapME (transform al) r sx) as [[r'|e1] sr] eqn:Er.
      * unfold retE in H. discriminate.
      * inversion H; subst. eapply IH; eauto.
    + inversion H; subst. eapply transform_err; eauto.
Qed.

(* ------------------------------------------------------------------ (3) the visitor meets every token at most once *)
Lemma sublist_app2 {A} (a a' b b' : list A) : sublist a a' -> sublist b b' -> sublist (a ++ b) (a' ++ b').
Proof.
  induction 1; simpl; intros Hb; [exact Hb | apply sub_skip; auto | apply sub_keep; auto].
Qed.
Lemma sublist_nil_l {A} (l : list A) : sublist [] l.
Proof. induction l; [constructor | apply sub_skip; auto]. Qed.
Lemma sublist_nodup {A} (l l' : list A) : sublist l l' -> NoDup l' -> NoDup l.
Proof.
  induction 1; intros Hn; [constructor | inversion Hn; auto |].
  inversion Hn; subst. constructor; [|auto]. intros Hin. apply H2. eapply sublist_in; eauto.
Qed.
Lemma sublist_flat_map_pt {A B} (f g : A -> list B) l : (forall x, In x l -> sublist (f x) (g x)) -> sublist (flat_map f l) (flat_map g l).
Proof.
  induction l as [|x r IH]; simpl; intros H; [constructor|]. apply sublist_app2; [apply H; left; reflexivity | apply IH; intros; apply H; right; assumption].
Qed.
Lemma sublist_flat_map_l {A B} (f : A -> list B) l l' : sublist l l' -> sublist (flat_map f l) (flat_map f l').
Proof.
  induction 1; simpl; [constructor | | apply sublist_app2; [apply sublist_refl | assumption]].
  change (flat_map f l) with ([] ++ flat_map f l)%list. apply sublist_app2; [apply sublist_nil_l | assumption].
Qed.
Lemma dedupe_nodes_sublist : forall l seen, sublist (dedupe_nodes seen l) l.
Proof.
  induction l as [|t r IH]; simpl; intros seen; [constructor|].
  destruct (existsb (Nat.eqb (node_id t)) seen); [apply sub_skip | apply sub_keep]; auto.
Qed.

Lemma plain_no_mo : forall t, plain t -> subtrees_named "model_options" t = [].
Proof.
  induction t as [i k|i d ch IH] using ot_ind'; intros Hp; [reflexivity|].
  destruct (plain_children _ _ _ Hp) as (Hch & _ & Hmo). cbn [subtrees_named]. rewrite String.eqb_sym, Hmo. cbn [app].
  clear Hp. induction ch as [|x r IHr]; [reflexivity|]. inversion IH; subst. inversion Hch; subst. cbn [flat_map].
  rewrite H1 by assumption. cbn [app]. apply IHr; auto.
Qed.

Definition visited_raw (t : ot) : list ot := flat_map children_of (subtrees_named "model_options" t).

Lemma visited_raw_sublist : forall t, mo_ok t -> sublist (tids (visited_raw t)) (tok_ids t).
Proof.
  induction t as [i k|i d ch IH] using ot_ind'; intros Hok; [apply sublist_nil_l|].
  unfold visited_raw. cbn [subtrees_named]. destruct (String.eqb "model_options" d) eqn:Ed.
  - apply String.eqb_eq in Ed. subst d. pose proof (mo_ok_plain_children _ _ Hok) as Hp.
    assert (E : flat_map (subtrees_named "model_options") ch = []).
    { clear -Hp. induction ch as [|x r IHr]; [reflexivity|]. inversion Hp; subst. simpl. rewrite plain_no_mo by assumption. simpl. auto. }
    rewrite E. simpl. rewrite !app_nil_r. fold (tids ch). apply sublist_refl.
  - simpl. fold (tids ch). pose proof (mo_ok_children _ _ _ Hok) as Hch.
    clear Hok Ed. induction ch as [|x r IHr]; [constructor|].
    inversion IH; subst. inversion Hch; subst. simpl. rewrite flat_map_app. unfold tids at 1. rewrite flat_map_app.
    apply sublist_app2; [apply H1; assumption | apply IHr; assumption].
Qed.

Definition visited (t : ot) : list ot := flat_map children_of (dedupe_nodes [] (subtrees_named "model_options" t)).

Lemma visited_sublist t : mo_ok t -> sublist (tids (visited t)) (tok_ids t).
Proof.
  intros Hok. eapply sublist_trans; [|apply visited_raw_sublist; exact Hok].
  unfold visited, visited_raw, tids. apply sublist_flat_map_l. apply sublist_flat_map_l. apply dedupe_nodes_sublist.
Qed.

(* the nested loops of the visitor are one loop over the visited children *)
Lemma foldE_app {A} (f : A -> list tval -> list tval + herr) a b h :
  foldE f (a ++ b) h = match foldE f a h with inl h1 => foldE f b h1 | inr e => inr e end.
Proof. revert h. induction a as [|x r IH]; simpl; intros h; [reflexivity|]. destruct (f x h); [apply IH | reflexivity]. Qed.

Lemma foldE_flat {A B} (g : B -> list tval -> list tval + herr) (ch : A -> list B) l h :
  foldE (fun x h => foldE g (ch x) h) l h = foldE g (flat_map ch l) h.
Proof.
  revert h. induction l as [|x r IH]; simpl; intros h; [reflexivity|]. rewrite foldE_app. destruct (foldE g (ch x) h); [apply IH | reflexivity].
Qed.

Lemma visit_all_flat defs D h : foldE (visit_params defs) D h = foldE (replace_child defs) (flat_map visited D) h.
Proof.
  rewrite <- foldE_flat. revert h. induction D as [|t r IH]; simpl; intros h; [reflexivity|].
  unfold visit_params at 1. rewrite foldE_flat. fold (visited t). destruct (foldE (replace_child defs) (visited t) h); [apply IH | reflexivity].
Qed.

Definition strings_at (h : list tval) (ids : list nat) : Prop := forall i v, In i ids -> nth_error h i = Some v -> is_TS v.

Lemma replace_child_step defs c h :
  strings_at h (tok_ids c) ->
  replace_child defs c h <> inr HTypeError /\
  forall h', replace_child defs c h = inl h' -> forall j, ~ In j (tok_ids c) -> nth_error h' j = nth_error h j.
Proof.
  intros Hs. destruct c as [i k|i d [|[j k|? ? ?] rest]]; simpl; try (split; [discriminate | intros h' H; discriminate]).
  - destruct (nth_error h i) as [[s|q]|] eqn:E; try (split; [discriminate | intros h' H; discriminate]).
    + split.
      * destruct s as [|a s]; [discriminate|]. unfold is_c.
        repeat match goal with
               | |- context [if ?b then _ else _] => destruct b
               | |- context [match pd_get ?k ?d with _ => _ end] => destruct (pd_get k d)
               end; discriminate.
      * intros h' H j Hj. assert (Hne : i <> j) by (intros ->; apply Hj; simpl; auto).
        destruct s as [|a s]; [discriminate|]. unfold is_c in H.
        repeat match type of H with
               | context [if ?b then _ else _] => destruct b
               | context [match pd_get ?k ?d with _ => _ end] => destruct (pd_get k d)
               end; inversion H; subst; try reflexivity; apply nth_error_upd_other; exact Hne.
    + exfalso. apply (Hs i (TQ q)); [simpl; auto | exact E].
  - split.
    + destruct (nth_error h j) as [[s|q]|]; discriminate.
    + intros h' H j0 Hj. assert (Hne : j <> j0) by (intros ->; apply Hj; simpl; auto).
      destruct (nth_error h j) as [[s|q]|]; inversion H; subst; try reflexivity. apply nth_error_upd_other; exact Hne.
Qed.

Lemma visit_children_no_type_error defs : forall cs h,
  NoDup (tids cs) -> strings_at h (tids cs) -> foldE (replace_child defs) cs h <> inr HTypeError.
Proof.
  induction cs as [|c r IH]; intros h Hnd Hs; [simpl; discriminate|]. cbn [foldE].
  rewrite tids_cons in Hnd, Hs.
  destruct (replace_child_step defs c h) as [Hne Hfr].
  { intros i v Hi. apply Hs. apply in_or_app. left. exact Hi. }
  destruct (replace_child defs c h) as [h'|e] eqn:E; [|intros H; inversion H; subst; apply Hne; reflexivity].
  apply IH; [eapply NoDup_app_r; eauto|]. intros i v Hi Hv.
  rewrite (Hfr h' eq_refl i) in Hv; [apply (Hs i v); [apply in_or_app; right; exact Hi | exact Hv]|].
  intros Hc. eapply NoDup_app_disj; [exact Hnd | exact Hc | exact Hi].
Qed.

Lemma flat_map_flat_map {A B C} (f : A -> list B) (g : B -> list C) l :
  flat_map g (flat_map f l) = flat_map (fun x => flat_map g (f x)) l.
Proof. induction l as [|x r IH]; simpl; [reflexivity|]. rewrite flat_map_app, IH. reflexivity. Qed.

(* ------------------------------------------------------------------ parse() never raises TypeError *)
Theorem parse_heap_no_type_error ccdb sc inc f : parse_heap ccdb sc inc f <> inr HTypeError.
Proof.
  unfold parse_heap.
  destruct (mk_file f {| h_toks := []; h_next := 0 |}) as [F s1] eqn:EF.
  destruct (raw_aliases F [] s1) as [al0 s2] eqn:Eal0.
  destruct (deepcopy_dict al0 s2) as [al s3] eqn:Eal.
  match goal with |- context [mapME (transform al) ?D s3] => set (D0 := D) in * end.
  destruct (mapME (transform al) D0 s3) as [[D1|e] s4] eqn:ED1;
    [|intros H; inversion H; subst; eapply mapME_transform_err; eauto].
  destruct (foldE (visit_params (defs_of f)) D1 (h_toks s4)) as [h5|e] eqn:Eh5.
  { destruct (copy_decays (copies_of f) D1 _) as [cps s6]. destruct inc; [destruct (cc_decays _ _ _ _ _ _)|]; discriminate. }
  intros H. inversion H; subst; clear H.
  (* values: strings everywhere until the visitor runs *)
  assert (TS4 : all_TS (h_toks s4)).
  { eapply mapME_transform_pres; [exact ED1|]. eapply pres_deepcopy_dict; [exact Eal|].
    eapply pres_raw_aliases; [exact Eal0|]. eapply pres_file; [exact EF | constructor]. }
  (* shapes *)
  pose proof (file_mo_ok _ _ _ _ EF) as OkF.
  (* identities, as in parse_heap_separated *)
  apply AL_file in EF. destruct (AL_sep_bounded _ _ _ EF) as [[SF1 SF2] [BF1 BF2]].
  destruct (raw_aliases_spec s1 F [] s1 al0 s2) as (Hd0 & L12 & N12); auto.
  { unfold DOK, vals, tids, nids. simpl. split; [constructor|]. split; [constructor|]. split; intros i []. }
  destruct Hd0 as (V1 & V2 & _ & _).
  pose proof (deepcopy_dict_spec _ _ _ _ V1 V2 Eal) as Aal. destruct (AL_sep_bounded _ _ _ Aal) as [[SA1 SA2] _].
  assert (L23 : ntok s2 <= ntok s3 /\ h_next s2 <= h_next s3) by (destruct Aal as (A & B & _); auto).
  pose proof (al_ok_of_nodup _ SA1 SA2) as Hal.
  assert (Hsh : al_shape_ok al).
  { apply al_shape_ok_of_vals. apply (Forall_mo_ok_of_shapes (vals al0) (vals al)).
    - exact (deepcopy_dict_shape _ _ _ _ V1 V2 Eal).
    - eapply raw_aliases_shape; [exact SF1 | exact SF2 | exact OkF | | exact Eal0]. constructor. }
  assert (Sub : sublist D0 F).
  { unfold D0. eapply sublist_trans; [apply dedupe_h_sublist | apply sublist_filter]. }
  assert (ND0 : NoDup (tids D0)) by (eapply sublist_flat_nodup; eauto).
  assert (BD0 : forall i, In i (tids D0) -> i < ntok s3).
  { intros i Hi. assert (i < ntok s1) by (apply BF1; eapply sublist_flat_in; eauto). lia. }
  assert (OkD0 : Forall mo_ok D0).
  { apply Forall_forall. intros t Ht. rewrite Forall_forall in OkF. apply OkF. eapply sublist_in; eauto. }
  pose proof (mapME_transform_spec al Hal D0 s3 D1 s4 ND0 BD0 ED1) as T1.
  pose proof (mapME_transform_mo_ok al Hal Hsh D0 s3 D1 s4 OkD0 ED1) as OkD1.
  destruct T1 as (_ & _ & ND1 & _).
  (* the visitor *)
  rewrite visit_all_flat in Eh5. revert Eh5. apply visit_children_no_type_error.
  - eapply sublist_nodup; [|exact ND1]. unfold tids at 1. rewrite flat_map_flat_map.
    unfold tids. apply sublist_flat_map_pt. intros t Ht. fold (tids (visited t)). apply visited_sublist.
    rewrite Forall_forall in OkD1. apply OkD1. exact Ht.
  - intros i v _ Hv. unfold all_TS in TS4. rewrite Forall_forall in TS4. apply TS4. eapply nth_error_In; eauto.
Qed.
