(* HeapRefine.v — values: what the objects hold, and the CopyDecay law at object level (model: Dec/Heap.v).

   erase h t  is the value tree an identity-carrying tree denotes in token store h (identities forgotten,
   every token replaced by its current value).  Everything a query reads is a function of the erasure.
     dcopy_erase          : copy.deepcopy of a sharing-free structure is value-equal to its source
     copy_decays_law      : every table CopyDecay NEW OLD creates denotes OLD's table with the mother name NEW,
                            and creating it changes what no existing table denotes. *)
From Coq Require Import String Ascii List Bool ZArith QArith Arith Lia.
From DL Require Import Lib.Val Lib.PyDict Lib.Sort Decay.Conj Decay.ChainDict Dec.Num Dec.Tables Dec.Syntax Dec.Post Dec.Heap Dec.HeapProofs.
Import ListNotations.
Close Scope Q_scope.
Open Scope string_scope.

Inductive vt := VT (k : string) (v : tval) | VN (d : string) (ch : list vt).

Fixpoint erase (h : list tval) (t : ot) : vt :=
  match t with
  | OTok i k => VT k (nth i h (TS ""))
  | OTree _ d ch => VN d (map (erase h) ch)
  end.

Lemma erase_ext h h' : forall t, (forall i, In i (tok_ids t) -> nth i h (TS "") = nth i h' (TS "")) -> erase h t = erase h' t.
Proof.
  induction t as [i k|i d ch IH] using ot_ind'; intros H; simpl.
  - rewrite H by (simpl; auto). reflexivity.
  - f_equal. apply map_ext_in. intros x Hx. rewrite Forall_forall in IH. apply IH; [exact Hx|].
    intros j Hj. apply H. simpl. apply in_flat_map. exists x. auto.
Qed.

Lemma erase_list_ext h h' ts : (forall i, In i (tids ts) -> nth i h (TS "") = nth i h' (TS "")) -> map (erase h) ts = map (erase h') ts.
Proof.
  intros H. apply map_ext_in. intros x Hx. apply erase_ext. intros j Hj. apply H. unfold tids. apply in_flat_map. exists x. auto.
Qed.

(* the store only grows: old tokens keep their values *)
Lemma erase_grow h ext ts : (forall i, In i (tids ts) -> i < length h) -> map (erase (h ++ ext)) ts = map (erase h) ts.
Proof. intros H. apply erase_list_ext. intros i Hi. apply app_nth1. apply H. exact Hi. Qed.

(* ------------------------------------------------------------------ allocation with values *)
Definition grows (s s' : hst) : Prop := exists ext, h_toks s' = (h_toks s ++ ext)%list.
Lemma grows_refl s : grows s s.
Proof. exists []. rewrite app_nil_r. reflexivity. Qed.
Lemma grows_trans a b c : grows a b -> grows b c -> grows a c.
Proof. intros [e1 H1] [e2 H2]. exists (e1 ++ e2)%list. rewrite H2, H1, app_assoc. reflexivity. Qed.

(* ts was allocated between s and s' and denotes vs at s' *)
Definition EV (s : hst) (ts : list ot) (s' : hst) (vs : list vt) : Prop :=
  AL s ts s' /\ grows s s' /\ map (erase (h_toks s')) ts = vs.

Lemma EV_nil s : EV s [] s [].
Proof. split; [apply AL_nil|]. split; [apply grows_refl | reflexivity]. Qed.

Lemma EV_app s s1 s2 a b va vb : EV s a s1 va -> EV s1 b s2 vb -> EV s (a ++ b) s2 (va ++ vb).
Proof.
  intros (A1 & G1 & E1) (A2 & G2 & E2). split; [eapply AL_app; eauto|]. split; [eapply grows_trans; eauto|].
  rewrite map_app, E2. f_equal. rewrite <- E1. destruct G2 as [ext ->]. apply erase_grow.
  destruct (AL_sep_bounded _ _ _ A1) as [_ [B _]]. exact B.
Qed.

Lemma EV_tree s ch s1 vs d t s2 : EV s ch s1 vs -> mk_tree d ch s1 = (t, s2) -> EV s [t] s2 [VN d vs].
Proof.
  intros (A & G & E) H. split; [eapply AL_tree; eauto|]. unfold mk_tree in H. inversion H as [[Ht Hs]]. simpl.
  split; [exact G | rewrite E; reflexivity].
Qed.

(* ------------------------------------------------------------------ deepcopy copies the values *)
Lemma dcopy_erase : forall t m s t' m' s',
  NoDup (tok_ids t) -> NoDup (node_ids t) -> memo_free m [t] -> (forall i, In i (tok_ids t) -> i < ntok s) ->
  dcopy t m s = (t', m', s') -> grows s s' /\ erase (h_toks s') t' = erase (h_toks s) t.
Proof.
  induction t as [i k|i d ch IH] using ot_ind'; intros m s t' m' s' Hdt Hdn [Hft Hfn] Hb H.
  - simpl in H. rewrite (Hft i) in H by (rewrite tids_one; simpl; auto). inversion H; subst; clear H. simpl.
    split; [eexists; reflexivity|]. f_equal. rewrite app_nth2 by lia. rewrite Nat.sub_diag. reflexivity.
  - simpl in H. rewrite (Hfn i) in H by (rewrite nids_one; simpl; auto).
    match type of H with context [?g ch m s] => destruct (g ch m s) as [[ch' m1] s1] eqn:Ego end.
    inversion H; subst; clear H. simpl.
    simpl in Hdt, Hdn, Hb. inversion Hdn as [|? ? Hni Hdn']; subst. fold (tids ch) in Hdt, Hb. fold (nids ch) in Hdn'.
    assert (Hft' : forall j, In j (tids ch) -> alook j (m_tok m) = None) by (intros j Hj; apply Hft; rewrite tids_one; simpl; exact Hj).
    assert (Hfn' : forall j, In j (nids ch) -> alook j (m_node m) = None) by (intros j Hj; apply Hfn; rewrite nids_one; simpl; right; exact Hj).
    clear Hft Hfn Hni Hdn.
    cut (grows s s1 /\ map (erase (h_toks s1)) ch' = map (erase (h_toks s)) ch).
    { intros [G E]. split; [exact G | rewrite E; reflexivity]. }
    revert m s ch' m1 s1 Ego Hdt Hdn' Hft' Hfn' Hb.
    induction ch as [|x r IHr]; intros m s ch' m1 s1 Ego Hdt Hdn Hft Hfn Hb.
    + inversion Ego; subst. split; [apply grows_refl | reflexivity].
    + inversion IH as [|? ? Hx HFr]; subst.
      destruct (dcopy x m s) as [[x' mx] sx] eqn:Ex.
      match type of Ego with context [?g r mx sx] => destruct (g r mx sx) as [[r' mr] sr] eqn:Er end.
      inversion Ego; subst; clear Ego. rewrite tids_cons in Hdt, Hft, Hb. rewrite nids_cons in Hdn, Hfn.
      assert (Fx : memo_free m [x]).
      { split; intros j Hj; [apply Hft | apply Hfn]; apply in_or_app; left; [rewrite tids_one in Hj | rewrite nids_one in Hj]; exact Hj. }
      assert (Nx1 : NoDup (tok_ids x)) by (eapply NoDup_app_l; eauto).
      assert (Nx2 : NoDup (node_ids x)) by (eapply NoDup_app_l; eauto).
      assert (Bx : forall j, In j (tok_ids x) -> j < ntok s) by (intros j Hj; apply Hb; apply in_or_app; left; exact Hj).
      destruct (Hx m s x' mx sx Nx1 Nx2 Fx Bx Ex) as [Gx Exx].
      destruct (dcopy_spec x m s x' mx sx Nx1 Nx2 Fx Ex) as [Ax [Gt Gn]].
      assert (Lx : ntok s <= ntok sx) by (destruct Ax as (L & _); exact L).
      destruct (IHr HFr mx sx r' m1 s1 Er) as [Gr Err]; try (eapply NoDup_app_r; eauto).
      * intros j Hj. destruct (alook j (m_tok mx)) eqn:E; [|reflexivity]. exfalso.
        destruct (Gt j) as [H|H]; [rewrite E; discriminate | | ].
        -- apply H. apply Hft. apply in_or_app. right. exact Hj.
        -- rewrite tids_one in H. eapply NoDup_app_disj; [exact Hdt | exact H | exact Hj].
      * intros j Hj. destruct (alook j (m_node mx)) eqn:E; [|reflexivity]. exfalso.
        destruct (Gn j) as [H|H]; [rewrite E; discriminate | | ].
        -- apply H. apply Hfn. apply in_or_app. right. exact Hj.
        -- rewrite nids_one in H. eapply NoDup_app_disj; [exact Hdn | exact H | exact Hj].
      * intros j Hj. assert (j < ntok s) by (apply Hb; apply in_or_app; right; exact Hj). lia.
      * split; [eapply grows_trans; eauto|]. simpl. f_equal.
        -- rewrite <- Exx. destruct Gr as [ext ->]. apply erase_ext. intros j Hj. apply app_nth1.
           destruct (AL_sep_bounded _ _ _ Ax) as [_ [B _]]. apply B. rewrite tids_one. exact Hj.
        -- rewrite Err. destruct Gx as [ext ->]. apply erase_grow. intros j Hj. apply Hb. apply in_or_app. right. exact Hj.
Qed.

Lemma deepcopy_erase t s c s' :
  NoDup (tok_ids t) -> NoDup (node_ids t) -> (forall i, In i (tok_ids t) -> i < ntok s) ->
  deepcopy t s = (c, s') -> EV s [c] s' [erase (h_toks s) t].
Proof.
  unfold deepcopy. intros H1 H2 Hb H. destruct (dcopy t memo0 s) as [[c' m] s1] eqn:E. inversion H; subst.
  destruct (dcopy_erase _ _ _ _ _ _ H1 H2 (memo0_free _) Hb E) as [G Ee].
  split; [eapply dcopy_spec; eauto; apply memo0_free|]. split; [exact G | simpl; rewrite Ee; reflexivity].
Qed.

(* ------------------------------------------------------------------ reading is a function of the erasure *)
Definition vtokval (x : vt) : option tval := match x with VT _ v => Some v | VN _ _ => None end.
Definition vtokstr (x : vt) : option string := match vtokval x with Some (TS s) => Some s | _ => None end.
Definition vleafstr (x : vt) : option string := match x with VN _ (y :: _) => vtokstr y | _ => None end.
Definition vis_data (d : string) (x : vt) : bool := match x with VN d' _ => String.eqb d d' | VT _ _ => false end.
Definition vread_param (c : vt) : option pval :=
  match c with
  | VN _ (x :: _) => match vtokval x with Some (TQ q) => Some (PNum q) | Some (TS lit) => Some (PWord lit) | None => None end
  | VT _ (TQ q) => Some (PNum q)
  | VT _ (TS s) => Some (PWord s)
  | _ => None
  end.
Definition vread_model (m : vt) : option (string * option (list pval)) :=
  match m with
  | VN _ [n] => match vtokstr n with Some s => Some (s, None) | None => None end
  | VN _ [n; VN _ os] => match vtokstr n, mapO vread_param os with Some s, Some ps => Some (s, Some ps) | _, _ => None end
  | _ => None
  end.
Definition vread_line (l : vt) : option line :=
  match l with
  | VN _ (v :: rest) =>
      match vleafstr v, rev rest with
      | Some bf, m :: mid =>
          let mid := rev mid in
          let photos := existsb (vis_data "photos") mid in
          match mapO vleafstr (filter (vis_data "particle") mid), vread_model m with
          | Some fs, Some (n, prm) => Some {| l_bf := numq bf; l_fs := fs; l_photos := photos; l_model := n; l_params := prm |}
          | _, _ => None
          end
      | _, _ => None
      end
  | _ => None
  end.
Definition vread_table (t : vt) : option table :=
  match t with
  | VN _ (p :: lines) => match vleafstr p, mapO vread_line lines with Some m, Some ls => Some (m, ls) | _, _ => None end
  | _ => None
  end.

Definition inb (h : list tval) (t : ot) : Prop := forall i, In i (tok_ids t) -> i < length h.

Lemma inb_child h i d ch x : inb h (OTree i d ch) -> In x ch -> inb h x.
Proof. intros H Hx j Hj. apply H. simpl. apply in_flat_map. exists x. auto. Qed.

Lemma tokval_erase h t : inb h t -> tokval h t = vtokval (erase h t).
Proof.
  destruct t as [i k|]; simpl; intros H; [|reflexivity]. apply nth_error_nth'. apply H. simpl. auto.
Qed.
Lemma tokstr_erase h t : inb h t -> tokstr h t = vtokstr (erase h t).
Proof. intros H. unfold tokstr, vtokstr. rewrite tokval_erase by exact H. reflexivity. Qed.
Lemma leafstr_erase h t : inb h t -> leafstr h t = vleafstr (erase h t).
Proof.
  destruct t as [i k|i d [|x r]]; simpl; intros H; try reflexivity. apply tokstr_erase. eapply inb_child; [exact H | left; reflexivity].
Qed.
Lemma is_data_erase d h t : is_data d t = vis_data d (erase h t).
Proof. destruct t; reflexivity. Qed.

Lemma mapO_map {A B C} (f : B -> option C) (g : A -> B) l : mapO f (map g l) = mapO (fun x => f (g x)) l.
Proof. induction l as [|x r IH]; simpl; [reflexivity|]. rewrite IH. reflexivity. Qed.

Lemma read_param_erase h c : inb h c -> read_param h c = vread_param (erase h c).
Proof.
  destruct c as [i k|i d [|x r]]; intros H; try reflexivity.
  - unfold read_param. rewrite tokval_erase by exact H. simpl. destruct (nth i h (TS "")); reflexivity.
  - unfold read_param. rewrite tokval_erase by (eapply inb_child; [exact H | left; reflexivity]). reflexivity.
Qed.

Lemma read_model_erase h m : inb h m -> read_model h m = vread_model (erase h m).
Proof.
  destruct m as [i k|i d ch]; intros H; [simpl; destruct (nth i h (TS "")); reflexivity|].
  destruct ch as [|n [|o rest]]; try reflexivity.
  - simpl. rewrite tokstr_erase by (eapply inb_child; [exact H | left; reflexivity]). reflexivity.
  - destruct o as [|j dj os]; [destruct rest; reflexivity|]. destruct rest as [|? ?]; [|reflexivity]. simpl.
    rewrite tokstr_erase by (eapply inb_child; [exact H | left; reflexivity]).
    rewrite mapO_map. rewrite (mapO_ext (read_param h) (fun x => vread_param (erase h x)) os); [reflexivity|].
    intros c Hc. apply read_param_erase. eapply inb_child; [|exact Hc]. eapply inb_child; [exact H | right; left; reflexivity].
Qed.

Lemma filter_map_comm {A B} (p : B -> bool) (q : A -> bool) (g : A -> B) l : (forall x, p (g x) = q x) -> filter p (map g l) = map g (filter q l).
Proof. intros H. induction l as [|x r IH]; simpl; [reflexivity|]. rewrite H. destruct (q x); simpl; rewrite IH; reflexivity. Qed.
Lemma existsb_map {A B} (p : B -> bool) (g : A -> B) l : existsb p (map g l) = existsb (fun x => p (g x)) l.
Proof. induction l as [|x r IH]; simpl; [reflexivity|]. rewrite IH. reflexivity. Qed.

Lemma existsb_ext' {A} (p q : A -> bool) l : (forall x, p x = q x) -> existsb p l = existsb q l.
Proof. intros H. induction l as [|x r IH]; simpl; [reflexivity|]. rewrite H, IH. reflexivity. Qed.

Lemma read_line_erase h l : inb h l -> read_line h l = vread_line (erase h l).
Proof.
  destruct l as [i k|i d [|v rest]]; intros H; try reflexivity. unfold read_line. cbn [erase map vread_line].
  rewrite leafstr_erase by (eapply inb_child; [exact H | left; reflexivity]).
  destruct (vleafstr (erase h v)); [|reflexivity]. rewrite <- map_rev. destruct (rev rest) as [|m mid] eqn:Er; [reflexivity|].
  cbn [map]. assert (Hin : forall x, In x (m :: mid) -> In x (v :: rest)).
  { intros x Hx. right. apply in_rev. rewrite Er. exact Hx. }
  rewrite read_model_erase by (eapply inb_child; [exact H|]; apply Hin; left; reflexivity).
  rewrite <- map_rev. rewrite (filter_map_comm (vis_data "particle") (is_data "particle") (erase h)) by (intros; symmetry; apply is_data_erase).
  rewrite mapO_map. rewrite existsb_map.
  rewrite (mapO_ext (leafstr h) (fun x => vleafstr (erase h x)) (filter (is_data "particle") (rev mid))).
  - rewrite (existsb_ext' (is_data "photos") (fun x => vis_data "photos" (erase h x))); [reflexivity|]. intros; apply is_data_erase.
  - intros x Hx. apply leafstr_erase. eapply inb_child; [exact H|]. apply Hin. right. apply filter_In in Hx. apply in_rev. exact (proj1 Hx).
Qed.

Theorem read_table_erase h t : inb h t -> read_table h t = vread_table (erase h t).
Proof.
  destruct t as [i k|i d [|p lines]]; intros H; try reflexivity. unfold read_table. cbn [erase map vread_table].
  rewrite leafstr_erase by (eapply inb_child; [exact H | left; reflexivity]).
  rewrite mapO_map. rewrite (mapO_ext (read_line h) (fun x => vread_line (erase h x)) lines); [reflexivity|].
  intros l Hl. apply read_line_erase. eapply inb_child; [exact H | right; exact Hl].
Qed.

(* ------------------------------------------------------------------ CopyDecay at object level *)
Definition vrename (new : string) (t : vt) : vt :=
  match t with
  | VN d (VN d1 (VT k _ :: r1) :: r2) => VN d (VN d1 (VT k (TS new) :: r1) :: r2)
  | _ => t
  end.

Definition vmother (t : vt) : option string := match t with VN _ (p :: _) => vleafstr p | _ => None end.

Lemma mother_of_erase h t : inb h t -> mother_of h t = vmother (erase h t).
Proof.
  destruct t as [i k|i d [|p r]]; simpl; intros H; try reflexivity. apply leafstr_erase. eapply inb_child; [exact H | left; reflexivity].
Qed.

(* stores that agree below n *)
Definition agree_below (n : nat) (h h' : list tval) : Prop := n <= length h' /\ forall i, i < n -> nth i h (TS "") = nth i h' (TS "").

Lemma erase_agree n h h' t : agree_below n h h' -> (forall i, In i (tok_ids t) -> i < n) -> erase h t = erase h' t.
Proof. intros [_ H] Hb. apply erase_ext. intros i Hi. apply H, Hb, Hi. Qed.

Lemma nth_upd_other {A} i j (v d : A) l : i <> j -> nth j (upd i v l) d = nth j l d.
Proof. revert i j. induction l as [|x r IH]; intros [|i] [|j] Hne; simpl; auto; try congruence. Qed.
Lemma nth_upd_same {A} i (v d : A) l : i < length l -> nth i (upd i v l) d = v.
Proof. revert i. induction l as [|x r IH]; intros [|i] H; simpl in *; try lia; auto. apply IH. lia. Qed.

Lemma find_last_agree n h h' m : agree_below n h h' -> n <= length h ->
  forall ts acc, (forall t, In t ts -> forall i, In i (tok_ids t) -> i < n) -> find_last h m ts acc = find_last h' m ts acc.
Proof.
  intros Ha Hn. induction ts as [|t r IH]; simpl; intros acc Hb; [reflexivity|].
  assert (Hm : mother_of h t = mother_of h' t).
  { rewrite !mother_of_erase.
    - rewrite (erase_agree n h h' t Ha); [reflexivity|]. apply Hb. left. reflexivity.
    - intros i Hi. destruct Ha as [L _]. specialize (Hb t (or_introl eq_refl) i Hi). lia.
    - intros i Hi. specialize (Hb t (or_introl eq_refl) i Hi). lia. }
  rewrite Hm. apply IH. intros t' Ht'. apply Hb. right. exact Ht'.
Qed.

(* the tables CopyDecay creates, as values *)
Definition copies_v (h : list tval) (D : list ot) (copies : list (string * string)) : list vt :=
  flat_map (fun kv => match find_last h (snd kv) D None with
                      | Some src => [vrename (fst kv) (erase h src)]
                      | None => []
                      end) copies.

Lemma mother_tok_erase_write h c i new :
  mother_tok c = Some i -> NoDup (tok_ids c) -> inb h c -> erase (upd i (TS new) h) c = vrename new (erase h c).
Proof.
  destruct c as [|j d [|[|j1 d1 [|[i0 k|] r1]] r2]]; simpl; try discriminate. intros H Hnd Hb. inversion H; subst; clear H.
  simpl in Hnd. inversion Hnd as [|? ? Hni Hnd']; subst.
  rewrite nth_upd_same by (apply Hb; simpl; auto).
  assert (E1 : map (erase (upd i (TS new) h)) r1 = map (erase h) r1).
  { apply map_ext_in. intros x Hx. apply erase_ext. intros a Ha. apply nth_upd_other. intros ->. apply Hni.
    apply in_or_app. left. apply in_flat_map. exists x. auto. }
  assert (E2 : map (erase (upd i (TS new) h)) r2 = map (erase h) r2).
  { apply map_ext_in. intros x Hx. apply erase_ext. intros a Ha. apply nth_upd_other. intros ->. apply Hni.
    apply in_or_app. right. apply in_flat_map. exists x. auto. }
  rewrite E1, E2. reflexivity.
Qed.

Lemma mother_tok_vrename h c new : mother_tok c = None -> vrename new (erase h c) = erase h c.
Proof.
  destruct c as [|j d [|[|j1 d1 [|[i0 k|] r1]] r2]]; simpl; try discriminate; reflexivity.
Qed.

Lemma mother_tok_in c i : mother_tok c = Some i -> In i (tok_ids c).
Proof. destruct c as [|? ? [|[|? ? [|[? ?|] ?]] ?]]; simpl; try discriminate. intros H. inversion H; subst. simpl. auto. Qed.

Lemma agree_below_trans n m a b c : n <= m -> agree_below n a b -> agree_below m b c -> n <= length b -> agree_below n a c.
Proof.
  intros Hnm [L1 H1] [L2 H2] Lb. split; [lia|]. intros i Hi. rewrite H1 by exact Hi. apply H2. lia.
Qed.

Lemma copies_v_agree n h h' D copies : agree_below n h h' -> n <= length h ->
  (forall t, In t D -> forall i, In i (tok_ids t) -> i < n) -> copies_v h D copies = copies_v h' D copies.
Proof.
  intros Ha Hn HbD. unfold copies_v. induction copies as [|[new old] r IH]; simpl; [reflexivity|].
  rewrite <- (find_last_agree n h h' old Ha Hn D None HbD). rewrite IH.
  destruct (find_last h old D None) as [src|] eqn:Ef; [|reflexivity].
  destruct (find_last_in _ _ _ _ _ Ef) as [Hin|Hx]; [|discriminate].
  rewrite (erase_agree n h h' src Ha (HbD _ Hin)). reflexivity.
Qed.

(* every table CopyDecay NEW OLD creates denotes the (last) table named OLD with its mother renamed to NEW,
   and nothing that existed before is written to *)
Theorem copy_decays_law D : separated D ->
  forall copies s cps s', bounded_by s D -> copy_decays copies D s = (cps, s') ->
  agree_below (ntok s) (h_toks s) (h_toks s') /\ map (erase (h_toks s')) cps = copies_v (h_toks s) D copies.
Proof.
  intros Sep. induction copies as [|[new old] r IH]; intros s cps s' [Bt Bn] H; cbn [copy_decays] in H.
  - unfold ret in H. inversion H; subst. split; [split; [unfold ntok; lia | reflexivity] | reflexivity].
  - assert (HbD : forall t, In t D -> forall i, In i (tok_ids t) -> i < ntok s).
    { intros t Ht i Hi. apply Bt. unfold tids. apply in_flat_map. exists t. auto. }
    unfold copies_v. cbn [flat_map fst snd]. fold (copies_v (h_toks s) D r).
    destruct (find_last (h_toks s) old D None) as [src|] eqn:Ef; [|apply IH; [split; assumption | exact H]].
    unfold bind, ret in H. destruct (deepcopy src s) as [c s1] eqn:Ec.
    match type of H with context [copy_decays r D ?st] => destruct (copy_decays r D st) as [cs s2] eqn:Er end.
    inversion H; subst; clear H.
    destruct (find_last_in _ _ _ _ _ Ef) as [Hin|Hn]; [|discriminate]. destruct (separated_each _ _ Sep Hin) as [N1 N2].
    destruct (deepcopy_erase _ _ _ _ N1 N2 (HbD _ Hin) Ec) as (Ac & [ext Gc] & Ee).
    destruct (AL_sep_bounded _ _ _ Ac) as [[Nc _] [Bc _]]. rewrite tids_one in Nc, Bc.
    assert (Lc : ntok s <= ntok s1 /\ h_next s <= h_next s1) by (destruct Ac as (L & N & _); auto).
    simpl in Ee. inversion Ee as [Ee']. clear Ee.
    set (s1' := match mother_tok c with Some i => write i (TS new) s1 | None => s1 end) in *.
    assert (A1 : agree_below (ntok s) (h_toks s) (h_toks s1)).
    { split; [unfold ntok in *; lia|]. intros i Hi. rewrite Gc, app_nth1 by (unfold ntok in *; lia). reflexivity. }
    assert (Hs1' : ntok s1' = ntok s1 /\ h_next s1' = h_next s1 /\ agree_below (ntok s) (h_toks s) (h_toks s1') /\ erase (h_toks s1') c = vrename new (erase (h_toks s) src)).
    { unfold s1'. destruct (mother_tok c) as [i|] eqn:Em.
      - split; [apply write_sizes|]. split; [apply write_sizes|]. split.
        + destruct A1 as [L Hag]. split; [simpl; rewrite upd_length; exact L|]. intros j Hj. simpl.
          rewrite nth_upd_other; [apply Hag; exact Hj|]. intros ->.
          destruct Ac as (_ & _ & _ & I & _). destruct (I j) as [[]|Hfr]; [rewrite tids_one; eapply mother_tok_in; eauto|]. lia.
        + simpl. rewrite (mother_tok_erase_write _ _ _ _ Em Nc Bc). rewrite Ee'. reflexivity.
      - split; [reflexivity|]. split; [reflexivity|]. split; [exact A1|]. rewrite Ee'. symmetry. rewrite <- Ee'. apply mother_tok_vrename. exact Em. }
    destruct Hs1' as (Sz & Sn & A1' & E1').
    assert (B1' : bounded_by s1' D).
    { split; intros i Hi; [specialize (Bt i Hi) | specialize (Bn i Hi)]; lia. }
    destruct (IH s1' cs s' B1' Er) as (A2 & E2).
    assert (Ls : ntok s <= length (h_toks s1')) by (unfold ntok in *; lia).
    split; [eapply agree_below_trans; [| exact A1' | exact A2 | exact Ls]; lia|].
    cbn [map app]. rewrite E2. rewrite ?Ee'. f_equal.
    + rewrite <- E1'. symmetry. eapply erase_agree; [exact A2|]. intros i Hi. rewrite Sz. apply Bc. exact Hi.
    + symmetry. apply (copies_v_agree (ntok s)); [exact A1' | unfold ntok; lia | exact HbD].
Qed.

Lemma vread_table_rename new v m ls : vread_table v = Some (m, ls) -> vread_table (vrename new v) = Some (new, ls).
Proof.
  destruct v as [|d [|p lines]]; simpl; try discriminate.
  destruct p as [|d1 [|[k [s|q]|] r1]]; simpl; try discriminate.
  destruct (mapO vread_line lines); [|discriminate]. intros H. inversion H; subst. reflexivity.
Qed.

(* read through the real readers: the copy denotes the source's lines under the new name; nothing that existed is touched *)
Corollary copy_decays_tables D s copies cps s' :
  separated D -> bounded_by s D -> copy_decays copies D s = (cps, s') ->
  (forall t, In t D -> read_table (h_toks s') t = read_table (h_toks s) t) /\
  map (erase (h_toks s')) cps = copies_v (h_toks s) D copies.
Proof.
  intros Sep B H. destruct (copy_decays_law D Sep copies s cps s' B H) as [A E]. split; [|exact E].
  intros t Ht. destruct B as [Bt _].
  assert (Hb : forall i, In i (tok_ids t) -> i < ntok s) by (intros i Hi; apply Bt; unfold tids; apply in_flat_map; exists t; auto).
  rewrite !read_table_erase.
  - rewrite (erase_agree (ntok s) (h_toks s) (h_toks s') t A Hb). reflexivity.
  - exact Hb.
  - intros i Hi. destruct A as [L _]. specialize (Hb i Hi). lia.
Qed.
