(* HeapRefine.v — values: what the objects hold, and the CopyDecay law at object level (model: Dec/Heap.v).

   erase h t  is the value tree an identity-carrying tree denotes in token store h (identities forgotten,
   every token replaced by its current value).  Everything a query reads is a function of the erasure.
     dcopy_erase          : copy.deepcopy of a sharing-free structure is value-equal to its source
     copy_decays_law      : every table CopyDecay NEW OLD creates denotes OLD's table with the mother name NEW,
                            and creating it changes what no existing table denotes. *)
From Coq Require Import String Ascii List Bool ZArith QArith Arith Lia.
From DL Require Import Lib.Val Lib.PyDict Lib.Sort Decay.Conj Decay.ChainDict Dec.Num Dec.Tables Dec.Syntax Dec.Post Dec.Heap Dec.HeapProofs Dec.HeapValues.
Import ListNotations.
Close Scope Q_scope.
Open Scope string_scope.

Inductive vt := VT (k : string) (v : tval) | VN (d : string) (ch : list vt).

Fixpoint erase (h : list tval) (t : ot) : vt :=
  match t with
  | OTok i k => VT k (nth i h (TS ""))
  | OTree _ d ch => VN d (map (erase h) ch)
  end.

Lemma erase_ext h h' : forall t, (forall i, In i (tok_ids t) -> nth i h (TS "") = nth i h' (TS "")) -> erase h t = erase h' t.
Proof.
  induction t as [i k|i d ch IH] using ot_ind'; intros H; simpl.
  - rewrite H by (simpl; auto). reflexivity.
  - f_equal. apply map_ext_in. intros x Hx. rewrite Forall_forall in IH. apply IH; [exact Hx|].
    intros j Hj. apply H. simpl. apply in_flat_map. exists x. auto.
Qed.

Lemma erase_list_ext h h' ts : (forall i, In i (tids ts) -> nth i h (TS "") = nth i h' (TS "")) -> map (erase h) ts = map (erase h') ts.
Proof.
  intros H. apply map_ext_in. intros x Hx. apply erase_ext. intros j Hj. apply H. unfold tids. apply in_flat_map. exists x. auto.
Qed.

(* the store only grows: old tokens keep their values *)
Lemma erase_grow h ext ts : (forall i, In i (tids ts) -> i < length h) -> map (erase (h ++ ext)) ts = map (erase h) ts.
Proof. intros H. apply erase_list_ext. intros i Hi. apply app_nth1. apply H. exact Hi. Qed.

(* ------------------------------------------------------------------ allocation with values *)
Definition grows (s s' : hst) : Prop := exists ext, h_toks s' = (h_toks s ++ ext)%list.
Lemma grows_refl s : grows s s.
Proof. exists []. rewrite app_nil_r. reflexivity. Qed.
Lemma grows_trans a b c : grows a b -> grows b c -> grows a c.
Proof. intros [e1 H1] [e2 H2]. exists (e1 ++ e2)%list. rewrite H2, H1, app_assoc. reflexivity. Qed.

(* ts was allocated between s and s' and denotes vs at s' *)
Definition EV (s : hst) (ts : list ot) (s' : hst) (vs : list vt) : Prop :=
  AL s ts s' /\ grows s s' /\ map (erase (h_toks s')) ts = vs.

Lemma EV_nil s : EV s [] s [].
Proof. split; [apply AL_nil|]. split; [apply grows_refl | reflexivity]. Qed.

Lemma EV_app s s1 s2 a b va vb : EV s a s1 va -> EV s1 b s2 vb -> EV s (a ++ b) s2 (va ++ vb).
Proof.
  intros (A1 & G1 & E1) (A2 & G2 & E2). split; [eapply AL_app; eauto|]. split; [eapply grows_trans; eauto|].
  rewrite map_app, E2. f_equal. rewrite <- E1. destruct G2 as [ext ->]. apply erase_grow.
  destruct (AL_sep_bounded _ _ _ A1) as [_ [B _]]. exact B.
Qed.

Lemma EV_tree s ch s1 vs d t s2 : EV s ch s1 vs -> mk_tree d ch s1 = (t, s2) -> EV s [t] s2 [VN d vs].
Proof.
  intros (A & G & E) H. split; [eapply AL_tree; eauto|]. unfold mk_tree in H. inversion H as [[Ht Hs]]. simpl.
  split; [exact G | rewrite E; reflexivity].
Qed.

(* ------------------------------------------------------------------ deepcopy copies the values *)
Lemma dcopy_erase : forall t m s t' m' s',
  NoDup (tok_ids t) -> NoDup (node_ids t) -> memo_free m [t] -> (forall i, In i (tok_ids t) -> i < ntok s) ->
  dcopy t m s = (t', m', s') -> grows s s' /\ erase (h_toks s') t' = erase (h_toks s) t.
Proof.
  induction t as [i k|i d ch IH] using ot_ind'; intros m s t' m' s' Hdt Hdn [Hft Hfn] Hb H.
  - simpl in H. rewrite (Hft i) in H by (rewrite tids_one; simpl; auto). inversion H; subst; clear H. simpl.
    split; [eexists; reflexivity|]. f_equal. rewrite app_nth2 by lia. rewrite Nat.sub_diag. reflexivity.
  - simpl in H. rewrite (Hfn i) in H by (rewrite nids_one; simpl; auto).
    match type of H with context [?g ch m s] => destruct (g ch m s) as [[ch' m1] s1] eqn:Ego end.
    inversion H; subst; clear H. simpl.
    simpl in Hdt, Hdn, Hb. inversion Hdn as [|? ? Hni Hdn']; subst. fold (tids ch) in Hdt, Hb. fold (nids ch) in Hdn'.
    assert (Hft' : forall j, In j (tids ch) -> alook j (m_tok m) = None) by (intros j Hj; apply Hft; rewrite tids_one; simpl; exact Hj).
    assert (Hfn' : forall j, In j (nids ch) -> alook j (m_node m) = None) by (intros j Hj; apply Hfn; rewrite nids_one; simpl; right; exact Hj).
    clear Hft Hfn Hni Hdn.
    cut (grows s s1 /\ map (erase (h_toks s1)) ch' = map (erase (h_toks s)) ch).
    { intros [G E]. split; [exact G | rewrite E; reflexivity]. }
    revert m s ch' m1 s1 Ego Hdt Hdn' Hft' Hfn' Hb.
    induction ch as [|x r IHr]; intros m s ch' m1 s1 Ego Hdt Hdn Hft Hfn Hb.
    + inversion Ego; subst. split; [apply grows_refl | reflexivity].
    + inversion IH as [|? ? Hx HFr]; subst.
      destruct (dcopy x m s) as [[x' mx] sx] eqn:Ex.
      match type of Ego with context [?g r mx sx] => destruct (g r mx sx) as [[r' mr] sr] eqn:Er end.
      inversion Ego; subst; clear Ego. rewrite tids_cons in Hdt, Hft, Hb. rewrite nids_cons in Hdn, Hfn.
      assert (Fx : memo_free m [x]).
      { split; intros j Hj; [apply Hft | apply Hfn]; apply in_or_app; left; [rewrite tids_one in Hj | rewrite nids_one in Hj]; exact Hj. }
      assert (Nx1 : NoDup (tok_ids x)) by (eapply NoDup_app_l; eauto).
      assert (Nx2 : NoDup (node_ids x)) by (eapply NoDup_app_l; eauto).
      assert (Bx : forall j, In j (tok_ids x) -> j < ntok s) by (intros j Hj; apply Hb; apply in_or_app; left; exact Hj).
      destruct (Hx m s x' mx sx Nx1 Nx2 Fx Bx Ex) as [Gx Exx].
      destruct (dcopy_spec x m s x' mx sx Nx1 Nx2 Fx Ex) as [Ax [Gt Gn]].
      assert (Lx : ntok s <= ntok sx) by (destruct Ax as (L & _); exact L).
      destruct (IHr HFr mx sx r' m1 s1 Er) as [Gr Err]; try (eapply NoDup_app_r; eauto).
      * intros j Hj. destruct (alook j (m_tok mx)) eqn:E; [|reflexivity]. exfalso.
        destruct (Gt j) as [H|H]; [rewrite E; discriminate | | ].
        -- apply H. apply Hft. apply in_or_app. right. exact Hj.
        -- rewrite tids_one in H. eapply NoDup_app_disj; [exact Hdt | exact H | exact Hj].
      * intros j Hj. destruct (alook j (m_node mx)) eqn:E; [|reflexivity]. exfalso.
        destruct (Gn j) as [H|H]; [rewrite E; discriminate | | ].
        -- apply H. apply Hfn. apply in_or_app. right. exact Hj.
        -- rewrite nids_one in H. eapply NoDup_app_disj; [exact Hdn | exact H | exact Hj].
      * intros j Hj. assert (j < ntok s) by (apply Hb; apply in_or_app; right; exact Hj). lia.
      * split; [eapply grows_trans; eauto|]. simpl. f_equal.
        -- rewrite <- Exx. destruct Gr as [ext ->]. apply erase_ext. intros j Hj. apply app_nth1.
           destruct (AL_sep_bounded _ _ _ Ax) as [_ [B _]]. apply B. rewrite tids_one. exact Hj.
        -- rewrite Err. destruct Gx as [ext ->]. apply erase_grow. intros j Hj. apply Hb. apply in_or_app. right. exact Hj.
Qed.

Lemma deepcopy_erase t s c s' :
  NoDup (tok_ids t) -> NoDup (node_ids t) -> (forall i, In i (tok_ids t) -> i < ntok s) ->
  deepcopy t s = (c, s') -> EV s [c] s' [erase (h_toks s) t].
Proof.
  unfold deepcopy. intros H1 H2 Hb H. destruct (dcopy t memo0 s) as [[c' m] s1] eqn:E. inversion H; subst.
  destruct (dcopy_erase _ _ _ _ _ _ H1 H2 (memo0_free _) Hb E) as [G Ee].
  split; [eapply dcopy_spec; eauto; apply memo0_free|]. split; [exact G | simpl; rewrite Ee; reflexivity].
Qed.

(* ------------------------------------------------------------------ reading is a function of the erasure *)
Definition vtokval (x : vt) : option tval := match x with VT _ v => Some v | VN _ _ => None end.
Definition vtokstr (x : vt) : option string := match vtokval x with Some (TS s) => Some s | _ => None end.
Definition vleafstr (x : vt) : option string := match x with VN _ (y :: _) => vtokstr y | _ => None end.
Definition vis_data (d : string) (x : vt) : bool := match x with VN d' _ => String.eqb d d' | VT _ _ => false end.
Definition vread_param (c : vt) : option pval :=
  match c with
  | VN _ (x :: _) => match vtokval x with Some (TQ q) => Some (PNum q) | Some (TS lit) => Some (PWord lit) | None => None end
  | VT _ (TQ q) => Some (PNum q)
  | VT _ (TS s) => Some (PWord s)
  | _ => None
  end.
Definition vread_model (m : vt) : option (string * option (list pval)) :=
  match m with
  | VN _ [n] => match vtokstr n with Some s => Some (s, None) | None => None end
  | VN _ [n; VN _ os] => match vtokstr n, mapO vread_param os with Some s, Some ps => Some (s, Some ps) | _, _ => None end
  | _ => None
  end.
Definition vread_line (l : vt) : option line :=
  match l with
  | VN _ (v :: rest) =>
      match vleafstr v, rev rest with
      | Some bf, m :: mid =>
          let mid := rev mid in
          let photos := existsb (vis_data "photos") mid in
          match mapO vleafstr (filter (vis_data "particle") mid), vread_model m with
          | Some fs, Some (n, prm) => Some {| l_bf := numq bf; l_fs := fs; l_photos := photos; l_model := n; l_params := prm |}
          | _, _ => None
          end
      | _, _ => None
      end
  | _ => None
  end.
Definition vread_table (t : vt) : option table :=
  match t with
  | VN _ (p :: lines) => match vleafstr p, mapO vread_line lines with Some m, Some ls => Some (m, ls) | _, _ => None end
  | _ => None
  end.

Definition inb (h : list tval) (t : ot) : Prop := forall i, In i (tok_ids t) -> i < length h.

Lemma inb_child h i d ch x : inb h (OTree i d ch) -> In x ch -> inb h x.
Proof. intros H Hx j Hj. apply H. simpl. apply in_flat_map. exists x. auto. Qed.

Lemma tokval_erase h t : inb h t -> tokval h t = vtokval (erase h t).
Proof.
  destruct t as [i k|]; simpl; intros H; [|reflexivity]. apply nth_error_nth'. apply H. simpl. auto.
Qed.
Lemma tokstr_erase h t : inb h t -> tokstr h t = vtokstr (erase h t).
Proof. intros H. unfold tokstr, vtokstr. rewrite tokval_erase by exact H. reflexivity. Qed.
Lemma leafstr_erase h t : inb h t -> leafstr h t = vleafstr (erase h t).
Proof.
  destruct t as [i k|i d [|x r]]; simpl; intros H; try reflexivity. apply tokstr_erase. eapply inb_child; [exact H | left; reflexivity].
Qed.
Lemma is_data_erase d h t : is_data d t = vis_data d (erase h t).
Proof. destruct t; reflexivity. Qed.

Lemma mapO_map {A B C} (f : B -> option C) (g : A -> B) l : mapO f (map g l) = mapO (fun x => f (g x)) l.
Proof. induction l as [|x r IH]; simpl; [reflexivity|]. rewrite IH. reflexivity. Qed.

Lemma read_param_erase h c : inb h c -> read_param h c = vread_param (erase h c).
Proof.
  destruct c as [i k|i d [|x r]]; intros H; try reflexivity.
  - unfold read_param. rewrite tokval_erase by exact H. simpl. destruct (nth i h (TS "")); reflexivity.
  - unfold read_param. rewrite tokval_erase by (eapply inb_child; [exact H | left; reflexivity]). reflexivity.
Qed.

Lemma read_model_erase h m : inb h m -> read_model h m = vread_model (erase h m).
Proof.
  destruct m as [i k|i d ch]; intros H; [simpl; destruct (nth i h (TS "")); reflexivity|].
  destruct ch as [|n [|o rest]]; try reflexivity.
  - simpl. rewrite tokstr_erase by (eapply inb_child; [exact H | left; reflexivity]). reflexivity.
  - destruct o as [|j dj os]; [destruct rest; reflexivity|]. destruct rest as [|? ?]; [|reflexivity]. simpl.
    rewrite tokstr_erase by (eapply inb_child; [exact H | left; reflexivity]).
    rewrite mapO_map. rewrite (mapO_ext (read_param h) (fun x => vread_param (erase h x)) os); [reflexivity|].
    intros c Hc. apply read_param_erase. eapply inb_child; [|exact Hc]. eapply inb_child; [exact H | right; left; reflexivity].
Qed.

Lemma filter_map_comm {A B} (p : B -> bool) (q : A -> bool) (g : A -> B) l : (forall x, p (g x) = q x) -> filter p (map g l) = map g (filter q l).
Proof. intros H. induction l as [|x r IH]; simpl; [reflexivity|]. rewrite H. destruct (q x); simpl; rewrite IH; reflexivity. Qed.
Lemma existsb_map {A B} (p : B -> bool) (g : A -> B) l : existsb p (map g l) = existsb (fun x => p (g x)) l.
Proof. induction l as [|x r IH]; simpl; [reflexivity|]. rewrite IH. reflexivity. Qed.

Lemma existsb_ext' {A} (p q : A -> bool) l : (forall x, p x = q x) -> existsb p l = existsb q l.
Proof. intros H. induction l as [|x r IH]; simpl; [reflexivity|]. rewrite H, IH. reflexivity. Qed.

Lemma read_line_erase h l : inb h l -> read_line h l = vread_line (erase h l).
Proof.
  destruct l as [i k|i d [|v rest]]; intros H; try reflexivity. unfold read_line. cbn [erase map vread_line].
  rewrite leafstr_erase by (eapply inb_child; [exact H | left; reflexivity]).
  destruct (vleafstr (erase h v)); [|reflexivity]. rewrite <- map_rev. destruct (rev rest) as [|m mid] eqn:Er; [reflexivity|].
  cbn [map]. assert (Hin : forall x, In x (m :: mid) -> In x (v :: rest)).
  { intros x Hx. right. apply in_rev. rewrite Er. exact Hx. }
  rewrite read_model_erase by (eapply inb_child; [exact H|]; apply Hin; left; reflexivity).
  rewrite <- map_rev. rewrite (filter_map_comm (vis_data "particle") (is_data "particle") (erase h)) by (intros; symmetry; apply is_data_erase).
  rewrite mapO_map. rewrite existsb_map.
  rewrite (mapO_ext (leafstr h) (fun x => vleafstr (erase h x)) (filter (is_data "particle") (rev mid))).
  - rewrite (existsb_ext' (is_data "photos") (fun x => vis_data "photos" (erase h x))); [reflexivity|]. intros; apply is_data_erase.
  - intros x Hx. apply leafstr_erase. eapply inb_child; [exact H|]. apply Hin. right. apply filter_In in Hx. apply in_rev. exact (proj1 Hx).
Qed.

Theorem read_table_erase h t : inb h t -> read_table h t = vread_table (erase h t).
Proof.
  destruct t as [i k|i d [|p lines]]; intros H; try reflexivity. unfold read_table. cbn [erase map vread_table].
  rewrite leafstr_erase by (eapply inb_child; [exact H | left; reflexivity]).
  rewrite mapO_map. rewrite (mapO_ext (read_line h) (fun x => vread_line (erase h x)) lines); [reflexivity|].
  intros l Hl. apply read_line_erase. eapply inb_child; [exact H | right; exact Hl].
Qed.

(* ------------------------------------------------------------------ CopyDecay at object level *)
Definition vrename (new : string) (t : vt) : vt :=
  match t with
  | VN d (VN d1 (VT k _ :: r1) :: r2) => VN d (VN d1 (VT k (TS new) :: r1) :: r2)
  | _ => t
  end.

Definition vmother (t : vt) : option string := match t with VN _ (p :: _) => vleafstr p | _ => None end.

Lemma mother_of_erase h t : inb h t -> mother_of h t = vmother (erase h t).
Proof.
  destruct t as [i k|i d [|p r]]; simpl; intros H; try reflexivity. apply leafstr_erase. eapply inb_child; [exact H | left; reflexivity].
Qed.

(* stores that agree below n *)
Definition agree_below (n : nat) (h h' : list tval) : Prop := n <= length h' /\ forall i, i < n -> nth i h (TS "") = nth i h' (TS "").

Lemma erase_agree n h h' t : agree_below n h h' -> (forall i, In i (tok_ids t) -> i < n) -> erase h t = erase h' t.
Proof. intros [_ H] Hb. apply erase_ext. intros i Hi. apply H, Hb, Hi. Qed.

Lemma nth_upd_other {A} i j (v d : A) l : i <> j -> nth j (upd i v l) d = nth j l d.
Proof. revert i j. induction l as [|x r IH]; intros [|i] [|j] Hne; simpl; auto; try congruence. Qed.
Lemma nth_upd_same {A} i (v d : A) l : i < length l -> nth i (upd i v l) d = v.
Proof. revert i. induction l as [|x r IH]; intros [|i] H; simpl in *; try lia; auto. apply IH. lia. Qed.

Lemma find_last_agree n h h' m : agree_below n h h' -> n <= length h ->
  forall ts acc, (forall t, In t ts -> forall i, In i (tok_ids t) -> i < n) -> find_last h m ts acc = find_last h' m ts acc.
Proof.
  intros Ha Hn. induction ts as [|t r IH]; simpl; intros acc Hb; [reflexivity|].
  assert (Hm : mother_of h t = mother_of h' t).
  { rewrite !mother_of_erase.
    - rewrite (erase_agree n h h' t Ha); [reflexivity|]. apply Hb. left. reflexivity.
    - intros i Hi. destruct Ha as [L _]. specialize (Hb t (or_introl eq_refl) i Hi). lia.
    - intros i Hi. specialize (Hb t (or_introl eq_refl) i Hi). lia. }
  rewrite Hm. apply IH. intros t' Ht'. apply Hb. right. exact Ht'.
Qed.

(* the tables CopyDecay creates, as values *)
Definition copies_v (h : list tval) (D : list ot) (copies : list (string * string)) : list vt :=
  flat_map (fun kv => match find_last h (snd kv) D None with
                      | Some src => [vrename (fst kv) (erase h src)]
                      | None => []
                      end) copies.

Lemma mother_tok_erase_write h c i new :
  mother_tok c = Some i -> NoDup (tok_ids c) -> inb h c -> erase (upd i (TS new) h) c = vrename new (erase h c).
Proof.
  destruct c as [|j d [|[|j1 d1 [|[i0 k|] r1]] r2]]; simpl; try discriminate. intros H Hnd Hb. inversion H; subst; clear H.
  simpl in Hnd. inversion Hnd as [|? ? Hni Hnd']; subst.
  rewrite nth_upd_same by (apply Hb; simpl; auto).
  assert (E1 : map (erase (upd i (TS new) h)) r1 = map (erase h) r1).
  { apply map_ext_in. intros x Hx. apply erase_ext. intros a Ha. apply nth_upd_other. intros ->. apply Hni.
    apply in_or_app. left. apply in_flat_map. exists x. auto. }
  assert (E2 : map (erase (upd i (TS new) h)) r2 = map (erase h) r2).
  { apply map_ext_in. intros x Hx. apply erase_ext. intros a Ha. apply nth_upd_other. intros ->. apply Hni.
    apply in_or_app. right. apply in_flat_map. exists x. auto. }
  rewrite E1, E2. reflexivity.
Qed.

Lemma mother_tok_vrename h c new : mother_tok c = None -> vrename new (erase h c) = erase h c.
Proof.
  destruct c as [|j d [|[|j1 d1 [|[i0 k|] r1]] r2]]; simpl; try discriminate; reflexivity.
Qed.

Lemma mother_tok_in c i : mother_tok c = Some i -> In i (tok_ids c).
Proof. destruct c as [|? ? [|[|? ? [|[? ?|] ?]] ?]]; simpl; try discriminate. intros H. inversion H; subst. simpl. auto. Qed.

Lemma agree_below_trans n m a b c : n <= m -> agree_below n a b -> agree_below m b c -> n <= length b -> agree_below n a c.
Proof.
  intros Hnm [L1 H1] [L2 H2] Lb. split; [lia|]. intros i Hi. rewrite H1 by exact Hi. apply H2. lia.
Qed.

Lemma copies_v_agree n h h' D copies : agree_below n h h' -> n <= length h ->
  (forall t, In t D -> forall i, In i (tok_ids t) -> i < n) -> copies_v h D copies = copies_v h' D copies.
Proof.
  intros Ha Hn HbD. unfold copies_v. induction copies as [|[new old] r IH]; simpl; [reflexivity|].
  rewrite <- (find_last_agree n h h' old Ha Hn D None HbD). rewrite IH.
  destruct (find_last h old D None) as [src|] eqn:Ef; [|reflexivity].
  destruct (find_last_in _ _ _ _ _ Ef) as [Hin|Hx]; [|discriminate].
  rewrite (erase_agree n h h' src Ha (HbD _ Hin)). reflexivity.
Qed.

(* every table CopyDecay NEW OLD creates denotes the (last) table named OLD with its mother renamed to NEW,
   and nothing that existed before is written to *)
Theorem copy_decays_law D : separated D ->
  forall copies s cps s', bounded_by s D -> copy_decays copies D s = (cps, s') ->
  agree_below (ntok s) (h_toks s) (h_toks s') /\ map (erase (h_toks s')) cps = copies_v (h_toks s) D copies.
Proof.
  intros Sep. induction copies as [|[new old] r IH]; intros s cps s' [Bt Bn] H; cbn [copy_decays] in H.
  - unfold ret in H. inversion H; subst. split; [split; [unfold ntok; lia | reflexivity] | reflexivity].
  - assert (HbD : forall t, In t D -> forall i, In i (tok_ids t) -> i < ntok s).
    { intros t Ht i Hi. apply Bt. unfold tids. apply in_flat_map. exists t. auto. }
    unfold copies_v. cbn [flat_map fst snd]. fold (copies_v (h_toks s) D r).
    destruct (find_last (h_toks s) old D None) as [src|] eqn:Ef; [|apply IH; [split; assumption | exact H]].
    unfold bind, ret in H. destruct (deepcopy src s) as [c s1] eqn:Ec.
    match type of H with context [copy_decays r D ?st] => destruct (copy_decays r D st) as [cs s2] eqn:Er end.
    inversion H; subst; clear H.
    destruct (find_last_in _ _ _ _ _ Ef) as [Hin|Hn]; [|discriminate]. destruct (separated_each _ _ Sep Hin) as [N1 N2].
    destruct (deepcopy_erase _ _ _ _ N1 N2 (HbD _ Hin) Ec) as (Ac & [ext Gc] & Ee).
    destruct (AL_sep_bounded _ _ _ Ac) as [[Nc _] [Bc _]]. rewrite tids_one in Nc, Bc.
    assert (Lc : ntok s <= ntok s1 /\ h_next s <= h_next s1) by (destruct Ac as (L & N & _); auto).
    simpl in Ee. inversion Ee as [Ee']. clear Ee.
    set (s1' := match mother_tok c with Some i => write i (TS new) s1 | None => s1 end) in *.
    assert (A1 : agree_below (ntok s) (h_toks s) (h_toks s1)).
    { split; [unfold ntok in *; lia|]. intros i Hi. rewrite Gc, app_nth1 by (unfold ntok in *; lia). reflexivity. }
    assert (Hs1' : ntok s1' = ntok s1 /\ h_next s1' = h_next s1 /\ agree_below (ntok s) (h_toks s) (h_toks s1') /\ erase (h_toks s1') c = vrename new (erase (h_toks s) src)).
    { unfold s1'. destruct (mother_tok c) as [i|] eqn:Em.
      - split; [apply write_sizes|]. split; [apply write_sizes|]. split.
        + destruct A1 as [L Hag]. split; [simpl; rewrite upd_length; exact L|]. intros j Hj. simpl.
          rewrite nth_upd_other; [apply Hag; exact Hj|]. intros ->.
          destruct Ac as (_ & _ & _ & I & _). destruct (I j) as [[]|Hfr]; [rewrite tids_one; eapply mother_tok_in; eauto|]. lia.
        + simpl. rewrite (mother_tok_erase_write _ _ _ _ Em Nc Bc). rewrite Ee'. reflexivity.
      - split; [reflexivity|]. split; [reflexivity|]. split; [exact A1|]. rewrite Ee'. symmetry. rewrite <- Ee'. apply mother_tok_vrename. exact Em. }
    destruct Hs1' as (Sz & Sn & A1' & E1').
    assert (B1' : bounded_by s1' D).
    { split; intros i Hi; [specialize (Bt i Hi) | specialize (Bn i Hi)]; lia. }
    destruct (IH s1' cs s' B1' Er) as (A2 & E2).
    assert (Ls : ntok s <= length (h_toks s1')) by (unfold ntok in *; lia).
    split; [eapply agree_below_trans; [| exact A1' | exact A2 | exact Ls]; lia|].
    cbn [map app]. rewrite E2. rewrite ?Ee'. f_equal.
    + rewrite <- E1'. symmetry. eapply erase_agree; [exact A2|]. intros i Hi. rewrite Sz. apply Bc. exact Hi.
    + symmetry. apply (copies_v_agree (ntok s)); [exact A1' | unfold ntok; lia | exact HbD].
Qed.

Lemma vread_table_rename new v m ls : vread_table v = Some (m, ls) -> vread_table (vrename new v) = Some (new, ls).
Proof.
  destruct v as [|d [|p lines]]; simpl; try discriminate.
  destruct p as [|d1 [|[k [s|q]|] r1]]; simpl; try discriminate.
  destruct (mapO vread_line lines); [|discriminate]. intros H. inversion H; subst. reflexivity.
Qed.

(* read through the real readers: the copy denotes the source's lines under the new name; nothing that existed is touched *)
Corollary copy_decays_tables D s copies cps s' :
  separated D -> bounded_by s D -> copy_decays copies D s = (cps, s') ->
  (forall t, In t D -> read_table (h_toks s') t = read_table (h_toks s) t) /\
  map (erase (h_toks s')) cps = copies_v (h_toks s) D copies.
Proof.
  intros Sep B H. destruct (copy_decays_law D Sep copies s cps s' B H) as [A E]. split; [|exact E].
  intros t Ht. destruct B as [Bt _].
  assert (Hb : forall i, In i (tok_ids t) -> i < ntok s) by (intros i Hi; apply Bt; unfold tids; apply in_flat_map; exists t; auto).
  rewrite !read_table_erase.
  - rewrite (erase_agree (ntok s) (h_toks s) (h_toks s') t A Hb). reflexivity.
  - exact Hb.
  - intros i Hi. destruct A as [L _]. specialize (Hb i Hi). lia.
Qed.

(* ================================================================== refinement: the object-level algorithm computes the tables of
   the value model (Dec/Post.v).  Pure descriptions of what the trees denote at each stage: *)
Definition v_tok (k s : string) : vt := VT k (TS s).
Definition v_particle (n : string) : vt := VN "particle" [v_tok "LABEL" n].
Definition v_value (lit : string) : vt := VN "value" [v_tok "SIGNED_NUMBER" lit].
Definition enc_raw (p : param) : vt := match p with PLit lit => v_value lit | PLabel s => v_tok "LABEL" s end.
Definition v_model_children (enc : param -> vt) (m : dmodel) : list vt :=
  match m with
  | MLabel l => [VN "model_label" [v_tok "LABEL" l]]
  | MName n None => [v_tok "MODEL_NAME" n]
  | MName n (Some ps) => [v_tok "MODEL_NAME" n; VN "model_options" (map enc ps)]
  end.
Definition v_model (enc : param -> vt) (m : dmodel) : vt := VN "model" (v_model_children enc m).
Definition v_line (enc : param -> vt) (d : dline) : vt :=
  VN "decayline" (v_value (d_bf d) :: map v_particle (d_fs d) ++ (if d_photos d then [VN "photos" []] else []) ++ [v_model enc (d_model d)]).
Definition v_decay (enc : param -> vt) (m : string) (ls : list dline) : vt := VN "decay" (v_particle m :: map (v_line enc) ls).
Definition v_model_alias (n : string) (m : dmodel) : vt := VN "model_alias" [VN "model_label" [v_tok "LABEL" n]; v_model enc_raw m].

Lemma EV_tok k v s t s' : mk_tok k v s = (t, s') -> EV s [t] s' [v_tok k v].
Proof.
  intros H. split; [eapply AL_tok; exact H|]. unfold mk_tok in H. inversion H; subst. simpl.
  split; [eexists; reflexivity|]. rewrite app_nth2 by lia. rewrite Nat.sub_diag. reflexivity.
Qed.

Lemma EV_mapM {A} (f : A -> M ot) (g : A -> vt) :
  (forall x s t s', f x s = (t, s') -> EV s [t] s' [g x]) ->
  forall l s ts s', mapM f l s = (ts, s') -> EV s ts s' (map g l).
Proof.
  intros Hf. induction l as [|x r IH]; simpl; intros s ts s' H.
  - inversion H; subst. apply EV_nil.
  - unfold bind in H. destruct (f x s) as [y s1] eqn:E1. destruct (mapM f r s1) as [ys s2] eqn:E2.
    unfold ret in H. inversion H; subst. change (y :: ys) with ([y] ++ ys)%list. change (g x :: map g r) with ([g x] ++ map g r)%list.
    eapply EV_app; eauto.
Qed.

Lemma EV_particle n s t s' : mk_particle n s = (t, s') -> EV s [t] s' [v_particle n].
Proof.
  unfold mk_particle, bind. intros H. destruct (mk_tok "LABEL" n s) as [x s1] eqn:E. eapply EV_tree; [eapply EV_tok; exact E | exact H].
Qed.
Lemma EV_value n s t s' : mk_value n s = (t, s') -> EV s [t] s' [v_value n].
Proof.
  unfold mk_value, bind. intros H. destruct (mk_tok "SIGNED_NUMBER" n s) as [x s1] eqn:E. eapply EV_tree; [eapply EV_tok; exact E | exact H].
Qed.
Lemma EV_param p s t s' : mk_param p s = (t, s') -> EV s [t] s' [enc_raw p].
Proof. destruct p; simpl; [apply EV_value | apply EV_tok]. Qed.

Lemma EV_model_children m s ch s' : mk_model_children m s = (ch, s') -> EV s ch s' (v_model_children enc_raw m).
Proof.
  destruct m as [l|n [ps|]]; simpl; unfold bind, ret; intros H.
  - destruct (mk_tok "LABEL" l s) as [x s1] eqn:E1. destruct (mk_tree "model_label" [x] s1) as [y s2] eqn:E2.
    inversion H; subst. eapply EV_tree; [eapply EV_tok; exact E1 | exact E2].
  - destruct (mk_tok "MODEL_NAME" n s) as [x s1] eqn:E1. destruct (mapM mk_param ps s1) as [os s2] eqn:E2.
    destruct (mk_tree "model_options" os s2) as [o s3] eqn:E3. inversion H; subst.
    change [x; o] with ([x] ++ [o])%list.
    change [v_tok "MODEL_NAME" n; VN "model_options" (map enc_raw ps)] with ([v_tok "MODEL_NAME" n] ++ [VN "model_options" (map enc_raw ps)])%list.
    eapply EV_app; [eapply EV_tok; exact E1|].
    eapply EV_tree; [eapply EV_mapM; [apply EV_param | exact E2] | exact E3].
  - destruct (mk_tok "MODEL_NAME" n s) as [x s1] eqn:E1. inversion H; subst. eapply EV_tok; exact E1.
Qed.

Lemma EV_model m s t s' : mk_model m s = (t, s') -> EV s [t] s' [v_model enc_raw m].
Proof.
  unfold mk_model, bind. intros H. destruct (mk_model_children m s) as [ch s1] eqn:E.
  eapply EV_tree; [eapply EV_model_children; exact E | exact H].
Qed.

Lemma EV_line d s t s' : mk_line d s = (t, s') -> EV s [t] s' [v_line enc_raw d].
Proof.
  unfold mk_line, bind. intros H.
  destruct (mk_value (d_bf d) s) as [v s1] eqn:E1. destruct (mapM mk_particle (d_fs d) s1) as [ps s2] eqn:E2.
  assert (Hv := EV_value _ _ _ _ E1). assert (Hps := EV_mapM _ _ EV_particle _ _ _ _ E2). unfold v_line.
  destruct (d_photos d).
  - destruct (mk_tree "photos" [] s2) as [x sx] eqn:Ex. unfold ret in H.
    destruct (mk_model (d_model d) sx) as [m s4] eqn:E4.
    eapply EV_tree; [|exact H]. change (v :: ps ++ [x] ++ [m])%list with ([v] ++ ps ++ [x] ++ [m])%list.
    change (v_value (d_bf d) :: map v_particle (d_fs d) ++ [VN "photos" []] ++ [v_model enc_raw (d_model d)])%list
      with ([v_value (d_bf d)] ++ map v_particle (d_fs d) ++ [VN "photos" []] ++ [v_model enc_raw (d_model d)])%list.
    eapply EV_app; [exact Hv|]. eapply EV_app; [exact Hps|].
    eapply EV_app; [eapply EV_tree; [apply EV_nil | exact Ex] | eapply EV_model; exact E4].
  - unfold ret in H. destruct (mk_model (d_model d) s2) as [m s4] eqn:E4.
    eapply EV_tree; [|exact H]. change (v :: ps ++ [] ++ [m])%list with ([v] ++ ps ++ [m])%list.
    change (v_value (d_bf d) :: map v_particle (d_fs d) ++ [] ++ [v_model enc_raw (d_model d)])%list
      with ([v_value (d_bf d)] ++ map v_particle (d_fs d) ++ [v_model enc_raw (d_model d)])%list.
    eapply EV_app; [exact Hv|]. eapply EV_app; [exact Hps | eapply EV_model; exact E4].
Qed.

Lemma EV_decay m ls s t s' : mk_decay m ls s = (t, s') -> EV s [t] s' [v_decay enc_raw m ls].
Proof.
  unfold mk_decay, bind. intros H. destruct (mk_particle m s) as [p s1] eqn:E1. destruct (mapM mk_line ls s1) as [lines s2] eqn:E2.
  eapply EV_tree; [|exact H]. change (p :: lines) with ([p] ++ lines)%list.
  change (v_particle m :: map (v_line enc_raw) ls) with ([v_particle m] ++ map (v_line enc_raw) ls)%list.
  eapply EV_app; [eapply EV_particle; exact E1 | eapply EV_mapM; [apply EV_line | exact E2]].
Qed.

Lemma EV_model_alias n m s t s' : mk_model_alias n m s = (t, s') -> EV s [t] s' [v_model_alias n m].
Proof.
  unfold mk_model_alias, bind. intros H. destruct (mk_tok "LABEL" n s) as [x s1] eqn:E1.
  destruct (mk_tree "model_label" [x] s1) as [l s2] eqn:E2. destruct (mk_model m s2) as [mm s3] eqn:E3.
  eapply EV_tree; [|exact H]. change [l; mm] with ([l] ++ [mm])%list.
  change [VN "model_label" [v_tok "LABEL" n]; v_model enc_raw m] with ([VN "model_label" [v_tok "LABEL" n]] ++ [v_model enc_raw m])%list.
  eapply EV_app; [eapply EV_tree; [eapply EV_tok; exact E1 | exact E2] | eapply EV_model; exact E3].
Qed.

Definition file_v (f : list stmt) : list vt :=
  flat_map (fun st => match st with
                      | SDecay m ls => [v_decay enc_raw m ls]
                      | SModelAlias n m => [v_model_alias n m]
                      | _ => []
                      end) f.

Lemma EV_file f : forall s F s', mk_file f s = (F, s') -> EV s F s' (file_v f).
Proof.
  induction f as [|st r IH]; simpl; intros s F s' H.
  - unfold ret in H. inversion H; subst. apply EV_nil.
  - destruct st; try (apply IH; exact H); unfold bind, ret in H.
    + destruct (mk_decay m lines s) as [t s1] eqn:E1. destruct (mk_file r s1) as [ts s2] eqn:E2. inversion H; subst.
      change (t :: ts) with ([t] ++ ts)%list. eapply EV_app; [eapply EV_decay; exact E1 | eapply IH; exact E2].
    + destruct (mk_model_alias n m s) as [t s1] eqn:E1. destruct (mk_file r s1) as [ts s2] eqn:E2. inversion H; subst.
      change (t :: ts) with ([t] ++ ts)%list. eapply EV_app; [eapply EV_model_alias; exact E1 | eapply IH; exact E2].
Qed.

(* ------------------------------------------------------------------ the kept Decay blocks *)
Definition vd_raw (t : string * list dline) : vt := v_decay enc_raw (fst t) (snd t).

Lemma filter_decay_file f : filter (vis_data "decay") (file_v f) = map vd_raw (raw_decays f).
Proof.
  induction f as [|st r IH]; [reflexivity|]. unfold file_v, raw_decays in *. cbn [flat_map].
  destruct st; cbn [app]; try exact IH.
  cbn [filter vis_data v_decay]. replace (String.eqb "decay" "decay") with true by reflexivity. cbn [map]. rewrite IH. reflexivity.
Qed.

Fixpoint vdedupe (seen : list string) (vs : list vt) : list vt :=
  match vs with
  | [] => []
  | t :: r => match vmother t with
              | Some m => if smem m seen then vdedupe seen r else t :: vdedupe (m :: seen) r
              | None => t :: vdedupe seen r
              end
  end.

Lemma dedupe_h_erase h : forall ts seen, (forall t, In t ts -> inb h t) ->
  map (erase h) (dedupe_h h seen ts) = vdedupe seen (map (erase h) ts).
Proof.
  induction ts as [|t r IH]; intros seen Hb; [reflexivity|]. cbn [dedupe_h map vdedupe].
  rewrite <- mother_of_erase by (apply Hb; left; reflexivity).
  assert (Hr : forall t, In t r -> inb h t) by (intros; apply Hb; right; assumption).
  destruct (mother_of h t) as [m|]; [destruct (smem m seen)|]; cbn [map]; rewrite ?IH by exact Hr; reflexivity.
Qed.

Lemma vmother_decay enc m ls : vmother (v_decay enc m ls) = Some m.
Proof. reflexivity. Qed.

Lemma vdedupe_decays : forall l seen, vdedupe seen (map vd_raw l) = map vd_raw (dedupe seen l).
Proof.
  induction l as [|[m ls] r IH]; intros seen; [reflexivity|]. cbn [map vdedupe dedupe]. unfold vd_raw at 1. cbn [fst snd]. rewrite vmother_decay.
  destruct (smem m seen); [apply IH|]. cbn [map]. rewrite IH. reflexivity.
Qed.

(* ------------------------------------------------------------------ the alias dictionary *)
Definition ev_dict (h : list tval) (d : pdict (list ot)) : pdict (list vt) := map (fun kv => (fst kv, map (erase h) (snd kv))) d.

Definition alias_entry_v (t : vt) : option (string * list vt) :=
  match t with
  | VN _ [l; VN _ body] => match vleafstr l with Some n => Some (n, body) | None => None end
  | _ => None
  end.

Lemma alias_entry_erase h t : inb h t ->
  option_map (fun nb => (fst nb, map (erase h) (snd nb))) (alias_entry h t) = alias_entry_v (erase h t).
Proof.
  destruct t as [|i d ch]; intros Hb; [reflexivity|].
  destruct ch as [|l [|m [|x r]]]; try reflexivity.
  - destruct m as [|j d' b]; [reflexivity|]. cbn [alias_entry erase map alias_entry_v].
    rewrite <- leafstr_erase by (eapply inb_child; [exact Hb | left; reflexivity]).
    destruct (leafstr h l); reflexivity.
  - destruct m; reflexivity.
Qed.

Lemma ev_dict_set h k v d : ev_dict h (pd_set k v d) = pd_set k (map (erase h) v) (ev_dict h d).
Proof.
  induction d as [|[k' v'] r IH]; cbn [pd_set ev_dict map fst snd]; [reflexivity|].
  destruct (String.eqb k k'); cbn [map fst snd]; [reflexivity|]. f_equal. exact IH.
Qed.

Lemma ev_dict_agree n h h' d : agree_below n h h' -> (forall i, In i (tids (vals d)) -> i < n) -> ev_dict h d = ev_dict h' d.
Proof.
  intros Ha Hb. unfold ev_dict. apply map_ext_in. intros [k v] Hin. cbn [fst snd]. f_equal.
  apply map_ext_in. intros x Hx. eapply erase_agree; [exact Ha|]. intros i Hi. apply Hb.
  unfold vals, tids. apply in_flat_map. exists x. split; [|exact Hi]. apply in_flat_map. exists (k, v). auto.
Qed.

Lemma grows_agree s s' : grows s s' -> agree_below (ntok s) (h_toks s) (h_toks s').
Proof.
  intros [ext ->]. split; [rewrite app_length; unfold ntok; lia|]. intros i Hi. rewrite app_nth1 by exact Hi. reflexivity.
Qed.

(* the pure fold the dictionary comprehension performs on the erased file *)
Definition aliases_fold (vs : list vt) (acc : pdict (list vt)) : pdict (list vt) :=
  fold_left (fun a t => if vis_data "model_alias" t then match alias_entry_v t with Some (n, b) => pd_set n b a | None => a end else a) vs acc.

Lemma dcopy_list_erase : forall l m s l' m' s',
  NoDup (tids l) -> NoDup (nids l) -> memo_free m l -> (forall i, In i (tids l) -> i < ntok s) ->
  dcopy_list l m s = (l', m', s') -> grows s s' /\ map (erase (h_toks s')) l' = map (erase (h_toks s)) l.
Proof.
  induction l as [|x r IHr]; intros m s l' m1 s1 Hdt Hdn [Hft Hfn] Hb H; simpl in H.
  - inversion H; subst. split; [apply grows_refl | reflexivity].
  - destruct (dcopy x m s) as [[x' mx] sx] eqn:Ex. destruct (dcopy_list r mx sx) as [[r' mr] sr] eqn:Er.
    inversion H; subst; clear H. rewrite tids_cons in Hdt, Hft, Hb. rewrite nids_cons in Hdn, Hfn.
    assert (Fx : memo_free m [x]).
    { split; intros j Hj; [apply Hft | apply Hfn]; apply in_or_app; left; [rewrite tids_one in Hj | rewrite nids_one in Hj]; exact Hj. }
    assert (Nx1 : NoDup (tok_ids x)) by (eapply NoDup_app_l; eauto).
    assert (Nx2 : NoDup (node_ids x)) by (eapply NoDup_app_l; eauto).
    assert (Bx : forall j, In j (tok_ids x) -> j < ntok s) by (intros j Hj; apply Hb; apply in_or_app; left; exact Hj).
    destruct (dcopy_erase x m s x' mx sx Nx1 Nx2 Fx Bx Ex) as [Gx Exx].
    destruct (dcopy_spec x m s x' mx sx Nx1 Nx2 Fx Ex) as [Ax [Gt Gn]].
    assert (Lx : ntok s <= ntok sx) by (destruct Ax as (L & _); exact L).
    destruct (IHr mx sx r' m1 s1) as [Gr Err]; try (eapply NoDup_app_r; eauto).
    + split.
      * intros j Hj. destruct (alook j (m_tok mx)) eqn:E; [|reflexivity]. exfalso.
        destruct (Gt j) as [H|H]; [rewrite E; discriminate | | ].
        -- apply H. apply Hft. apply in_or_app. right. exact Hj.
        -- rewrite tids_one in H. eapply NoDup_app_disj; [exact Hdt | exact H | exact Hj].
      * intros j Hj. destruct (alook j (m_node mx)) eqn:E; [|reflexivity]. exfalso.
        destruct (Gn j) as [H|H]; [rewrite E; discriminate | | ].
        -- apply H. apply Hfn. apply in_or_app. right. exact Hj.
        -- rewrite nids_one in H. eapply NoDup_app_disj; [exact Hdn | exact H | exact Hj].
    + intros j Hj. assert (j < ntok s) by (apply Hb; apply in_or_app; right; exact Hj). lia.
    + exact Er.
    + split; [eapply grows_trans; eauto|]. simpl. f_equal.
      * rewrite <- Exx. destruct Gr as [ext ->]. apply erase_ext. intros j Hj. apply app_nth1.
        destruct (AL_sep_bounded _ _ _ Ax) as [_ [B _]]. apply B. rewrite tids_one. exact Hj.
      * rewrite Err. destruct Gx as [ext ->]. apply erase_grow. intros j Hj. apply Hb. apply in_or_app. right. exact Hj.
Qed.

Lemma deepcopy_list_erase l s c s' :
  NoDup (tids l) -> NoDup (nids l) -> (forall i, In i (tids l) -> i < ntok s) ->
  deepcopy_list l s = (c, s') -> grows s s' /\ map (erase (h_toks s')) c = map (erase (h_toks s)) l.
Proof.
  unfold deepcopy_list. intros H1 H2 Hb H. destruct (dcopy_list l memo0 s) as [[c' m] s1] eqn:E. inversion H; subst.
  eapply dcopy_list_erase; eauto. apply memo0_free.
Qed.

Lemma agree_below_refl n h : n <= length h -> agree_below n h h.
Proof. intros H. split; [exact H | reflexivity]. Qed.

Lemma agree_below_weaken n m h h' : n <= m -> agree_below m h h' -> agree_below n h h'.
Proof. intros Hnm [L H]. split; [lia|]. intros i Hi. apply H. lia. Qed.

Lemma raw_aliases_erase lo : forall F acc s d s',
  NoDup (tids F) -> NoDup (nids F) -> (forall i, In i (tids F) -> i < ntok lo) ->
  ntok lo <= ntok s -> agree_below (ntok lo) (h_toks lo) (h_toks s) ->
  (forall i, In i (tids (vals acc)) -> i < ntok s) ->
  raw_aliases F acc s = (d, s') ->
  agree_below (ntok s) (h_toks s) (h_toks s') /\ ntok s <= ntok s' /\
  (forall i, In i (tids (vals d)) -> i < ntok s') /\
  ev_dict (h_toks s') d = aliases_fold (map (erase (h_toks lo)) F) (ev_dict (h_toks s) acc).
Proof.
  induction F as [|t r IH]; intros acc s d s' Hdt Hdn Hbt Lle Ha Hacc H; cbn [raw_aliases] in H.
  - unfold ret in H. inversion H; subst. split; [apply agree_below_refl; unfold ntok; lia|]. split; [lia|]. split; [exact Hacc | reflexivity].
  - rewrite tids_cons in Hdt, Hbt. rewrite nids_cons in Hdn.
    assert (Bt : forall i, In i (tok_ids t) -> i < ntok lo) by (intros i Hi; apply Hbt; apply in_or_app; left; exact Hi).
    assert (Et : erase (h_toks s) t = erase (h_toks lo) t) by (symmetry; eapply erase_agree; eauto).
    assert (It : inb (h_toks s) t) by (intros i Hi; specialize (Bt i Hi); unfold ntok in *; lia).
    assert (Hr : forall acc0 s0 d0 s0', ntok lo <= ntok s0 -> agree_below (ntok lo) (h_toks lo) (h_toks s0) ->
                 (forall i, In i (tids (vals acc0)) -> i < ntok s0) -> raw_aliases r acc0 s0 = (d0, s0') ->
                 agree_below (ntok s0) (h_toks s0) (h_toks s0') /\ ntok s0 <= ntok s0' /\
                 (forall i, In i (tids (vals d0)) -> i < ntok s0') /\
                 ev_dict (h_toks s0') d0 = aliases_fold (map (erase (h_toks lo)) r) (ev_dict (h_toks s0) acc0)).
    { intros. eapply IH; eauto; try (eapply NoDup_app_r; eauto). intros; apply Hbt; apply in_or_app; right; assumption. }
    cbn [map]. unfold aliases_fold. cbn [fold_left]. fold (aliases_fold (map (erase (h_toks lo)) r)).
    rewrite <- Et, <- (is_data_erase "model_alias" (h_toks s) t).
    destruct (is_data "model_alias" t); [|eapply Hr; eauto].
    rewrite <- (alias_entry_erase (h_toks s) t It).
    destruct (alias_entry (h_toks s) t) as [[n body]|] eqn:Ea; cbn [option_map fst snd]; [|eapply Hr; eauto].
    unfold bind in H. destruct (deepcopy_list body s) as [c s1] eqn:Ec.
    destruct (alias_entry_sub _ _ _ _ Ea) as (St & Sn & Nt & Nn).
    assert (Nb1 : NoDup (tids body)) by (apply Nt; eapply NoDup_app_l; eauto).
    assert (Nb2 : NoDup (nids body)) by (apply Nn; eapply NoDup_app_l; eauto).
    assert (Bb : forall i, In i (tids body) -> i < ntok s) by (intros i Hi; specialize (Bt i (St i Hi)); lia).
    destruct (deepcopy_list_erase _ _ _ _ Nb1 Nb2 Bb Ec) as [Gc Ecc].
    pose proof (AL_deepcopy_list _ _ _ _ Nb1 Nb2 Ec) as Ac. destruct (AL_sep_bounded _ _ _ Ac) as [_ [Bc _]].
    assert (Lc : ntok s <= ntok s1) by (destruct Ac as (L & _); exact L).
    pose proof (grows_agree _ _ Gc) as Ag.
    destruct (Hr (pd_set n c acc) s1 d s') as (A2 & L2 & B2 & E2); auto; try lia.
    + eapply agree_below_trans; [| exact Ha | exact Ag |]; unfold ntok in *; lia.
    + intros i Hi. destruct (in_vals_set _ _ _ _ Hi) as [H1|H1]; [apply Bc; exact H1 | specialize (Hacc i H1); lia].
    + split; [eapply agree_below_trans; [| exact Ag | exact A2 |]; unfold ntok in *; lia|]. split; [lia|]. split; [exact B2|].
      rewrite E2. rewrite ev_dict_set. rewrite Ecc. rewrite (ev_dict_agree (ntok s) (h_toks s) (h_toks s1) acc Ag Hacc). reflexivity.
Qed.

Lemma dcopy_dict_keys : forall d m s d' m' s', dcopy_dict d m s = (d', m', s') -> map fst d' = map fst d /\ map (@length ot) (map snd d') = map (@length ot) (map snd d).
Proof.
  induction d as [|[k v] r IH]; simpl; intros m s d' m' s' H.
  - inversion H; subst. split; reflexivity.
  - destruct (dcopy_list v m s) as [[v' m1] s1] eqn:Ev. destruct (dcopy_dict r m1 s1) as [[r' m2] s2] eqn:Er. inversion H; subst.
    destruct (IH _ _ _ _ _ Er) as [K L]. simpl. rewrite K, L. split; [reflexivity|]. f_equal.
    clear -Ev. revert m s v' m1 s1 Ev. induction v as [|x v IHv]; simpl; intros m s v' m1 s1 Ev.
    + inversion Ev; subst. reflexivity.
    + destruct (dcopy x m s) as [[x' mx] sx]. destruct (dcopy_list v mx sx) as [[r' mr] sr] eqn:Er. inversion Ev; subst. simpl. f_equal. eapply IHv; eauto.
Qed.

Lemma app_eq_len {A} (a a' b b' : list A) : length a = length a' -> (a ++ b = a' ++ b')%list -> a = a' /\ b = b'.
Proof.
  revert a'. induction a as [|x r IH]; intros [|x' r'] L E; simpl in *; try discriminate; [auto|].
  inversion E; subst. destruct (IH r') as [-> ->]; auto.
Qed.

(* splitting a flat list back into a dictionary of the same key / length structure *)
Lemma ev_dict_of_vals h h' d d' :
  map fst d' = map fst d -> map (@length ot) (map snd d') = map (@length ot) (map snd d) ->
  map (erase h') (vals d') = map (erase h) (vals d) -> ev_dict h' d' = ev_dict h d.
Proof.
  revert d'. induction d as [|[k v] r IH]; intros [|[k' v'] r'] K L E; simpl in K, L; try discriminate; [reflexivity|].
  inversion K; subst. inversion L as [[Lv Lr]]. rewrite !vals_cons, !map_app in E.
  assert (Ev : map (erase h') v' = map (erase h) v /\ map (erase h') (vals r') = map (erase h) (vals r)).
  { apply app_eq_len; [|exact E]. rewrite !map_length. exact Lv. }
  destruct Ev as [E1 E2]. cbn [ev_dict map fst snd]. rewrite E1. f_equal. apply IH; auto.
Qed.

(* ------------------------------------------------------------------ the Transformer, on values *)
Fixpoint vtransform (alv : pdict (list vt)) (t : vt) : vt + herr :=
  match t with
  | VT k v => inl (VT k v)
  | VN d ch =>
      match (fix go (l : list vt) : list vt + herr :=
               match l with
               | [] => inl []
               | x :: r => match vtransform alv x with
                           | inr e => inr e
                           | inl x' => match go r with inr e => inr e | inl r' => inl (x' :: r') end
                           end
               end) ch with
      | inr e => inr e
      | inl ch' =>
          if String.eqb d "model" then
            match ch' with
            | VN _ (lbl :: _) :: _ =>
                match vtokstr lbl with
                | Some name => match pd_get name alv with Some body => inl (VN "model" body) | None => inr (HValueError name) end
                | None => inr HShape
                end
            | _ => inl (VN "model" ch')
            end
          else inl (VN d ch')
      end
  end.
Fixpoint vtransform_list (alv : pdict (list vt)) (l : list vt) : list vt + herr :=
  match l with
  | [] => inl []
  | x :: r => match vtransform alv x with
              | inr e => inr e
              | inl x' => match vtransform_list alv r with inr e => inr e | inl r' => inl (x' :: r') end
              end
  end.

Lemma vtransform_node alv d ch :
  vtransform alv (VN d ch) =
  match vtransform_list alv ch with
  | inr e => inr e
  | inl ch' =>
      if String.eqb d "model" then
        match ch' with
        | VN _ (lbl :: _) :: _ =>
            match vtokstr lbl with
            | Some name => match pd_get name alv with Some body => inl (VN "model" body) | None => inr (HValueError name) end
            | None => inr HShape
            end
        | _ => inl (VN "model" ch')
        end
      else inl (VN d ch')
  end.
Proof.
  cbn [vtransform]. replace ((fix go (l : list vt) : list vt + herr := match l with
               | [] => inl []
               | x :: r => match vtransform alv x with
                           | inr e => inr e
                           | inl x' => match go r with inr e => inr e | inl r' => inl (x' :: r') end
                           end
               end) ch) with (vtransform_list alv ch); [reflexivity|].
  induction ch as [|x r IH]; [reflexivity|]. cbn [vtransform_list]. rewrite IH. reflexivity.
Qed.

Lemma ev_dict_get h al k : pd_get k (ev_dict h al) = option_map (map (erase h)) (pd_get k al).
Proof. induction al as [|[k' v] r IH]; [reflexivity|]. cbn [ev_dict map fst snd pd_get]. destruct (String.eqb k k'); [reflexivity | exact IH]. Qed.

Lemma get_in_vals (al : pdict (list ot)) k body a : pd_get k al = Some body -> In a (tids body) -> In a (tids (vals al)).
Proof.
  intros Hg Ha. apply pd_get_some_in in Hg. unfold vals, tids. apply in_flat_map in Ha. destruct Ha as (x & Hx & Hax).
  apply in_flat_map. exists x. split; [|exact Hax]. apply in_flat_map. exists (k, body). auto.
Qed.

Definition res_rel (h : list tval) (r : ot + herr) (v : vt + herr) : Prop :=
  match r, v with inl t, inl x => erase h t = x | inr e, inr e' => e = e' | _, _ => False end.
Definition resl_rel (h : list tval) (r : list ot + herr) (v : list vt + herr) : Prop :=
  match r, v with inl t, inl x => map (erase h) t = x | inr e, inr e' => e = e' | _, _ => False end.

Lemma transform_erase al : al_ok al -> forall t s r s',
  NoDup (tok_ids t) -> (forall i, In i (tok_ids t) -> i < ntok s) -> (forall i, In i (tids (vals al)) -> i < ntok s) ->
  transform al t s = (r, s') ->
  grows s s' /\ res_rel (h_toks s') r (vtransform (ev_dict (h_toks s) al) (erase (h_toks s) t)).
Proof.
  intros Hal. induction t as [i k|i d ch IH] using ot_ind'; intros s r s' Hnd Hb Hba H.
  - simpl in H. unfold retE in H. inversion H; subst. split; [apply grows_refl | reflexivity].
  - cbn [transform] in H. unfold bindE at 1 in H. cbn [erase]. rewrite vtransform_node.
    match type of H with context [?g ch s] => destruct (g ch s) as [rc s1] eqn:Ego end.
    assert (Hch : grows s s1 /\ resl_rel (h_toks s1) rc (vtransform_list (ev_dict (h_toks s) al) (map (erase (h_toks s)) ch)) /\
                  (forall ch', rc = inl ch' -> TL s ch ch' s1)).
    { clear H. revert s rc s1 Hb Hba Ego. simpl in Hnd. fold (tids ch) in Hnd. simpl. fold (tids ch).
      induction ch as [|x r0 IHr]; intros s rc s1 Hb Hba Ego.
      - unfold retE in Ego. inversion Ego; subst. split; [apply grows_refl|]. split; [reflexivity|]. intros ch' E. inversion E; subst. apply TL_nil.
      - inversion IH as [|? ? Hx HFr]; subst. unfold bindE at 1 in Ego. rewrite tids_cons in Hnd, Hb.
        assert (Nx : NoDup (tok_ids x)) by (eapply NoDup_app_l; eauto).
        assert (Bx : forall j, In j (tok_ids x) -> j < ntok s) by (intros j Hj; apply Hb; apply in_or_app; left; exact Hj).
        destruct (transform al x s) as [[x'|e] sx] eqn:Ex.
        + destruct (Hx s (inl x') sx Nx Bx Hba Ex) as [Gx Rx].
          pose proof (transform_spec al Hal x s x' sx Nx Bx Ex) as Tx.
          assert (Lx : ntok s <= ntok sx) by (destruct Tx as (L & _); exact L).
          pose proof (grows_agree _ _ Gx) as Agx.
          unfold bindE at 1 in Ego.
          match type of Ego with context [?g r0 sx] => destruct (g r0 sx) as [rr sr] eqn:Er end.
          assert (Br : forall j, In j (tids r0) -> j < ntok sx).
          { intros j Hj. assert (j < ntok s) by (apply Hb; apply in_or_app; right; exact Hj). lia. }
          assert (Bal : forall j, In j (tids (vals al)) -> j < ntok sx) by (intros j Hj; specialize (Hba j Hj); lia).
          destruct (IHr HFr (NoDup_app_r _ _ Hnd) sx rr sr Br Bal Er) as (Gr & Rr & Tr).
          assert (Eal : ev_dict (h_toks sx) al = ev_dict (h_toks s) al).
          { symmetry. apply (ev_dict_agree (ntok s)); [exact Agx | exact Hba]. }
          assert (Er0 : map (erase (h_toks sx)) r0 = map (erase (h_toks s)) r0).
          { symmetry. apply erase_list_ext. intros j Hj. destruct Agx as [_ Hag]. apply Hag. apply Hb. apply in_or_app. right. exact Hj. }
          rewrite Eal, Er0 in Rr.
          cbn [map vtransform_list]. unfold res_rel in Rx.
          destruct (vtransform (ev_dict (h_toks s) al) (erase (h_toks s) x)) as [vx|ve]; [|contradiction].
          destruct rr as [r'|e].
          * unfold retE in Ego. inversion Ego; subst; clear Ego. split; [eapply grows_trans; eauto|]. split.
            -- unfold resl_rel in *. destruct (vtransform_list _ _) as [vr|]; [|contradiction]. cbn [map]. f_equal; [|exact Rr].
               destruct Gr as [ext ->]. apply erase_ext. intros j Hj. apply app_nth1.
               destruct Tx as (_ & _ & _ & I & _). destruct (I j) as [Hs|Hf]; [rewrite tids_one; exact Hj | | unfold ntok in *; lia].
               rewrite tids_one in Hs. specialize (Bx j Hs). unfold ntok in *. lia.
            -- intros ch' E. inversion E; subst. change (x :: r0) with ([x] ++ r0)%list. change (x' :: r') with ([x'] ++ r')%list.
               eapply TL_app; [| | exact Tx | apply Tr; reflexivity]; rewrite tids_app, tids_one; auto.
          * inversion Ego; subst; clear Ego. split; [eapply grows_trans; eauto|]. split.
            -- unfold resl_rel in *. destruct (vtransform_list _ _) as [vr|e']; [contradiction | exact Rr].
            -- intros ch' E. discriminate.
        + destruct (Hx s (inr e) sx Nx Bx Hba Ex) as [Gx Rx]. inversion Ego; subst; clear Ego.
          split; [exact Gx|]. split; [|intros ch' E; discriminate].
          cbn [map vtransform_list]. unfold res_rel in Rx. destruct (vtransform _ _) as [vx|ve]; [contradiction | exact Rx]. }
    destruct Hch as (G1 & R1 & T1).
    destruct rc as [ch'|e].
    2:{ unfold resl_rel in R1. destruct (vtransform_list _ _) as [|e']; [contradiction|].
        injection H as Hr Hs. subst r s'. split; [exact G1 | simpl; exact R1]. }
    unfold resl_rel in R1. destruct (vtransform_list (ev_dict (h_toks s) al) (map (erase (h_toks s)) ch)) as [vch|]; [|contradiction].
    specialize (T1 ch' eq_refl).
    assert (Hdef : forall d0 r0 s0, liftE (mk_tree d0 ch') s1 = (r0, s0) -> grows s s0 /\ res_rel (h_toks s0) r0 (inl (VN d0 vch))).
    { intros d0 r0 s0 Hm. unfold liftE, mk_tree in Hm. injection Hm as Hr Hs. subst r0 s0. split; [exact G1|]. simpl. rewrite R1. reflexivity. }
    destruct (String.eqb d "model") eqn:Ed; [|eapply Hdef; exact H].
    apply String.eqb_eq in Ed. subst d.
    destruct ch' as [|c0 ch'']; [subst vch; eapply Hdef; exact H|].
    destruct c0 as [j k|j dj [|lbl rest]]; cbn [map erase] in R1; subst vch; try (eapply Hdef; exact H).
    (* a model_label: the alias body is spliced in, as a fresh copy *)
    assert (Bl : inb (h_toks s1) lbl).
    { intros a Ha. destruct T1 as (_ & _ & _ & I & _). destruct (I a) as [Hs|Hf].
      - rewrite tids_cons. apply in_or_app. left. simpl. apply in_or_app. left. exact Ha.
      - assert (a < ntok s) by (apply Hb; exact Hs). destruct G1 as [ext ->]. rewrite app_length. unfold ntok in *. lia.
      - unfold ntok in *. lia. }
    rewrite <- (tokstr_erase _ _ Bl).
    destruct (tokstr (h_toks s1) lbl) as [name|]; [|inversion H; subst; split; [exact G1 | reflexivity]].
    rewrite ev_dict_get. destruct (pd_get name al) as [body|] eqn:Eg; cbn [option_map]; [|inversion H; subst; split; [exact G1 | reflexivity]].
    destruct (Hal _ _ Eg) as [Nt Nn].
    unfold bindE, liftE in H. destruct (deepcopy_list body s1) as [b s2] eqn:Eb.
    unfold mk_tree in H. inversion H; subst; clear H.
    assert (L1 : ntok s <= ntok s1) by (destruct T1 as (L & _); exact L).
    assert (Bb0 : forall a, In a (tids body) -> a < ntok s) by (intros a Ha; apply Hba; eapply get_in_vals; eauto).
    assert (Bb : forall a, In a (tids body) -> a < ntok s1) by (intros a Ha; specialize (Bb0 a Ha); lia).
    destruct (deepcopy_list_erase _ _ _ _ Nt Nn Bb Eb) as [G2 E2].
    split; [eapply grows_trans; eauto|]. simpl. rewrite E2.
    assert (E3 : map (erase (h_toks s1)) body = map (erase (h_toks s)) body).
    { symmetry. apply erase_list_ext. intros a Ha. destruct (grows_agree _ _ G1) as [_ Hag]. apply Hag. apply Bb0. exact Ha. }
    rewrite E3. reflexivity.
Qed.

(* ------------------------------------------------------------------ the value visitor, on values *)
Definition conv_label (defs : pdict Q) (s : string) : tval :=
  match s with
  | String c rest =>
      if is_c c "-" then match pd_get rest defs with Some v => TQ (- v)%Q | None => TS s end
      else match pd_get s defs with Some v => TQ v | None => TS s end
  | EmptyString => TS s
  end.
Definition vreplace (defs : pdict Q) (c : vt) : vt :=
  match c with
  | VN d (VT k (TS lit) :: rest) => VN d (VT k (TQ (numq lit)) :: rest)
  | VT k (TS s) => VT k (conv_label defs s)
  | _ => c
  end.
Fixpoint vvisit (defs : pdict Q) (t : vt) : vt :=
  match t with
  | VT k v => VT k v
  | VN d ch => if String.eqb "model_options" d then VN d (map (vreplace defs) ch) else VN d (map (vvisit defs) ch)
  end.

Definition child_ok (c : vt) : bool :=
  match c with VN _ (VT _ (TS _) :: _) => true | VT _ (TS (String _ _)) => true | _ => false end.
Fixpoint vok (t : vt) : bool :=
  match t with
  | VT _ _ => true
  | VN d ch => if String.eqb "model_options" d then forallb child_ok ch else forallb vok ch
  end.

Definition frame (ids : list nat) (h h' : list tval) : Prop :=
  length h' = length h /\ forall j, ~ In j ids -> nth j h' (TS "") = nth j h (TS "").

Lemma frame_refl ids h : frame ids h h.
Proof. split; reflexivity. Qed.
Lemma frame_trans a b h1 h2 h3 : frame a h1 h2 -> frame b h2 h3 -> frame (a ++ b) h1 h3.
Proof.
  intros [L1 F1] [L2 F2]. split; [lia|]. intros j Hj. rewrite F2, F1; [reflexivity | |]; intros Hin; apply Hj; apply in_or_app; auto.
Qed.
Lemma frame_erase ids h h' t : frame ids h h' -> (forall i, In i (tok_ids t) -> ~ In i ids) -> erase h' t = erase h t.
Proof. intros [_ F] Hd. apply erase_ext. intros i Hi. apply F. apply Hd. exact Hi. Qed.

Lemma nth_error_nth_some {A} (l : list A) i d : i < length l -> nth_error l i = Some (nth i l d).
Proof. apply nth_error_nth'. Qed.

Lemma replace_child_ok defs c h :
  NoDup (tok_ids c) -> inb h c -> child_ok (erase h c) = true ->
  exists h', replace_child defs c h = inl h' /\ erase h' c = vreplace defs (erase h c) /\ frame (tok_ids c) h h'.
Proof.
  intros Hnd Hb Hok. destruct c as [i k|i d [|[j k|? ? ?] rest]]; simpl in Hok; try discriminate.
  - assert (Hi : i < length h) by (apply Hb; simpl; auto).
    cbn [replace_child]. rewrite (nth_error_nth_some h i (TS "") Hi). destruct (nth i h (TS "")) as [[|a s]|q] eqn:En; try discriminate.
    cbn [erase vreplace conv_label]. rewrite En. cbn [vreplace conv_label].
    destruct (is_c a "-").
    + destruct (pd_get s defs) as [v|].
      * eexists. split; [reflexivity|]. split; [simpl; rewrite nth_upd_same by exact Hi; reflexivity|].
        split; [apply upd_length|]. intros j0 Hj. apply nth_upd_other. intros ->. apply Hj. simpl. auto.
      * eexists. split; [reflexivity|]. split; [simpl; rewrite En; reflexivity | apply frame_refl].
    + destruct (pd_get (String a s) defs) as [v|].
      * eexists. split; [reflexivity|]. split; [simpl; rewrite nth_upd_same by exact Hi; reflexivity|].
        split; [apply upd_length|]. intros j0 Hj. apply nth_upd_other. intros ->. apply Hj. simpl. auto.
      * eexists. split; [reflexivity|]. split; [simpl; rewrite En; reflexivity | apply frame_refl].
  - assert (Hj : j < length h) by (apply Hb; simpl; auto).
    cbn [replace_child]. rewrite (nth_error_nth_some h j (TS "") Hj). destruct (nth j h (TS "")) as [lit|q] eqn:En; try discriminate.
    eexists. split; [reflexivity|]. simpl in Hnd. inversion Hnd as [|? ? Hni Hnd']; subst. split.
    + cbn [erase map vreplace]. rewrite En. cbn [vreplace]. rewrite nth_upd_same by exact Hj. f_equal. f_equal.
      apply map_ext_in. intros x Hx. apply erase_ext. intros a Ha. apply nth_upd_other. intros ->. apply Hni. apply in_flat_map. exists x. auto.
    + split; [apply upd_length|]. intros j0 Hj0. apply nth_upd_other. intros ->. apply Hj0. simpl. auto.
Qed.

Lemma foldE_children defs : forall cs h,
  NoDup (tids cs) -> (forall c, In c cs -> inb h c) -> forallb child_ok (map (erase h) cs) = true ->
  exists h', foldE (replace_child defs) cs h = inl h' /\ map (erase h') cs = map (vreplace defs) (map (erase h) cs) /\ frame (tids cs) h h'.
Proof.
  induction cs as [|c r IH]; intros h Hnd Hb Hok.
  - exists h. split; [reflexivity|]. split; [reflexivity | apply frame_refl].
  - rewrite tids_cons in Hnd. cbn [map forallb] in Hok. apply andb_true_iff in Hok. destruct Hok as [Oc Or].
    destruct (replace_child_ok defs c h (NoDup_app_l _ _ Hnd) (Hb c (or_introl eq_refl)) Oc) as (h1 & E1 & V1 & F1).
    assert (Er : map (erase h1) r = map (erase h) r).
    { apply map_ext_in. intros x Hx. eapply frame_erase; [exact F1|]. intros i Hi Hc. eapply NoDup_app_disj; [exact Hnd | exact Hc|].
      unfold tids. apply in_flat_map. exists x. auto. }
    destruct (IH h1) as (h2 & E2 & V2 & F2).
    + eapply NoDup_app_r; eauto.
    + intros x Hx i Hi. destruct F1 as [L _]. rewrite L. apply (Hb x (or_intror Hx)). exact Hi.
    + rewrite Er. exact Or.
    + exists h2. split; [cbn [foldE]; rewrite E1; exact E2|]. split.
      * cbn [map]. f_equal; [|rewrite V2, Er; reflexivity]. rewrite <- V1. eapply frame_erase; [exact F2|].
        intros i Hi Hc. eapply NoDup_app_disj; [exact Hnd | exact Hi | exact Hc].
      * rewrite tids_cons. eapply frame_trans; eauto.
Qed.

(* a model_options node's visited children are its children; elsewhere the visited children of the sub-trees, in order *)
Lemma visited_raw_mo i ch : Forall plain ch -> visited_raw (OTree i "model_options" ch) = ch.
Proof.
  intros Hp. unfold visited_raw. cbn [subtrees_named]. replace (String.eqb "model_options" "model_options") with true by reflexivity.
  assert (E : flat_map (subtrees_named "model_options") ch = []).
  { induction ch as [|x r IHr]; [reflexivity|]. inversion Hp; subst. simpl. rewrite plain_no_mo by assumption. simpl. auto. }
  rewrite E. simpl. apply app_nil_r.
Qed.
Lemma visited_raw_other i d ch : String.eqb "model_options" d = false -> visited_raw (OTree i d ch) = flat_map visited_raw ch.
Proof.
  intros Hd. unfold visited_raw. cbn [subtrees_named]. rewrite Hd. cbn [app]. rewrite flat_map_flat_map. reflexivity.
Qed.

Definition visit_pre (h : list tval) (t : ot) : Prop :=
  mo_ok t /\ NoDup (tok_ids t) /\ inb h t /\ vok (erase h t) = true.

Lemma vok_children h i d ch : String.eqb "model_options" d = false -> vok (erase h (OTree i d ch)) = true -> forall x, In x ch -> vok (erase h x) = true.
Proof.
  intros Hd H x Hx. cbn [erase vok] in H. rewrite Hd in H. rewrite forallb_forall in H. apply H. apply in_map. exact Hx.
Qed.

Lemma visit_tree defs : forall t h, visit_pre h t ->
  exists h', foldE (replace_child defs) (visited_raw t) h = inl h' /\ erase h' t = vvisit defs (erase h t) /\ frame (tok_ids t) h h'.
Proof.
  induction t as [i k|i d ch IH] using ot_ind'; intros h (Hok & Hnd & Hb & Hv).
  - exists h. split; [reflexivity|]. split; [reflexivity | apply frame_refl].
  - destruct (String.eqb "model_options" d) eqn:Ed.
    + apply String.eqb_eq in Ed. subst d. pose proof (mo_ok_plain_children _ _ Hok) as Hp.
      rewrite (visited_raw_mo _ _ Hp). cbn [erase vok] in Hv. replace (String.eqb "model_options" "model_options") with true in Hv by reflexivity.
      destruct (foldE_children defs ch h) as (h' & E & V & F); [exact Hnd | intros c Hc; eapply inb_child; eauto | exact Hv|].
      exists h'. split; [exact E|]. split; [|exact F]. cbn [erase vvisit]. replace (String.eqb "model_options" "model_options") with true by reflexivity.
      rewrite V. reflexivity.
    + rewrite (visited_raw_other _ _ _ Ed). cbn [erase vvisit]. rewrite Ed.
      pose proof (mo_ok_children _ _ _ Hok) as Hch. simpl in Hnd. fold (tids ch) in Hnd.
      assert (Hbc : forall x, In x ch -> inb h x) by (intros x Hx; eapply inb_child; eauto).
      pose proof (vok_children h i d ch Ed Hv) as Hvc.
      cut (exists h', foldE (replace_child defs) (flat_map visited_raw ch) h = inl h' /\
                      map (erase h') ch = map (vvisit defs) (map (erase h) ch) /\ frame (tids ch) h h').
      { intros (h' & E & V & F). exists h'. split; [exact E|]. split; [rewrite V; reflexivity | exact F]. }
      clear Hok Hb Hv Ed. revert h Hbc Hvc. revert IH Hch Hnd. induction ch as [|x r IHr]; intros IH Hch Hnd h Hbc Hvc.
      * exists h. split; [reflexivity|]. split; [reflexivity | apply frame_refl].
      * inversion IH as [|? ? Hx HFr]; subst. inversion Hch as [|? ? Ox Or]; subst. rewrite tids_cons in Hnd.
        destruct (Hx h) as (h1 & E1 & V1 & F1).
        { split; [exact Ox|]. split; [eapply NoDup_app_l; eauto|]. split; [apply Hbc; left; reflexivity | apply Hvc; left; reflexivity]. }
        assert (Er : map (erase h1) r = map (erase h) r).
        { apply map_ext_in. intros y Hy. eapply frame_erase; [exact F1|]. intros a Ha Hc. eapply NoDup_app_disj; [exact Hnd | exact Hc|].
          unfold tids. apply in_flat_map. exists y. auto. }
        destruct (IHr HFr Or (NoDup_app_r _ _ Hnd) h1) as (h2 & E2 & V2 & F2).
        { intros y Hy a Ha. destruct F1 as [L _]. rewrite L. apply (Hbc y (or_intror Hy)). exact Ha. }
        { intros y Hy. assert (Ey : erase h1 y = erase h y).
          { eapply frame_erase; [exact F1|]. intros a Ha Hc. eapply NoDup_app_disj; [exact Hnd | exact Hc|]. unfold tids. apply in_flat_map. exists y. auto. }
          rewrite Ey. apply Hvc. right. exact Hy. }
        exists h2. split; [cbn [flat_map]; rewrite foldE_app, E1; exact E2|]. split.
        -- cbn [map]. f_equal; [|rewrite V2, Er; reflexivity]. rewrite <- V1. eapply frame_erase; [exact F2|].
           intros a Ha Hc. eapply NoDup_app_disj; [exact Hnd | exact Ha | exact Hc].
        -- eapply frame_trans; eauto.
Qed.

Lemma visit_trees defs : forall ts h, NoDup (tids ts) -> (forall t, In t ts -> mo_ok t /\ inb h t /\ vok (erase h t) = true) ->
  exists h', foldE (replace_child defs) (flat_map visited_raw ts) h = inl h' /\
             map (erase h') ts = map (vvisit defs) (map (erase h) ts) /\ frame (tids ts) h h'.
Proof.
  induction ts as [|x r IHr]; intros h Hnd Hpre.
  - exists h. split; [reflexivity|]. split; [reflexivity | apply frame_refl].
  - rewrite tids_cons in Hnd. destruct (Hpre x (or_introl eq_refl)) as (Ox & Bx & Vx).
    destruct (visit_tree defs x h) as (h1 & E1 & V1 & F1).
    { split; [exact Ox|]. split; [eapply NoDup_app_l; eauto|]. split; assumption. }
    assert (Efr : forall y, In y r -> erase h1 y = erase h y).
    { intros y Hy. eapply frame_erase; [exact F1|]. intros a Ha Hc. eapply NoDup_app_disj; [exact Hnd | exact Hc|]. unfold tids. apply in_flat_map. exists y. auto. }
    destruct (IHr h1 (NoDup_app_r _ _ Hnd)) as (h2 & E2 & V2 & F2).
    { intros y Hy. destruct (Hpre y (or_intror Hy)) as (Oy & By & Vy). split; [exact Oy|]. split.
      - intros a Ha. destruct F1 as [L _]. rewrite L. apply By. exact Ha.
      - rewrite (Efr y Hy). exact Vy. }
    exists h2. split; [cbn [flat_map]; rewrite foldE_app, E1; exact E2|]. split.
    + cbn [map]. f_equal.
      * rewrite <- V1. eapply frame_erase; [exact F2|]. intros a Ha Hc. eapply NoDup_app_disj; [exact Hnd | exact Ha | exact Hc].
      * rewrite V2. f_equal. apply map_ext_in. intros y Hy. apply Efr. exact Hy.
    + eapply frame_trans; eauto.
Qed.

(* with distinct Tree identities the de-duplication of iter_subtrees changes nothing *)
Lemma subtrees_ids_sublist d : forall t, sublist (map node_id (subtrees_named d t)) (node_ids t).
Proof.
  induction t as [i k|i d' ch IH] using ot_ind'; [constructor|]. cbn [subtrees_named node_ids].
  assert (Hc : sublist (map node_id (flat_map (subtrees_named d) ch)) (flat_map node_ids ch)).
  { induction ch as [|x r IHr]; [constructor|]. inversion IH; subst. cbn [flat_map]. rewrite map_app. apply sublist_app2; auto. }
  destruct (String.eqb d d'); cbn [app map node_id]; [apply sub_keep | apply sub_skip]; exact Hc.
Qed.

Lemma dedupe_nodes_id : forall l seen, NoDup (map node_id l) -> (forall x, In x l -> ~ In (node_id x) seen) -> dedupe_nodes seen l = l.
Proof.
  induction l as [|x r IH]; intros seen Hnd Hs; [reflexivity|]. cbn [dedupe_nodes]. cbn [map] in Hnd. inversion Hnd as [|? ? Hni Hnd']; subst.
  destruct (existsb (Nat.eqb (node_id x)) seen) eqn:E.
  - exfalso. apply existsb_exists in E. destruct E as (y & Hy & Heq). apply Nat.eqb_eq in Heq. subst y. apply (Hs x (or_introl eq_refl)). exact Hy.
  - f_equal. apply IH; [exact Hnd'|]. intros y Hy [Heq|Hin]; [apply Hni; rewrite Heq; apply in_map; exact Hy | apply (Hs y (or_intror Hy)); exact Hin].
Qed.

Lemma visited_eq_raw t : NoDup (node_ids t) -> visited t = visited_raw t.
Proof.
  intros Hnd. unfold visited, visited_raw. rewrite dedupe_nodes_id; [reflexivity | | intros x _ []].
  eapply sublist_nodup; [apply subtrees_ids_sublist | exact Hnd].
Qed.

Lemma flat_map_ext_in' {A B} (f g : A -> list B) l : (forall x, In x l -> f x = g x) -> flat_map f l = flat_map g l.
Proof. induction l as [|x r IH]; simpl; intros H; [reflexivity|]. rewrite H by auto. rewrite IH; auto. Qed.

(* the whole visitor pass *)
Theorem visit_pass defs D h :
  NoDup (tids D) -> NoDup (nids D) -> (forall t, In t D -> mo_ok t /\ inb h t /\ vok (erase h t) = true) ->
  exists h', foldE (visit_params defs) D h = inl h' /\ map (erase h') D = map (vvisit defs) (map (erase h) D) /\ frame (tids D) h h'.
Proof.
  intros Ht Hn Hpre. rewrite visit_all_flat.
  assert (E : flat_map visited D = flat_map visited_raw D).
  { apply flat_map_ext_in'. intros t Hin. apply visited_eq_raw. eapply (nodup_flat_in node_ids); eauto. }
  rewrite E. apply visit_trees; assumption.
Qed.

(* ================================================================== pure side: the value trees against Dec/Post.v *)
Definition mapv {A B} (g : A -> B) (d : pdict A) : pdict B := map (fun kv => (fst kv, g (snd kv))) d.

Lemma mapv_set {A B} (g : A -> B) k v (d : pdict A) : mapv g (pd_set k v d) = pd_set k (g v) (mapv g d).
Proof.
  induction d as [|[k' v'] r IH]; cbn [pd_set mapv map fst snd]; [reflexivity|].
  destruct (String.eqb k k'); cbn [map fst snd]; [reflexivity|]. f_equal. exact IH.
Qed.
Lemma mapv_get {A B} (g : A -> B) k (d : pdict A) : pd_get k (mapv g d) = option_map g (pd_get k d).
Proof. induction d as [|[k' v'] r IH]; [reflexivity|]. cbn [mapv map fst snd pd_get]. destruct (String.eqb k k'); [reflexivity | exact IH]. Qed.

Definition alias_pairs (f : list stmt) : list (string * dmodel) :=
  flat_map (fun s => match s with SModelAlias n m => [(n, m)] | _ => [] end) f.

Lemma aliases_fold_file : forall f acc,
  aliases_fold (file_v f) (mapv (v_model_children enc_raw) acc) =
  mapv (v_model_children enc_raw) (fold_left (fun a kv => pd_set (fst kv) (snd kv) a) (alias_pairs f) acc).
Proof.
  induction f as [|st r IH]; intros acc; [reflexivity|]. unfold file_v, alias_pairs in *. cbn [flat_map].
  destruct st; cbn [app]; try apply IH.
  unfold aliases_fold in *. cbn [fold_left fst snd].
    change (vis_data "model_alias" (v_model_alias n m)) with true.
    change (alias_entry_v (v_model_alias n m)) with (Some (n, v_model_children enc_raw m)). cbn iota. rewrite <- mapv_set. apply IH.
Qed.

Lemma model_aliases_of_fold f : model_aliases_of f = fold_left (fun a kv => pd_set (fst kv) (snd kv) a) (alias_pairs f) [].
Proof. reflexivity. Qed.

(* --- the Transformer on the trees of the file --- *)
Definition expand_model (mal : pdict dmodel) (m : dmodel) : dmodel + herr :=
  match m with
  | MLabel l => match pd_get l mal with Some m' => inl m' | None => inr (HValueError l) end
  | _ => inl m
  end.
Definition expand_line (mal : pdict dmodel) (d : dline) : dline + herr :=
  match expand_model mal (d_model d) with
  | inl m' => inl {| d_bf := d_bf d; d_fs := d_fs d; d_photos := d_photos d; d_model := m' |}
  | inr e => inr e
  end.
Fixpoint mapH {A B} (f : A -> B + herr) (l : list A) : list B + herr :=
  match l with
  | [] => inl []
  | x :: r => match f x with inr e => inr e | inl y => match mapH f r with inr e => inr e | inl ys => inl (y :: ys) end end
  end.

Lemma vtransform_list_id alv l : Forall (fun x => vtransform alv x = inl x) l -> vtransform_list alv l = inl l.
Proof. induction 1 as [|x r Hx Hr IH]; [reflexivity|]. cbn [vtransform_list]. rewrite Hx, IH. reflexivity. Qed.

Lemma vtransform_list_app alv a b :
  vtransform_list alv (a ++ b) = match vtransform_list alv a with
                                 | inr e => inr e
                                 | inl a' => match vtransform_list alv b with inr e => inr e | inl b' => inl (a' ++ b')%list end
                                 end.
Proof.
  induction a as [|x r IH]; cbn [app vtransform_list]; [destruct (vtransform_list alv b); reflexivity|].
  destruct (vtransform alv x); [|reflexivity]. rewrite IH. destruct (vtransform_list alv r); [|reflexivity].
  destruct (vtransform_list alv b); reflexivity.
Qed.

Lemma vtransform_value alv lit : vtransform alv (v_value lit) = inl (v_value lit).
Proof. reflexivity. Qed.
Lemma vtransform_particle alv n : vtransform alv (v_particle n) = inl (v_particle n).
Proof. reflexivity. Qed.
Lemma vtransform_enc alv p : vtransform alv (enc_raw p) = inl (enc_raw p).
Proof. destruct p; reflexivity. Qed.

Lemma vtransform_model mal m :
  vtransform (mapv (v_model_children enc_raw) mal) (v_model enc_raw m) =
  match expand_model mal m with inl m' => inl (v_model enc_raw m') | inr e => inr e end.
Proof.
  destruct m as [l|n [ps|]].
  - unfold v_model. rewrite vtransform_node. cbn [v_model_children vtransform_list]. 
    replace (vtransform (mapv (v_model_children enc_raw) mal) (VN "model_label" [v_tok "LABEL" l])) with (@inl vt herr (VN "model_label" [v_tok "LABEL" l])) by reflexivity.
    replace (String.eqb "model" "model") with true by reflexivity. cbn [vtokstr vtokval v_tok]. rewrite mapv_get. cbn [expand_model].
    destruct (pd_get l mal); reflexivity.
  - unfold v_model. rewrite vtransform_node. cbn [v_model_children vtransform_list].
    replace (vtransform (mapv (v_model_children enc_raw) mal) (v_tok "MODEL_NAME" n)) with (@inl vt herr (v_tok "MODEL_NAME" n)) by reflexivity.
    rewrite vtransform_node. rewrite vtransform_list_id by (apply Forall_forall; intros x Hx; apply in_map_iff in Hx; destruct Hx as (p & <- & _); apply vtransform_enc).
    replace (String.eqb "model_options" "model") with false by reflexivity. replace (String.eqb "model" "model") with true by reflexivity. reflexivity.
  - reflexivity.
Qed.

Lemma vtransform_line mal d :
  vtransform (mapv (v_model_children enc_raw) mal) (v_line enc_raw d) =
  match expand_line mal d with inl d' => inl (v_line enc_raw d') | inr e => inr e end.
Proof.
  unfold v_line. rewrite vtransform_node. replace (String.eqb "decayline" "model") with false by reflexivity.
  change (v_value (d_bf d) :: map v_particle (d_fs d) ++ (if d_photos d then [VN "photos" []] else []) ++ [v_model enc_raw (d_model d)])%list
    with ([v_value (d_bf d)] ++ map v_particle (d_fs d) ++ (if d_photos d then [VN "photos" []] else []) ++ [v_model enc_raw (d_model d)])%list.
  rewrite !vtransform_list_app. cbn [vtransform_list]. rewrite vtransform_value.
  rewrite vtransform_list_id by (apply Forall_forall; intros x Hx; apply in_map_iff in Hx; destruct Hx as (p & <- & _); apply vtransform_particle).
  assert (Hph : vtransform_list (mapv (v_model_children enc_raw) mal) (if d_photos d then [VN "photos" []] else []) = inl (if d_photos d then [VN "photos" []] else [])).
  { destruct (d_photos d); reflexivity. }
  rewrite Hph. rewrite vtransform_model. unfold expand_line. destruct (expand_model mal (d_model d)); reflexivity.
Qed.

Lemma vtransform_lines mal ls :
  vtransform_list (mapv (v_model_children enc_raw) mal) (map (v_line enc_raw) ls) =
  match mapH (expand_line mal) ls with inl ls' => inl (map (v_line enc_raw) ls') | inr e => inr e end.
Proof.
  induction ls as [|d r IH]; [reflexivity|]. cbn [map vtransform_list mapH]. rewrite vtransform_line.
  destruct (expand_line mal d); [|reflexivity]. rewrite IH. destruct (mapH (expand_line mal) r); reflexivity.
Qed.

Lemma vtransform_decay mal m ls :
  vtransform (mapv (v_model_children enc_raw) mal) (v_decay enc_raw m ls) =
  match mapH (expand_line mal) ls with inl ls' => inl (v_decay enc_raw m ls') | inr e => inr e end.
Proof.
  unfold v_decay. rewrite vtransform_node. cbn [vtransform_list]. rewrite vtransform_particle, vtransform_lines.
  replace (String.eqb "decay" "model") with false by reflexivity. destruct (mapH (expand_line mal) ls); reflexivity.
Qed.

(* --- the value visitor on the trees of the file --- *)
Definition enc_res (defs : pdict Q) (p : param) : vt := vreplace defs (enc_raw p).

Lemma vvisit_list_id defs l : Forall (fun x => vvisit defs x = x) l -> map (vvisit defs) l = l.
Proof. induction 1 as [|x r Hx Hr IH]; [reflexivity|]. cbn [map]. rewrite Hx, IH. reflexivity. Qed.

Lemma vvisit_model defs m : vvisit defs (v_model enc_raw m) = v_model (enc_res defs) m.
Proof.
  destruct m as [l|n [ps|]]; try reflexivity.
  unfold v_model. cbn [v_model_children vvisit map v_tok]. replace (String.eqb "model_options" "model") with false by reflexivity.
  cbn [map vvisit]. replace (String.eqb "model_options" "model_options") with true by reflexivity. rewrite map_map. reflexivity.
Qed.

Lemma vvisit_line defs d : vvisit defs (v_line enc_raw d) = v_line (enc_res defs) d.
Proof.
  unfold v_line. cbn [vvisit]. replace (String.eqb "model_options" "decayline") with false by reflexivity. f_equal.
  cbn [map]. f_equal. rewrite !map_app. cbn [map]. rewrite vvisit_model. f_equal; [|f_equal].
  - apply vvisit_list_id. apply Forall_forall. intros x Hx. apply in_map_iff in Hx. destruct Hx as (p & <- & _). reflexivity.
  - destruct (d_photos d); reflexivity.
Qed.

Lemma vvisit_decay defs m ls : vvisit defs (v_decay enc_raw m ls) = v_decay (enc_res defs) m ls.
Proof.
  unfold v_decay. cbn [vvisit]. replace (String.eqb "model_options" "decay") with false by reflexivity. f_equal. cbn [map]. f_equal.
  rewrite map_map. apply map_ext. intros d. apply vvisit_line.
Qed.

Definition param_ok (p : param) : bool := match p with PLit _ => true | PLabel (String _ _) => true | PLabel EmptyString => false end.
Definition model_ok (m : dmodel) : bool := match m with MName _ (Some ps) => forallb param_ok ps | _ => true end.

Lemma vok_model m : model_ok m = true -> vok (v_model enc_raw m) = true.
Proof.
  destruct m as [l|n [ps|]]; intros H; try reflexivity.
  unfold v_model. cbn [v_model_children vok forallb v_tok]. replace (String.eqb "model_options" "model") with false by reflexivity.
  cbn [forallb vok]. replace (String.eqb "model_options" "model_options") with true by reflexivity. rewrite andb_true_r.
  cbn [model_ok] in H. rewrite forallb_forall in H. apply forallb_forall. intros x Hx. apply in_map_iff in Hx. destruct Hx as (p & <- & Hp).
  specialize (H p Hp). destruct p as [lit|[|a s]]; try discriminate; reflexivity.
Qed.

Lemma vok_line d : model_ok (d_model d) = true -> vok (v_line enc_raw d) = true.
Proof.
  intros H. unfold v_line. cbn [vok]. replace (String.eqb "model_options" "decayline") with false by reflexivity.
  apply forallb_forall. intros x [<-|Hx]; [reflexivity|]. apply in_app_or in Hx. destruct Hx as [Hx|Hx].
  - apply in_map_iff in Hx. destruct Hx as (? & <- & _). reflexivity.
  - apply in_app_or in Hx. destruct Hx as [Hx|[<-|[]]]; [|apply vok_model; exact H].
    destruct (d_photos d); [destruct Hx as [<-|[]]; reflexivity | destruct Hx].
Qed.

Lemma vok_decay m ls : forallb (fun d => model_ok (d_model d)) ls = true -> vok (v_decay enc_raw m ls) = true.
Proof.
  intros H. unfold v_decay. cbn [vok]. replace (String.eqb "model_options" "decay") with false by reflexivity.
  apply forallb_forall. intros x [<-|Hx]; [reflexivity|]. apply in_map_iff in Hx. destruct Hx as (d & <- & Hd). apply vok_line.
  rewrite forallb_forall in H. apply H. exact Hd.
Qed.

(* --- reading the resolved trees: the lines of Dec/Post.v --- *)
Lemma vread_param_res defs p : vread_param (enc_res defs p) = Some (resolve_param defs p).
Proof.
  destruct p as [lit|s]; [reflexivity|]. unfold enc_res. cbn [enc_raw v_tok vreplace]. unfold conv_label, resolve_param.
  destruct s as [|c rest]; [reflexivity|]. destruct (is_c c "-"); [destruct (pd_get rest defs) | destruct (pd_get (String c rest) defs)]; reflexivity.
Qed.

Lemma mapO_all {A B} (f : A -> option B) (g : A -> B) l : (forall x, f x = Some (g x)) -> mapO f l = Some (map g l).
Proof. intros H. induction l as [|x r IH]; [reflexivity|]. cbn [mapO map]. rewrite H, IH. reflexivity. Qed.

Definition line_of (defs : pdict Q) (d : dline) (n : string) (opts : option (list param)) : line :=
  {| l_bf := numq (d_bf d); l_fs := d_fs d; l_photos := d_photos d; l_model := n; l_params := option_map (map (resolve_param defs)) opts |}.

Lemma filter_particles fs ph : (forall x, In x ph -> vis_data "particle" x = false) ->
  filter (vis_data "particle") (map v_particle fs ++ ph) = map v_particle fs.
Proof.
  intros H. rewrite filter_app. replace (filter (vis_data "particle") ph) with (@nil vt).
  - rewrite app_nil_r. induction fs as [|x r IH]; [reflexivity|]. cbn [map filter vis_data v_particle].
    replace (String.eqb "particle" "particle") with true by reflexivity. rewrite IH. reflexivity.
  - induction ph as [|x r IH]; [reflexivity|]. cbn [filter]. rewrite H by (left; reflexivity). apply IH. intros y Hy. apply H. right. exact Hy.
Qed.

Lemma vread_line_res defs d n opts : d_model d = MName n opts -> vread_line (v_line (enc_res defs) d) = Some (line_of defs d n opts).
Proof.
  intros Hm. unfold v_line, vread_line. cbn [vleafstr v_value vtokstr vtokval v_tok].
  rewrite !rev_app_distr. cbn [rev app]. rewrite <- rev_app_distr, rev_involutive.
  assert (Hph : forall x, In x (if d_photos d then [VN "photos" []] else []) -> vis_data "particle" x = false).
  { destruct (d_photos d); intros x Hx; [destruct Hx as [<-|[]]; reflexivity | destruct Hx]. }
  rewrite (filter_particles _ _ Hph). rewrite mapO_map. rewrite (mapO_all _ (fun x => x)) by reflexivity. rewrite map_id.
  rewrite Hm. unfold v_model. destruct opts as [ps|]; cbn [v_model_children vread_model vtokstr vtokval v_tok].
  - rewrite mapO_map. rewrite (mapO_all _ (resolve_param defs)) by (intros; apply vread_param_res). unfold line_of. cbn [option_map]. f_equal. f_equal.
    rewrite existsb_app. destruct (d_photos d); cbn [existsb vis_data]; rewrite ?orb_false_r, ?orb_true_r;
      (induction (d_fs d) as [|x r IH]; [reflexivity | cbn [map existsb vis_data v_particle]; replace (String.eqb "photos" "particle") with false by reflexivity; exact IH]).
  - unfold line_of. cbn [option_map]. f_equal. f_equal.
    rewrite existsb_app. destruct (d_photos d); cbn [existsb vis_data]; rewrite ?orb_false_r, ?orb_true_r;
      (induction (d_fs d) as [|x r IH]; [reflexivity | cbn [map existsb vis_data v_particle]; replace (String.eqb "photos" "particle") with false by reflexivity; exact IH]).
Qed.

(* ================================================================== CDecay at object level *)
Lemma visit_names_acc ccdb : forall ps d out,
  fold_left (visit_particle ccdb) ps (d, out) =
  (fst (visit_names ccdb d ps), (out ++ snd (visit_names ccdb d ps))%list).
Proof.
  unfold visit_names. induction ps as [|p r IH]; intros d out; cbn [fold_left].
  - cbn [fst snd]. rewrite app_nil_r. reflexivity.
  - unfold visit_particle at 2 4 6. rewrite (IH (pd_set p (cc_match ccdb d p) d) (out ++ [cc_match ccdb d p])%list).
    rewrite (IH (pd_set p (cc_match ccdb d p) d) ([] ++ [cc_match ccdb d p])%list). cbn [fst snd app]. rewrite <- app_assoc. reflexivity.
Qed.

Lemma visit_names_cons ccdb d p r :
  visit_names ccdb d (p :: r) =
  (fst (visit_names ccdb (pd_set p (cc_match ccdb d p) d) r), cc_match ccdb d p :: snd (visit_names ccdb (pd_set p (cc_match ccdb d p) d) r)).
Proof.
  unfold visit_names at 1. cbn [fold_left]. unfold visit_particle at 2. rewrite visit_names_acc. reflexivity.
Qed.

(* the visitor over a list of distinct tokens holding the names ns *)
Lemma cc_fold_spec ccdb : forall ids ns d h,
  NoDup ids -> Forall2 (fun i n => i < length h /\ nth i h (TS "") = TS n) ids ns ->
  exists h', fold_left (cc_visit ccdb) ids (d, h) = (fst (visit_names ccdb d ns), h') /\
             Forall2 (fun i c => nth i h' (TS "") = TS c) ids (snd (visit_names ccdb d ns)) /\ frame ids h h'.
Proof.
  induction ids as [|i r IH]; intros ns d h Hnd HF; inversion HF as [|? n ? ns' [Hi Hn] HF']; subst.
  - exists h. split; [reflexivity|]. split; [constructor | apply frame_refl].
  - inversion Hnd as [|? ? Hni Hnd']; subst. cbn [fold_left]. unfold cc_visit at 2.
    rewrite (nth_error_nth_some h i (TS "") Hi), Hn. rewrite visit_names_cons. cbn [fst snd].
    set (c := cc_match ccdb d n). set (h1 := upd i (TS c) h).
    destruct (IH ns' (pd_set n c d) h1 Hnd') as (h' & E & V & F).
    { clear -HF' Hni. induction HF' as [|j m js ms [Hj Hm] _ IHf]; constructor.
      - unfold h1. rewrite upd_length. split; [exact Hj|]. rewrite nth_upd_other; [exact Hm|]. intros ->. apply Hni. left. reflexivity.
      - apply IHf. intros Hin. apply Hni. right. exact Hin. }
    exists h'. split; [exact E|]. split.
    + constructor; [|exact V]. destruct F as [_ F]. rewrite F by exact Hni. unfold h1. apply nth_upd_same. exact Hi.
    + destruct F as [L F]. split; [rewrite L; unfold h1; apply upd_length|]. intros j Hj. rewrite F by (intros Hin; apply Hj; right; exact Hin).
      unfold h1. apply nth_upd_other. intros ->. apply Hj. left. reflexivity.
Qed.

(* inversion of erasures *)
Lemma erase_VN_inv h t d vs : erase h t = VN d vs -> exists i ch, t = OTree i d ch /\ map (erase h) ch = vs.
Proof. destruct t as [i k|i d' ch]; simpl; intros H; inversion H; subst. eauto. Qed.
Lemma erase_VT_inv h t k v : erase h t = VT k v -> exists i, t = OTok i k /\ nth i h (TS "") = v.
Proof. destruct t as [i k'|i d' ch]; simpl; intros H; inversion H; subst. eauto. Qed.

Lemma map_eq_app_inv {A B} (f : A -> B) l a b : map f l = (a ++ b)%list -> exists la lb, l = (la ++ lb)%list /\ map f la = a /\ map f lb = b.
Proof.
  revert l. induction a as [|x r IH]; intros l H.
  - exists [], l. auto.
  - destruct l as [|y l']; [discriminate|]. simpl in H. inversion H; subst. destruct (IH l' H2) as (la & lb & -> & Ha & Hb).
    exists (y :: la), lb. simpl. rewrite Ha. auto.
Qed.

(* the particle tokens of a particle node list *)
Definition ptoks (ps : list ot) : list nat := flat_map (fun c => if is_data "particle" c then match c with OTree _ _ (OTok i _ :: _) => [i] | _ => [] end else []) ps.

Lemma ptoks_app a b : ptoks (a ++ b) = (ptoks a ++ ptoks b)%list.
Proof. apply flat_map_app. Qed.

Lemma ptoks_particles h ps ns : map (erase h) ps = map v_particle ns -> (forall p, In p ps -> inb h p) ->
  ptoks ps = tids ps /\ Forall2 (fun i n => i < length h /\ nth i h (TS "") = TS n) (ptoks ps) ns.
Proof.
  revert ns. induction ps as [|p r IH]; intros [|n ns] H Hb; simpl in H; try discriminate; [split; [reflexivity | constructor]|].
  inversion H as [[Hp Hr]]. destruct (erase_VN_inv _ _ _ _ Hp) as (i & ch & -> & Hch).
  destruct ch as [|x [|? ?]]; simpl in Hch; try discriminate. inversion Hch as [Hx]. destruct (erase_VT_inv _ _ _ _ Hx) as (j & -> & Hj).
  destruct (IH ns Hr) as [E F]; [intros q Hq; apply Hb; right; exact Hq|].
  assert (P : ptoks (OTree i "particle" [OTok j "LABEL"] :: r) = j :: ptoks r) by reflexivity.
  rewrite P, tids_cons. cbn [tok_ids flat_map app]. rewrite E. split; [reflexivity|]. constructor; [|rewrite <- E; exact F].
  split; [apply (Hb _ (or_introl eq_refl)); simpl; auto | exact Hj].
Qed.

Lemma ptoks_none h ps : (forall p, In p ps -> vis_data "particle" (erase h p) = false) -> ptoks ps = [].
Proof.
  induction ps as [|p r IH]; intros H; [reflexivity|]. unfold ptoks in *. cbn [flat_map].
  rewrite (is_data_erase "particle" h p), (H p (or_introl eq_refl)). cbn [app]. apply IH. intros q Hq. apply H. right. exact Hq.
Qed.

(* ------------------------------------------------------------------ the table operations of Dec/Post.v, generic in the line type *)
Section Generic.
Context {L : Type} (get_fs : L -> list string) (set_fs : L -> list string -> L).
Local Notation gtable := (string * list L)%type.

Fixpoint g_find (m : string) (T : list gtable) : option (list L) :=
  match T with [] => None | (m', ls) :: r => if String.eqb m m' then Some ls else g_find m r end.

Definition g_add_copies (copies : pdict string) (T : list gtable) : list gtable :=
  T ++ flat_map (fun kv => match g_find (snd kv) (rev T) with Some ls => [(fst kv, ls)] | None => [] end) copies.

Definition g_conj_lines (ccdb : string -> string) (d : pdict string) (ls : list L) : pdict string * list L :=
  fold_left (fun (acc : pdict string * list L) (l : L) =>
               let '(d0, out) := acc in
               let '(d0', fs') := visit_names ccdb d0 (get_fs l) in (d0', out ++ [set_fs l fs'])%list) ls (d, []).

Definition g_conj_table (ccdb : string -> string) (d : pdict string) (t : gtable) : pdict string * gtable :=
  let '(m, ls) := t in
  let '(d1, ls') := g_conj_lines ccdb d ls in
  let '(d2, ms) := visit_names ccdb d1 [m] in
  (d2, (hd m ms, ls')).

Definition g_cc_sources (ccdb : string -> string) (ccdefs : pdict string) (cdecays : list string) (T : list gtable) : list gtable :=
  flat_map (fun X => let name := cc_match ccdb ccdefs X in
                     match g_find name (rev T) with Some ls => [(name, ls)] | None => [] end)
           (fold_left (fun l d => remove_one d l) (filter (fun n => smem n (map fst T)) cdecays) cdecays).

Definition g_cstep (ccdb : string -> string) (selfconj : string -> option bool)
                   (acc : pdict string * list gtable) (t : gtable) : pdict string * list gtable :=
  let '(d, out) := acc in
  match selfconj (fst t) with
  | Some true => (d, out ++ [t])%list
  | _ => match d with
         | [] => let '(_, t') := g_conj_table ccdb [] t in (d, out ++ [t'])%list
         | _ => let '(d', t') := g_conj_table ccdb d t in (d', out ++ [t'])%list
         end
  end.

Definition g_add_cc (ccdb : string -> string) (selfconj : string -> option bool)
                    (cdecays : list string) (ccdefs : pdict string) (T : list gtable) : list gtable :=
  match fold_left (fun l d => remove_one d l) (filter (fun n => smem n (map fst T)) cdecays) cdecays with
  | [] => T
  | _ => (T ++ snd (fold_left (g_cstep ccdb selfconj) (g_cc_sources ccdb ccdefs cdecays T) (ccdefs, [])))%list
  end.
End Generic.

(* at the line type of Dec/Post.v these ARE its definitions *)
Definition set_lfs (l : line) (fs : list string) : line :=
  {| l_bf := l_bf l; l_fs := fs; l_photos := l_photos l; l_model := l_model l; l_params := l_params l |}.
Definition set_dfs (d : dline) (fs : list string) : dline :=
  {| d_bf := d_bf d; d_fs := fs; d_photos := d_photos d; d_model := d_model d |}.

Lemma g_find_line m T : g_find (L:=line) m T = find_table m T.
Proof. induction T as [|[m' ls] r IH]; [reflexivity|]. simpl. rewrite IH. reflexivity. Qed.
Lemma g_add_copies_line copies T : g_add_copies (L:=line) copies T = add_copies copies T.
Proof.
  unfold g_add_copies, add_copies. rewrite (flat_map_ext_in' _ (fun kv => match find_table (snd kv) (rev T) with Some ls => [(fst kv, ls)] | None => [] end)); [reflexivity|].
  intros kv _. rewrite g_find_line. reflexivity.
Qed.
Lemma g_conj_table_line ccdb d t : g_conj_table l_fs set_lfs ccdb d t = conj_table ccdb d t.
Proof. reflexivity. Qed.
Lemma g_add_cc_line ccdb sc cdecays ccdefs T : g_add_cc l_fs set_lfs ccdb sc cdecays ccdefs T = add_cc ccdb sc cdecays ccdefs T.
Proof.
  assert (Hs : g_cc_sources (L:=line) ccdb ccdefs cdecays T = cc_sources ccdb ccdefs cdecays T).
  { unfold g_cc_sources, cc_sources, cc_names, find_table_last. apply flat_map_ext_in'. intros X _. rewrite g_find_line. reflexivity. }
  unfold g_add_cc, add_cc, cc_names. rewrite Hs. reflexivity.
Qed.

Lemma g_conj_lines_acc {L} (get_fs : L -> list string) set_fs ccdb : forall ls d out,
  fold_left (fun (acc : pdict string * list L) (l : L) =>
               let '(d0, out) := acc in
               let '(d0', fs') := visit_names ccdb d0 (get_fs l) in (d0', out ++ [set_fs l fs'])%list) ls (d, out) =
  (fst (g_conj_lines get_fs set_fs ccdb d ls), (out ++ snd (g_conj_lines get_fs set_fs ccdb d ls))%list).
Proof.
  unfold g_conj_lines. induction ls as [|l r IH]; intros d out; cbn [fold_left].
  - cbn [fst snd]. rewrite app_nil_r. reflexivity.
  - destruct (visit_names ccdb d (get_fs l)) as [d1 fs'] eqn:Ev. rewrite (IH d1 (out ++ [set_fs l fs'])%list).
    rewrite (IH d1 ([] ++ [set_fs l fs'])%list). cbn [fst snd app]. rewrite <- app_assoc. reflexivity.
Qed.
Lemma g_conj_lines_cons {L} (get_fs : L -> list string) set_fs ccdb d l r :
  g_conj_lines get_fs set_fs ccdb d (l :: r) =
  (fst (g_conj_lines get_fs set_fs ccdb (fst (visit_names ccdb d (get_fs l))) r),
   set_fs l (snd (visit_names ccdb d (get_fs l))) :: snd (g_conj_lines get_fs set_fs ccdb (fst (visit_names ccdb d (get_fs l))) r)).
Proof.
  unfold g_conj_lines at 1. cbn [fold_left]. destruct (visit_names ccdb d (get_fs l)) as [d1 fs'] eqn:Ev. rewrite g_conj_lines_acc. reflexivity.
Qed.

Lemma frame_mono a b h h' : frame a h h' -> (forall i, In i a -> In i b) -> frame b h h'.
Proof. intros [L F] S. split; [exact L|]. intros j Hj. apply F. intros Hin. apply Hj, S, Hin. Qed.

Lemma particles_rewritten h h' : forall ps ns out, map (erase h) ps = map v_particle ns ->
  Forall2 (fun i c => nth i h' (TS "") = TS c) (tids ps) out -> map (erase h') ps = map v_particle out.
Proof.
  induction ps as [|p r IH]; intros [|n ns] out H HF; simpl in H; try discriminate.
  - inversion HF; subst. reflexivity.
  - inversion H as [[Hp Hr]]. destruct (erase_VN_inv _ _ _ _ Hp) as (i & ch & -> & Hch).
    destruct ch as [|x [|? ?]]; simpl in Hch; try discriminate. inversion Hch as [Hx]. destruct (erase_VT_inv _ _ _ _ Hx) as (j & -> & Hj).
    rewrite tids_cons in HF. cbn [tok_ids flat_map app] in HF. inversion HF as [|? c ? out' Hc HF']; subst.
    cbn [map erase]. rewrite Hc. rewrite (IH ns out' Hr HF'). reflexivity.
Qed.

Lemma cc_line ccdb enc dl : forall l d h,
  erase h l = v_line enc dl -> NoDup (tok_ids l) -> inb h l ->
  exists h', fold_left (cc_visit ccdb) (ptoks (children_of l)) (d, h) = (fst (visit_names ccdb d (d_fs dl)), h') /\
             erase h' l = v_line enc (set_dfs dl (snd (visit_names ccdb d (d_fs dl)))) /\ frame (tok_ids l) h h'.
Proof.
  intros l d h He Hnd Hb. unfold v_line in He. destruct (erase_VN_inv _ _ _ _ He) as (i & ch & -> & Hch). clear He.
  destruct ch as [|v0 rest]; [discriminate|]. cbn [map] in Hch. inversion Hch as [[Hv Hrest]]. clear Hch.
  destruct (map_eq_app_inv _ _ _ _ Hrest) as (ps & tl & -> & Hps & Htl). clear Hrest.
  cbn [children_of]. change (v0 :: ps ++ tl)%list with ([v0] ++ ps ++ tl)%list. rewrite !ptoks_app.
  assert (P0 : ptoks [v0] = []).
  { apply (ptoks_none h). intros p [<-|[]]. rewrite Hv. reflexivity. }
  assert (Pt : ptoks tl = []).
  { apply (ptoks_none h). intros p Hp. assert (Hin : In (erase h p) (map (erase h) tl)) by (apply in_map; exact Hp). rewrite Htl in Hin.
    apply in_app_or in Hin. destruct Hin as [Hin|[<-|[]]]; [|reflexivity]. destruct (d_photos dl); [destruct Hin as [<-|[]]; reflexivity | destruct Hin]. }
  rewrite P0, Pt, app_nil_r. cbn [app].
  assert (Hbp : forall p, In p ps -> inb h p).
  { intros p Hp. eapply inb_child; [exact Hb|]. right. apply in_or_app. left. exact Hp. }
  destruct (ptoks_particles h ps (d_fs dl) Hps Hbp) as [Ep Fp]. rewrite Ep in *.
  simpl in Hnd. fold (tids (ps ++ tl)) in Hnd. rewrite tids_app in Hnd.
  assert (Np : NoDup (tids ps)) by (eapply NoDup_app_l; eapply NoDup_app_r; exact Hnd).
  destruct (cc_fold_spec ccdb (tids ps) (d_fs dl) d h Np Fp) as (h' & E & V & F).
  exists h'. split; [exact E|]. split.
  - cbn [erase map]. unfold v_line. cbn [d_bf d_fs d_photos d_model set_dfs]. f_equal. rewrite !map_app. f_equal; [|f_equal].
    + rewrite <- Hv. eapply frame_erase; [exact F|]. intros a Ha Hc. eapply NoDup_app_disj; [exact Hnd | exact Ha | apply in_or_app; left; exact Hc].
    + eapply particles_rewritten; eauto.
    + rewrite <- Htl. apply map_ext_in. intros x Hx. eapply frame_erase; [exact F|]. intros a Ha Hc.
      apply NoDup_app_r in Hnd. eapply NoDup_app_disj; [exact Hnd | exact Hc |]. unfold tids. apply in_flat_map. exists x. auto.
  - eapply frame_mono; [exact F|]. intros a Ha. simpl. fold (tids (ps ++ tl)). rewrite tids_app. apply in_or_app. right. apply in_or_app. left. exact Ha.
Qed.

Definition vd {enc : param -> vt} (t : string * list dline) : vt := v_decay enc (fst t) (snd t).

Lemma cc_tree ccdb enc m ls : forall t d h,
  erase h t = v_decay enc m ls -> NoDup (tok_ids t) -> inb h t ->
  exists h', fold_left (cc_visit ccdb) (particle_toks t) (d, h) = (fst (g_conj_table d_fs set_dfs ccdb d (m, ls)), h') /\
             erase h' t = @vd enc (snd (g_conj_table d_fs set_dfs ccdb d (m, ls))) /\ frame (tok_ids t) h h'.
Proof.
  intros t d h He Hnd Hb. unfold v_decay in He. destruct (erase_VN_inv _ _ _ _ He) as (i & ch & -> & Hch). clear He.
  destruct ch as [|p lines]; [discriminate|]. cbn [map] in Hch. inversion Hch as [[Hp Hl]]. clear Hch.
  destruct (erase_VN_inv _ _ _ _ Hp) as (ip & pch & -> & Hpch). destruct pch as [|x [|? ?]]; simpl in Hpch; try discriminate.
  inversion Hpch as [Hx]. destruct (erase_VT_inv _ _ _ _ Hx) as (j & -> & Hj). clear Hpch Hx Hp.
  change (particle_toks (OTree i "decay" (OTree ip "particle" [OTok j "LABEL"] :: lines))) with (flat_map (fun l => ptoks (children_of l)) lines ++ [j])%list.
  simpl in Hnd. inversion Hnd as [|? ? Hnj Hndl]; subst. fold (tids lines) in Hnj, Hndl.
  assert (Hjb : j < length h) by (apply Hb; simpl; auto).
  (* the lines *)
  assert (HL : forall lines ls d h, map (erase h) lines = map (v_line enc) ls -> NoDup (tids lines) -> (forall l, In l lines -> inb h l) ->
               exists h', fold_left (cc_visit ccdb) (flat_map (fun l => ptoks (children_of l)) lines) (d, h) = (fst (g_conj_lines d_fs set_dfs ccdb d ls), h') /\
                          map (erase h') lines = map (v_line enc) (snd (g_conj_lines d_fs set_dfs ccdb d ls)) /\ frame (tids lines) h h').
  { clear. induction lines as [|l r IH]; intros [|dl ls] d h H Hnd Hb; simpl in H; try discriminate.
    - exists h. split; [reflexivity|]. split; [reflexivity | apply frame_refl].
    - inversion H as [[Hl Hr]]. rewrite tids_cons in Hnd.
      destruct (cc_line ccdb enc dl l d h Hl (NoDup_app_l _ _ Hnd) (Hb l (or_introl eq_refl))) as (h1 & E1 & V1 & F1).
      assert (Er : map (erase h1) r = map (erase h) r).
      { apply map_ext_in. intros y Hy. eapply frame_erase; [exact F1|]. intros a Ha Hc. eapply NoDup_app_disj; [exact Hnd | exact Hc|]. unfold tids. apply in_flat_map. exists y. auto. }
      destruct (IH ls (fst (visit_names ccdb d (d_fs dl))) h1) as (h2 & E2 & V2 & F2).
      + rewrite Er. exact Hr.
      + eapply NoDup_app_r; eauto.
      + intros y Hy a Ha. destruct F1 as [L _]. rewrite L. apply (Hb y (or_intror Hy)). exact Ha.
      + exists h2. rewrite g_conj_lines_cons. cbn [fst snd]. split; [cbn [flat_map]; rewrite fold_left_app, E1; exact E2|]. split.
        * cbn [map]. f_equal; [|exact V2]. rewrite <- V1. eapply frame_erase; [exact F2|]. intros a Ha Hc. eapply NoDup_app_disj; [exact Hnd | exact Ha | exact Hc].
        * rewrite tids_cons. eapply frame_trans; eauto. }
  destruct (HL lines ls d h Hl Hndl) as (h1 & E1 & V1 & F1); [intros l Hl'; eapply inb_child; [exact Hb | right; exact Hl']|].
  (* the mother *)
  unfold g_conj_table. fold (g_conj_lines d_fs set_dfs ccdb d ls).
  destruct (g_conj_lines d_fs set_dfs ccdb d ls) as [d1 ls'] eqn:Ecl. cbn [fst snd] in E1, V1.
  rewrite fold_left_app, E1. cbn [fold_left]. unfold cc_visit.
  assert (Hj1 : nth j h1 (TS "") = TS m) by (destruct F1 as [_ F]; rewrite F by exact Hnj; exact Hj).
  assert (Hjb1 : j < length h1) by (destruct F1 as [L _]; rewrite L; exact Hjb).
  rewrite (nth_error_nth_some h1 j (TS "") Hjb1), Hj1. rewrite visit_names_cons. cbn [fst snd hd]. unfold visit_names. cbn [fold_left fst snd].
  eexists. split; [reflexivity|]. split.
  - cbn [erase map]. rewrite nth_upd_same by exact Hjb1. unfold vd, v_decay, v_particle, v_tok. cbn [fst snd]. f_equal. f_equal.
    rewrite <- V1. apply map_ext_in. intros y Hy. apply erase_ext. intros a Ha. apply nth_upd_other. intros ->. apply Hnj. unfold tids. apply in_flat_map. exists y. auto.
  - split; [rewrite upd_length; apply F1|]. intros a Ha. rewrite nth_upd_other by (intros ->; apply Ha; simpl; auto).
    destruct F1 as [_ F]. apply F. intros Hin. apply Ha. simpl. right. exact Hin.
Qed.

(* ------------------------------------------------------------------ naturality of the generic table operations *)
Section Natural.
Context {L1 L2 : Type} (get1 : L1 -> list string) (set1 : L1 -> list string -> L1)
        (get2 : L2 -> list string) (set2 : L2 -> list string -> L2) (r : L1 -> L2).
Hypothesis r_get : forall l, get2 (r l) = get1 l.
Hypothesis r_set : forall l fs, r (set1 l fs) = set2 (r l) fs.

Definition tmap (t : (string * list L1)%type) : (string * list L2)%type := (fst t, map r (snd t)).

Lemma nat_find m T : g_find m (map tmap T) = option_map (map r) (g_find m T).
Proof. induction T as [|[m' ls] T IH]; [reflexivity|]. cbn [map tmap fst snd g_find]. destruct (String.eqb m m'); [reflexivity | exact IH]. Qed.

Lemma nat_fst T : map fst (map tmap T) = map fst T.
Proof. rewrite map_map. reflexivity. Qed.

Lemma nat_add_copies copies T : g_add_copies copies (map tmap T) = map tmap (g_add_copies copies T).
Proof.
  unfold g_add_copies. rewrite map_app. f_equal. rewrite <- map_rev, flat_map_concat_map, flat_map_concat_map, concat_map, map_map. f_equal.
  apply map_ext. intros kv. rewrite nat_find. destruct (g_find (snd kv) (rev T)); reflexivity.
Qed.

Lemma nat_conj_lines ccdb : forall ls d,
  g_conj_lines get2 set2 ccdb d (map r ls) = (fst (g_conj_lines get1 set1 ccdb d ls), map r (snd (g_conj_lines get1 set1 ccdb d ls))).
Proof.
  induction ls as [|l ls IH]; intros d; [reflexivity|]. cbn [map]. rewrite !g_conj_lines_cons. rewrite r_get. rewrite IH. cbn [fst snd map]. rewrite r_set. reflexivity.
Qed.

Lemma nat_conj_table ccdb d t :
  g_conj_table get2 set2 ccdb d (tmap t) = (fst (g_conj_table get1 set1 ccdb d t), tmap (snd (g_conj_table get1 set1 ccdb d t))).
Proof.
  destruct t as [m ls]. unfold g_conj_table, tmap. cbn [fst snd]. rewrite nat_conj_lines.
  destruct (g_conj_lines get1 set1 ccdb d ls) as [d1 ls']. cbn [fst snd]. destruct (visit_names ccdb d1 [m]) as [d2 ms]. reflexivity.
Qed.

Lemma nat_cc_sources ccdb ccdefs cdecays T :
  g_cc_sources ccdb ccdefs cdecays (map tmap T) = map tmap (g_cc_sources ccdb ccdefs cdecays T).
Proof.
  unfold g_cc_sources. rewrite nat_fst. rewrite <- map_rev. rewrite (flat_map_concat_map _ (fold_left _ _ _)), (flat_map_concat_map _ (fold_left _ _ _)), concat_map, map_map.
  f_equal. apply map_ext. intros X. rewrite nat_find. destruct (g_find _ (rev T)); reflexivity.
Qed.

Lemma nat_cstep ccdb sc acc t :
  g_cstep get2 set2 ccdb sc (fst acc, map tmap (snd acc)) (tmap t) =
  (fst (g_cstep get1 set1 ccdb sc acc t), map tmap (snd (g_cstep get1 set1 ccdb sc acc t))).
Proof.
  destruct acc as [d out]. unfold g_cstep. cbn [fst snd tmap]. destruct (sc (fst t)) as [[|]|].
  - cbn [fst snd]. rewrite map_app. reflexivity.
  - destruct d as [|kv d']; change (fst t, map r (snd t)) with (tmap t); rewrite nat_conj_table;
      [destruct (g_conj_table get1 set1 ccdb [] t) | destruct (g_conj_table get1 set1 ccdb (kv :: d') t)];
      cbn [fst snd]; rewrite map_app; reflexivity.
  - destruct d as [|kv d']; change (fst t, map r (snd t)) with (tmap t); rewrite nat_conj_table;
      [destruct (g_conj_table get1 set1 ccdb [] t) | destruct (g_conj_table get1 set1 ccdb (kv :: d') t)];
      cbn [fst snd]; rewrite map_app; reflexivity.
Qed.

Lemma nat_csteps ccdb sc : forall S acc,
  fold_left (g_cstep get2 set2 ccdb sc) (map tmap S) (fst acc, map tmap (snd acc)) =
  (fst (fold_left (g_cstep get1 set1 ccdb sc) S acc), map tmap (snd (fold_left (g_cstep get1 set1 ccdb sc) S acc))).
Proof.
  induction S as [|t S IH]; intros acc; [reflexivity|]. cbn [map fold_left]. rewrite nat_cstep. apply IH.
Qed.

Lemma nat_add_cc ccdb sc cdecays ccdefs T :
  g_add_cc get2 set2 ccdb sc cdecays ccdefs (map tmap T) = map tmap (g_add_cc get1 set1 ccdb sc cdecays ccdefs T).
Proof.
  unfold g_add_cc. rewrite nat_fst. destruct (fold_left _ _ cdecays); [reflexivity|]. rewrite map_app. f_equal.
  rewrite nat_cc_sources. change (ccdefs, @nil ((string * list L2)%type)) with (fst (ccdefs, @nil ((string * list L1)%type)), map tmap (snd (ccdefs, @nil ((string * list L1)%type)))).
  rewrite nat_csteps. reflexivity.
Qed.
End Natural.

(* ------------------------------------------------------------------ forests that denote tables *)
Lemma g_find_app {L} m (A B : list (string * list L)) :
  g_find m (A ++ B) = match g_find m A with Some ls => Some ls | None => g_find m B end.
Proof. induction A as [|[m' ls] A IH]; [reflexivity|]. cbn [app g_find]. destruct (String.eqb m m'); [reflexivity | exact IH]. Qed.

Lemma vmother_vd enc t : vmother (@vd enc t) = Some (fst t).
Proof. reflexivity. Qed.

Lemma den_mothers enc h : forall D P, map (erase h) D = map (@vd enc) P -> (forall t, In t D -> inb h t) -> mothers_h h D = map fst P.
Proof.
  induction D as [|t D IH]; intros [|p P] H Hb; simpl in H; try discriminate; [reflexivity|]. inversion H as [[Ht Hr]].
  unfold mothers_h in *. cbn [flat_map map]. rewrite mother_of_erase by (apply Hb; left; reflexivity). rewrite Ht, vmother_vd. cbn [app]. f_equal.
  apply IH; [exact Hr | intros; apply Hb; right; assumption].
Qed.

Lemma den_find_last enc h m : forall D P acc, map (erase h) D = map (@vd enc) P -> (forall t, In t D -> inb h t) ->
  match g_find m (rev P) with
  | Some ls => exists t, find_last h m D acc = Some t /\ In t D /\ erase h t = @vd enc (m, ls)
  | None => find_last h m D acc = acc
  end.
Proof.
  induction D as [|t D IH]; intros [|p P] acc H Hb; simpl in H; try discriminate; [reflexivity|]. inversion H as [[Ht Hr]].
  cbn [rev find_last]. rewrite g_find_app. rewrite mother_of_erase by (apply Hb; left; reflexivity). rewrite Ht, vmother_vd.
  assert (Hb' : forall t0, In t0 D -> inb h t0) by (intros; apply Hb; right; assumption).
  specialize (IH P (if String.eqb m (fst p) then Some t else acc) Hr Hb').
  destruct (g_find m (rev P)) as [ls|].
  - destruct IH as (t0 & E & Hin & Ee). exists t0. split; [exact E|]. split; [right; exact Hin | exact Ee].
  - rewrite IH. destruct p as [m' ls']. cbn [g_find fst]. destruct (String.eqb m m') eqn:Em.
    + apply String.eqb_eq in Em. subst m'. exists t. split; [reflexivity|]. split; [left; reflexivity | exact Ht].
    + reflexivity.
Qed.

Lemma g_csteps_acc {L} (get_fs : L -> list string) set_fs ccdb sc : forall S d out,
  fold_left (g_cstep get_fs set_fs ccdb sc) S (d, out) =
  (fst (fold_left (g_cstep get_fs set_fs ccdb sc) S (d, [])), (out ++ snd (fold_left (g_cstep get_fs set_fs ccdb sc) S (d, [])))%list).
Proof.
  induction S as [|t S IH]; intros d out; cbn [fold_left]; [cbn [fst snd]; rewrite app_nil_r; reflexivity|].
  assert (Hstep : forall o, g_cstep get_fs set_fs ccdb sc (d, o) t = (fst (g_cstep get_fs set_fs ccdb sc (d, []) t), (o ++ snd (g_cstep get_fs set_fs ccdb sc (d, []) t))%list)).
  { intros o. unfold g_cstep. destruct (sc (fst t)) as [[|]|]; [reflexivity| |];
      (destruct d as [|kv d']; [destruct (g_conj_table get_fs set_fs ccdb [] t) | destruct (g_conj_table get_fs set_fs ccdb (kv :: d') t)]; reflexivity). }
  rewrite (Hstep out). rewrite IH. rewrite (Hstep []). cbn [app]. rewrite (IH _ (snd (g_cstep get_fs set_fs ccdb sc (d, []) t))).
  cbn [fst snd]. rewrite app_assoc. reflexivity.
Qed.

(* the visitor pass over the deep copies *)
Lemma cc_steps_den ccdb sc enc : forall cs S d h,
  map (erase h) cs = map (@vd enc) S -> NoDup (tids cs) -> (forall t, In t cs -> inb h t) ->
  exists h', fold_left (cc_step ccdb sc) cs (d, h) = (fst (fold_left (g_cstep d_fs set_dfs ccdb sc) S (d, [])), h') /\
             map (erase h') cs = map (@vd enc) (snd (fold_left (g_cstep d_fs set_dfs ccdb sc) S (d, []))) /\ frame (tids cs) h h'.
Proof.
  induction cs as [|t cs IH]; intros [|p S] d h H Hnd Hb; simpl in H; try discriminate.
  - exists h. split; [reflexivity|]. split; [reflexivity | apply frame_refl].
  - inversion H as [[Ht Hr]]. rewrite tids_cons in Hnd. destruct p as [m ls].
    assert (Bt : inb h t) by (apply Hb; left; reflexivity).
    cbn [fold_left].
    (* one step *)
    assert (Hstep : exists h1, cc_step ccdb sc (d, h) t = (fst (g_cstep d_fs set_dfs ccdb sc (d, []) (m, ls)), h1) /\
                               [erase h1 t] = map (@vd enc) (snd (g_cstep d_fs set_dfs ccdb sc (d, []) (m, ls))) /\ frame (tok_ids t) h h1).
    { unfold cc_step, g_cstep. rewrite mother_of_erase by exact Bt. rewrite Ht, vmother_vd. cbn [fst]. unfold pdict in *.
      destruct (sc m) as [[|]|].
      - exists h. split; [reflexivity|]. split; [cbn [snd app map]; rewrite Ht; reflexivity | apply frame_refl].
      - destruct d as [|kv d'].
        + destruct (cc_tree ccdb enc m ls t [] h Ht (NoDup_app_l _ _ Hnd) Bt) as (h1 & E1 & V1 & F1). unfold pdict in *.
          exists h1. rewrite E1. cbn [snd]. split; [destruct (g_conj_table d_fs set_dfs ccdb [] (m, ls)); reflexivity|].
          split; [destruct (g_conj_table d_fs set_dfs ccdb [] (m, ls)); cbn [snd app map] in *; rewrite V1; reflexivity | exact F1].
        + destruct (cc_tree ccdb enc m ls t (kv :: d') h Ht (NoDup_app_l _ _ Hnd) Bt) as (h1 & E1 & V1 & F1). unfold pdict in *.
          exists h1. rewrite E1. split; [destruct (g_conj_table d_fs set_dfs ccdb (kv :: d') (m, ls)); reflexivity|].
          split; [destruct (g_conj_table d_fs set_dfs ccdb (kv :: d') (m, ls)); cbn [snd app map] in *; rewrite V1; reflexivity | exact F1].
      - destruct d as [|kv d'].
        + destruct (cc_tree ccdb enc m ls t [] h Ht (NoDup_app_l _ _ Hnd) Bt) as (h1 & E1 & V1 & F1). unfold pdict in *.
          exists h1. rewrite E1. cbn [snd]. split; [destruct (g_conj_table d_fs set_dfs ccdb [] (m, ls)); reflexivity|].
          split; [destruct (g_conj_table d_fs set_dfs ccdb [] (m, ls)); cbn [snd app map] in *; rewrite V1; reflexivity | exact F1].
        + destruct (cc_tree ccdb enc m ls t (kv :: d') h Ht (NoDup_app_l _ _ Hnd) Bt) as (h1 & E1 & V1 & F1). unfold pdict in *.
          exists h1. rewrite E1. split; [destruct (g_conj_table d_fs set_dfs ccdb (kv :: d') (m, ls)); reflexivity|].
          split; [destruct (g_conj_table d_fs set_dfs ccdb (kv :: d') (m, ls)); cbn [snd app map] in *; rewrite V1; reflexivity | exact F1]. }
    destruct Hstep as (h1 & E1 & V1 & F1). rewrite E1.
    remember (g_cstep d_fs set_dfs ccdb sc (d, []) (m, ls)) as g eqn:Eg in *. destruct g as [d1 o1]. rewrite g_csteps_acc. cbn [fst snd] in *.
    assert (Er : map (erase h1) cs = map (erase h) cs).
    { apply map_ext_in. intros y Hy. eapply frame_erase; [exact F1|]. intros a Ha Hc. eapply NoDup_app_disj; [exact Hnd | exact Hc|]. unfold tids. apply in_flat_map. exists y. auto. }
    destruct (IH S d1 h1) as (h2 & E2 & V2 & F2).
    + rewrite Er. exact Hr.
    + eapply NoDup_app_r; eauto.
    + intros y Hy a Ha. destruct F1 as [Lh _]. rewrite Lh. apply (Hb y (or_intror Hy)). exact Ha.
    + exists h2. cbn [fst snd]. split; [exact E2|]. split.
      * rewrite (map_app (@vd enc)), <- V1, <- V2. cbn [map app]. f_equal. eapply frame_erase; [exact F2|].
        intros a Ha Hc. eapply NoDup_app_disj; [exact Hnd | exact Ha | exact Hc].
      * eapply frame_trans; eauto.
Qed.

Lemma cc_copy_erase : forall ts s cs s',
  (forall t, In t ts -> NoDup (tok_ids t) /\ NoDup (node_ids t) /\ forall i, In i (tok_ids t) -> i < ntok s) ->
  cc_copy ts s = (cs, s') -> EV s cs s' (map (erase (h_toks s)) ts).
Proof.
  induction ts as [|t r IH]; intros s cs s' HD H; cbn [cc_copy] in H.
  - unfold ret in H. inversion H; subst. apply EV_nil.
  - unfold bind, ret in H. destruct (deepcopy t s) as [c s1] eqn:Ec. destruct (cc_copy r s1) as [cs' s2] eqn:Er.
    inversion H; subst. destruct (HD t (or_introl eq_refl)) as (N1 & N2 & B).
    pose proof (deepcopy_erase _ _ _ _ N1 N2 B Ec) as E1. destruct E1 as (A1 & G1 & V1).
    assert (L1 : ntok s <= ntok s1) by (destruct A1 as (L & _); exact L).
    assert (E2 : EV s1 cs' s' (map (erase (h_toks s1)) r)).
    { apply IH; [|exact Er]. intros t' Hin. destruct (HD t' (or_intror Hin)) as (M1 & M2 & B'). split; [exact M1|]. split; [exact M2|].
      intros i Hi. specialize (B' i Hi). lia. }
    assert (Er0 : map (erase (h_toks s1)) r = map (erase (h_toks s)) r).
    { symmetry. apply erase_list_ext. intros i Hi. destruct (grows_agree _ _ G1) as [_ Hag]. apply Hag.
      unfold tids in Hi. apply in_flat_map in Hi. destruct Hi as (x & Hx & Hix). destruct (HD x (or_intror Hx)) as (_ & _ & B'). apply B'. exact Hix. }
    rewrite Er0 in E2. change (c :: cs') with ([c] ++ cs')%list. cbn [map]. change (erase (h_toks s) t :: map (erase (h_toks s)) r) with ([erase (h_toks s) t] ++ map (erase (h_toks s)) r)%list.
    eapply EV_app; [|exact E2]. split; [exact A1|]. split; [exact G1 | exact V1].
Qed.

(* the CDecay stage: the new tables denote what the table-level operation of Dec/Post.v (at the unresolved line type) says *)
Theorem cc_decays_den ccdb sc cdecays ccdefs enc D P s ccs s' :
  separated D -> bounded_by s D -> map (erase (h_toks s)) D = map (@vd enc) P ->
  cc_decays ccdb sc cdecays ccdefs D s = (ccs, s') ->
  agree_below (ntok s) (h_toks s) (h_toks s') /\
  map (erase (h_toks s')) (D ++ ccs) = map (@vd enc) (g_add_cc d_fs set_dfs ccdb sc cdecays ccdefs P).
Proof.
  intros Sep [Bt Bn] Hden H. unfold cc_decays in H.
  assert (HbD : forall t, In t D -> inb (h_toks s) t).
  { intros t Ht i Hi. apply Bt. unfold tids. apply in_flat_map. exists t. auto. }
  rewrite (den_mothers enc _ _ _ Hden HbD) in H. unfold cc_names_h in H. unfold g_add_cc.
  destruct (fold_left (fun l d => remove_one d l) (filter (fun n => smem n (map fst P)) cdecays) cdecays) as [|n0 names] eqn:En.
  - inversion H; subst. split; [apply agree_below_refl; unfold ntok; lia|]. rewrite app_nil_r. exact Hden.
  - match type of H with context [cc_copy ?x s] => set (srcs := x) in *; destruct (cc_copy srcs s) as [cs s1] eqn:Ec end.
    inversion H; subst; clear H.
    (* the sources *)
    assert (Hsrc : map (erase (h_toks s)) srcs = map (@vd enc) (g_cc_sources ccdb ccdefs cdecays P) /\ forall t, In t srcs -> In t D).
    { unfold srcs, g_cc_sources. rewrite En. generalize (n0 :: names). intros l. induction l as [|X l IHl]; [split; [reflexivity | intros t []]|].
      cbn [flat_map]. destruct IHl as [IH1 IH2].
      pose proof (den_find_last enc (h_toks s) (cc_match ccdb ccdefs X) D P None Hden HbD) as Hf.
      destruct (g_find (cc_match ccdb ccdefs X) (rev P)) as [ls|].
      - destruct Hf as (t & E & Hin & Ee). rewrite E. cbn [app map]. rewrite Ee, IH1. split; [reflexivity|].
        intros t' [<-|Ht']; [exact Hin | apply IH2; exact Ht'].
      - rewrite Hf. cbn [app]. split; [exact IH1 | exact IH2]. }
    destruct Hsrc as [Hs1 Hs2].
    (* the deep copies *)
    assert (Ecp : EV s ccs s1 (map (erase (h_toks s)) srcs)).
    { eapply cc_copy_erase; [|exact Ec]. intros t Ht. destruct (separated_each _ _ Sep (Hs2 t Ht)) as [N1 N2]. split; [exact N1|]. split; [exact N2|].
      intros i Hi. apply (HbD _ (Hs2 t Ht)). exact Hi. }
    destruct Ecp as (Acp & Gcp & Vcp). rewrite Hs1 in Vcp.
    destruct (AL_sep_bounded _ _ _ Acp) as [[Nc _] [Bc _]].
    (* the visitors *)
    destruct (cc_steps_den ccdb sc enc ccs (g_cc_sources ccdb ccdefs cdecays P) ccdefs (h_toks s1) Vcp Nc) as (h2 & E2 & V2 & F2).
    { intros t Ht i Hi. apply Bc. unfold tids. apply in_flat_map. exists t. auto. }
    rewrite E2. cbn [snd h_toks].
    assert (Ag1 : agree_below (ntok s) (h_toks s) (h_toks s1)) by (apply grows_agree; exact Gcp).
    assert (Ag2 : agree_below (ntok s) (h_toks s) h2).
    { destruct Ag1 as [L1 H1]. destruct F2 as [L2 F2]. split; [lia|]. intros i Hi. rewrite F2; [apply H1; exact Hi|].
      intros Hin. destruct Acp as (_ & _ & _ & I & _). destruct (I i Hin) as [[]|Hf]. lia. }
    split; [exact Ag2|]. rewrite !map_app. f_equal; [|exact V2].
    rewrite <- Hden. apply map_ext_in. intros t Ht. symmetry. eapply erase_agree; [exact Ag2|]. intros i Hi. apply (HbD t Ht). exact Hi.
Qed.

(* ================================================================== assembly: parse() at object level denotes the tables of the value model *)
Lemma deepcopy_dict_erase d s d' s' :
  NoDup (tids (vals d)) -> NoDup (nids (vals d)) -> (forall i, In i (tids (vals d)) -> i < ntok s) ->
  deepcopy_dict d s = (d', s') -> grows s s' /\ ev_dict (h_toks s') d' = ev_dict (h_toks s) d.
Proof.
  unfold deepcopy_dict. intros H1 H2 Hb H. destruct (dcopy_dict d memo0 s) as [[c m] s1] eqn:E. inversion H; subst.
  destruct (dcopy_dict_keys _ _ _ _ _ _ E) as [K Ln]. apply dcopy_dict_vals in E.
  destruct (dcopy_list_erase _ _ _ _ _ _ H1 H2 (memo0_free _) Hb E) as [G Ee]. split; [exact G|].
  apply ev_dict_of_vals; assumption.
Qed.

Lemma mapME_transform_erase al : al_ok al -> forall D s r s',
  NoDup (tids D) -> (forall i, In i (tids D) -> i < ntok s) -> (forall i, In i (tids (vals al)) -> i < ntok s) ->
  mapME (transform al) D s = (r, s') ->
  grows s s' /\ resl_rel (h_toks s') r (vtransform_list (ev_dict (h_toks s) al) (map (erase (h_toks s)) D)).
Proof.
  intros Hal. induction D as [|x r0 IHr]; intros s rc s1 Hnd Hb Hba Ego; cbn [mapME] in Ego.
  - unfold retE in Ego. inversion Ego; subst. split; [apply grows_refl | reflexivity].
  - unfold bindE at 1 in Ego. rewrite tids_cons in Hnd, Hb.
    assert (Nx : NoDup (tok_ids x)) by (eapply NoDup_app_l; eauto).
    assert (Bx : forall j, In j (tok_ids x) -> j < ntok s) by (intros j Hj; apply Hb; apply in_or_app; left; exact Hj).
    destruct (transform al x s) as [[x'|e] sx] eqn:Ex.
    + destruct (transform_erase al Hal x s (inl x') sx Nx Bx Hba Ex) as [Gx Rx].
      pose proof (transform_spec al Hal x s x' sx Nx Bx Ex) as Tx.
      assert (Lx : ntok s <= ntok sx) by (destruct Tx as (L & _); exact L).
      pose proof (grows_agree _ _ Gx) as Agx.
      unfold bindE at 1 in Ego. destruct (mapME (transform al) r0 sx) as [rr sr] eqn:Er.
      assert (Br : forall j, In j (tids r0) -> j < ntok sx).
      { intros j Hj. assert (j < ntok s) by (apply Hb; apply in_or_app; right; exact Hj). lia. }
      assert (Bal : forall j, In j (tids (vals al)) -> j < ntok sx) by (intros j Hj; specialize (Hba j Hj); lia).
      destruct (IHr sx rr sr (NoDup_app_r _ _ Hnd) Br Bal Er) as (Gr & Rr).
      assert (Eal : ev_dict (h_toks sx) al = ev_dict (h_toks s) al).
      { symmetry. apply (ev_dict_agree (ntok s)); [exact Agx | exact Hba]. }
      assert (Er0 : map (erase (h_toks sx)) r0 = map (erase (h_toks s)) r0).
      { symmetry. apply erase_list_ext. intros j Hj. destruct Agx as [_ Hag]. apply Hag. apply Hb. apply in_or_app. right. exact Hj. }
      rewrite Eal, Er0 in Rr. cbn [map vtransform_list]. unfold res_rel in Rx.
      destruct (vtransform (ev_dict (h_toks s) al) (erase (h_toks s) x)) as [vx|ve]; [|contradiction].
      destruct rr as [r'|e].
      * unfold retE in Ego. injection Ego as Hr Hs. subst rc s1. split; [eapply grows_trans; eauto|].
        unfold resl_rel in *. destruct (vtransform_list _ _) as [vr|]; [|contradiction]. cbn [map]. f_equal; [|exact Rr].
        rewrite <- Rx. destruct Gr as [ext ->]. apply erase_ext. intros j Hj. apply app_nth1.
        destruct Tx as (_ & _ & _ & I & _). destruct (I j) as [Hs|Hf]; [rewrite tids_one; exact Hj | | unfold ntok in *; lia].
        rewrite tids_one in Hs. specialize (Bx j Hs). unfold ntok in *. lia.
      * injection Ego as Hr Hs. subst rc s1. split; [eapply grows_trans; eauto|].
        unfold resl_rel in *. destruct (vtransform_list _ _) as [vr|e']; [contradiction | exact Rr].
    + destruct (transform_erase al Hal x s (inr e) sx Nx Bx Hba Ex) as [Gx Rx]. injection Ego as Hr Hs. subst rc s1.
      split; [exact Gx|]. cbn [map vtransform_list]. unfold res_rel in Rx. destruct (vtransform _ _) as [vx|ve]; [contradiction | exact Rx].
Qed.

Lemma vrename_vd enc new m ls : vrename new (@vd enc (m, ls)) = @vd enc (new, ls).
Proof. reflexivity. Qed.

Lemma copies_v_den enc h D P : map (erase h) D = map (@vd enc) P -> (forall t, In t D -> inb h t) -> forall copies,
  copies_v h D copies = map (@vd enc) (flat_map (fun kv : string * string => match g_find (snd kv) (rev P) with Some ls => [(fst kv, ls)] | None => [] end) copies).
Proof.
  intros Hden Hb. induction copies as [|[new old] r IH]; [reflexivity|]. unfold copies_v in *. cbn [flat_map fst snd].
  pose proof (den_find_last enc h old D P None Hden Hb) as Hf. rewrite map_app, <- IH.
  destruct (g_find old (rev P)) as [ls|].
  - destruct Hf as (t & E & _ & Ee). rewrite E, Ee, vrename_vd. reflexivity.
  - rewrite Hf. reflexivity.
Qed.

Definition params_ok_stmt (st : stmt) : bool :=
  match st with
  | SDecay _ ls => forallb (fun d => model_ok (d_model d)) ls
  | SModelAlias _ m => model_ok m
  | _ => true
  end.
Definition params_ok (f : list stmt) : bool := forallb params_ok_stmt f.

Lemma pd_set_all {V} (Q : V -> Prop) k v (d : pdict V) : Q v -> (forall k' v', pd_get k' d = Some v' -> Q v') -> forall k' v', pd_get k' (pd_set k v d) = Some v' -> Q v'.
Proof.
  intros Hv Hd k' v' Hg. destruct (String.eqb k k') eqn:E.
  - apply String.eqb_eq in E. subst. rewrite pd_get_set_same in Hg. inversion Hg; subst. exact Hv.
  - rewrite pd_get_set_other in Hg; [eapply Hd; eauto|]. intros ->. rewrite String.eqb_refl in E. discriminate.
Qed.

Lemma aliases_ok f : params_ok f = true -> forall k m, pd_get k (model_aliases_of f) = Some m -> model_ok m = true.
Proof.
  intros Hp. rewrite model_aliases_of_fold.
  assert (Hin : forall kv, In kv (alias_pairs f) -> model_ok (snd kv) = true).
  { intros [n m] Hin. unfold alias_pairs in Hin. apply in_flat_map in Hin. destruct Hin as (st & Hst & Hx). unfold params_ok in Hp. rewrite forallb_forall in Hp.
    specialize (Hp st Hst). destruct st; simpl in Hx; try contradiction. destruct Hx as [Hx|[]]. inversion Hx; subst. exact Hp. }
  revert Hin. generalize (alias_pairs f). intros l.
  assert (H0 : forall k' v', pd_get k' (@nil (string * dmodel)) = Some v' -> model_ok v' = true) by (intros ? ? H; discriminate).
  revert H0. generalize (@nil (string * dmodel)). induction l as [|[n m] l IH]; intros acc Hacc Hin; cbn [fold_left]; [exact Hacc|].
  apply IH; [|intros kv Hkv; apply Hin; right; exact Hkv]. cbn [fst snd]. apply pd_set_all; [apply (Hin (n, m)); left; reflexivity | exact Hacc].
Qed.

Lemma raw_decays_ok f : params_ok f = true -> forall t, In t (dedupe [] (raw_decays f)) -> forallb (fun d => model_ok (d_model d)) (snd t) = true.
Proof.
  intros Hp t Ht.
  assert (Hsub : forall l seen x, In x (dedupe seen l) -> In x l).
  { induction l as [|[m ls] l IH]; intros seen x Hx; [destruct Hx|]. cbn [dedupe] in Hx. destruct (smem m seen); [right; eapply IH; eauto|].
    destruct Hx as [<-|Hx]; [left; reflexivity | right; eapply IH; eauto]. }
  apply Hsub in Ht. unfold raw_decays in Ht. apply in_flat_map in Ht. destruct Ht as (st & Hst & Hx).
  unfold params_ok in Hp. rewrite forallb_forall in Hp. specialize (Hp st Hst). destruct st; simpl in Hx; try contradiction. destruct Hx as [<-|[]]. exact Hp.
Qed.

Lemma expand_lines_ok mal : (forall k m, pd_get k mal = Some m -> model_ok m = true) -> forall ls ls',
  forallb (fun d => model_ok (d_model d)) ls = true -> mapH (expand_line mal) ls = inl ls' -> forallb (fun d => model_ok (d_model d)) ls' = true.
Proof.
  intros Hm. induction ls as [|d r IH]; intros ls' Hok H; cbn [mapH] in H; [inversion H; reflexivity|].
  cbn [forallb] in Hok. apply andb_true_iff in Hok. destruct Hok as [Od Or].
  unfold expand_line at 1 in H. destruct (d_model d) as [l|n opts] eqn:Ed; cbn [expand_model] in H.
  - destruct (pd_get l mal) as [m'|] eqn:Eg; [|discriminate]. destruct (mapH (expand_line mal) r) as [r'|]; [|discriminate]. inversion H; subst.
    cbn [forallb d_model]. rewrite (Hm _ _ Eg). apply IH; auto.
  - destruct (mapH (expand_line mal) r) as [r'|]; [|discriminate]. inversion H; subst. cbn [forallb d_model]. rewrite Od. apply IH; auto.
Qed.

(* the tables at the unresolved (dline) level: expansion of the aliases, CopyDecay, CDecay *)
Definition expand_table (mal : pdict dmodel) (t : string * list dline) : (string * list dline) + herr :=
  match mapH (expand_line mal) (snd t) with inl ls' => inl (fst t, ls') | inr e => inr e end.

Definition ptables (ccdb : string -> string) (sc : string -> option bool) (inc : bool) (f : list stmt) : list (string * list dline) + herr :=
  match mapH (expand_table (model_aliases_of f)) (dedupe [] (raw_decays f)) with
  | inr e => inr e
  | inl P0 =>
      let P1 := g_add_copies (copies_of f) P0 in
      inl (if inc then g_add_cc d_fs set_dfs ccdb sc (cdecays_of f) (ccdefs_of f) P1 else P1)
  end.

Lemma vtransform_decays mal : forall l,
  vtransform_list (mapv (v_model_children enc_raw) mal) (map vd_raw l) =
  match mapH (expand_table mal) l with inl P => inl (map (@vd enc_raw) P) | inr e => inr e end.
Proof.
  induction l as [|[m ls] l IH]; [reflexivity|]. cbn [map vtransform_list mapH]. unfold vd_raw at 1. cbn [fst snd]. rewrite vtransform_decay.
  unfold expand_table at 1. cbn [fst snd]. destruct (mapH (expand_line mal) ls); [|reflexivity]. rewrite IH.
  destruct (mapH (expand_table mal) l); reflexivity.
Qed.

Lemma expand_tables_ok mal : (forall k m, pd_get k mal = Some m -> model_ok m = true) -> forall l P,
  (forall t, In t l -> forallb (fun d => model_ok (d_model d)) (snd t) = true) -> mapH (expand_table mal) l = inl P ->
  forall t, In t P -> forallb (fun d => model_ok (d_model d)) (snd t) = true.
Proof.
  intros Hm. induction l as [|[m ls] l IH]; intros P Hl H t Ht; cbn [mapH] in H; [inversion H; subst; destruct Ht|].
  unfold expand_table at 1 in H. cbn [fst snd] in H. destruct (mapH (expand_line mal) ls) as [ls'|] eqn:El; [|discriminate].
  destruct (mapH (expand_table mal) l) as [P'|] eqn:EP; [|discriminate]. inversion H; subst. destruct Ht as [<-|Ht].
  - cbn [snd]. eapply expand_lines_ok; [exact Hm | | exact El]. apply (Hl (m, ls)). left. reflexivity.
  - eapply IH; [| reflexivity | exact Ht]. intros t' Ht'. apply Hl. right. exact Ht'.
Qed.

Theorem parse_heap_den ccdb sc inc f P :
  params_ok f = true -> ptables ccdb sc inc f = inl P ->
  exists r, parse_heap ccdb sc inc f = inl r /\
            map (erase (h_toks (r_state r))) (r_decays r) = map (@vd (enc_res (defs_of f))) P.
Proof.
  intros Hpar HP. unfold ptables in HP.
  destruct (mapH (expand_table (model_aliases_of f)) (dedupe [] (raw_decays f))) as [P0|] eqn:EP0; [|discriminate].
  unfold parse_heap.
  destruct (mk_file f {| h_toks := []; h_next := 0 |}) as [F s1] eqn:EF.
  destruct (raw_aliases F [] s1) as [al0 s2] eqn:Eal0.
  destruct (deepcopy_dict al0 s2) as [al s3] eqn:Eal.
  match goal with |- context [mapME (transform al) ?D s3] => set (D0 := D) in * end.
  (* shapes, values of the file *)
  pose proof (file_mo_ok _ _ _ _ EF) as OkF.
  pose proof (EV_file _ _ _ _ EF) as (AF & GF & VF).
  destruct (AL_sep_bounded _ _ _ AF) as [[SF1 SF2] [BF1 BF2]].
  (* the alias dictionary *)
  destruct (raw_aliases_spec s1 F [] s1 al0 s2) as (Hd0 & L12 & N12); auto.
  { unfold DOK, vals, tids, nids. simpl. split; [constructor|]. split; [constructor|]. split; intros i []. }
  destruct Hd0 as (V1 & V2 & B01 & _).
  destruct (raw_aliases_erase s1 F [] s1 al0 s2 SF1 SF2 BF1 (le_n _)) as (Ag12 & _ & Bal0 & Eal0v); auto.
  { apply agree_below_refl. unfold ntok. lia. }
  { intros i []. }
  pose proof (deepcopy_dict_spec _ _ _ _ V1 V2 Eal) as Aal. destruct (AL_sep_bounded _ _ _ Aal) as [[SA1 SA2] [BA _]].
  destruct (deepcopy_dict_erase _ _ _ _ V1 V2 Bal0 Eal) as [G23 Ealv].
  assert (L23 : ntok s2 <= ntok s3 /\ h_next s2 <= h_next s3) by (destruct Aal as (A & B & _); auto).
  pose proof (al_ok_of_nodup _ SA1 SA2) as Hal.
  assert (Hsh : al_shape_ok al).
  { apply al_shape_ok_of_vals. apply (Forall_mo_ok_of_shapes (vals al0) (vals al)).
    - exact (deepcopy_dict_shape _ _ _ _ V1 V2 Eal).
    - eapply raw_aliases_shape; [exact SF1 | exact SF2 | exact OkF | | exact Eal0]. constructor. }
  assert (Ealv3 : ev_dict (h_toks s3) al = mapv (v_model_children enc_raw) (model_aliases_of f)).
  { rewrite Ealv, Eal0v. rewrite VF. change (ev_dict (h_toks s1) []) with (mapv (v_model_children enc_raw) (@nil (string * dmodel))).
    rewrite aliases_fold_file. reflexivity. }
  (* the kept Decay blocks *)
  assert (Sub : sublist D0 F).
  { unfold D0. eapply sublist_trans; [apply dedupe_h_sublist | apply sublist_filter]. }
  assert (ND0 : NoDup (tids D0)) by (eapply sublist_flat_nodup; eauto).
  assert (BD01 : forall i, In i (tids D0) -> i < ntok s1) by (intros i Hi; apply BF1; eapply sublist_flat_in; eauto).
  assert (BD0 : forall i, In i (tids D0) -> i < ntok s3) by (intros i Hi; specialize (BD01 i Hi); lia).
  assert (OkD0 : Forall mo_ok D0).
  { apply Forall_forall. intros t Ht. rewrite Forall_forall in OkF. apply OkF. eapply sublist_in; eauto. }
  assert (ED0 : map (erase (h_toks s1)) D0 = map vd_raw (dedupe [] (raw_decays f))).
  { unfold D0. rewrite dedupe_h_erase.
    - rewrite <- (filter_map_comm (vis_data "decay") (is_data "decay") (erase (h_toks s1))) by (intros; symmetry; apply is_data_erase).
      rewrite VF, filter_decay_file. apply vdedupe_decays.
    - intros t Ht i Hi. apply BF1. apply filter_In in Ht. unfold tids. apply in_flat_map. exists t. split; [apply Ht | exact Hi]. }
  assert (Ag13 : agree_below (ntok s1) (h_toks s1) (h_toks s3)).
  { eapply agree_below_trans; [| exact Ag12 | apply grows_agree; exact G23 |]; unfold ntok in *; lia. }
  assert (ED03 : map (erase (h_toks s3)) D0 = map vd_raw (dedupe [] (raw_decays f))).
  { rewrite <- ED0. apply map_ext_in. intros t Ht. symmetry. eapply erase_agree; [exact Ag13|]. intros i Hi. apply BD01. unfold tids. apply in_flat_map. exists t. auto. }
  (* the Transformer *)
  destruct (mapME (transform al) D0 s3) as [rD s4] eqn:ED1.
  destruct (mapME_transform_erase al Hal D0 s3 rD s4 ND0 BD0) as [G34 R34]; [|exact ED1|].
  { intros i Hi. apply BA. exact Hi. }
  rewrite Ealv3, ED03, vtransform_decays, EP0 in R34. unfold resl_rel in R34. destruct rD as [D1|e]; [|contradiction].
  pose proof (mapME_transform_spec al Hal D0 s3 D1 s4 ND0 BD0 ED1) as T1.
  pose proof (mapME_transform_mo_ok al Hal Hsh D0 s3 D1 s4 OkD0 ED1) as OkD1.
  destruct (TL_sep_bounded s3 D0 D1 s4) as [S1 B1]; [split; [exact BD0|] | exact T1 |].
  { intros i Hi. assert (i < h_next s1) by (apply BF2; eapply sublist_flat_in; eauto). lia. }
  (* the value visitor *)
  pose proof (aliases_ok f Hpar) as Hmal.
  pose proof (expand_tables_ok _ Hmal _ _ (raw_decays_ok f Hpar) EP0) as OkP0.
  destruct (visit_pass (defs_of f) D1 (h_toks s4) (proj1 S1) (proj2 S1)) as (h5 & E5 & V5 & F5).
  { intros t Ht. split; [rewrite Forall_forall in OkD1; apply OkD1; exact Ht|]. split.
    - intros i Hi. apply (proj1 B1). unfold tids. apply in_flat_map. exists t. auto.
    - assert (Hin : In (erase (h_toks s4) t) (map (@vd enc_raw) P0)) by (rewrite <- R34; apply in_map; exact Ht).
      apply in_map_iff in Hin. destruct Hin as ([m ls] & <- & Hp). apply vok_decay. apply (OkP0 _ Hp). }
  rewrite E5. rewrite R34, map_map in V5.
  assert (V5' : map (erase h5) D1 = map (@vd (enc_res (defs_of f))) P0).
  { rewrite V5. apply map_ext. intros [m ls]. apply vvisit_decay. }
  set (s5 := {| h_toks := h5; h_next := h_next s4 |}) in *.
  assert (B5 : bounded_by s5 D1).
  { destruct F5 as [L5 _]. eapply bounded_sizes; [| |exact B1]; unfold ntok; simpl; auto. }
  (* CopyDecay *)
  destruct (copy_decays (copies_of f) D1 s5) as [cps s6] eqn:Ecp.
  destruct (copy_decays_law D1 S1 (copies_of f) s5 cps s6 B5 Ecp) as [Ag56 Vcp].
  assert (HbD1 : forall t, In t D1 -> inb h5 t).
  { intros t Ht i Hi. apply (proj1 B5). unfold tids. apply in_flat_map. exists t. auto. }
  change (h_toks s5) with h5 in Vcp. rewrite (copies_v_den _ h5 D1 P0 V5' HbD1) in Vcp.
  assert (Acp : AL s5 cps s6).
  { eapply copy_decays_spec; [|exact Ecp]. intros t Hin. eapply separated_each; eauto. }
  destruct (sep_app_fresh _ _ _ _ S1 B5 Acp) as [S2 B2].
  assert (V6 : map (erase (h_toks s6)) (D1 ++ cps) = map (@vd (enc_res (defs_of f))) (g_add_copies (copies_of f) P0)).
  { unfold g_add_copies. rewrite !map_app. f_equal; [|exact Vcp]. rewrite <- V5'. apply map_ext_in. intros t Ht. symmetry.
    eapply erase_agree; [exact Ag56|]. intros i Hi. apply (proj1 B5). unfold tids. apply in_flat_map. exists t. auto. }
  destruct inc.
  - destruct (cc_decays ccdb sc (cdecays_of f) (ccdefs_of f) (D1 ++ cps) s6) as [ccs s7] eqn:Ecc.
    destruct (cc_decays_den ccdb sc (cdecays_of f) (ccdefs_of f) _ (D1 ++ cps) _ s6 ccs s7 S2 B2 V6 Ecc) as [_ V7].
    eexists. split; [reflexivity|]. cbn [r_state r_decays]. inversion HP; subst. exact V7.
  - eexists. split; [reflexivity|]. cbn [r_state r_decays]. inversion HP; subst. exact V6.
Qed.

(* ------------------------------------------------------------------ from the unresolved tables to the tables of Dec/Post.v *)
Definition res_line (defs : pdict Q) (d : dline) : line :=
  match d_model d with MName n opts => line_of defs d n opts | MLabel l => line_of defs d l None end.
Definition is_mname (d : dline) : Prop := match d_model d with MName _ _ => True | MLabel _ => False end.

Lemma res_get defs d : l_fs (res_line defs d) = d_fs d.
Proof. unfold res_line. destruct (d_model d); reflexivity. Qed.
Lemma res_set defs d fs : res_line defs (set_dfs d fs) = set_lfs (res_line defs d) fs.
Proof. unfold res_line. cbn [set_dfs d_model]. destruct (d_model d); reflexivity. Qed.

Lemma resolve_line_expand mal defs d L : resolve_line mal defs d = inl L ->
  exists d', expand_line mal d = inl d' /\ is_mname d' /\ res_line defs d' = L.
Proof.
  unfold resolve_line, expand_line, resolve_model. destruct (d_model d) as [l|n opts] eqn:Ed; cbn [expand_model].
  - destruct (pd_get l mal) as [[l'|n opts]|]; try discriminate. intros H. inversion H; subst. eexists. split; [reflexivity|]. split; [exact I | reflexivity].
  - intros H. inversion H; subst. eexists. split; [reflexivity|]. split; [exact I | reflexivity].
Qed.

Lemma resolve_lines_expand mal defs : forall ls Ls, mapE (resolve_line mal defs) ls = inl Ls ->
  exists ls', mapH (expand_line mal) ls = inl ls' /\ Forall is_mname ls' /\ map (res_line defs) ls' = Ls.
Proof.
  induction ls as [|d r IH]; intros Ls H; cbn [mapE] in H.
  - inversion H; subst. exists []. split; [reflexivity|]. split; [constructor | reflexivity].
  - destruct (resolve_line mal defs d) as [L|] eqn:El; [|discriminate]. destruct (mapE (resolve_line mal defs) r) as [Lr|] eqn:Er; [|discriminate].
    inversion H; subst. destruct (resolve_line_expand _ _ _ _ El) as (d' & Ed & Md & Rd). destruct (IH _ eq_refl) as (r' & Er' & Mr & Rr).
    exists (d' :: r'). cbn [mapH]. rewrite Ed, Er'. split; [reflexivity|]. split; [constructor; assumption | cbn [map]; rewrite Rd, Rr; reflexivity].
Qed.

Definition res_table (defs : pdict Q) (t : string * list dline) : table := (fst t, map (res_line defs) (snd t)).

Lemma resolve_tables_expand mal defs : forall l T, mapE (resolve_table mal defs) l = inl T ->
  exists P, mapH (expand_table mal) l = inl P /\ Forall (fun t => Forall is_mname (snd t)) P /\ map (res_table defs) P = T.
Proof.
  induction l as [|[m ls] l IH]; intros T H; cbn [mapE] in H.
  - inversion H; subst. exists []. split; [reflexivity|]. split; [constructor | reflexivity].
  - unfold resolve_table at 1 in H. cbn [fst snd] in H. destruct (mapE (resolve_line mal defs) ls) as [Ls|] eqn:El; [|discriminate].
    destruct (mapE (resolve_table mal defs) l) as [Tr|] eqn:Er; [|discriminate]. inversion H; subst.
    destruct (resolve_lines_expand _ _ _ _ El) as (ls' & E1 & M1 & R1). destruct (IH _ eq_refl) as (P & E2 & M2 & R2).
    exists ((m, ls') :: P). cbn [mapH]. unfold expand_table at 1. cbn [fst snd]. rewrite E1, E2. split; [reflexivity|]. split; [constructor; assumption|].
    cbn [map]. unfold res_table at 1. cbn [fst snd]. rewrite R1, R2. reflexivity.
Qed.

(* a property of lines kept by set_fs is kept by the table operations *)
Section Preserve.
Context {L : Type} (get_fs : L -> list string) (set_fs : L -> list string -> L) (Pr : L -> Prop).
Hypothesis set_pres : forall l fs, Pr l -> Pr (set_fs l fs).
Definition tok (t : string * list L) : Prop := Forall Pr (snd t).

Lemma pres_find m T ls : Forall tok T -> g_find m T = Some ls -> Forall Pr ls.
Proof.
  induction T as [|[m' ls'] T IH]; cbn [g_find]; intros HT H; [discriminate|]. inversion HT; subst.
  destruct (String.eqb m m'); [inversion H; subst; assumption | auto].
Qed.
Lemma Forall_rev' {A} (Q : A -> Prop) l : Forall Q l -> Forall Q (rev l).
Proof. intros H. apply Forall_forall. intros x Hx. rewrite Forall_forall in H. apply H. apply in_rev. exact Hx. Qed.

Lemma pres_add_copies copies T : Forall tok T -> Forall tok (g_add_copies copies T).
Proof.
  intros HT. unfold g_add_copies. apply Forall_app. split; [exact HT|]. apply Forall_forall. intros t Ht. apply in_flat_map in Ht.
  destruct Ht as (kv & _ & Ht). destruct (g_find (snd kv) (rev T)) as [ls|] eqn:E; [|destruct Ht]. destruct Ht as [<-|[]].
  unfold tok. cbn [snd]. eapply pres_find; [apply Forall_rev'; exact HT | exact E].
Qed.

Lemma pres_conj_lines ccdb : forall ls d, Forall Pr ls -> Forall Pr (snd (g_conj_lines get_fs set_fs ccdb d ls)).
Proof.
  induction ls as [|l ls IH]; intros d H; [constructor|]. inversion H; subst. rewrite g_conj_lines_cons. cbn [snd]. constructor; [apply set_pres; assumption | apply IH; assumption].
Qed.
Lemma pres_conj_table ccdb d t : tok t -> tok (snd (g_conj_table get_fs set_fs ccdb d t)).
Proof.
  destruct t as [m ls]. unfold g_conj_table, tok. cbn [snd]. intros H. pose proof (pres_conj_lines ccdb ls d H) as Hc.
  destruct (g_conj_lines get_fs set_fs ccdb d ls) as [d1 ls']. destruct (visit_names ccdb d1 [m]). cbn [snd] in *. exact Hc.
Qed.
Lemma pres_csteps ccdb sc : forall S acc, Forall tok S -> Forall tok (snd acc) -> Forall tok (snd (fold_left (g_cstep get_fs set_fs ccdb sc) S acc)).
Proof.
  induction S as [|t S IH]; intros [d out] HS Hacc; [exact Hacc|]. inversion HS; subst. cbn [fold_left]. apply IH; [assumption|].
  unfold g_cstep. cbn [snd] in Hacc. destruct (sc (fst t)) as [[|]|].
  - cbn [snd]. apply Forall_app. split; [assumption | constructor; [assumption | constructor]].
  - destruct d as [|kv d']; [pose proof (pres_conj_table ccdb [] t H1) as Hc; destruct (g_conj_table get_fs set_fs ccdb [] t)
                            | pose proof (pres_conj_table ccdb (kv :: d') t H1) as Hc; destruct (g_conj_table get_fs set_fs ccdb (kv :: d') t)];
      cbn [snd] in *; apply Forall_app; (split; [assumption | constructor; [assumption | constructor]]).
  - destruct d as [|kv d']; [pose proof (pres_conj_table ccdb [] t H1) as Hc; destruct (g_conj_table get_fs set_fs ccdb [] t)
                            | pose proof (pres_conj_table ccdb (kv :: d') t H1) as Hc; destruct (g_conj_table get_fs set_fs ccdb (kv :: d') t)];
      cbn [snd] in *; apply Forall_app; (split; [assumption | constructor; [assumption | constructor]]).
Qed.
Lemma pres_add_cc ccdb sc cdecays ccdefs T : Forall tok T -> Forall tok (g_add_cc get_fs set_fs ccdb sc cdecays ccdefs T).
Proof.
  intros HT. unfold g_add_cc. destruct (fold_left _ _ cdecays); [exact HT|]. apply Forall_app. split; [exact HT|].
  apply pres_csteps; [|constructor]. unfold g_cc_sources. apply Forall_forall. intros t Ht. apply in_flat_map in Ht. destruct Ht as (X & _ & Ht).
  cbv zeta in Ht. destruct (g_find (cc_match ccdb ccdefs X) (rev T)) as [ls|] eqn:E; [|destruct Ht]. destruct Ht as [<-|[]].
  unfold tok. cbn [snd]. eapply pres_find; [apply Forall_rev'; exact HT | exact E].
Qed.
End Preserve.

Lemma is_mname_set d fs : is_mname d -> is_mname (set_dfs d fs).
Proof. unfold is_mname. cbn [set_dfs d_model]. auto. Qed.

Lemma vread_table_res defs t : Forall is_mname (snd t) -> vread_table (@vd (enc_res defs) t) = Some (res_table defs t).
Proof.
  destruct t as [m ls]. cbn [snd]. intros H. unfold vd, v_decay, vread_table. cbn [fst snd vleafstr v_particle vtokstr vtokval v_tok].
  rewrite mapO_map. rewrite (mapO_ext _ (fun d => Some (res_line defs d))).
  - rewrite (mapO_all _ (res_line defs)) by reflexivity. reflexivity.
  - intros d Hd. rewrite Forall_forall in H. specialize (H d Hd). unfold is_mname in H. unfold res_line.
    destruct (d_model d) as [l|n opts] eqn:Ed; [destruct H|]. apply vread_line_res. exact Ed.
Qed.

Theorem ptables_post ccdb sc inc f T : parse_post ccdb sc inc f = inl T ->
  exists P, ptables ccdb sc inc f = inl P /\ Forall (fun t => Forall is_mname (snd t)) P /\ map (res_table (defs_of f)) P = T.
Proof.
  unfold parse_post, ptables. intros H.
  destruct (mapE (resolve_table (model_aliases_of f) (defs_of f)) (dedupe [] (raw_decays f))) as [T0|] eqn:E0; [|discriminate].
  destruct (resolve_tables_expand _ _ _ _ E0) as (P0 & EP & MP & RP). rewrite EP. inversion H; subst; clear H.
  set (defs := defs_of f).
  assert (Hc : map (res_table defs) (g_add_copies (copies_of f) P0) = add_copies (copies_of f) (map (res_table defs) P0)).
  { rewrite <- g_add_copies_line. symmetry. apply (nat_add_copies (res_line defs)). }
  assert (Mc : Forall (fun t => Forall is_mname (snd t)) (g_add_copies (copies_of f) P0)) by (apply (pres_add_copies is_mname); exact MP).
  destruct inc.
  - eexists. split; [reflexivity|]. split.
    + apply (pres_add_cc d_fs set_dfs is_mname is_mname_set). exact Mc.
    + rewrite <- g_add_cc_line. rewrite <- Hc. symmetry. apply (nat_add_cc d_fs set_dfs l_fs set_lfs (res_line defs) (res_get defs) (res_set defs)).
  - eexists. split; [reflexivity|]. split; [exact Mc | exact Hc].
Qed.

(* ================================================================== THE REFINEMENT THEOREM *)
(* whenever the value model of parse() yields tables, the object-level algorithm (new Tree objects, deep copies with memo,
   in-place writes to Token.value) terminates without error in a state whose decay trees read back as exactly those tables *)
Theorem parse_heap_refines ccdb sc inc f T :
  params_ok f = true -> parse_post ccdb sc inc f = inl T ->
  exists r, parse_heap ccdb sc inc f = inl r /\ tables_of r = Some T.
Proof.
  intros Hpar Hpost. destruct (ptables_post _ _ _ _ _ Hpost) as (P & HP & MP & RP).
  destruct (parse_heap_den _ _ _ _ _ Hpar HP) as (r & Hr & Hd). exists r. split; [exact Hr|].
  destruct (parse_heap_separated _ _ _ _ _ Hr) as [_ [Bt _]].
  unfold tables_of. rewrite (mapO_ext _ (fun t => vread_table (erase (h_toks (r_state r)) t))).
  - rewrite <- mapO_map. rewrite Hd. rewrite mapO_map. rewrite (mapO_ext _ (fun t => Some (res_table (defs_of f) t))).
    + rewrite (mapO_all _ (res_table (defs_of f))) by reflexivity. rewrite RP. reflexivity.
    + intros t Ht. apply vread_table_res. rewrite Forall_forall in MP. apply MP. exact Ht.
  - intros t Ht. apply read_table_erase. intros i Hi. apply Bt. unfold tids. apply in_flat_map. exists t. auto.
Qed.
