(* ModelName.v — how a model word is recognised: the MODEL_NAME terminal Lark compiles from
     MODEL_NAME.2 : "MODEL_NAME_PLACEHOLDER" <boundary>        (data/decfile.lark)
   after _generate_edit_terminals_callback (dec.py:322-348) has replaced the placeholder by the alternation of all
   (published + user) model names, longest first, each escaped.  Python's regex alternation tries the alternatives
   left to right and backtracks into the next one when the boundary fails: the match is the FIRST alternative that is
   a prefix of the text and satisfies the boundary. *)
From Coq Require Import String Ascii List Bool Arith Lia Permutation Sorted.
Import ListNotations.
Open Scope string_scope.

Definition is_word (c : ascii) : bool :=
  let n := nat_of_ascii c in
  (Nat.leb 48 n && Nat.leb n 57) || (Nat.leb 65 n && Nat.leb n 90) || (Nat.leb 97 n && Nat.leb n 122) || Nat.eqb n 95.
Definition wordo (o : option ascii) : bool := match o with Some c => is_word c | None => false end.

Inductive bkind := BWordBoundary          (* \b *)
                 | BNoWordAhead.          (* (?!\w) *)

Definition boundary_ok (k : bkind) (before after : option ascii) : bool :=
  match k with
  | BWordBoundary => xorb (wordo before) (wordo after)
  | BNoWordAhead => negb (wordo after)
  end.

Fixpoint strip_prefix (p s : string) : option string :=
  match p, s with
  | EmptyString, _ => Some s
  | String a p', String b s' => if Ascii.eqb a b then strip_prefix p' s' else None
  | _, _ => None
  end.

Fixpoint last_char (s : string) (d : option ascii) : option ascii :=
  match s with EmptyString => d | String c r => last_char r (Some c) end.
Definition head_char (s : string) : option ascii := match s with String c _ => Some c | EmptyString => None end.

(* does alternative a match at the start of s (prev: the character before the match) *)
Definition alt_matches (k : bkind) (prev : option ascii) (a s : string) : bool :=
  match strip_prefix a s with
  | Some rest => boundary_ok k (last_char a prev) (head_char rest)
  | None => false
  end.

Fixpoint match_alts (k : bkind) (prev : option ascii) (alts : list string) (s : string) : option nat :=
  match alts with
  | [] => None
  | a :: r => if alt_matches k prev a s then Some (String.length a) else match_alts k prev r s
  end.

(* sorted(decay_models, key=len, reverse=True): stable, longest first *)
Fixpoint ins_len (x : string) (l : list string) : list string :=
  match l with
  | [] => [x]
  | y :: r => if Nat.leb (String.length y) (String.length x) then x :: l else y :: ins_len x r
  end.
Definition sort_len_desc (l : list string) : list string := fold_right ins_len [] l.
