(* FrontEndProofs.v — the front end as a whole: constructor ; scanner ; statement automaton. *)
From Coq Require Import String Ascii List Bool Arith.
From DL Require Import Dec.ModelName Dec.Num Dec.Syntax Dec.Layout Dec.ItemParser Dec.FrontEnd Dec.LayoutProofs Dec.ItemParserProofs.
Import ListNotations.
Open Scope string_scope.

(* one input file: with or without a byte-order mark, its lines (text, CR LF or LF), and a last piece without line end *)
Record fileshape := { f_bom : bool; f_lines : list (string * bool); f_last : string }.
Definition file_bytes (f : fileshape) : string := (if f_bom f then BOM else "") ++ text_of_lines (f_lines f) (f_last f).
Definition file_ok (f : fileshape) : Prop :=
  Forall (fun be => line_ok (fst be)) (f_lines f) /\ line_ok (f_last f)
  /\ (f_bom f = false -> strip_prefix BOM (text_of_lines (f_lines f) (f_last f)) = None).
(* the lines of the file that are not End lines, each closed by LF, and the line end the constructor adds *)
Definition kept_text (f : fileshape) : string :=
  cat (filter keep (lf_lines (f_lines f) ++ last_line (f_last f))) ++ String LF "".

Lemma assemble_file_shape c f : lc_sig c = true -> file_ok f -> assemble_file_cfg c (file_bytes f) = kept_text f.
Proof.
  intros Hs [Hl [Hlast Hb]]. unfold assemble_file_cfg, file_bytes, kept_text. rewrite Hs.
  assert (E : strip_bom ((if f_bom f then BOM else "") ++ text_of_lines (f_lines f) (f_last f)) = text_of_lines (f_lines f) (f_last f)).
  { destruct (f_bom f); [reflexivity|]. cbn [append]. unfold strip_bom. rewrite (Hb eq_refl). reflexivity. }
  rewrite E. apply (assemble_text _ _ Hl Hlast).
Qed.

Theorem assemble_shape c fs : lc_sig c = true -> Forall file_ok fs ->
  assemble_cfg c (map file_bytes fs) = cat (map kept_text fs).
Proof.
  intros Hs H. unfold assemble_cfg. rewrite concat_cat. rewrite map_map. f_equal.
  induction H as [|f fs Hf _ IH]; [reflexivity|]. cbn [map]. rewrite (assemble_file_shape _ _ Hs Hf), IH. reflexivity.
Qed.

(* every spelling of every layout of a statement list is read back as that list *)
Theorem parse_text_layout c ss its s :
  plain (lc_kind c) (lc_alts c) "PHOTOS" ->
  file_items (lc_kind c) (lc_alts c) ss its -> spell (lc_label c) (lc_ws c) its s -> parse_text c s = Some ss.
Proof.
  intros Hp Hf Hs. unfold parse_text, scan_text. rewrite (scan_spell _ _ _ _ Hs). apply (parse_file_items _ _ Hp _ _ Hf).
Qed.

Theorem parse_files_layout c fs ss its :
  lc_sig c = true -> plain (lc_kind c) (lc_alts c) "PHOTOS" -> Forall file_ok fs ->
  file_items (lc_kind c) (lc_alts c) ss its -> spell (lc_label c) (lc_ws c) its (cat (map kept_text fs)) ->
  parse_files c (map file_bytes fs) = Some ss.
Proof.
  intros Hs Hp Hok Hf Hsp. unfold parse_files. rewrite (assemble_shape _ _ Hs Hok). apply (parse_text_layout _ _ _ _ Hp Hf Hsp).
Qed.

(* the item lists of texts that end their last line concatenate: what the files contribute is independent of their neighbours *)
Theorem scan_kept c (Hlf : classify (lc_label c) (lc_ws c) LF = CLf) t1 t2 :
  scan_text c ((t1 ++ String LF "") ++ t2) = (scan_text c (t1 ++ String LF "") ++ scan_text c t2)%list.
Proof. unfold scan_text. rewrite append_assoc. cbn [append]. apply (scan_app_lf _ _ Hlf). Qed.
