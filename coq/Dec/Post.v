(* Post.v — what DecFileParser.parse() does with the parsed tree (src/decaylanguage/dec/dec.py:166-233):
     _find_parsed_decays + _check_parsed_decays      (first block per mother kept)
     DecayModelAliasReplacement                       (ModelAlias -> model + parameters, a fresh copy per use)
     DecayModelParamValueReplacement                  (numeric strings -> numbers, Define'd names -> +-values)
     _add_decays_to_be_copied                         (CopyDecay)
     _add_charge_conjugate_decays                     (CDecay, with the visitor's write-back into the ChargeConj dict)
   on the statement list, producing the decay tables the queries read.  No proofs here. *)
From Coq Require Import String Ascii List Bool ZArith QArith Arith.
From DL Require Import Lib.Val Lib.PyDict Lib.Sort Decay.Conj Decay.ChainDict Dec.Num Dec.Tables Dec.Syntax.
Import ListNotations.
Close Scope Q_scope.
Open Scope string_scope.

(* ------------------------------------------------------------------ dictionaries of the file *)
Definition defs_of (f : list stmt) : pdict Q :=
  pd_of_list (flat_map (fun s => match s with SDefine n lit => [(n, numq lit)] | _ => [] end) f).
Definition aliases_of (f : list stmt) : pdict string :=
  pd_of_list (flat_map (fun s => match s with SAlias a b => [(a, b)] | _ => [] end) f).
Definition ccdefs_of (f : list stmt) : pdict string :=
  pd_of_list (flat_map (fun s => match s with SChargeConj a b => [(a, b)] | _ => [] end) f).
Definition copies_of (f : list stmt) : pdict string :=
  pd_of_list (flat_map (fun s => match s with SCopyDecay n o => [(n, o)] | _ => [] end) f).
Definition model_aliases_of (f : list stmt) : pdict dmodel :=
  pd_of_list (flat_map (fun s => match s with SModelAlias n m => [(n, m)] | _ => [] end) f).
Definition cdecays_of (f : list stmt) : list string :=
  sort_strings (flat_map (fun s => match s with SCDecay m => [m] | _ => [] end) f).

(* ------------------------------------------------------------------ raw tables, first block kept *)
Definition raw_decays (f : list stmt) : list (string * list dline) :=
  flat_map (fun s => match s with SDecay m ls => [(m, ls)] | _ => [] end) f.

Fixpoint dedupe (seen : list string) (l : list (string * list dline)) : list (string * list dline) :=
  match l with
  | [] => []
  | (m, ls) :: r => if smem m seen then dedupe seen r else (m, ls) :: dedupe (m :: seen) r
  end.

(* ------------------------------------------------------------------ model / parameter resolution *)
Inductive perr := UndefinedModel (l : string) | BadAliasBody (l : string).

(* the value a model parameter is reported as *)
Definition resolve_param (defs : pdict Q) (p : param) : pval :=
  match p with
  | PLit lit => PNum (numq lit)
  | PLabel s =>
      match s with
      | String c rest =>
          if is_c c "-" then
            match pd_get rest defs with Some v => PNum (- v)%Q | None => PWord s end
          else match pd_get s defs with Some v => PNum v | None => PWord s end
      | EmptyString => PWord s
      end
  end.

Definition resolve_model (mal : pdict dmodel) (defs : pdict Q) (m : dmodel) : (string * option (list pval)) + perr :=
  let fin n opts := inl (n, option_map (map (resolve_param defs)) opts) in
  match m with
  | MName n opts => fin n opts
  | MLabel l =>
      match pd_get l mal with
      | None => inr (UndefinedModel l)
      | Some (MName n opts) => fin n opts
      | Some (MLabel l') => inr (BadAliasBody l)
      end
  end.

Fixpoint mapE {A B} (f : A -> B + perr) (l : list A) : list B + perr :=
  match l with
  | [] => inl []
  | x :: r => match f x with
              | inr e => inr e
              | inl y => match mapE f r with inr e => inr e | inl ys => inl (y :: ys) end
              end
  end.

Definition resolve_line (mal : pdict dmodel) (defs : pdict Q) (d : dline) : line + perr :=
  match resolve_model mal defs (d_model d) with
  | inr e => inr e
  | inl (n, prm) => inl {| l_bf := numq (d_bf d); l_fs := d_fs d; l_photos := d_photos d; l_model := n; l_params := prm |}
  end.

Definition resolve_table (mal : pdict dmodel) (defs : pdict Q) (t : string * list dline) : table + perr :=
  match mapE (resolve_line mal defs) (snd t) with
  | inr e => inr e
  | inl ls => inl (fst t, ls)
  end.

(* ------------------------------------------------------------------ CopyDecay *)
Definition add_copies (copies : pdict string) (T : list table) : list table :=
  T ++ flat_map (fun kv => match find_table (snd kv) (rev T) with
                           | Some ls => [(fst kv, ls)]
                           | None => []
                           end) copies.

(* ------------------------------------------------------------------ CDecay *)
(* find_charge_conjugate_match(pname, dict) *)
Fixpoint rev_lookup (v : string) (d : pdict string) : option string :=
  match d with
  | [] => None
  | (k, v') :: r => if String.eqb v v' then Some k else rev_lookup v r
  end.

Definition cc_match (ccdb : string -> string) (d : pdict string) (p : string) : string :=
  match d with
  | [] => ccdb p
  | _ => match pd_get p d with
         | Some m => m
         | None => match rev_lookup p d with Some k => k | None => ccdb p end
         end
  end.

(* the visitor on one particle: look up, write back into the dictionary, replace *)
Definition visit_particle (ccdb : string -> string) (st : pdict string * list string) (p : string)
  : pdict string * list string :=
  let '(d, out) := st in
  let c := cc_match ccdb d p in
  (* `charge_conj_defs or {}`: an empty dictionary is replaced by a private one, which then fills up *)
  (pd_set p c d, out ++ [c])%list.

Definition visit_names (ccdb : string -> string) (d : pdict string) (ps : list string) : pdict string * list string :=
  fold_left (visit_particle ccdb) ps (d, []).

(* conjugate one table: daughters line by line in order, then the mother (Visitor order) *)
Definition conj_table (ccdb : string -> string) (d : pdict string) (t : table) : pdict string * table :=
  let '(m, ls) := t in
  let '(d1, ls') :=
    fold_left (fun (acc : pdict string * list line) (l : line) =>
                 let '(d0, out) := acc in
                 let '(d0', fs') := visit_names ccdb d0 (l_fs l) in
                 (d0', out ++ [{| l_bf := l_bf l; l_fs := fs'; l_photos := l_photos l; l_model := l_model l;
                                  l_params := l_params l |}])%list) ls (d, []) in
  let '(d2, ms) := visit_names ccdb d1 [m] in
  (d2, (hd m ms, ls')).

Fixpoint remove_all (x : string) (l : list string) : list string :=
  match l with [] => [] | y :: r => if String.eqb x y then remove_all x r else y :: remove_all x r end.

(* `for d in duplicates: names.remove(d)` *)
Fixpoint remove_one (x : string) (l : list string) : list string :=
  match l with [] => [] | y :: r => if String.eqb x y then r else y :: remove_one x r end.

(* name2treepos = {mother: i for i, t in enumerate(...)}: the LAST table with that mother *)
Definition find_table_last (m : string) (T : list table) : option (list line) := find_table m (rev T).

(* CDecay names that have no Decay table of their own *)
Definition cc_names (cdecays : list string) (T : list table) : list string :=
  fold_left (fun l d => remove_one d l) (filter (fun n => smem n (map fst T)) cdecays) cdecays.

(* the tables to conjugate: the table of the conjugate of X, when there is one *)
Definition cc_sources (ccdb : string -> string) (ccdefs : pdict string) (cdecays : list string) (T : list table) : list table :=
  flat_map (fun X => let name := cc_match ccdb ccdefs X in
                     match find_table_last name T with Some ls => [(name, ls)] | None => [] end) (cc_names cdecays T).

Definition cstep_t (ccdb : string -> string) (selfconj : string -> option bool)
                   (acc : pdict string * list table) (t : table) : pdict string * list table :=
  let '(d, out) := acc in
  match selfconj (fst t) with
  | Some true => (d, out ++ [t])%list                        (* warning; copied unconjugated *)
  | _ => match d with
         | [] => let '(_, t') := conj_table ccdb [] t in (d, out ++ [t'])%list   (* private dict per visitor *)
         | _ => let '(d', t') := conj_table ccdb d t in (d', out ++ [t'])%list
         end
  end.

Definition add_cc (ccdb : string -> string) (selfconj : string -> option bool)
                  (cdecays : list string) (ccdefs : pdict string) (T : list table) : list table :=
  match cc_names cdecays T with
  | [] => T
  | _ => (T ++ snd (fold_left (cstep_t ccdb selfconj) (cc_sources ccdb ccdefs cdecays T) (ccdefs, [])))%list
  end.

(* ------------------------------------------------------------------ parse() *)
Definition parse_post (ccdb : string -> string) (selfconj : string -> option bool) (include_cc : bool)
                      (f : list stmt) : list table + perr :=
  let mal := model_aliases_of f in
  let defs := defs_of f in
  match mapE (resolve_table mal defs) (dedupe [] (raw_decays f)) with
  | inr e => inr e
  | inl T0 =>
      let T1 := add_copies (copies_of f) T0 in
      inl (if include_cc then add_cc ccdb selfconj (cdecays_of f) (ccdefs_of f) T1 else T1)
  end.

(* ------------------------------------------------------------------ observation *)
Definition vline (photos_kw : bool) (l : line) : val :=
  VList [vq (l_bf l); vstrs (l_fs l);
         VStr (if photos_kw && l_photos l then "PHOTOS " ++ l_model l else l_model l); vparams (l_params l)].
Definition vtables (T : list table) : val :=
  VList (map (fun t => VList [VStr (fst t); VList (map (vline true) (snd t))]) T).
Definition vpost (r : list table + perr) : val :=
  match r with
  | inl T => vtables T
  | inr (UndefinedModel l) => VErr "ValueError"
  | inr (BadAliasBody l) => VErr "BadAliasBody"
  end.
