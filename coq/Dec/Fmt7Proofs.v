(* Fmt7Proofs.v — what "{:.7g}" shows is the value to 7 significant digits:
     sci7_spec        : the 7-digit integer n and exponent e chosen for x = a/b satisfy 10^6 <= n < 10^7 and
                        | x - n * 10^(e-6) | <= 10^(e-6) / 2 ;
     fmt_sci_value    : the text printed for (n, e) is a numeric literal of the .dec grammar (Dec/Num.v) whose value is n * 10^(e-6). *)
From Coq Require Import String Ascii List Bool ZArith QArith Arith Lia.
From DL Require Import Dec.Num Dec.Fmt7.
Import ListNotations.
Close Scope Q_scope.
Open Scope string_scope.
Local Open Scope Z_scope.

(* ------------------------------------------------------------------ rounding *)
Lemma round_he_spec p q : 0 < q -> 0 <= p -> 2 * Z.abs (p - q * round_he p q) <= q.
Proof.
  intros Hq Hp. unfold round_he. pose proof (Z.div_mod p q ltac:(lia)) as Hd. pose proof (Z.mod_pos_bound p q Hq) as Hm.
  destruct (2 * (p mod q) <? q) eqn:E1; [apply Z.ltb_lt in E1; lia|]. apply Z.ltb_ge in E1.
  destruct (q <? 2 * (p mod q)) eqn:E2; [apply Z.ltb_lt in E2; lia|]. apply Z.ltb_ge in E2.
  destruct (Z.even (p / q)); lia.
Qed.

Lemma round_he_mono_bounds p q lo hi : 0 < q -> 0 <= p -> lo * q <= p -> p < hi * q -> lo <= round_he p q <= hi.
Proof.
  intros Hq Hp Hlo Hhi. pose proof (round_he_spec p q Hq Hp) as Hs. split; nia.
Qed.

Lemma pow10_pos e : 0 <= e -> 0 < 10 ^ e.
Proof. intros. apply Z.pow_pos_nonneg; lia. Qed.

(* the scaled fraction lies in [10^6, 10^7) *)
Lemma scaled_bounds a b e p q : 0 < a -> 0 < b -> q_ge_pow a b e = true -> q_ge_pow a b (e + 1) = false ->
  scaled a b e = (p, q) -> 0 < q /\ 0 <= p /\ 10 ^ 6 * q <= p /\ p < 10 ^ 7 * q.
Proof.
  intros Ha Hb Hlo Hhi Hs. unfold scaled in Hs. unfold q_ge_pow in Hlo, Hhi.
  destruct (0 <=? 6 - e) eqn:E6.
  - apply Z.leb_le in E6. pose proof (pow10_pos (6 - e) E6) as P6.
    remember (10 ^ (6 - e)) as X eqn:EX. injection Hs as Ep Eq. subst p q.
    split; [lia|]. split; [apply Z.mul_nonneg_nonneg; lia|].
    destruct (0 <=? e) eqn:E0.
    + apply Z.leb_le in E0. apply Z.leb_le in Hlo. pose proof (pow10_pos e E0) as Pe.
      assert (H67 : 10 ^ 6 = 10 ^ e * X) by (rewrite EX, <- Z.pow_add_r by lia; f_equal; lia).
      replace (0 <=? e + 1) with true in Hhi by (symmetry; apply Z.leb_le; lia). apply Z.leb_gt in Hhi.
      assert (H77 : 10 ^ 7 = 10 ^ (e + 1) * X) by (rewrite EX, <- Z.pow_add_r by lia; f_equal; lia).
      rewrite H67, H77. split.
      * replace (10 ^ e * X * b) with ((10 ^ e * b) * X) by ring. apply Z.mul_le_mono_nonneg_r; lia.
      * replace (10 ^ (e + 1) * X * b) with ((10 ^ (e + 1) * b) * X) by ring. apply Z.mul_lt_mono_pos_r; lia.
    + apply Z.leb_gt in E0. apply Z.leb_le in Hlo. pose proof (pow10_pos (- e) ltac:(lia)) as Pe.
      assert (H6 : X = 10 ^ 6 * 10 ^ (- e)) by (rewrite EX, <- Z.pow_add_r by lia; f_equal; lia).
      split.
      { rewrite H6. replace (a * (10 ^ 6 * 10 ^ (- e))) with (10 ^ 6 * (a * 10 ^ (- e))) by ring. apply Z.mul_le_mono_nonneg_l; lia. }
      destruct (0 <=? e + 1) eqn:E1.
      * apply Z.leb_le in E1. assert (e = -1) by lia. subst e. apply Z.leb_gt in Hhi. change (6 - -1) with 7 in EX. change (-1 + 1) with 0 in Hhi.
        rewrite EX. change (10 ^ 0) with 1 in Hhi. lia.
      * apply Z.leb_gt in E1. apply Z.leb_gt in Hhi. pose proof (pow10_pos (- (e + 1)) ltac:(lia)) as Pe1.
        assert (H7 : X = 10 ^ 7 * 10 ^ (- (e + 1))) by (rewrite EX, <- Z.pow_add_r by lia; f_equal; lia).
        rewrite H7. replace (a * (10 ^ 7 * 10 ^ (- (e + 1)))) with (10 ^ 7 * (a * 10 ^ (- (e + 1)))) by ring. apply Z.mul_lt_mono_pos_l; lia.
  - apply Z.leb_gt in E6. pose proof (pow10_pos (e - 6) ltac:(lia)) as P6.
    remember (10 ^ (e - 6)) as X eqn:EX. injection Hs as Ep Eq. subst p q.
    replace (0 <=? e) with true in Hlo by (symmetry; apply Z.leb_le; lia). apply Z.leb_le in Hlo.
    replace (0 <=? e + 1) with true in Hhi by (symmetry; apply Z.leb_le; lia). apply Z.leb_gt in Hhi.
    assert (He : 10 ^ e = 10 ^ 6 * X) by (rewrite EX, <- Z.pow_add_r by lia; f_equal; lia).
    assert (He1 : 10 ^ (e + 1) = 10 ^ 7 * X) by (rewrite EX, <- Z.pow_add_r by lia; f_equal; lia).
    split; [apply Z.mul_pos_pos; lia|]. split; [lia|]. split.
    + replace (10 ^ 6 * (b * X)) with ((10 ^ 6 * X) * b) by ring. rewrite <- He. exact Hlo.
    + replace (10 ^ 7 * (b * X)) with ((10 ^ 7 * X) * b) by ring. rewrite <- He1. exact Hhi.
Qed.

(* sci7: seven digits, within half a unit of the last one.  Stated on the scaled fraction p/q = x * 10^(6-e0):
   n (times 10 if the rounding carried into an eighth digit) is p/q rounded to the nearest integer *)
Theorem sci7_spec a b n e : 0 < a -> 0 < b -> sci7 a b = Some (n, e) ->
  10 ^ 6 <= n < 10 ^ 7 /\
  exists e0 p q c, scaled a b e0 = (p, q) /\ 0 < q /\ 10 ^ 6 * q <= p < 10 ^ 7 * q /\
                   (c = 1 \/ c = 10) /\ e = e0 + (if c =? 1 then 0 else 1) /\ 2 * Z.abs (p - q * (n * c)) <= q.
Proof.
  intros Ha Hb H. unfold sci7 in H. set (e0 := ilog10 a b) in *.
  destruct (q_ge_pow a b e0 && negb (q_ge_pow a b (e0 + 1))) eqn:Ec; [|discriminate].
  apply andb_true_iff in Ec. destruct Ec as [Hlo Hhi]. apply negb_true_iff in Hhi.
  destruct (scaled a b e0) as [p q] eqn:Es.
  destruct (scaled_bounds a b e0 p q Ha Hb Hlo Hhi Es) as (Hq & Hp & B1 & B2).
  pose proof (round_he_spec p q Hq Hp) as Hr.
  pose proof (round_he_mono_bounds p q (10 ^ 6) (10 ^ 7) Hq Hp ltac:(lia) ltac:(lia)) as Hb'.
  destruct (round_he p q =? 10 ^ 7) eqn:E7.
  - apply Z.eqb_eq in E7. inversion H; subst; clear H. split; [simpl; lia|].
    exists e0, p, q, 10. split; [exact Es|]. split; [exact Hq|]. split; [lia|]. split; [right; reflexivity|]. split; [reflexivity|].
    rewrite E7 in Hr. change (10 ^ 7) with 10000000 in Hr. change (10 ^ 6) with 1000000. lia.
  - apply Z.eqb_neq in E7. inversion H; subst; clear H. split; [lia|].
    exists e0, p, q, 1. split; [exact Es|]. split; [exact Hq|]. split; [lia|]. split; [left; reflexivity|]. split; [simpl; lia|].
    rewrite Z.mul_1_r. exact Hr.
Qed.

(* ------------------------------------------------------------------ digit strings and the literal reader of Dec/Num.v *)
Fixpoint all_dig (s : string) : bool := match s with EmptyString => true | String c r => is_digit c && all_dig r end.
Fixpoint dval (s : string) (acc : Z) : Z := match s with EmptyString => acc | String c r => dval r (acc * 10 + digit_val c) end.
Definition nodig_start (s : string) : Prop := match s with EmptyString => True | String c _ => is_digit c = false end.

Lemma append_assoc' (a b c : string) : (a ++ b) ++ c = a ++ (b ++ c).
Proof. induction a as [|x a IH]; simpl; [reflexivity | rewrite IH; reflexivity]. Qed.
Lemma append_nil_r' (a : string) : a ++ "" = a.
Proof. induction a as [|x a IH]; simpl; [reflexivity | rewrite IH; reflexivity]. Qed.
Lemma length_append (a b : string) : String.length (a ++ b) = (String.length a + String.length b)%nat.
Proof. induction a as [|x a IH]; simpl; [reflexivity | rewrite IH; reflexivity]. Qed.

Lemma digits_run : forall ds rest acc k, all_dig ds = true ->
  digits (ds ++ rest) acc k = digits rest (dval ds acc) (k + String.length ds)%nat.
Proof.
  induction ds as [|c ds IH]; intros rest acc k H; simpl.
  - rewrite Nat.add_0_r. reflexivity.
  - simpl in H. apply andb_true_iff in H. destruct H as [Hc Hd]. rewrite Hc. rewrite IH by exact Hd. f_equal. lia.
Qed.
Lemma digits_stop rest acc k : nodig_start rest -> digits rest acc k = (acc, k, rest).
Proof. destruct rest as [|c r]; simpl; intros H; [reflexivity | rewrite H; reflexivity]. Qed.

Lemma dval_app : forall a b acc, dval (a ++ b) acc = dval b (dval a acc).
Proof. induction a as [|c a IH]; intros b acc; simpl; [reflexivity | apply IH]. Qed.
Lemma all_dig_app a b : all_dig (a ++ b) = all_dig a && all_dig b.
Proof. induction a as [|c a IH]; simpl; [reflexivity | rewrite IH; apply andb_assoc]. Qed.

Lemma digit_not_special c : is_digit c = true ->
  is_c c "-" = false /\ is_c c "+" = false /\ is_c c "." = false /\ is_c c "e" = false /\ is_c c "E" = false.
Proof. destruct c as [[] [] [] [] [] [] [] []]; vm_compute; intros H; try discriminate; repeat split; reflexivity. Qed.

(* the exponent part *)
Definition exp_text (ex : option (bool * string)) : string :=
  match ex with Some (neg, EXP) => "e" ++ (if neg then "-" else "+") ++ EXP | None => "" end.
Definition exp_val (ex : option (bool * string)) : Z :=
  match ex with Some (neg, EXP) => if neg then - dval EXP 0 else dval EXP 0 | None => 0 end.
Definition exp_ok (ex : option (bool * string)) : Prop :=
  match ex with Some (_, EXP) => all_dig EXP = true /\ EXP <> "" | None => True end.

Definition has_exp (ex : option (bool * string)) : bool := match ex with Some _ => true | None => false end.

Lemma read_exp_text ex : exp_ok ex -> read_exp (exp_text ex) = (true, exp_val ex, has_exp ex).
Proof.
  destruct ex as [[neg EXP]|]; simpl; intros H; [|reflexivity]. destruct H as [Hd Hne].
  change (is_c "e" "e") with true. cbn [orb]. destruct neg; cbn [append read_sign].
  - change (is_c "-" "-") with true. cbn iota.
    rewrite <- (append_nil_r' EXP). rewrite digits_run by exact Hd. rewrite digits_stop by exact I. rewrite append_nil_r'.
    destruct EXP as [|c r]; [congruence|]. cbn [String.length Nat.add Nat.eqb]. reflexivity.
  - change (is_c "+" "-") with false. change (is_c "+" "+") with true. cbn iota.
    rewrite <- (append_nil_r' EXP). rewrite digits_run by exact Hd. rewrite digits_stop by exact I. rewrite append_nil_r'.
    destruct EXP as [|c r]; [congruence|]. cbn [String.length Nat.add Nat.eqb]. reflexivity.
Qed.

Lemma exp_text_nodig ex : nodig_start (exp_text ex).
Proof. destruct ex as [[neg EXP]|]; simpl; [reflexivity | exact I]. Qed.

(* a literal  IP [ "." FP ] [ "e" sign EXP ]  with a non-empty integer part *)
Lemma numval_shape IP FP (dot : bool) ex :
  all_dig IP = true -> IP <> "" -> all_dig FP = true -> (dot = false -> FP = "") -> exp_ok ex ->
  numval (IP ++ (if dot then "." ++ FP else "") ++ exp_text ex) =
  Some (Qred (inject_Z (dval (IP ++ FP) 0) * pow10 (exp_val ex - Z.of_nat (String.length FP))), negb dot && negb (has_exp ex)).
Proof.
  intros HI HIne HF Hdot Hex. destruct IP as [|c IP']; [congruence|]. clear HIne.
  simpl in HI. apply andb_true_iff in HI. destruct HI as [Hc HI'].
  destruct (digit_not_special c Hc) as (Nm & Np & _).
  unfold numval. cbn [append read_sign]. rewrite Nm, Np. unfold numtail.
  set (R := (if dot then "." ++ FP else "") ++ exp_text ex).
  assert (Hd : digits (String c (IP' ++ R)) 0 0 = digits R (dval (String c IP') 0) (0 + String.length (String c IP'))%nat).
  { apply (digits_run (String c IP') R 0 0). simpl. rewrite Hc. exact HI'. }
  change (String c (IP' ++ (if dot then String "." FP else "") ++ exp_text ex)) with (String c (IP' ++ R)).
  rewrite Hd. clear Hd. unfold R. clear R.
  pose proof (read_exp_text ex Hex) as Hre.
  destruct dot.
  - rewrite digits_stop by reflexivity. cbn [append read_frac]. change (is_c "." ".") with true. cbn iota.
    rewrite digits_run by exact HF. rewrite digits_stop by (apply exp_text_nodig). rewrite Hre.
    cbn [Nat.add]. destruct (Nat.eqb (String.length (String c IP') + String.length FP) 0) eqn:E0; [apply Nat.eqb_eq in E0; simpl in E0; lia|].
    rewrite <- (dval_app (String c IP') FP 0). reflexivity.
  - rewrite (Hdot eq_refl). cbn [append]. rewrite append_nil_r'. cbn [String.length].
    assert (Hrf : read_frac (dval (String c IP') 0) (exp_text ex) = (dval (String c IP') 0, 0%nat, false, exp_text ex)).
    { destruct ex as [[neg EXP]|]; reflexivity. }
    rewrite digits_stop by (apply exp_text_nodig). rewrite Hrf. rewrite Hre.
    destruct (Nat.eqb (0 + String.length (String c IP') + 0) 0) eqn:E0; [apply Nat.eqb_eq in E0; simpl in E0; lia|].
    reflexivity.
Qed.

(* ------------------------------------------------------------------ the seven digits *)
Lemma digit_char_ok d : 0 <= d <= 9 -> is_digit (digit_char d) = true /\ digit_val (digit_char d) = d.
Proof.
  intros H. assert (C : d = 0 \/ d = 1 \/ d = 2 \/ d = 3 \/ d = 4 \/ d = 5 \/ d = 6 \/ d = 7 \/ d = 8 \/ d = 9) by lia.
  repeat (destruct C as [C|C]; [subst; split; reflexivity|]). subst. split; reflexivity.
Qed.

Lemma mod10_range x : 0 <= x mod 10 <= 9.
Proof. pose proof (Z.mod_pos_bound x 10 ltac:(lia)). lia. Qed.

Lemma digs7_spec n : 0 <= n < 10 ^ 7 -> all_dig (digs7 n) = true /\ dval (digs7 n) 0 = n /\ String.length (digs7 n) = 7%nat.
Proof.
  intros Hn. unfold digs7.
  set (q1 := n / 10). set (q2 := q1 / 10). set (q3 := q2 / 10). set (q4 := q3 / 10). set (q5 := q4 / 10). set (q6 := q5 / 10).
  pose proof (Z.div_mod n 10 ltac:(lia)) as E0. pose proof (Z.div_mod q1 10 ltac:(lia)) as E1. pose proof (Z.div_mod q2 10 ltac:(lia)) as E2.
  pose proof (Z.div_mod q3 10 ltac:(lia)) as E3. pose proof (Z.div_mod q4 10 ltac:(lia)) as E4. pose proof (Z.div_mod q5 10 ltac:(lia)) as E5.
  pose proof (Z.div_mod q6 10 ltac:(lia)) as E6.
  fold q1 in E0. fold q2 in E1. fold q3 in E2. fold q4 in E3. fold q5 in E4. fold q6 in E5.
  pose proof (mod10_range n) as R0. pose proof (mod10_range q1) as R1. pose proof (mod10_range q2) as R2. pose proof (mod10_range q3) as R3.
  pose proof (mod10_range q4) as R4. pose proof (mod10_range q5) as R5. pose proof (mod10_range q6) as R6.
  assert (Hq6 : q6 / 10 = 0).
  { change (10 ^ 7) with 10000000 in Hn. assert (0 <= q6 < 10); [|apply Z.div_small; lia].
    assert (0 <= q1) by (apply Z.div_pos; lia). assert (0 <= q2) by (apply Z.div_pos; lia). assert (0 <= q3) by (apply Z.div_pos; lia).
    assert (0 <= q4) by (apply Z.div_pos; lia). assert (0 <= q5) by (apply Z.div_pos; lia). assert (0 <= q6) by (apply Z.div_pos; lia). lia. }
  split; [|split; [|reflexivity]].
  - cbn [all_dig]. rewrite (proj1 (digit_char_ok _ R0)), (proj1 (digit_char_ok _ R1)), (proj1 (digit_char_ok _ R2)), (proj1 (digit_char_ok _ R3)),
      (proj1 (digit_char_ok _ R4)), (proj1 (digit_char_ok _ R5)), (proj1 (digit_char_ok _ R6)). reflexivity.
  - cbn [dval]. rewrite (proj2 (digit_char_ok _ R0)), (proj2 (digit_char_ok _ R1)), (proj2 (digit_char_ok _ R2)), (proj2 (digit_char_ok _ R3)),
      (proj2 (digit_char_ok _ R4)), (proj2 (digit_char_ok _ R5)), (proj2 (digit_char_ok _ R6)). lia.
Qed.

(* trailing zeros *)
Lemma zero_char_is c : is_zero_char c = true -> c = "0"%char.
Proof. destruct c as [[] [] [] [] [] [] [] []]; vm_compute; intros H; congruence. Qed.

Lemma rstrip0_spec : forall s, exists k, s = rstrip0 s ++ zeros k.
Proof.
  induction s as [|c r IH]; [exists 0%nat; reflexivity|]. destruct IH as [k Hk]. cbn [rstrip0].
  destruct (rstrip0 r) as [|c2 r2] eqn:Er.
  - destruct (is_zero_char c) eqn:Ez.
    + apply zero_char_is in Ez. subst c. exists (S k). simpl. simpl in Hk. rewrite <- Hk. reflexivity.
    + exists k. simpl. simpl in Hk. rewrite <- Hk. reflexivity.
  - exists k. simpl in Hk |- *. rewrite <- Hk. reflexivity.
Qed.

Lemma strip_keep1_spec s : s <> "" -> exists k, s = strip_keep1 s ++ zeros k /\ strip_keep1 s <> "".
Proof.
  destruct s as [|c r]; [congruence|]. intros _. destruct (rstrip0_spec r) as [k Hk]. exists k. cbn [strip_keep1 append]. rewrite <- Hk.
  split; [reflexivity | discriminate].
Qed.

Lemma all_dig_zeros k : all_dig (zeros k) = true.
Proof. induction k; simpl; auto. Qed.
Lemma dval_zeros : forall k acc, dval (zeros k) acc = acc * 10 ^ Z.of_nat k.
Proof.
  induction k as [|k IH]; intros acc; [simpl; lia|]. cbn [zeros dval]. rewrite IH. change (digit_val "0") with 0.
  rewrite Nat2Z.inj_succ, Z.pow_succ_r by lia. ring.
Qed.
Lemma length_zeros k : String.length (zeros k) = k.
Proof. induction k; simpl; auto. Qed.

Lemma take_drop : forall k s, take k s ++ drop k s = s.
Proof. induction k as [|k IH]; intros [|c r]; simpl; try reflexivity. rewrite IH. reflexivity. Qed.
Lemma length_take : forall k s, (k <= String.length s)%nat -> String.length (take k s) = k.
Proof. induction k as [|k IH]; intros [|c r] H; simpl in *; try reflexivity; try lia. rewrite IH by lia. reflexivity. Qed.
Lemma length_drop : forall k s, (k <= String.length s)%nat -> String.length (drop k s) = (String.length s - k)%nat.
Proof. induction k as [|k IH]; intros [|c r] H; simpl in *; try reflexivity; try lia. apply IH. lia. Qed.
Lemma all_dig_take_drop k s : all_dig s = true -> all_dig (take k s) = true /\ all_dig (drop k s) = true.
Proof. intros H. rewrite <- (take_drop k s), all_dig_app in H. apply andb_true_iff in H. exact H. Qed.
Lemma take_nonempty k s : (0 < k)%nat -> s <> "" -> take k s <> "".
Proof. destruct k; [lia|]. destruct s; [congruence|]. simpl. discriminate. Qed.

(* the exponent digits *)
Lemma exp_digits_spec m : 0 <= m < 1000 -> all_dig (exp_digits m) = true /\ dval (exp_digits m) 0 = m /\ exp_digits m <> "".
Proof.
  intros Hm. unfold exp_digits. destruct (m <? 10) eqn:E1; [apply Z.ltb_lt in E1|apply Z.ltb_ge in E1; destruct (m <? 100) eqn:E2; [apply Z.ltb_lt in E2 | apply Z.ltb_ge in E2]].
  - destruct (digit_char_ok m ltac:(lia)) as [A B]. cbn [all_dig dval]. rewrite A, B. change (is_digit "0") with true. change (digit_val "0") with 0.
    repeat split; try lia; discriminate.
  - pose proof (Z.div_mod m 10 ltac:(lia)) as Ed. pose proof (mod10_range m) as R.
    assert (Rq : 0 <= m / 10 <= 9).
    { split; [apply Z.div_pos; lia|]. assert (m / 10 < 10) by (apply Z.div_lt_upper_bound; lia). lia. }
    destruct (digit_char_ok _ R) as [A0 B0]. destruct (digit_char_ok _ Rq) as [A1 B1]. cbn [all_dig dval]. rewrite A0, A1, B0, B1.
    repeat split; try lia; discriminate.
  - pose proof (Z.div_mod m 10 ltac:(lia)) as Ed. pose proof (Z.div_mod (m / 10) 10 ltac:(lia)) as Ed2. pose proof (mod10_range m) as R. pose proof (mod10_range (m / 10)) as R1.
    assert (Eq : m / 100 = m / 10 / 10) by (rewrite Z.div_div by lia; reflexivity).
    assert (Rq : 0 <= m / 100 <= 9).
    { split; [apply Z.div_pos; lia|]. assert (m / 100 < 10) by (apply Z.div_lt_upper_bound; lia). lia. }
    destruct (digit_char_ok _ R) as [A0 B0]. destruct (digit_char_ok _ R1) as [A1 B1]. destruct (digit_char_ok _ Rq) as [A2 B2].
    cbn [all_dig dval]. rewrite A0, A1, A2, B0, B1, B2. repeat split; try lia; discriminate.
Qed.

(* ------------------------------------------------------------------ powers of ten in Q *)
Local Open Scope Q_scope.
Lemma pow10_nonneg_eq x : (0 <= x)%Z -> pow10 x = inject_Z (10 ^ x).
Proof. intros H. unfold pow10. replace (0 <=? x)%Z with true by (symmetry; apply Z.leb_le; exact H). reflexivity. Qed.
Lemma pow10_neg_eq x : (x < 0)%Z -> pow10 x = 1 # Z.to_pos (10 ^ (- x)).
Proof. intros H. unfold pow10. replace (0 <=? x)%Z with false by (symmetry; apply Z.leb_gt; exact H). reflexivity. Qed.

Lemma pow10_shift k x : (0 <= k)%Z -> inject_Z (10 ^ k) * pow10 (x - k) == pow10 x.
Proof.
  intros Hk. pose proof (pow10_pos k Hk) as Pk.
  destruct (Z_lt_le_dec x 0) as [Hx|Hx].
  - rewrite (pow10_neg_eq x Hx), (pow10_neg_eq (x - k)) by lia. unfold Qeq, Qmult, inject_Z. cbn [Qnum Qden].
    pose proof (pow10_pos (- x) ltac:(lia)) as P1. pose proof (pow10_pos (- (x - k)) ltac:(lia)) as P2.
    rewrite ?Pos.mul_1_l. rewrite !Z2Pos.id by lia. replace (- (x - k))%Z with (k + - x)%Z by lia. rewrite Z.pow_add_r by lia. ring.
  - rewrite (pow10_nonneg_eq x Hx). destruct (Z_lt_le_dec (x - k) 0) as [Hxk|Hxk].
    + rewrite (pow10_neg_eq (x - k) Hxk). unfold Qeq, Qmult, inject_Z. cbn [Qnum Qden].
      pose proof (pow10_pos (- (x - k)) ltac:(lia)) as P2. rewrite ?Pos.mul_1_l. rewrite !Z2Pos.id by lia.
      replace k with (x + - (x - k))%Z at 1 by lia. rewrite Z.pow_add_r by lia. ring.
    + rewrite (pow10_nonneg_eq (x - k) Hxk). unfold Qeq, Qmult, inject_Z. cbn [Qnum Qden].
      replace x with (k + (x - k))%Z at 2 by lia. rewrite Z.pow_add_r by lia. rewrite ?Pos.mul_1_l. ring.
Qed.

Lemma numq_of_numval s q b : numval s = Some (q, b) -> numq s = q.
Proof. unfold numq. intros ->. reflexivity. Qed.

(* ------------------------------------------------------------------ the text printed for (n, e) *)
Local Open Scope Z_scope.
Lemma dval_lead_zeros : forall k D, dval (zeros k ++ D) 0 = dval D 0.
Proof. intros k D. rewrite dval_app, dval_zeros. simpl. reflexivity. Qed.

Theorem fmt_sci_value n e : 10 ^ 6 <= n < 10 ^ 7 -> -1000 < e < 1000 ->
  is_num (fmt_sci n e) = true /\ (numq (fmt_sci n e) == inject_Z n * pow10 (e - 6))%Q.
Proof.
  intros Hn He. unfold fmt_sci.
  destruct (digs7_spec n ltac:(lia)) as (A7 & V7 & L7).
  assert (Hne7 : digs7 n <> "") by (intros E; rewrite E in L7; discriminate).
  destruct (strip_keep1_spec (digs7 n) Hne7) as (k & Ek & HDne).
  set (D := strip_keep1 (digs7 n)) in *.
  assert (AD : all_dig D = true) by (rewrite Ek, all_dig_app in A7; apply andb_true_iff in A7; apply A7).
  assert (LD : (String.length D + k = 7)%nat) by (rewrite Ek, length_append, length_zeros in L7; exact L7).
  assert (VD : dval D 0 * 10 ^ Z.of_nat k = n) by (rewrite Ek, dval_app, dval_zeros in V7; exact V7).
  assert (LDpos : (0 < String.length D)%nat) by (destruct D; [congruence | simpl; lia]).
  set (L := Z.of_nat (String.length D)) in *.
  assert (HL : 1 <= L <= 7) by (unfold L; lia).
  (* the common value: dval D * 10^(e + 1 - L) *)
  assert (Target : (inject_Z (dval D 0) * pow10 (e + 1 - L) == inject_Z n * pow10 (e - 6))%Q).
  { rewrite <- VD. rewrite inject_Z_mult. rewrite <- Qmult_assoc. apply Qmult_comp; [reflexivity|].
    replace (e - 6) with ((e + 1 - L) - Z.of_nat k) by (unfold L; lia). symmetry. symmetry. rewrite pow10_shift by lia. reflexivity. }
  assert (Fin : forall s M X b, numval s = Some (Qred (inject_Z M * pow10 X), b) -> M = dval D 0 -> X = e + 1 - L ->
                is_num s = true /\ (numq s == inject_Z n * pow10 (e - 6))%Q).
  { intros s M X b Hv -> ->. split; [unfold is_num; rewrite Hv; reflexivity|]. rewrite (numq_of_numval _ _ _ Hv). rewrite Qred_correct. exact Target. }
  destruct ((-4 <=? e) && (e <? 7)) eqn:Efix.
  - apply andb_true_iff in Efix. destruct Efix as [E4 E7]. apply Z.leb_le in E4. apply Z.ltb_lt in E7.
    destruct (L - 1 <=? e) eqn:Ea.
    + (* integer: digits followed by zeros *)
      apply Z.leb_le in Ea. set (z := Z.to_nat (e - (L - 1))).
      pose proof (numval_shape (D ++ zeros z) "" false None) as Hs. cbn [exp_text exp_val has_exp append String.length] in Hs.
      rewrite !append_nil_r' in Hs.
      assert (Hv := Hs ltac:(rewrite all_dig_app, AD, all_dig_zeros; reflexivity) ltac:(destruct D; [congruence | discriminate]) eq_refl ltac:(reflexivity) I).
      assert (Hm : (inject_Z (dval (D ++ zeros z) 0) * pow10 (0 - Z.of_nat 0) == inject_Z (dval D 0) * pow10 (e + 1 - L))%Q).
      { rewrite dval_app, dval_zeros. unfold z. rewrite Z2Nat.id by lia. rewrite inject_Z_mult. change (0 - Z.of_nat 0) with 0. rewrite (pow10_nonneg_eq 0) by lia.
        rewrite (pow10_nonneg_eq (e + 1 - L)) by lia. replace (e - (L - 1)) with (e + 1 - L) by lia. change (inject_Z (10 ^ 0)) with 1%Q. ring. }
      split; [unfold is_num; rewrite Hv; reflexivity|]. rewrite (numq_of_numval _ _ _ Hv). rewrite Qred_correct, Hm. exact Target.
    + apply Z.leb_gt in Ea. destruct (0 <=? e) eqn:E0.
      * (* digits with a point inside *)
        apply Z.leb_le in E0. set (m := Z.to_nat (e + 1)).
        assert (Hm : (m <= String.length D)%nat) by (unfold m, L in *; lia).
        destruct (all_dig_take_drop m D AD) as [AT ADr].
        pose proof (numval_shape (take m D) (drop m D) true None) as Hs. cbn [exp_text exp_val has_exp] in Hs. rewrite append_nil_r' in Hs.
        assert (Hv := Hs AT ltac:(apply take_nonempty; [unfold m; lia | exact HDne]) ADr ltac:(discriminate) I).
        rewrite take_drop in Hv. eapply Fin; [exact Hv | reflexivity|]. rewrite length_drop by exact Hm. unfold m, L. lia.
      * (* 0.000ddd *)
        apply Z.leb_gt in E0. set (m := Z.to_nat (- e - 1)).
        pose proof (numval_shape "0" (zeros m ++ D) true None) as Hs. cbn [exp_text exp_val has_exp] in Hs. rewrite append_nil_r' in Hs.
        assert (Hv := Hs eq_refl ltac:(discriminate) ltac:(rewrite all_dig_app, all_dig_zeros, AD; reflexivity) ltac:(discriminate) I).
        eapply Fin; [exact Hv | |].
        -- cbn [append dval]. change (0 * 10 + digit_val "0") with 0. apply dval_lead_zeros.
        -- rewrite length_append, length_zeros. unfold m, L. lia.
  - (* exponent notation *)
    set (ex := Some ((e <? 0), exp_digits (Z.abs e))).
    destruct (exp_digits_spec (Z.abs e) ltac:(lia)) as (AE & VE & NE).
    assert (Hexv : exp_val ex = e).
    { unfold ex, exp_val. rewrite VE. destruct (e <? 0) eqn:En; [apply Z.ltb_lt in En | apply Z.ltb_ge in En]; lia. }
    assert (Hext : exp_text ex = "e" ++ exp_str e) by reflexivity.
    destruct (all_dig_take_drop 1 D AD) as [AT ADr].
    assert (H1 : (1 <= String.length D)%nat) by lia.
    destruct (1 <? L) eqn:E1.
    + apply Z.ltb_lt in E1. pose proof (numval_shape (take 1 D) (drop 1 D) true ex) as Hs.
      assert (Hv := Hs AT ltac:(apply take_nonempty; [lia | exact HDne]) ADr ltac:(discriminate) (conj AE NE)).
      rewrite Hext in Hv. rewrite take_drop, Hexv in Hv. rewrite !append_assoc' in Hv.
      eapply Fin; [rewrite !append_assoc'; exact Hv | reflexivity|]. rewrite length_drop by exact H1. unfold L. lia.
    + apply Z.ltb_ge in E1. assert (HL1 : String.length D = 1%nat) by (unfold L in *; lia).
      assert (Hd1 : drop 1 D = "") by (destruct D as [|c [|c2 r]]; simpl in HL1; try lia; reflexivity).
      pose proof (numval_shape (take 1 D) "" false ex) as Hs.
      assert (Hv := Hs AT ltac:(apply take_nonempty; [lia | exact HDne]) eq_refl ltac:(reflexivity) (conj AE NE)).
      rewrite Hext in Hv. rewrite append_nil_r' in Hv. rewrite Hexv in Hv. cbn [append] in Hv |- *.
      assert (HT : take 1 D = D) by (rewrite <- (take_drop 1 D) at 2; rewrite Hd1, append_nil_r'; reflexivity).
      rewrite HT in Hv. eapply Fin; [rewrite HT; exact Hv | reflexivity|]. cbn [String.length]. unfold L. lia.
Qed.

(* ------------------------------------------------------------------ what is shown is the value to seven significant digits *)
(* for a positive rational a/b: unless the exponent search ran out of fuel (text "?"), the text is a numeric literal whose
   value is n * 10^(e-6) for the seven-digit n and exponent e that sci7_spec describes *)
Theorem fmt_pos_seven_digits a b : 0 < a -> 0 < b -> fmt_pos a b <> "?" ->
  exists n e, sci7 a b = Some (n, e) /\ 10 ^ 6 <= n < 10 ^ 7 /\
              (-1000 < e < 1000 -> is_num (fmt_pos a b) = true /\ (numq (fmt_pos a b) == inject_Z n * pow10 (e - 6))%Q).
Proof.
  intros Ha Hb Hq. unfold fmt_pos in *. destruct (sci7 a b) as [[n e]|] eqn:Es; [|congruence].
  destruct (sci7_spec a b n e Ha Hb Es) as [Hn _]. exists n, e. split; [reflexivity|]. split; [exact Hn|].
  intros He. apply fmt_sci_value; assumption.
Qed.
