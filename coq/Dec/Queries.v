(* Queries.v — the declaration queries of DecFileParser (src/decaylanguage/dec/dec.py:1451-1891)
   as folds over the statement list.  No proofs here. *)
From Coq Require Import String Ascii List Bool ZArith QArith Arith.
From DL Require Import Lib.Val Lib.PyDict Lib.Sort Dec.Num Dec.Syntax Dec.Post.
Import ListNotations.
Close Scope Q_scope.
Open Scope string_scope.

(* ------------------------------------------------------------------ Particle *)
Record ppars := { pp_mass : Q; pp_width : Q }.

(* ref_width: Particle.from_evtgen_name(name).width (MeV), None when that raises / is None; gev: hepunits.GeV *)
Definition particle_entry (ref_width : string -> option Q) (gev : Q) (aliases : pdict string)
                          (n mass : string) (width : option string) : option (string * ppars) :=
  match width with
  | Some w => Some (n, {| pp_mass := numq mass; pp_width := numq w |})
  | None =>
      let pname := match pd_get n aliases with Some a => a | None => n end in
      match ref_width pname with
      | Some w => Some (n, {| pp_mass := numq mass; pp_width := (w / gev)%Q |})
      | None => None
      end
  end.

Fixpoint particle_entries ref_width gev aliases (f : list stmt) : option (list (string * ppars)) :=
  match f with
  | [] => Some []
  | SParticle n mass width :: r =>
      match particle_entry ref_width gev aliases n mass width, particle_entries ref_width gev aliases r with
      | Some e, Some es => Some (e :: es)
      | _, _ => None
      end
  | _ :: r => particle_entries ref_width gev aliases r
  end.

Definition q_particles ref_width gev (f : list stmt) : option (pdict ppars) :=
  option_map pd_of_list (particle_entries ref_width gev (aliases_of f) f).

(* ------------------------------------------------------------------ Pythia / JetSet *)
Inductive cval := CNum (q : Q) | CInt (z : Z) | CStr (s : string).

Definition str_or_float (s : string) : cval := if is_num s then CNum (numq s) else CStr s.

Definition pythia_entries (f : list stmt) : list (string * (string * cval)) :=
  flat_map (fun s => match s with
                     | SPythia kind modl par v => [(kind, (modl ++ ":" ++ par, str_or_float v))]
                     | _ => []
                     end) f.

Definition inner_get {V} (k : string) (d : pdict (pdict V)) : pdict V :=
  match pd_get k d with Some i => i | None => [] end.

Definition q_pythia (f : list stmt) : pdict (pdict cval) :=
  fold_left (fun d e => pd_set (fst e) (pd_set (fst (snd e)) (snd (snd e)) (inner_get (fst e) d)) d) (pythia_entries f) [].

(* "^[a-zA-Z]+?\((\d+)\)" on the JetSet label: letters, '(', digits, ')' *)
Definition is_letter (c : ascii) : bool :=
  let n := nat_of_ascii c in (Nat.leb 65 n && Nat.leb n 90) || (Nat.leb 97 n && Nat.leb n 122).

Fixpoint take_letters (s : string) (acc : list ascii) : list ascii * string :=
  match s with
  | String c r => if is_letter c then take_letters r (c :: acc) else (acc, s)
  | EmptyString => (acc, s)
  end.

Definition str_of_rev_ (acc : list ascii) : string := fold_left (fun s c => String c s) acc EmptyString.

Definition jetset_label (lbl : string) : option (string * Z) :=
  let '(letters, rest) := take_letters lbl [] in
  match letters, rest with
  | _ :: _, String c r =>
      if is_c c "(" then
        let '(v, n, r2) := digits r 0%Z 0 in
        match n, r2 with
        | S _, String c2 _ => if is_c c2 ")" then Some (str_of_rev_ letters, v) else None
        | _, _ => None
        end
      else None
  | _, _ => None
  end.

Definition int_or_float (lit : string) : cval :=
  match numval lit with
  | Some (q, true) => CInt (Qnum q)
  | Some (q, false) => CNum q
  | None => CStr lit
  end.

Fixpoint zset {V} (k : Z) (v : V) (d : list (Z * V)) : list (Z * V) :=
  match d with
  | [] => [(k, v)]
  | (k', v') :: r => if Z.eqb k k' then (k, v) :: r else (k', v') :: zset k v r
  end.

Fixpoint jetset_entries (f : list stmt) : option (list (string * (Z * cval))) :=
  match f with
  | [] => Some []
  | SJetSet lbl lit :: r =>
      match jetset_label lbl, jetset_entries r with
      | Some (m, i), Some es => Some ((m, (i, int_or_float lit)) :: es)
      | _, _ => None
      end
  | _ :: r => jetset_entries r
  end.

Definition jetset_step (d : pdict (list (Z * cval))) (e : string * (Z * cval)) : pdict (list (Z * cval)) :=
  pd_set (fst e) (zset (fst (snd e)) (snd (snd e)) (match pd_get (fst e) d with Some i => i | None => [] end)) d.

Definition q_jetset (f : list stmt) : option (pdict (list (Z * cval))) :=
  match jetset_entries f with
  | Some es => Some (fold_left jetset_step es [])
  | None => None
  end.

(* ------------------------------------------------------------------ lineshape settings *)
Inductive lsval := LStr (s : string) | LNum (q : Q) | LBool (b : bool).

(* the four passes of get_lineshape_settings, each over the statements of one kind in file order;
   an entry is (particle, setting name, value); yes/no other than "yes"/"no" cannot be parsed *)
Definition ls_entries (f : list stmt) : list (string * (string * lsval)) :=
  flat_map (fun s => match s with SLS kind p => [(p, ("lineshape", LStr kind))] | _ => [] end) f ++
  flat_map (fun s => match s with SBW p lit => [(p, ("BlattWeisskopf", LNum (numq lit)))] | _ => [] end) f ++
  flat_map (fun s => match s with SChangeMass kind p lit => [(p, (kind, LNum (numq lit)))] | _ => [] end) f ++
  flat_map (fun s => match s with SIncFactor kind p yn => [(p, (kind, LBool (String.eqb yn "yes")))] | _ => [] end) f.

(* insert, raising when the particle already has that setting *)
Definition ls_step (acc : option (pdict (pdict lsval))) (e : string * (string * lsval)) : option (pdict (pdict lsval)) :=
  match acc with
  | None => None
  | Some d =>
      let inner := inner_get (fst e) d in
      if pd_mem (fst (snd e)) inner then None
      else Some (pd_set (fst e) (pd_set (fst (snd e)) (snd (snd e)) inner) d)
  end.

Definition q_lineshape (f : list stmt) : option (pdict (pdict lsval)) :=
  fold_left ls_step (ls_entries f) (Some []).

(* ------------------------------------------------------------------ SetLineshapePW, global PHOTOS flag *)
Definition q_lspw (f : list stmt) : list (list string * Z) :=
  flat_map (fun s => match s with
                     | SLSPW m d1 d2 lit => [([m; d1; d2], Qnum (numq lit))]
                     | _ => []
                     end) f.

Definition photos_flags (f : list stmt) : list bool :=
  flat_map (fun s => match s with SPhotos b => [b] | _ => [] end) f.
Definition q_photos (f : list stmt) : bool := last (photos_flags f) false.

(* ------------------------------------------------------------------ observation *)
Definition vcval (c : cval) : val :=
  match c with CNum q => vq q | CInt z => VInt z | CStr s => VStr s end.
Definition vlsval (c : lsval) : val :=
  match c with LStr s => VStr s | LNum q => vq q | LBool b => VBool b end.
Definition vdict {V} (f : V -> val) (d : pdict V) : val := VList (map (fun kv => VList [VStr (fst kv); f (snd kv)]) d).

Definition vqueries (ref_width : string -> option Q) (gev : Q) (f : list stmt) : val :=
  VList [vdict VStr (aliases_of f); vdict VStr (ccdefs_of f); vdict vq (defs_of f); vdict VStr (copies_of f);
         vstrs (cdecays_of f);
         match q_particles ref_width gev f with
         | Some d => vdict (fun p => VList [vq (pp_mass p); vq (pp_width p)]) d
         | None => VErr "RuntimeError"
         end;
         vdict (vdict vcval) (q_pythia f);
         match q_jetset f with
         | Some d => vdict (fun l => VList (map (fun kv => VList [VInt (fst kv); vcval (snd kv)]) l)) d
         | None => VErr "RuntimeError"
         end;
         match q_lineshape f with Some d => vdict (vdict vlsval) d | None => VErr "RuntimeError" end;
         VList (map (fun e => VList [vstrs (fst e); VInt (snd e)]) (q_lspw f));
         VBool (q_photos f)].
